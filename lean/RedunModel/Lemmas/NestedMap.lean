/-
Lemmas about `map_nested_value` with raising primitives (`RedunModel.Model.NestedMap`).
-/
import RedunModel.Model.NestedMap
import RedunModel.Lemmas.Nested
namespace RedunModel.NestedMap
open RedunModel.Nested RedunModel.Nested.NV
variable {α β γ ε : Type}

theorem mapWithEach_eq (p : Prims) (f : α → β) (xs : List (NV α)) :
    mapWithEach p f xs = xs.map (mapWith p f) := by
  induction xs with
  | nil => rfl
  | cons x xs ih => simp [mapWithEach, ih]

theorem OldOks_iff (xs : List (NV α)) : OldOks xs ↔ ∀ x ∈ xs, OldOk x := by
  induction xs with
  | nil => simp [OldOks]
  | cons x xs ih => simp [OldOks, ih]

theorem seqAll_map_ok {δ : Type} (g : δ → γ) (xs : List δ) :
    seqAll (xs.map (fun x => Except.ok (ε := ε) (g x))) = .ok (xs.map g) := by
  induction xs with
  | nil => rfl
  | cons y ys ih => simp [seqAll, ih]

@[simp] theorem andThen_ok_ok (y : γ) : andThen (ε := ε) (.ok ()) (.ok y) = .ok y := rfl

/-- all children succeed with the structural result -/
theorem each_ok {p : Prims} {f : α → β} {xs : List (NV α)}
    (h : ∀ x ∈ xs, mapWith p f x = .ok (mapNV f x)) :
    xs.map (mapWith p f) = xs.map (fun x => Except.ok (mapNV f x)) := List.map_congr_left h

/-- The repaired `map_nested_value` never raises and returns the structural map. -/
theorem mapWith_new (f : α → β) (v : NV α) : mapWith primsNew f v = .ok (mapNV f v) := by
  induction v using NV.ind with
  | leaf a => rfl
  | list xs ih => simp [mapWith, mapNV, mapWithEach_eq, mapNVs_eq, each_ok ih, seqAll_map_ok, Except.map]
  | tuple xs ih => simp [mapWith, mapNV, mapWithEach_eq, mapNVs_eq, each_ok ih, seqAll_map_ok, Except.map]
  | ntuple c xs ih => simp [mapWith, mapNV, mapWithEach_eq, mapNVs_eq, each_ok ih, seqAll_map_ok, Except.map]
  | set xs ih => simp [mapWith, mapNV, mapWithEach_eq, mapNVs_eq, each_ok ih, seqAll_map_ok, Except.map]
  | dict ks vs ihk ihv =>
    simp [mapWith, mapNV, mapWithEach_eq, mapNVs_eq, each_ok ihk, each_ok ihv, seqAll_map_ok, ← map_interleave]
  | dcls c xs ih =>
    have h := each_ok ih
    simp only [mapWith, mapNV, mapWithEach_eq, mapNVs_eq, h]
    simp only [← map_pick, List.map_map, Function.comp_def, primsNew, pyObjectSetattr, andThen_ok_ok, seqAll_map_ok]
    cases hd : c.hasDict <;> simp [pyGetDict, hd, Except.map]

/-- Before the repair: on `OldOk` values the old code agrees with the structural map. -/
theorem mapWith_old_ok (f : α → β) (v : NV α) (hv : OldOk v) : mapWith primsOld f v = .ok (mapNV f v) := by
  induction v using NV.ind with
  | leaf a => rfl
  | list xs ih =>
    have h := each_ok (fun x hx => ih x hx ((OldOks_iff xs).1 hv x hx))
    simp [mapWith, mapNV, mapWithEach_eq, mapNVs_eq, h, seqAll_map_ok, Except.map]
  | tuple xs ih =>
    have h := each_ok (fun x hx => ih x hx ((OldOks_iff xs).1 hv x hx))
    simp [mapWith, mapNV, mapWithEach_eq, mapNVs_eq, h, seqAll_map_ok, Except.map]
  | ntuple c xs ih =>
    have h := each_ok (fun x hx => ih x hx ((OldOks_iff xs).1 hv x hx))
    simp [mapWith, mapNV, mapWithEach_eq, mapNVs_eq, h, seqAll_map_ok, Except.map]
  | set xs ih =>
    have h := each_ok (fun x hx => ih x hx ((OldOks_iff xs).1 hv x hx))
    simp [mapWith, mapNV, mapWithEach_eq, mapNVs_eq, h, seqAll_map_ok, Except.map]
  | dict ks vs ihk ihv =>
    have hk := each_ok (fun x hx => ihk x hx ((OldOks_iff ks).1 hv.1 x hx))
    have hw := each_ok (fun x hx => ihv x hx ((OldOks_iff vs).1 hv.2 x hx))
    simp [mapWith, mapNV, mapWithEach_eq, mapNVs_eq, hk, hw, seqAll_map_ok, ← map_interleave]
  | dcls c xs ih =>
    obtain ⟨hd, hfz, hxs⟩ := hv
    have h := each_ok (fun x hx => ih x hx ((OldOks_iff xs).1 hxs x hx))
    simp only [mapWith, mapNV, mapWithEach_eq, mapNVs_eq, h]
    simp only [← map_pick, List.map_map, Function.comp_def, primsOld, seqAll_map_ok, pyGetDict, hd]
    cases hf : c.frozen
    · simp [pySetattr, hf, seqAll_map_ok, Except.map]
    · simp [hfz hf, seqAll, Except.map]

theorem seqAll_error {rs : List (Except ε γ)} {e : ε} (h : Except.error e ∈ rs) :
    ∃ e', seqAll rs = .error e' := by
  induction rs with
  | nil => cases h
  | cons r rs ih =>
    cases r with
    | error e0 => exact ⟨e0, rfl⟩
    | ok y =>
      have : Except.error e ∈ rs := by simpa using h
      obtain ⟨e', he'⟩ := ih this
      exact ⟨e', by simp [seqAll, he']⟩

theorem mem_interleave {δ : Type} {a : δ} {as bs : List δ} : a ∈ interleave as bs ↔ a ∈ as ∨ a ∈ bs := by
  rw [(interleave_perm as bs).mem_iff]; simp

theorem exists_bad {xs : List (NV α)} (h : ¬ OldOks xs) : ∃ x ∈ xs, ¬ OldOk x := by
  rw [OldOks_iff] at h
  exact Classical.byContradiction fun hn => h fun x hx => Classical.byContradiction fun hb => hn ⟨x, hx, hb⟩

theorem each_err {f : α → β} {xs : List (NV α)}
    (ih : ∀ x ∈ xs, ¬ OldOk x → ∃ e, mapWith primsOld f x = .error e) (h : ¬ OldOks xs) :
    ∃ e, Except.error e ∈ xs.map (mapWith primsOld f) := by
  obtain ⟨x, hx, hb⟩ := exists_bad h
  obtain ⟨e, he⟩ := ih x hx hb
  exact ⟨e, by rw [← he]; exact List.mem_map_of_mem hx⟩

theorem map_error {δ : Type} {r : Except ε γ} (g : γ → δ) (h : ∃ e, r = .error e) : ∃ e, r.map g = .error e := by
  obtain ⟨e, rfl⟩ := h; exact ⟨e, rfl⟩

/-- Before the repair: outside `OldOk` the old code raises. -/
theorem mapWith_old_err (f : α → β) (v : NV α) (hv : ¬ OldOk v) : ∃ e, mapWith primsOld f v = .error e := by
  induction v using NV.ind with
  | leaf a => exact absurd trivial hv
  | list xs ih =>
    obtain ⟨e, he⟩ := each_err ih hv
    simpa only [mapWith, mapWithEach_eq] using map_error _ (seqAll_error he)
  | tuple xs ih =>
    obtain ⟨e, he⟩ := each_err ih hv
    simpa only [mapWith, mapWithEach_eq] using map_error _ (seqAll_error he)
  | ntuple c xs ih =>
    obtain ⟨e, he⟩ := each_err ih hv
    simpa only [mapWith, mapWithEach_eq] using map_error _ (seqAll_error he)
  | set xs ih =>
    obtain ⟨e, he⟩ := each_err ih hv
    simpa only [mapWith, mapWithEach_eq] using map_error _ (seqAll_error he)
  | dict ks vs ihk ihv =>
    have : ∃ e, Except.error e ∈ interleave (ks.map (mapWith primsOld f)) (vs.map (mapWith primsOld f)) := by
      by_cases hk : OldOks ks
      · have hvs : ¬ OldOks vs := fun h => hv ⟨hk, h⟩
        obtain ⟨e, he⟩ := each_err ihv hvs
        exact ⟨e, mem_interleave.2 (Or.inr he)⟩
      · obtain ⟨e, he⟩ := each_err ihk hk
        exact ⟨e, mem_interleave.2 (Or.inl he)⟩
    obtain ⟨e, he⟩ := this
    obtain ⟨e', he'⟩ := seqAll_error he
    exact ⟨e', by simp only [mapWith, mapWithEach_eq, he']⟩
  | dcls c xs ih =>
    simp only [mapWith, mapWithEach_eq]
    split
    · exact ⟨_, rfl⟩
    · split
      · exact ⟨_, rfl⟩
      · split
        · exact ⟨_, rfl⟩
        · rename_i _ _ _ h2 _ h3
          by_cases hxs : OldOks xs
          · -- all children fine, `__dict__` present: it must be the frozen assignment — but that step succeeded
            exfalso
            have hd : c.hasDict = true := by
              cases hd : c.hasDict
              · simp [primsOld, pyGetDict, hd] at h3
              · rfl
            have hfz : c.frozen = true ∧ pick false c.initFlags xs ≠ [] := by
              refine Classical.byContradiction fun hn => hv ⟨hd, fun hf => Classical.byContradiction fun hp => hn ⟨hf, hp⟩, hxs⟩
            obtain ⟨hf, hp⟩ := hfz
            rw [← map_pick] at h2
            cases hpk : pick false c.initFlags xs with
            | nil => exact hp hpk
            | cons y ys =>
              rw [hpk] at h2
              have hset : primsOld.setNonInit c = .error .frozenInstanceError := by
                simp [primsOld, pySetattr, hf]
              cases hy : mapWith primsOld f y <;>
                simp [seqAll, andThen, hset, hy] at h2
          · obtain ⟨e, he⟩ := each_err ih hxs
            exact map_error _ (seqAll_error he)

end RedunModel.NestedMap
