/-
Invariants of the scheduler bookkeeping model `SchedCore` (used by C05 C06 C08 C09 C28).
Main result: `reachable_inv` — every state reachable under any program and any schedule satisfies `Inv`.
-/
import RedunModel.Model.SchedCore
namespace RedunModel.SchedCore

/-! ## part 1 -/

/-! ## sums -/
def sumTo (f : Nat → Int) : Nat → Int
  | 0 => 0
  | n + 1 => sumTo f n + f n

theorem sumTo_congr {f g : Nat → Int} {n : Nat} (h : ∀ i, i < n → f i = g i) : sumTo f n = sumTo g n := by
  induction n with
  | zero => rfl
  | succ n ih =>
    simp only [sumTo]
    rw [ih (fun i hi => h i (by omega)), h n (by omega)]

/-- changing the summand at one index `j < n` -/
theorem sumTo_update {f g : Nat → Int} {n j : Nat} (hj : j < n) (h : ∀ i, i ≠ j → f i = g i) :
    sumTo g n = sumTo f n + (g j - f j) := by
  induction n with
  | zero => omega
  | succ n ih =>
    simp only [sumTo]
    by_cases hjn : j = n
    · subst hjn
      rw [sumTo_congr (f := g) (g := f) (fun i hi => (h i (by omega)).symm)]
      omega
    · rw [ih (by omega), h n (fun e => hjn e.symm)]
      omega

theorem sumTo_nonneg {f : Nat → Int} {n : Nat} (h : ∀ i, 0 ≤ f i) : 0 ≤ sumTo f n := by
  induction n with
  | zero => simp [sumTo]
  | succ n ih => simp only [sumTo]; have := h n; omega

theorem sumTo_pos_exists {f : Nat → Int} {n : Nat} (h0 : ∀ i, 0 ≤ f i) (h : 0 < sumTo f n) : ∃ i, i < n ∧ 0 < f i := by
  induction n with
  | zero => simp [sumTo] at h
  | succ n ih =>
    simp only [sumTo] at h
    by_cases hn : 0 < f n
    · exact ⟨n, by omega, hn⟩
    · have : 0 < sumTo f n := by have := h0 n; omega
      obtain ⟨i, hi, hp⟩ := ih this
      exact ⟨i, by omega, hp⟩

theorem sumTo_le {f g : Nat → Int} {n : Nat} (h : ∀ i, f i ≤ g i) : sumTo f n ≤ sumTo g n := by
  induction n with
  | zero => simp [sumTo]
  | succ n ih => simp only [sumTo]; have := h n; omega

/-! ## the accounting view -/
def demOf (p : Prog) (s : S) (j : JobId) (r : Res) : Int := (dem (spec p s j).limits r : Int)

def held (p : Prog) (s : S) (r : Res) : Int :=
  sumTo (fun j => if s.holds j then demOf p s j r else 0) s.next

/-- units held by the jobs an executor is working on (submitted, not yet reported) -/
def heldInflight (p : Prog) (s : S) (r : Res) : Int :=
  sumTo (fun j => if s.inflight j then demOf p s j r else 0) s.next

def occA (s : S) (j : JobId) : Nat :=
  s.queue.count (Ev.exec j) + s.pendingLimits.count j + (if s.holds j then 1 else 0)

def Feasible (p : Prog) : Prop := ∀ i r, dem (p.specAt i).limits r ≤ p.limit r

/-- a completion event of job `j` is queued -/
def C (s : S) (j : JobId) : Prop := (∃ f, Ev.done j f ∈ s.queue) ∨ Ev.reject j ∈ s.queue
/-- a post-exec event of job `j` is queued -/
def Q (s : S) (j : JobId) : Prop := C s j ∨ Ev.resolve j ∈ s.queue
def EW (s : S) (j : JobId) : Nat := s.queue.count (Ev.exec j) + s.pendingLimits.count j

theorem occA_eq (s : S) (j : JobId) : occA s j = EW s j + (if s.holds j then 1 else 0) := rfl

/-- The bookkeeping invariant.  `x` exempts one job from `holds_wit` (the job whose completion event
has just been taken off the queue and whose limits are about to be released). -/
structure Core (p : Prog) (s : S) (x : Option JobId) : Prop where
  used_eq : ∀ r, s.used r = held p s r
  occ_le : ∀ j, occA s j ≤ 1
  fresh : ∀ j, s.next ≤ j → occA s j = 0 ∧ s.inflight j = false ∧ ¬ Q s j
  infl_holds : ∀ j, s.inflight j = true → s.holds j = true
  comp_notinfl : ∀ j, C s j → s.inflight j = false
  holds_wit : ∀ j, some j ≠ x → s.holds j = true → s.inflight j = true ∨ C s j
  q_quiet : ∀ j, Q s j → EW s j = 0
  twins_quiet : ∀ X t, t ∈ (s.jobs X).twins → occA s t = 0 ∧ s.inflight t = false ∧ t < s.next
  parent_quiet : ∀ c par, (s.jobs c).parent = some par → occA s par = 0 ∧ s.inflight par = false ∧ par < s.next
  cached_quiet : ∀ j, (s.jobs j).wasCached = true → occA s j = 0
  le_limit : ∀ r, s.used r ≤ p.limit r
  dry : p.dryrun = true → s.pendingLimits = [] ∧ ∀ j, s.holds j = false

/-- a non-empty waiting list is justified by a job holding resources or by a queued (re-)execution -/
def PendWit (p : Prog) (s : S) : Prop :=
  Feasible p → s.pendingLimits ≠ [] → (∃ j, s.holds j = true) ∨ (∃ j, Ev.exec j ∈ s.queue)

structure Inv (p : Prog) (s : S) : Prop where
  core : Core p s none
  pend : PendWit p s

theorem core_init (p : Prog) : Core p init none := by
  refine ⟨?_, ?_, ?_, ?_, ?_, ?_, ?_, ?_, ?_, ?_, ?_, ?_⟩
  · intro r; simp [init, held, sumTo]
  · intro j; simp [occA, init, List.count_cons]; split <;> omega
  · intro j hj
    simp only [init] at hj
    have : j ≠ 0 := by omega
    refine ⟨?_, rfl, ?_⟩
    · simp [occA, init, List.count_cons]
      intro h; exact absurd h.symm this
    · simp [Q, C, init]
  · intro j h; simp [init] at h
  · intro j _; rfl
  · intro j _ h; simp [init] at h
  · intro j h; simp [Q, C, init] at h
  · intro X t h; simp [init] at h; split at h <;> simp at h
  · intro c par h; simp [init] at h; split at h <;> simp at h
  · intro j h; simp [init] at h; split at h <;> simp at h
  · intro r; simp [init]
  · intro _; simp [init]

theorem inv_init (p : Prog) : Inv p init := ⟨core_init p, by intro _ h; simp [init] at h⟩


/-! ## part 2 -/

/-- `s'` differs from `s` only in bookkeeping that the limits accounting does not look at, and in
extra queued events none of which is an `exec` and all of which concern "quiet" jobs. -/
structure Ext (s s' : S) : Prop where
  next : s'.next = s.next
  specOf : s'.specOf = s.specOf
  holds : s'.holds = s.holds
  used : s'.used = s.used
  pend : s'.pendingLimits = s.pendingLimits
  infl : s'.inflight = s.inflight
  twins : ∀ i, (s'.jobs i).twins = (s.jobs i).twins
  parent : ∀ i, (s'.jobs i).parent = (s.jobs i).parent
  cached : ∀ i, (s'.jobs i).wasCached = true → (s.jobs i).wasCached = true ∨ occA s i = 0
  queue : ∃ extra, s'.queue = s.queue ++ extra ∧ (∀ j, Ev.exec j ∉ extra) ∧
    (∀ j, ((∃ f, Ev.done j f ∈ extra) ∨ Ev.reject j ∈ extra ∨ Ev.resolve j ∈ extra) →
        EW s j = 0 ∧ s.inflight j = false ∧ j < s.next)

theorem Ext.refl (s : S) : Ext s s :=
  ⟨rfl, rfl, rfl, rfl, rfl, rfl, fun _ => rfl, fun _ => rfl, fun _ h => Or.inl h, [], by simp, by simp, by simp⟩

theorem count_append_noexec {q extra : List Ev} {j : JobId} (h : ∀ j, Ev.exec j ∉ extra) :
    (q ++ extra).count (Ev.exec j) = q.count (Ev.exec j) := by
  rw [List.count_append, List.count_eq_zero.mpr (h j)]; rfl

theorem ext_EW {s s' : S} (h : Ext s s') (j : JobId) : EW s' j = EW s j := by
  obtain ⟨e, q, n, _⟩ := h.queue
  unfold EW
  rw [q, count_append_noexec n, h.pend]

theorem ext_occA {s s' : S} (h : Ext s s') (j : JobId) : occA s' j = occA s j := by
  rw [occA_eq, occA_eq, (ext_EW h), h.holds]

theorem Ext.trans {a b c : S} (h1 : Ext a b) (h2 : Ext b c) : Ext a c := by
  obtain ⟨e1, q1, n1, m1⟩ := h1.queue
  obtain ⟨e2, q2, n2, m2⟩ := h2.queue
  refine ⟨h2.next.trans h1.next, h2.specOf.trans h1.specOf, h2.holds.trans h1.holds, h2.used.trans h1.used,
    h2.pend.trans h1.pend, h2.infl.trans h1.infl, fun i => (h2.twins i).trans (h1.twins i),
    fun i => (h2.parent i).trans (h1.parent i), ?_, e1 ++ e2, by rw [q2, q1, List.append_assoc], ?_, ?_⟩
  · intro i hi
    rcases h2.cached i hi with a | a
    · exact h1.cached i a
    · right; rw [← ext_occA h1]; exact a
  · intro j hj
    rcases List.mem_append.mp hj with h | h
    · exact n1 j h
    · exact n2 j h
  · intro j hj
    have split : ((∃ f, Ev.done j f ∈ e1) ∨ Ev.reject j ∈ e1 ∨ Ev.resolve j ∈ e1) ∨
        ((∃ f, Ev.done j f ∈ e2) ∨ Ev.reject j ∈ e2 ∨ Ev.resolve j ∈ e2) := by
      rcases hj with ⟨f, hf⟩ | hr | hv
      · rcases List.mem_append.mp hf with h | h
        · left; left; exact ⟨f, h⟩
        · right; left; exact ⟨f, h⟩
      · rcases List.mem_append.mp hr with h | h
        · left; right; left; exact h
        · right; right; left; exact h
      · rcases List.mem_append.mp hv with h | h
        · left; right; right; exact h
        · right; right; right; exact h
    rcases split with h | h
    · exact m1 j h
    · have := m2 j h
      rw [(ext_EW h1), h1.infl, h1.next] at this
      exact this

theorem ext_held {p : Prog} {s s' : S} (h : Ext s s') (r : Res) : held p s' r = held p s r := by
  unfold held demOf spec
  rw [h.next, h.holds, h.specOf]

theorem ext_C_of {s s' : S} (h : Ext s s') {j : JobId} (hc : C s j) : C s' j := by
  obtain ⟨e, q, _, _⟩ := h.queue
  rcases hc with ⟨f, a⟩ | a
  · left; exact ⟨f, by rw [q]; exact List.mem_append_left _ a⟩
  · right; rw [q]; exact List.mem_append_left _ a

/-- a completion event of `j` after an `Ext` step is either old or one of the quiet extras -/
theorem ext_C_inv {s s' : S} (h : Ext s s') {j : JobId} (hc : C s' j) :
    C s j ∨ (EW s j = 0 ∧ s.inflight j = false ∧ j < s.next) := by
  obtain ⟨e, q, _, m⟩ := h.queue
  rcases hc with ⟨f, a⟩ | a
  · rw [q] at a
    rcases List.mem_append.mp a with a | a
    · left; left; exact ⟨f, a⟩
    · right; exact m j (Or.inl ⟨f, a⟩)
  · rw [q] at a
    rcases List.mem_append.mp a with a | a
    · left; right; exact a
    · right; exact m j (Or.inr (Or.inl a))

theorem ext_Q_inv {s s' : S} (h : Ext s s') {j : JobId} (hc : Q s' j) :
    Q s j ∨ (EW s j = 0 ∧ s.inflight j = false ∧ j < s.next) := by
  rcases hc with hc | hv
  · rcases (ext_C_inv h) hc with a | a
    · left; left; exact a
    · right; exact a
  · obtain ⟨e, q, _, m⟩ := h.queue
    rw [q] at hv
    rcases List.mem_append.mp hv with a | a
    · left; right; exact a
    · right; exact m j (Or.inr (Or.inr a))

theorem ext_core {p : Prog} {s s' : S} {x : Option JobId} (h : Ext s s') (hi : Core p s x) : Core p s' x := by
  refine ⟨?_, ?_, ?_, ?_, ?_, ?_, ?_, ?_, ?_, ?_, ?_, ?_⟩
  · intro r; rw [h.used, (ext_held h), hi.used_eq]
  · intro j; rw [(ext_occA h)]; exact hi.occ_le j
  · intro j hj; rw [h.next] at hj; rw [(ext_occA h), h.infl]
    obtain ⟨a, b, c⟩ := hi.fresh j hj
    refine ⟨a, b, ?_⟩
    intro hq
    rcases (ext_Q_inv h) hq with q | ⟨_, _, lt⟩
    · exact c q
    · exact Nat.not_lt.mpr hj lt
  · intro j hj; rw [h.infl] at hj; rw [h.holds]; exact hi.infl_holds j hj
  · intro j hc; rw [h.infl]
    rcases (ext_C_inv h) hc with a | ⟨_, b, _⟩
    · exact hi.comp_notinfl j a
    · exact b
  · intro j hx hj; rw [h.holds] at hj
    rcases hi.holds_wit j hx hj with a | a
    · left; rw [h.infl]; exact a
    · right; exact (ext_C_of h) a
  · intro j hq; rw [(ext_EW h)]
    rcases (ext_Q_inv h) hq with a | ⟨a, _, _⟩
    · exact hi.q_quiet j a
    · exact a
  · intro X t ht; rw [h.twins] at ht; rw [(ext_occA h), h.infl, h.next]; exact hi.twins_quiet X t ht
  · intro c par hp; rw [h.parent] at hp; rw [(ext_occA h), h.infl, h.next]; exact hi.parent_quiet c par hp
  · intro j hj; rw [ext_occA h]
    rcases h.cached j hj with a | a
    · exact hi.cached_quiet j a
    · exact a
  · intro r; rw [h.used]; exact hi.le_limit r
  · intro hd; rw [h.pend, h.holds]; exact hi.dry hd

theorem ext_pendWit {p : Prog} {s s' : S} (h : Ext s s') (hp : PendWit p s) : PendWit p s' := by
  obtain ⟨e, q, _, _⟩ := h.queue
  intro hf hne; rw [h.pend] at hne
  rcases hp hf hne with ⟨j, a⟩ | ⟨j, a⟩
  · left; exact ⟨j, by rw [h.holds]; exact a⟩
  · right; exact ⟨j, by rw [q]; exact List.mem_append_left _ a⟩

/-! ### primitives that are `Ext` steps -/
theorem ext_of_jobs (s : S) (jobs : JobId → JobSt) (h1 : ∀ i, (jobs i).twins = (s.jobs i).twins)
    (h2 : ∀ i, (jobs i).parent = (s.jobs i).parent)
    (h3 : ∀ i, (jobs i).wasCached = true → (s.jobs i).wasCached = true ∨ occA s i = 0) :
    Ext s { s with jobs := jobs } :=
  ⟨rfl, rfl, rfl, rfl, rfl, rfl, h1, h2, h3, [], by simp, by simp, by simp⟩

theorem ext_setJob (s : S) (j : JobId) (f : JobSt → JobSt)
    (h : ∀ js, (f js).twins = js.twins ∧ (f js).parent = js.parent)
    (hc : (∀ js, (f js).wasCached = js.wasCached) ∨ occA s j = 0) : Ext s (setJob s j f) := by
  unfold setJob
  apply ext_of_jobs
  · intro i; split
    · exact (h _).1
    · rfl
  · intro i; split
    · exact (h _).2
    · rfl
  · intro i hi
    split at hi
    · rename_i e; subst e
      rcases hc with a | a
      · left; rw [← a]; exact hi
      · right; exact a
    · left; exact hi

/-- enqueue a post-exec event of a quiet job -/
theorem ext_enqueue (s : S) (e : Ev) (j : JobId)
    (he : (∃ f, e = Ev.done j f) ∨ e = Ev.reject j ∨ e = Ev.resolve j)
    (hq : EW s j = 0 ∧ s.inflight j = false ∧ j < s.next) : Ext s (enqueue s e) := by
  refine ⟨rfl, rfl, rfl, rfl, rfl, rfl, fun _ => rfl, fun _ => rfl, fun _ h => Or.inl h, [e], rfl, ?_, ?_⟩
  · intro i hi
    simp only [List.mem_singleton] at hi
    rcases he with ⟨f, rfl⟩ | rfl | rfl <;> simp at hi
  · intro i hi
    simp only [List.mem_singleton] at hi
    have : i = j := by
      rcases he with ⟨f, rfl⟩ | rfl | rfl
      · rcases hi with ⟨f', h⟩ | h | h <;> simp at h <;> first | exact h.1 | exact h
      · rcases hi with ⟨f', h⟩ | h | h <;> simp at h <;> exact h
      · rcases hi with ⟨f', h⟩ | h | h <;> simp at h <;> exact h
    subst this; exact hq

theorem ext_fields (s : S) (pj : List ((Nat × Nat) × JobId)) (cse : List CseEntry) (et : List Nat)
    (sub : List JobId) (fin : Bool) :
    Ext s { s with pendingJobs := pj, cse := cse, evalTable := et, submits := sub, finished := fin } :=
  ⟨rfl, rfl, rfl, rfl, rfl, rfl, fun _ => rfl, fun _ => rfl, fun _ h => Or.inl h, [], by simp, by simp, by simp⟩

theorem ext_record (p : Prog) (s : S) (j : JobId) (b : Bool) : Ext s (record p s j b) := by
  unfold record; dsimp only; split
  · exact ext_fields s s.pendingJobs _ s.evalTable s.submits s.finished
  · exact Ext.refl s

theorem ext_finalize (p : Prog) (s : S) (j : JobId) : Ext s (finalize p s j) := by
  unfold finalize; dsimp only; split
  · exact ext_fields s _ s.cse s.evalTable s.submits s.finished
  · exact Ext.refl s

theorem ext_finished (s : S) : Ext s { s with finished := true } :=
  ext_fields s s.pendingJobs s.cse s.evalTable s.submits true

/-! ## part 3 -/

theorem scan_count (p : Prog) (sp : JobId → SpecId) (used : Res → Int) (l : List JobId) (keys : List Res)
    (acc : Res → Nat) (j : JobId) :
    (scanPending p sp used l keys acc).1.count j + (scanPending p sp used l keys acc).2.count j = l.count j := by
  induction l generalizing keys acc with
  | nil => simp [scanPending]
  | cons a l ih =>
    simp only [scanPending]
    split
    · have := ih (keysOf (p.specAt (sp a)).limits ++ keys) (fun r => dem (p.specAt (sp a)).limits r + acc r)
      simp only [List.count_cons] at *
      omega
    · have := ih keys acc
      simp only [List.count_cons] at *
      omega

theorem count_map_exec (l : List JobId) (j : JobId) : (l.map Ev.exec).count (Ev.exec j) = l.count j := by
  induction l with
  | nil => rfl
  | cons a l ih =>
    simp only [List.map_cons, List.count_cons, ih]
    by_cases h : a = j <;> simp [h]

theorem checkPending_next (p : Prog) (s : S) : (checkPending p s).next = s.next := rfl
theorem checkPending_specOf (p : Prog) (s : S) : (checkPending p s).specOf = s.specOf := rfl
theorem checkPending_holds (p : Prog) (s : S) : (checkPending p s).holds = s.holds := rfl
theorem checkPending_used (p : Prog) (s : S) : (checkPending p s).used = s.used := rfl
theorem checkPending_inflight (p : Prog) (s : S) : (checkPending p s).inflight = s.inflight := rfl
theorem checkPending_queue (p : Prog) (s : S) :
    (checkPending p s).queue = s.queue ++ (scanPending p s.specOf s.used s.pendingLimits [] (fun _ => 0)).1.map Ev.exec := rfl
theorem checkPending_pend (p : Prog) (s : S) :
    (checkPending p s).pendingLimits = (scanPending p s.specOf s.used s.pendingLimits [] (fun _ => 0)).2 := rfl

theorem checkPending_occA (p : Prog) (s : S) (j : JobId) : occA (checkPending p s) j = occA s j := by
  unfold occA
  rw [checkPending_queue, checkPending_pend, checkPending_holds, List.count_append, count_map_exec]
  have := scan_count p s.specOf s.used s.pendingLimits [] (fun _ => 0) j
  omega

theorem checkPending_held (p : Prog) (s : S) (r : Res) : held p (checkPending p s) r = held p s r := rfl

/-- a job that does not fit although it is feasible means some resource is in use -/
theorem not_within_used_pos (p : Prog) (hf : Feasible p) (used : Res → Int) (i : SpecId)
    (h : within p used (keysOf (p.specAt i).limits) (dem (p.specAt i).limits) = false) :
    ∃ r, 0 < used r := by
  unfold within at h
  rw [List.all_eq_false] at h
  obtain ⟨r, _, hr⟩ := h
  have := hf i r
  simp only [decide_eq_true_eq, ge_iff_le] at hr
  exact ⟨r, by omega⟩

theorem within_congr (p : Prog) (used : Res → Int) (keys : List Res) (f g : Res → Nat) (h : ∀ r, f r = g r) :
    within p used keys f = within p used keys g := by
  have : f = g := funext h
  rw [this]

theorem holder_of_used_pos (p : Prog) (s : S) (hu : ∀ r, s.used r = held p s r) (r : Res) (h : 0 < s.used r) :
    ∃ j, s.holds j = true := by
  rw [hu r] at h
  unfold held at h
  obtain ⟨i, _, hp⟩ := sumTo_pos_exists (by intro i; split <;> simp [demOf]) h
  refine ⟨i, ?_⟩
  by_cases hh : s.holds i = true
  · exact hh
  · simp [hh] at hp

/-- After a check, a non-empty waiting list is justified by a holder or by a nominated job. -/
theorem checkPending_pend_wit (p : Prog) (hf : Feasible p) (s : S) (hu : ∀ r, s.used r = held p s r)
    (hne : (checkPending p s).pendingLimits ≠ []) :
    (∃ j, (checkPending p s).holds j = true) ∨ (∃ j, Ev.exec j ∈ (checkPending p s).queue) := by
  rw [checkPending_pend] at hne
  rw [checkPending_holds, checkPending_queue]
  cases hl : s.pendingLimits with
  | nil => rw [hl] at hne; simp [scanPending] at hne
  | cons k rest =>
    simp only [scanPending, List.append_nil, Nat.add_zero]
    by_cases hw : within p s.used (keysOf (p.specAt (s.specOf k)).limits) (dem (p.specAt (s.specOf k)).limits) = true
    · right
      refine ⟨k, ?_⟩
      have : within p s.used (keysOf (p.specAt (s.specOf k)).limits)
          (fun r => dem (p.specAt (s.specOf k)).limits r) = true := hw
      simp [this]
    · left
      obtain ⟨r, hr⟩ := not_within_used_pos p hf s.used (s.specOf k) (by simpa using hw)
      exact holder_of_used_pos p s hu r hr

theorem mem_append_exec_iff (q : List Ev) (l : List JobId) (e : Ev) (h : ∀ j, e ≠ Ev.exec j) :
    e ∈ q ++ l.map Ev.exec ↔ e ∈ q := by
  constructor
  · intro hm
    rcases List.mem_append.mp hm with a | a
    · exact a
    · obtain ⟨j, _, hj⟩ := List.mem_map.mp a
      exact absurd hj.symm (h j)
  · intro hm; exact List.mem_append_left _ hm

theorem checkPending_C (p : Prog) (s : S) (j : JobId) : C (checkPending p s) j ↔ C s j := by
  unfold C
  rw [checkPending_queue]
  constructor
  · rintro (⟨f, a⟩ | a)
    · left; exact ⟨f, (mem_append_exec_iff _ _ _ (by intro j; simp)).mp a⟩
    · right; exact (mem_append_exec_iff _ _ _ (by intro j; simp)).mp a
  · rintro (⟨f, a⟩ | a)
    · left; exact ⟨f, List.mem_append_left _ a⟩
    · right; exact List.mem_append_left _ a

theorem checkPending_Q (p : Prog) (s : S) (j : JobId) : Q (checkPending p s) j ↔ Q s j := by
  unfold Q
  rw [checkPending_C, checkPending_queue, mem_append_exec_iff _ _ _ (by intro j; simp)]

theorem checkPending_EW (p : Prog) (s : S) (j : JobId) : EW (checkPending p s) j = EW s j := by
  unfold EW
  rw [checkPending_queue, checkPending_pend, List.count_append, count_map_exec]
  have := scan_count p s.specOf s.used s.pendingLimits [] (fun _ => 0) j
  omega

theorem checkPending_jobs (p : Prog) (s : S) : (checkPending p s).jobs = s.jobs := rfl

/-- `checkPending` preserves the bookkeeping invariant -/
theorem checkPending_core (p : Prog) (s : S) (x : Option JobId) (h : Core p s x) :
    Core p (checkPending p s) x := by
  refine ⟨?_, ?_, ?_, ?_, ?_, ?_, ?_, ?_, ?_, ?_, ?_, ?_⟩
  · intro r; rw [checkPending_used, checkPending_held]; exact h.used_eq r
  · intro j; rw [checkPending_occA]; exact h.occ_le j
  · intro j hj; rw [checkPending_occA, checkPending_inflight, checkPending_Q]; exact h.fresh j hj
  · intro j hj; exact h.infl_holds j hj
  · intro j hc; rw [checkPending_C] at hc; exact h.comp_notinfl j hc
  · intro j hx hj
    rcases h.holds_wit j hx hj with a | a
    · left; exact a
    · right; exact (checkPending_C p s j).mpr a
  · intro j hq; rw [checkPending_Q] at hq; rw [checkPending_EW]; exact h.q_quiet j hq
  · intro X t ht; rw [checkPending_occA]; exact h.twins_quiet X t ht
  · intro c par hp; rw [checkPending_occA]; exact h.parent_quiet c par hp
  · intro j hj; rw [checkPending_occA]; exact h.cached_quiet j hj
  · intro r; exact h.le_limit r
  · intro hd
    obtain ⟨h1, h2⟩ := h.dry hd
    refine ⟨?_, h2⟩
    rw [checkPending_pend, h1]; simp [scanPending]

theorem checkPending_inv (p : Prog) (s : S) (h : Core p s none) : Inv p (checkPending p s) :=
  ⟨checkPending_core p s none h, fun hf => checkPending_pend_wit p hf s h.used_eq⟩

/-! ## part 4 -/

/-! ### release -/
theorem release_EW (p : Prog) (s : S) (j i : JobId) : EW (release p s j) i = EW s i := rfl
theorem release_C (p : Prog) (s : S) (j i : JobId) : C (release p s j) i ↔ C s i := Iff.rfl
theorem release_Q (p : Prog) (s : S) (j i : JobId) : Q (release p s j) i ↔ Q s i := Iff.rfl

theorem release_occA (p : Prog) (s : S) (j i : JobId) :
    occA (release p s j) i = if i = j then EW s i else occA s i := by
  simp only [occA_eq, release_EW]
  simp only [release]
  split <;> simp

theorem lt_next_of_holds {p : Prog} {s : S} {x : Option JobId} (h : Core p s x) {j : JobId}
    (hj : s.holds j = true) : j < s.next := by
  by_cases hlt : j < s.next
  · exact hlt
  · have := (h.fresh j (Nat.le_of_not_lt hlt)).1
    rw [occA_eq] at this
    simp [hj] at this

theorem release_held (p : Prog) (s : S) (x : Option JobId) (h : Core p s x) (j : JobId) (hj : s.holds j = true)
    (r : Res) : held p (release p s j) r = held p s r - demOf p s j r := by
  have hlt := lt_next_of_holds h hj
  unfold held
  have := sumTo_update (f := fun i => if s.holds i then demOf p s i r else 0)
    (g := fun i => if (release p s j).holds i then demOf p (release p s j) i r else 0) (n := s.next) (j := j) hlt
    (by intro i hi; simp [release, hi, demOf, spec])
  simp only [release, demOf, spec] at this ⊢
  rw [this]
  simp [hj]
  omega

/-- Releasing the limits of the exempted job restores the full invariant. -/
theorem release_core (p : Prog) (s : S) (j : JobId) (h : Core p s (some j)) (hj : s.holds j = true)
    (hni : s.inflight j = false) : Core p (release p s j) none := by
  refine ⟨?_, ?_, ?_, ?_, ?_, ?_, ?_, ?_, ?_, ?_, ?_, ?_⟩
  · intro r
    rw [release_held p s _ h j hj r]
    simp only [release, demOf]
    rw [h.used_eq r]
  · intro i; rw [release_occA]; split
    · have := h.occ_le i; rw [occA_eq] at this; omega
    · exact h.occ_le i
  · intro i hi
    obtain ⟨a, b, c⟩ := h.fresh i hi
    refine ⟨?_, b, c⟩
    rw [release_occA]; split
    · rw [occA_eq] at a; omega
    · exact a
  · intro i hi
    have hi' : s.inflight i = true := hi
    have : i ≠ j := by intro e; subst e; rw [hni] at hi'; exact absurd hi' (by simp)
    simp only [release, this, if_false]
    exact h.infl_holds i hi'
  · intro i hc; exact h.comp_notinfl i hc
  · intro i _ hi
    have hne : i ≠ j := by intro e; subst e; simp [release] at hi
    have hi' : s.holds i = true := by simpa [release, hne] using hi
    exact h.holds_wit i (by intro e; exact hne (Option.some.inj e)) hi'
  · intro i hq; exact h.q_quiet i hq
  · intro X t ht
    obtain ⟨a, b, c⟩ := h.twins_quiet X t ht
    refine ⟨?_, b, c⟩
    rw [release_occA]; split
    · rw [occA_eq] at a; omega
    · exact a
  · intro c par hp
    obtain ⟨a, b, d⟩ := h.parent_quiet c par hp
    refine ⟨?_, b, d⟩
    rw [release_occA]; split
    · rw [occA_eq] at a; omega
    · exact a
  · intro i hi
    have a := h.cached_quiet i hi
    rw [release_occA]; split
    · rw [occA_eq] at a; omega
    · exact a
  · intro r
    have := h.le_limit r
    simp only [release]
    have : (0 : Int) ≤ (dem (spec p s j).limits r : Int) := by simp
    omega
  · intro hd
    obtain ⟨a, b⟩ := h.dry hd
    exact ⟨a, fun i => by simp only [release]; split <;> simp [b i]⟩

/-- `if job.holds_limits: release; _check_jobs_pending_limits()` -/
def releaseIf (p : Prog) (s : S) (j : JobId) : S := if s.holds j then checkPending p (release p s j) else s

theorem core_drop_exempt {p : Prog} {s : S} {j : JobId} (h : Core p s (some j)) (hj : s.holds j = false) :
    Core p s none :=
  { h with holds_wit := fun i _ hi => h.holds_wit i (by intro e; have := Option.some.inj e; subst this; rw [hj] at hi; exact absurd hi (by simp)) hi }

theorem releaseIf_inv (p : Prog) (s : S) (j : JobId) (h : Core p s (some j)) (hp : PendWit p s)
    (hni : s.inflight j = false) : Inv p (releaseIf p s j) := by
  unfold releaseIf
  by_cases hj : s.holds j = true
  · rw [if_pos hj]
    exact checkPending_inv p _ (release_core p s j h hj hni)
  · have hj' : s.holds j = false := by simpa using hj
    rw [if_neg hj]
    exact ⟨core_drop_exempt h hj', hp⟩

theorem releaseIf_frame (p : Prog) (s : S) (j : JobId) :
    (releaseIf p s j).next = s.next ∧ (releaseIf p s j).inflight = s.inflight ∧
    (releaseIf p s j).jobs = s.jobs ∧ (releaseIf p s j).specOf = s.specOf ∧
    (∀ i, EW (releaseIf p s j) i = EW s i) ∧ (releaseIf p s j).holds j = false := by
  unfold releaseIf
  by_cases hj : s.holds j = true
  · rw [if_pos hj]
    refine ⟨rfl, rfl, rfl, rfl, fun i => by rw [checkPending_EW]; rfl, ?_⟩
    simp [checkPending_holds, release]
  · have hj' : s.holds j = false := by simpa using hj
    rw [if_neg hj]
    exact ⟨rfl, rfl, rfl, rfl, fun _ => rfl, hj'⟩

/-! ## part 5 -/

/-- job `j` has no pending (re-)execution, holds nothing and is not in flight -/
def Quiet (s : S) (j : JobId) : Prop := occA s j = 0 ∧ s.inflight j = false ∧ j < s.next

theorem holds_false_of_occA {s : S} {j : JobId} (h : occA s j = 0) : s.holds j = false := by
  rw [occA_eq] at h
  by_cases hh : s.holds j = true
  · simp [hh] at h
  · simpa using hh

theorem EW_zero_of_occA {s : S} {j : JobId} (h : occA s j = 0) : EW s j = 0 := by
  rw [occA_eq] at h; omega

theorem lt_next_of_Q {p : Prog} {s : S} {x : Option JobId} (h : Core p s x) {j : JobId} (hq : Q s j) : j < s.next := by
  by_cases hlt : j < s.next
  · exact hlt
  · exact absurd hq (h.fresh j (Nat.le_of_not_lt hlt)).2.2

/-! ### spawn -/
theorem spawnOne_C (s : S) (j : JobId) (c : SpecId) (k : JobId) : C (spawnOne s j c) k ↔ C s k := by
  unfold C spawnOne
  simp only [List.mem_append, List.mem_singleton]
  constructor
  · rintro (⟨f, a | a⟩ | a | a)
    · left; exact ⟨f, a⟩
    · simp at a
    · right; exact a
    · simp at a
  · rintro (⟨f, a⟩ | a)
    · left; exact ⟨f, Or.inl a⟩
    · right; exact Or.inl a

theorem spawnOne_Q (s : S) (j : JobId) (c : SpecId) (k : JobId) : Q (spawnOne s j c) k ↔ Q s k := by
  unfold Q
  rw [spawnOne_C]
  simp only [spawnOne, List.mem_append, List.mem_singleton]
  constructor
  · rintro (a | a | a)
    · left; exact a
    · right; exact a
    · simp at a
  · rintro (a | a)
    · left; exact a
    · right; left; exact a

theorem spawnOne_EW (s : S) (j : JobId) (c : SpecId) (k : JobId) :
    EW (spawnOne s j c) k = EW s k + (if k = s.next then 1 else 0) := by
  unfold EW spawnOne
  simp only [List.count_append, List.count_cons, List.count_nil]
  by_cases h : k = s.next
  · subst h; simp; omega
  · have : ¬ (Ev.exec s.next == Ev.exec k) = true := by
      simp; intro e; exact h e.symm
    simp [h, this]

theorem spawnOne_occA (s : S) (j : JobId) (c : SpecId) (k : JobId) :
    occA (spawnOne s j c) k = occA s k + (if k = s.next then 1 else 0) := by
  rw [occA_eq, occA_eq, spawnOne_EW]
  have : (spawnOne s j c).holds = s.holds := rfl
  rw [this]; omega

theorem spawnOne_inv (p : Prog) (s : S) (j : JobId) (c : SpecId) (h : Core p s none) (hp : PendWit p s)
    (hq : Quiet s j) :
    Core p (spawnOne s j c) none ∧ PendWit p (spawnOne s j c) ∧ Quiet (spawnOne s j c) j := by
  have hfresh := h.fresh s.next (Nat.le_refl _)
  have hne : ∀ k, k < s.next → k ≠ s.next := fun k hk e => by omega
  refine ⟨⟨?_, ?_, ?_, ?_, ?_, ?_, ?_, ?_, ?_, ?_, ?_, ?_⟩, ?_, ?_⟩
  · intro r
    show s.used r = _
    rw [h.used_eq r]
    unfold held
    show sumTo _ s.next = sumTo _ (s.next + 1)
    simp only [sumTo]
    have hh : s.holds s.next = false := holds_false_of_occA hfresh.1
    rw [show (spawnOne s j c).holds = s.holds from rfl]
    simp only [hh, Bool.false_eq_true, if_false, Int.add_zero]
    apply sumTo_congr
    intro i hi
    have : i ≠ s.next := hne i hi
    simp [demOf, spec, spawnOne, this]
  · intro k; rw [spawnOne_occA]
    split
    · rename_i e; subst e; rw [hfresh.1]; omega
    · have := h.occ_le k; omega
  · intro k hk
    have hk' : s.next + 1 ≤ k := hk
    obtain ⟨a, b, d⟩ := h.fresh k (by omega)
    refine ⟨?_, b, ?_⟩
    · rw [spawnOne_occA, a]; have : k ≠ s.next := by omega
      simp [this]
    · rw [spawnOne_Q]; exact d
  · intro k hk; exact h.infl_holds k hk
  · intro k hc; rw [spawnOne_C] at hc; exact h.comp_notinfl k hc
  · intro k hx hk
    rcases h.holds_wit k hx hk with a | a
    · left; exact a
    · right; exact (spawnOne_C s j c k).mpr a
  · intro k hk
    rw [spawnOne_Q] at hk
    rw [spawnOne_EW, h.q_quiet k hk]
    have := hne k (lt_next_of_Q h hk)
    simp [this]
  · intro X t ht
    have ht' : t ∈ (s.jobs X).twins := by
      simp only [spawnOne] at ht
      split at ht
      · simp at ht
      · exact ht
    obtain ⟨a, b, d⟩ := h.twins_quiet X t ht'
    refine ⟨?_, b, Nat.lt_succ_of_lt d⟩
    rw [spawnOne_occA, a]; simp [hne t d]
  · intro ch par hpar
    simp only [spawnOne] at hpar
    split at hpar
    · simp at hpar; subst hpar
      refine ⟨?_, hq.2.1, Nat.lt_succ_of_lt hq.2.2⟩
      rw [spawnOne_occA, hq.1]; simp [hne _ hq.2.2]
    · obtain ⟨a, b, d⟩ := h.parent_quiet ch par hpar
      refine ⟨?_, b, Nat.lt_succ_of_lt d⟩
      rw [spawnOne_occA, a]; simp [hne par d]
  · intro k hk
    simp only [spawnOne] at hk
    split at hk
    · simp at hk
    · rename_i hne'
      rw [spawnOne_occA, h.cached_quiet k hk]; simp [hne']
  · intro r; exact h.le_limit r
  · intro hd; exact h.dry hd
  · intro hf hne'
    rcases hp hf hne' with ⟨k, a⟩ | ⟨k, a⟩
    · left; exact ⟨k, a⟩
    · right; exact ⟨k, List.mem_append_left _ a⟩
  · refine ⟨?_, hq.2.1, Nat.lt_succ_of_lt hq.2.2⟩
    rw [spawnOne_occA, hq.1]; simp [hne _ hq.2.2]

theorem spawnFold_inv (p : Prog) (j : JobId) (cs : List SpecId) (s : S) (h : Core p s none) (hp : PendWit p s)
    (hq : Quiet s j) :
    Core p (cs.foldl (fun s c => spawnOne s j c) s) none ∧ PendWit p (cs.foldl (fun s c => spawnOne s j c) s) ∧
      Quiet (cs.foldl (fun s c => spawnOne s j c) s) j := by
  induction cs generalizing s with
  | nil => exact ⟨h, hp, hq⟩
  | cons c cs ih =>
    obtain ⟨a, b, d⟩ := spawnOne_inv p s j c h hp hq
    exact ih (spawnOne s j c) a b d

/-! ## part 6 -/

/-- the state with the head of the queue taken off -/
def tl (s : S) : S := { s with queue := s.queue.tail }

def exemptOf : Ev → Option JobId
  | .done j _ => some j
  | .reject j => some j
  | _ => none

theorem tl_EW_le (s : S) (i : JobId) : EW (tl s) i ≤ EW s i := by
  unfold EW tl
  cases h : s.queue with
  | nil => simp
  | cons e rest => simp only [List.tail_cons, List.count_cons]; omega

theorem tl_EW_eq (s : S) (e : Ev) (rest : List Ev) (hq : s.queue = e :: rest) (i : JobId) :
    EW s i = EW (tl s) i + (if e = Ev.exec i then 1 else 0) := by
  unfold EW tl
  rw [hq]
  simp only [List.tail_cons, List.count_cons]
  by_cases h : e = Ev.exec i
  · subst h; simp; omega
  · have : ¬ (e == Ev.exec i) = true := by simpa using h
    simp [h, this]

theorem tl_occA_le (s : S) (i : JobId) : occA (tl s) i ≤ occA s i := by
  rw [occA_eq, occA_eq]; have := tl_EW_le s i
  show EW (tl s) i + (if s.holds i = true then 1 else 0) ≤ _
  omega

theorem tl_C_mono (s : S) (i : JobId) (h : C (tl s) i) : C s i := by
  unfold C tl at *
  rcases h with ⟨f, a⟩ | a
  · left; exact ⟨f, List.mem_of_mem_tail a⟩
  · right; exact List.mem_of_mem_tail a

theorem tl_Q_mono (s : S) (i : JobId) (h : Q (tl s) i) : Q s i := by
  rcases h with a | a
  · left; exact tl_C_mono s i a
  · right; exact List.mem_of_mem_tail a

theorem tl_C_keep (s : S) (e : Ev) (rest : List Ev) (hq : s.queue = e :: rest) (i : JobId)
    (hx : some i ≠ exemptOf e) (h : C s i) : C (tl s) i := by
  unfold C tl at *
  rw [hq] at h
  simp only [hq, List.tail_cons]
  rcases h with ⟨f, a⟩ | a
  · rcases List.mem_cons.mp a with a | a
    · subst a; simp [exemptOf] at hx
    · left; exact ⟨f, a⟩
  · rcases List.mem_cons.mp a with a | a
    · subst a; simp [exemptOf] at hx
    · right; exact a

theorem tl_held (p : Prog) (s : S) (r : Res) : held p (tl s) r = held p s r := rfl

/-- taking the head event off the queue keeps the invariant, exempting the job whose completion
event it was -/
theorem core_tl (p : Prog) (s : S) (e : Ev) (rest : List Ev) (hq : s.queue = e :: rest) (h : Core p s none) :
    Core p (tl s) (exemptOf e) := by
  refine ⟨?_, ?_, ?_, ?_, ?_, ?_, ?_, ?_, ?_, ?_, ?_, ?_⟩
  · intro r; exact h.used_eq r
  · intro i; exact Nat.le_trans (tl_occA_le s i) (h.occ_le i)
  · intro i hi
    obtain ⟨a, b, c⟩ := h.fresh i hi
    exact ⟨Nat.le_zero.mp (a ▸ tl_occA_le s i), b, fun q => c (tl_Q_mono s i q)⟩
  · intro i hi; exact h.infl_holds i hi
  · intro i hc; exact h.comp_notinfl i (tl_C_mono s i hc)
  · intro i hx hi
    rcases h.holds_wit i (by simp) hi with a | a
    · left; exact a
    · right; exact tl_C_keep s e rest hq i hx a
  · intro i hq'
    have := h.q_quiet i (tl_Q_mono s i hq')
    have := tl_EW_le s i; omega
  · intro X t ht
    obtain ⟨a, b, c⟩ := h.twins_quiet X t ht
    exact ⟨Nat.le_zero.mp (a ▸ tl_occA_le s t), b, c⟩
  · intro c par hp
    obtain ⟨a, b, d⟩ := h.parent_quiet c par hp
    exact ⟨Nat.le_zero.mp (a ▸ tl_occA_le s par), b, d⟩
  · intro i hi
    exact Nat.le_zero.mp (h.cached_quiet i hi ▸ tl_occA_le s i)
  · intro r; exact h.le_limit r
  · intro hd; exact h.dry hd

theorem pendWit_tl (p : Prog) (s : S) (e : Ev) (rest : List Ev) (hq : s.queue = e :: rest) (hne : ∀ j, e ≠ Ev.exec j)
    (hp : PendWit p s) : PendWit p (tl s) := by
  intro hf hn
  rcases hp hf hn with ⟨k, a⟩ | ⟨k, a⟩
  · left; exact ⟨k, a⟩
  · right
    refine ⟨k, ?_⟩
    show Ev.exec k ∈ s.queue.tail
    rw [hq] at a ⊢
    rcases List.mem_cons.mp a with a | a
    · exact absurd a.symm (hne k)
    · exact a

/-- facts about the job whose `exec` event is at the head of the queue -/
theorem exec_head_facts (p : Prog) (s : S) (j : JobId) (rest : List Ev) (hq : s.queue = Ev.exec j :: rest)
    (h : Core p s none) :
    Quiet (tl s) j ∧ ¬ Q (tl s) j ∧ (∀ X, j ∉ ((tl s).jobs X).twins) ∧ (∀ c, ((tl s).jobs c).parent ≠ some j) ∧
      ((tl s).jobs j).wasCached = false := by
  have hEW := tl_EW_eq s (Ev.exec j) rest hq j
  simp only [if_true] at hEW
  have hocc := h.occ_le j
  rw [occA_eq] at hocc
  have hpos : 1 ≤ occA s j := by rw [occA_eq]; omega
  have hlt : j < s.next := by
    by_cases hlt : j < s.next
    · exact hlt
    · have := (h.fresh j (Nat.le_of_not_lt hlt)).1; omega
  have hholds : s.holds j = false := by
    by_cases hh : s.holds j = true
    · simp [hh] at hocc; omega
    · simpa using hh
  have hinfl : s.inflight j = false := by
    by_cases hi : s.inflight j = true
    · have := h.infl_holds j hi; rw [hholds] at this; exact absurd this (by simp)
    · simpa using hi
  refine ⟨⟨?_, hinfl, hlt⟩, ?_, ?_, ?_, ?_⟩
  · rw [occA_eq]
    show EW (tl s) j + (if s.holds j = true then 1 else 0) = 0
    simp [hholds]; omega
  · intro hq'
    have := h.q_quiet j (tl_Q_mono s j hq'); omega
  · intro X hm
    have := (h.twins_quiet X j hm).1; omega
  · intro c hc
    have := (h.parent_quiet c j hc).1; omega
  · by_cases hc : (s.jobs j).wasCached = true
    · have := h.cached_quiet j hc; omega
    · have hc' : (s.jobs j).wasCached = false := by simpa using hc
      exact hc'

theorem core_fill_exempt {p : Prog} {s : S} {j : JobId} (h : Core p s (some j))
    (hw : s.holds j = true → s.inflight j = true ∨ C s j) : Core p s none :=
  { h with holds_wit := fun i _ hi =>
      if e : i = j then e ▸ hw (e ▸ hi)
      else h.holds_wit i (fun e' => e (Option.some.inj e')) hi }

theorem core_weaken {p : Prog} {s : S} {x : Option JobId} (h : Core p s none) : Core p s x :=
  { h with holds_wit := fun i _ hi => h.holds_wit i (by simp) hi }

/-! ## part 7 -/

theorem quiet_EW {s : S} {j : JobId} (h : Quiet s j) : EW s j = 0 ∧ s.inflight j = false ∧ j < s.next :=
  ⟨EW_zero_of_occA h.1, h.2.1, h.2.2⟩

theorem ext_quiet {s s' : S} (h : Ext s s') {j : JobId} (hq : Quiet s j) : Quiet s' j := by
  unfold Quiet at *
  rw [ext_occA h, h.infl, h.next]; exact hq

theorem ext_notifyParentResolved (p : Prog) (s : S) (x : Option JobId) (h : Core p s x) (j : JobId) :
    Ext s (notifyParentResolved s j) := by
  unfold notifyParentResolved
  split
  · exact ext_finished s
  · rename_i par hpar
    dsimp only
    have e1 := ext_setJob s par (fun js => { js with waiting := js.waiting - 1 }) (fun _ => ⟨rfl, rfl⟩) (Or.inl fun _ => rfl)
    split
    · refine e1.trans (ext_enqueue _ _ par (Or.inr (Or.inr rfl)) ?_)
      exact quiet_EW (ext_quiet e1 (h.parent_quiet j par hpar))
    · exact e1

theorem ext_notifyParentRejected (p : Prog) (s : S) (x : Option JobId) (h : Core p s x) (j : JobId) :
    Ext s (notifyParentRejected s j) := by
  unfold notifyParentRejected
  split
  · exact ext_finished s
  · rename_i par hpar
    split
    · exact Ext.refl s
    · have e1 := ext_setJob s par (fun js => { js with evalFailed := true }) (fun _ => ⟨rfl, rfl⟩) (Or.inl fun _ => rfl)
      refine e1.trans (ext_enqueue _ _ par (Or.inr (Or.inl rfl)) ?_)
      exact quiet_EW (ext_quiet e1 (h.parent_quiet j par hpar))

/-- folding an `Ext` step over a list of quiet jobs -/
theorem ext_foldl_quiet (p : Prog) (x : Option JobId) (f : S → JobId → S)
    (hf : ∀ s t, Core p s x → Quiet s t → Ext s (f s t)) (l : List JobId) (s : S) (h : Core p s x)
    (hq : ∀ t, t ∈ l → Quiet s t) : Ext s (l.foldl f s) := by
  induction l generalizing s with
  | nil => exact Ext.refl s
  | cons t l ih =>
    have e1 := hf s t h (hq t (by simp))
    exact e1.trans (ih (f s t) (ext_core e1 h) (fun t' ht' => ext_quiet e1 (hq t' (by simp [ht']))))

theorem ext_twinDone (s : S) (t : JobId) (hq : Quiet s t) :
    Ext s (enqueue (setJob s t fun js => { js with wasCached := true }) (Ev.done t true)) := by
  have e1 := ext_setJob s t (fun js => { js with wasCached := true }) (fun _ => ⟨rfl, rfl⟩) (Or.inr hq.1)
  exact e1.trans (ext_enqueue _ _ t (Or.inl ⟨true, rfl⟩) (quiet_EW (ext_quiet e1 hq)))

theorem ext_rejectTwin (p : Prog) (s : S) (x : Option JobId) (h : Core p s x) (t : JobId) (hq : Quiet s t) :
    Ext s (rejectTwin p s t) := by
  unfold rejectTwin
  have e1 := ext_setJob s t (fun js => { js with wasCached := true }) (fun _ => ⟨rfl, rfl⟩) (Or.inr hq.1)
  have e2 := e1.trans (ext_record p _ t true)
  have e3 := e2.trans (ext_setJob _ t (fun js => { js with status := .rejected }) (fun _ => ⟨rfl, rfl⟩) (Or.inl fun _ => rfl))
  have e4 := e3.trans (ext_notifyParentRejected p _ x (ext_core e3 h) t)
  exact e4.trans (ext_finalize p _ t)

/-- `_resolve_job_main_thread` is an `Ext` step -/
theorem ext_resolveJob (p : Prog) (s : S) (x : Option JobId) (h : Core p s x) (j : JobId) :
    Ext s (resolveJob p s j) := by
  unfold resolveJob
  have e1 := ext_record p s j false
  have e2 := e1.trans (ext_setJob _ j (fun js => { js with status := .resolved }) (fun _ => ⟨rfl, rfl⟩) (Or.inl fun _ => rfl))
  have e3 := e2.trans (ext_notifyParentResolved p _ x (ext_core e2 h) j)
  have h3 := ext_core e3 h
  have e4 := e3.trans (ext_foldl_quiet p x
    (fun s t => enqueue (setJob s t fun js => { js with wasCached := true }) (Ev.done t true))
    (fun s t _ hq => ext_twinDone s t hq) _ _ h3 (fun t ht => h3.twins_quiet j t ht))
  exact e4.trans (ext_finalize p _ j)

/-- the part of `_reject_job_main_thread` after the limits were released -/
def rejectRest (p : Prog) (s : S) (j : JobId) : S :=
  let s := record p s j true
  let s := setJob s j fun js => { js with status := .rejected }
  let s := notifyParentRejected s j
  let s := (s.jobs j).twins.foldl (rejectTwin p) s
  finalize p s j

theorem rejectJob_eq (p : Prog) (s : S) (j : JobId) : rejectJob p s j = rejectRest p (releaseIf p s j) j := rfl

theorem ext_rejectRest (p : Prog) (s : S) (x : Option JobId) (h : Core p s x) (j : JobId) :
    Ext s (rejectRest p s j) := by
  unfold rejectRest
  have e1 := ext_record p s j true
  have e2 := e1.trans (ext_setJob _ j (fun js => { js with status := .rejected }) (fun _ => ⟨rfl, rfl⟩) (Or.inl fun _ => rfl))
  have e3 := e2.trans (ext_notifyParentRejected p _ x (ext_core e2 h) j)
  have h3 := ext_core e3 h
  have e4 := e3.trans (ext_foldl_quiet p x (rejectTwin p)
    (fun s t hc hq => ext_rejectTwin p s x hc t hq) _ _ h3 (fun t ht => h3.twins_quiet j t ht))
  exact e4.trans (ext_finalize p _ j)

/-- the part of `_done_job_main_thread` after the limits were released -/
def doneRest (p : Prog) (s : S) (j : JobId) (final : Bool) : S :=
  let s := if !(s.jobs j).wasCached && (spec p s j).prov then { s with evalTable := (spec p s j).key :: s.evalTable } else s
  if final then enqueue s (.resolve j) else spawn s j (spec p s j).children

theorem doneJob_eq (p : Prog) (s : S) (j : JobId) (f : Bool) : doneJob p s j f = doneRest p (releaseIf p s j) j f := rfl

theorem doneRest_inv (p : Prog) (s : S) (j : JobId) (f : Bool) (h : Inv p s) (hq : Quiet s j) :
    Inv p (doneRest p s j f) := by
  unfold doneRest
  -- the evalTable update
  have e1 : Ext s (if (!(s.jobs j).wasCached && (spec p s j).prov) = true then
      { s with evalTable := (spec p s j).key :: s.evalTable } else s) := by
    split
    · exact ext_fields s s.pendingJobs s.cse _ s.submits s.finished
    · exact Ext.refl s
  generalize hs1 : (if (!(s.jobs j).wasCached && (spec p s j).prov) = true then
      { s with evalTable := (spec p s j).key :: s.evalTable } else s) = s1 at e1
  have h1 : Core p s1 none := ext_core e1 h.core
  have p1 : PendWit p s1 := ext_pendWit e1 h.pend
  have q1 : Quiet s1 j := ext_quiet e1 hq
  dsimp only
  split
  · have e2 := ext_enqueue s1 (Ev.resolve j) j (Or.inr (Or.inr rfl)) (quiet_EW q1)
    exact ⟨ext_core e2 h1, ext_pendWit e2 p1⟩
  · unfold spawn
    obtain ⟨a, b, c⟩ := spawnFold_inv p j (spec p s1 j).children s1 h1 p1 q1
    dsimp only
    have e3 := ext_setJob (List.foldl (fun s c => spawnOne s j c) s1 (spec p s1 j).children) j
      (fun js => { js with waiting := (spec p s1 j).children.length }) (fun _ => ⟨rfl, rfl⟩) (Or.inl fun _ => rfl)
    split
    · have e4 := e3.trans (ext_enqueue _ (Ev.resolve j) j (Or.inr (Or.inr rfl)) (quiet_EW (ext_quiet e3 c)))
      exact ⟨ext_core e4 a, ext_pendWit e4 b⟩
    · exact ⟨ext_core e3 a, ext_pendWit e3 b⟩

/-! ## part 8 -/

/-- hypotheses about the job being executed (from `exec_head_facts`) -/
structure ExecCtx (s : S) (j : JobId) : Prop where
  quiet : Quiet s j
  notQ : ¬ Q s j
  notTwin : ∀ X, j ∉ (s.jobs X).twins
  notParent : ∀ c, (s.jobs c).parent ≠ some j
  notCached : (s.jobs j).wasCached = false

/-- adding `j` to the twins of `t` -/
theorem core_addTwin (p : Prog) (s : S) (t j : JobId) (h : Core p s none) (hq : Quiet s j) :
    Core p (setJob s t fun js => { js with twins := js.twins ++ [j] }) none := by
  refine { h with twins_quiet := ?_, parent_quiet := ?_, cached_quiet := ?_ }
  · intro X u hu
    simp only [setJob] at hu
    split at hu
    · rename_i e; subst e
      rcases List.mem_append.mp hu with a | a
      · exact h.twins_quiet _ u a
      · simp at a; subst a; exact hq
    · exact h.twins_quiet X u hu
  · intro c par hp
    simp only [setJob] at hp
    split at hp
    · rename_i e; subst e; exact h.parent_quiet _ par hp
    · exact h.parent_quiet c par hp
  · intro i hi
    simp only [setJob] at hi
    split at hi
    · rename_i e; subst e; exact h.cached_quiet _ hi
    · exact h.cached_quiet i hi

/-- the three cache-hit exits of `_exec_job_main_thread` -/
theorem cachedExit_inv (p : Prog) (s : S) (j : JobId) (ev : Ev)
    (hev : (∃ f, ev = Ev.done j f) ∨ ev = Ev.reject j) (h : Core p s none) (hq : Quiet s j) :
    Inv p (enqueue (checkPending p (setJob s j fun js => { js with wasCached := true })) ev) := by
  have e1 := ext_setJob s j (fun js => { js with wasCached := true }) (fun _ => ⟨rfl, rfl⟩) (Or.inr hq.1)
  have h1 := ext_core e1 h
  have q1 := ext_quiet e1 hq
  have i2 := checkPending_inv p _ h1
  have q2 : EW (checkPending p (setJob s j fun js => { js with wasCached := true })) j = 0 ∧
      (checkPending p (setJob s j fun js => { js with wasCached := true })).inflight j = false ∧
      j < (checkPending p (setJob s j fun js => { js with wasCached := true })).next := by
    rw [checkPending_EW]; exact quiet_EW q1
  have e3 := ext_enqueue _ ev j (by rcases hev with ⟨f, a⟩ | a; exact Or.inl ⟨f, a⟩; exact Or.inr (Or.inl a)) q2
  exact ⟨ext_core e3 i2.core, ext_pendWit e3 i2.pend⟩

theorem dem_zero_of_not_key (l : List (Res × Nat)) (r : Res) (h : r ∉ keysOf l) : dem l r = 0 := by
  unfold dem
  have : l.filter (fun p => p.1 == r) = [] := by
    rw [List.filter_eq_nil_iff]
    intro a ha hr
    simp at hr
    exact h (by unfold keysOf; exact List.mem_map.mpr ⟨a, ha, hr⟩)
  rw [this]; rfl

theorem consume_held (p : Prog) (s : S) (j : JobId) (hlt : j < s.next) (hj : s.holds j = false) (r : Res) :
    held p (consume p s j) r = held p s r + demOf p s j r := by
  unfold held
  have := sumTo_update (f := fun i => if s.holds i then demOf p s i r else 0)
    (g := fun i => if (consume p s j).holds i then demOf p (consume p s j) i r else 0) (n := s.next) (j := j) hlt
    (by intro i hi; simp [consume, hi, demOf, spec])
  simp only [consume, demOf, spec] at this ⊢
  rw [this]
  simp [hj]

theorem consume_occA (p : Prog) (s : S) (j i : JobId) (hj : s.holds j = false) :
    occA (consume p s j) i = occA s i + (if i = j then 1 else 0) := by
  rw [occA_eq, occA_eq]
  show EW s i + (if (if i = j then true else s.holds i) = true then 1 else 0) = _
  by_cases e : i = j
  · subst e; simp [hj]
  · simp [e]

theorem consume_core (p : Prog) (s : S) (j : JobId) (h : Core p s none) (hc : ExecCtx s j)
    (hw : jobWithin p s j = true) (hnd : p.dryrun = false) : Core p (consume p s j) (some j) := by
  have hj : s.holds j = false := holds_false_of_occA hc.quiet.1
  have hne : ∀ i, occA s i = 0 → i ≠ j → occA (consume p s j) i = 0 := by
    intro i hi e; rw [consume_occA p s j i hj, hi]; simp [e]
  refine ⟨?_, ?_, ?_, ?_, ?_, ?_, ?_, ?_, ?_, ?_, ?_, ?_⟩
  · intro r
    rw [consume_held p s j hc.quiet.2.2 hj r]
    show s.used r + _ = _
    rw [h.used_eq r]; rfl
  · intro i; rw [consume_occA p s j i hj]
    by_cases e : i = j
    · subst e; rw [hc.quiet.1]; simp
    · simp [e]; exact h.occ_le i
  · intro i hi
    obtain ⟨a, b, c⟩ := h.fresh i hi
    have : i ≠ j := by have := hc.quiet.2.2; intro e; subst e; exact absurd this (Nat.not_lt.mpr hi)
    exact ⟨hne i a this, b, c⟩
  · intro i hi
    have := h.infl_holds i hi
    show (if i = j then true else s.holds i) = true
    split
    · rfl
    · exact this
  · intro i hc'; exact h.comp_notinfl i hc'
  · intro i hx hi
    have e : i ≠ j := fun e => hx (by rw [e])
    have hi' : s.holds i = true := by
      have : (if i = j then true else s.holds i) = true := hi
      simpa [e] using this
    exact h.holds_wit i (by simp) hi'
  · intro i hq; exact h.q_quiet i hq
  · intro X t ht
    obtain ⟨a, b, c⟩ := h.twins_quiet X t ht
    exact ⟨hne t a (fun e => hc.notTwin X (e ▸ ht)), b, c⟩
  · intro c par hp
    obtain ⟨a, b, d⟩ := h.parent_quiet c par hp
    exact ⟨hne par a (fun e => hc.notParent c (e ▸ hp)), b, d⟩
  · intro i hi
    have a := h.cached_quiet i hi
    have hi' : (s.jobs i).wasCached = true := hi
    exact hne i a (fun e => by subst e; rw [hc.notCached] at hi'; exact absurd hi' (by simp))
  · intro r
    show s.used r + (dem (spec p s j).limits r : Int) ≤ _
    by_cases hk : r ∈ keysOf (spec p s j).limits
    · unfold jobWithin within at hw
      have := List.all_eq_true.mp hw r hk
      simp only [decide_eq_true_eq, ge_iff_le] at this
      omega
    · rw [dem_zero_of_not_key _ r hk]; have := h.le_limit r; simp; exact this
  · intro hd; rw [hnd] at hd; exact absurd hd (by simp)

theorem pendWit_of_holder (p : Prog) (s : S) (j : JobId) (h : s.holds j = true) : PendWit p s := fun _ _ => Or.inl ⟨j, h⟩

/-- `_exec_job_main_thread` -/
theorem execJob_inv (p : Prog) (s : S) (j : JobId) (h : Core p s none) (hc : ExecCtx s j) :
    Inv p (execJob p s j) := by
  unfold execJob
  dsimp only
  split
  · -- collapse onto a pending twin, then re-check the waiting list
    exact checkPending_inv p _ (core_addTwin p s _ j h hc.quiet)
  · split
    · rename_i isErr _
      exact cachedExit_inv p s j _ (by cases isErr <;> simp) h hc.quiet
    · exact cachedExit_inv p s j _ (Or.inl ⟨true, rfl⟩) h hc.quiet
    · exact cachedExit_inv p s j _ (Or.inl ⟨false, rfl⟩) h hc.quiet
    · -- cache miss
      have hj : s.holds j = false := holds_false_of_occA hc.quiet.1
      split
      · -- does not fit: wait for limits
        rename_i hcond
        have hnd : p.dryrun = false := by
          by_cases e : p.dryrun = true
          · simp [e] at hcond
          · simpa using e
        have hnw : jobWithin p s j = false := by simpa [hnd] using hcond
        have hEW : ∀ i, EW { s with pendingLimits := s.pendingLimits ++ [j] } i = EW s i + (if i = j then 1 else 0) := by
          intro i; unfold EW
          simp only [List.count_append, List.count_cons, List.count_nil]
          by_cases e : i = j
          · subst e; simp; omega
          · have : ¬ (j == i) = true := by simpa using fun e' => e e'.symm
            simp [e, this]
        have hocc : ∀ i, occA { s with pendingLimits := s.pendingLimits ++ [j] } i = occA s i + (if i = j then 1 else 0) := by
          intro i; rw [occA_eq, occA_eq, hEW]
          show EW s i + _ + (if s.holds i = true then 1 else 0) = _
          omega
        have hne : ∀ i, occA s i = 0 → i ≠ j → occA { s with pendingLimits := s.pendingLimits ++ [j] } i = 0 := by
          intro i hi e; rw [hocc, hi]; simp [e]
        refine ⟨⟨?_, ?_, ?_, ?_, ?_, ?_, ?_, ?_, ?_, ?_, ?_, ?_⟩, ?_⟩
        · intro r; exact h.used_eq r
        · intro i; rw [hocc]
          by_cases e : i = j
          · subst e; rw [hc.quiet.1]; simp
          · simp [e]; exact h.occ_le i
        · intro i hi
          obtain ⟨a, b, c⟩ := h.fresh i hi
          have : i ≠ j := by have := hc.quiet.2.2; intro e; subst e; exact absurd this (Nat.not_lt.mpr hi)
          exact ⟨hne i a this, b, c⟩
        · intro i hi; exact h.infl_holds i hi
        · intro i hc'; exact h.comp_notinfl i hc'
        · intro i hx hi; exact h.holds_wit i hx hi
        · intro i hq
          rw [hEW, h.q_quiet i hq]
          have : i ≠ j := fun e => hc.notQ (e ▸ hq)
          simp [this]
        · intro X t ht
          obtain ⟨a, b, c⟩ := h.twins_quiet X t ht
          exact ⟨hne t a (fun e => hc.notTwin X (e ▸ ht)), b, c⟩
        · intro c par hp
          obtain ⟨a, b, d⟩ := h.parent_quiet c par hp
          exact ⟨hne par a (fun e => hc.notParent c (e ▸ hp)), b, d⟩
        · intro i hi
          have a := h.cached_quiet i hi
          exact hne i a (fun e => by subst e; rw [hc.notCached] at hi; exact absurd hi (by simp))
        · intro r; exact h.le_limit r
        · intro hd; rw [hnd] at hd; exact absurd hd (by simp)
        · -- a holder exists because the job does not fit
          intro hf _
          left
          obtain ⟨r, hr⟩ := not_within_used_pos p hf s.used (s.specOf j) hnw
          exact holder_of_used_pos p s h.used_eq r hr
      · rename_i hcond
        by_cases hd : p.dryrun = true
        · -- dry run: nothing is consumed or submitted
          simp only [hd, if_true]
          have hpw : PendWit p s := fun _ hne => absurd (h.dry hd).1 hne
          split
          · have e1 := ext_enqueue s (Ev.reject j) j (Or.inr (Or.inl rfl)) (quiet_EW hc.quiet)
            exact ⟨ext_core e1 h, ext_pendWit e1 hpw⟩
          · exact ⟨h, hpw⟩
        · have hnd : p.dryrun = false := by simpa using hd
          have hw : jobWithin p s j = true := by
            by_cases e : jobWithin p s j = true
            · exact e
            · simp [hnd, e] at hcond
          simp only [hnd, Bool.false_eq_true, if_false]
          have c1 := consume_core p s j h hc hw hnd
          have hh : (consume p s j).holds j = true := by simp [consume]
          have q0 : EW s j = 0 ∧ s.inflight j = false ∧ j < s.next := quiet_EW hc.quiet
          have q1 : EW (consume p s j) j = 0 ∧ (consume p s j).inflight j = false ∧ j < (consume p s j).next := q0
          split
          · -- unknown executor: reject right away (the limits are released by that event)
            have e1 := ext_enqueue (consume p s j) (Ev.reject j) j (Or.inr (Or.inl rfl)) q1
            have c2 := ext_core e1 c1
            refine ⟨core_fill_exempt c2 (fun _ => Or.inr (Or.inr ?_)), pendWit_of_holder p _ j (by rw [e1.holds]; exact hh)⟩
            show Ev.reject j ∈ (consume p s j).queue ++ [Ev.reject j]
            simp
          · -- submit
            generalize hs2 : (if (!(spec p s j).prov || (lookupPending (consume p s j) ((spec p s j).key, (spec p s j).ctx)).isSome) = true
                then consume p s j
                else { consume p s j with pendingJobs := (consume p s j).pendingJobs ++ [(((spec p s j).key, (spec p s j).ctx), j)] }) = s2
            have e2 : Ext (consume p s j) s2 := by
              rw [← hs2]; split
              · exact Ext.refl _
              · exact ext_fields _ _ _ _ _ _
            have c2 := ext_core e2 c1
            have hh2 : s2.holds j = true := by rw [e2.holds]; exact hh
            have hC2 : ¬ C s2 j := by
              intro hC
              rcases ext_C_inv e2 hC with a | ⟨_, _, _⟩
              · exact hc.notQ (Or.inl a)
              · -- extras are empty in both cases, so this branch also gives an old event
                obtain ⟨ex, hqx, _, _⟩ := e2.queue
                have : s2.queue = (consume p s j).queue := by
                  rw [← hs2]; split <;> rfl
                unfold C at hC; rw [this] at hC
                exact hc.notQ (Or.inl hC)
            refine ⟨⟨?_, ?_, ?_, ?_, ?_, ?_, ?_, ?_, ?_, ?_, ?_, ?_⟩, pendWit_of_holder p _ j hh2⟩
            · intro r; exact c2.used_eq r
            · intro i; exact c2.occ_le i
            · intro i hi
              obtain ⟨a, b, c⟩ := c2.fresh i hi
              refine ⟨a, ?_, c⟩
              show (if i = j then true else s2.inflight i) = false
              have : i ≠ j := by
                have hlt : j < s2.next := by rw [e2.next]; exact hc.quiet.2.2
                have hi2 : s2.next ≤ i := hi
                intro e; subst e; exact absurd hlt (Nat.not_lt.mpr hi2)
              simp [this]; exact b
            · intro i hi
              have hi' : (if i = j then true else s2.inflight i) = true := hi
              by_cases e : i = j
              · subst e; exact hh2
              · simp [e] at hi'; exact c2.infl_holds i hi'
            · intro i hC
              show (if i = j then true else s2.inflight i) = false
              have : i ≠ j := fun e => hC2 (e ▸ hC)
              simp [this]; exact c2.comp_notinfl i hC
            · intro i _ hi
              by_cases e : i = j
              · subst e; left; show (if i = i then true else s2.inflight i) = true; simp
              · rcases c2.holds_wit i (fun e' => e (Option.some.inj e')) hi with a | a
                · left; show (if i = j then true else s2.inflight i) = true; simp [e]; exact a
                · right; exact a
            · intro i hq; exact c2.q_quiet i hq
            · intro X t ht
              obtain ⟨a, b, c⟩ := c2.twins_quiet X t ht
              refine ⟨a, ?_, c⟩
              show (if t = j then true else s2.inflight t) = false
              have : t ≠ j := by
                intro e; subst e
                rw [e2.twins] at ht
                exact hc.notTwin X ht
              simp [this]; exact b
            · intro c par hp
              obtain ⟨a, b, d⟩ := c2.parent_quiet c par hp
              refine ⟨a, ?_, d⟩
              show (if par = j then true else s2.inflight par) = false
              have : par ≠ j := by
                intro e; subst e
                rw [e2.parent] at hp
                exact hc.notParent c hp
              simp [this]; exact b
            · intro i hi; exact c2.cached_quiet i hi
            · intro r; exact c2.le_limit r
            · intro hd'; exact c2.dry hd'

/-! ## part 9 -/

theorem complete_inv (p : Prog) (s : S) (j : JobId) (h : Inv p s) (hi : s.inflight j = true) :
    Inv p (complete p s j) := by
  have hc := h.core
  have hholds := hc.infl_holds j hi
  have hlt : j < s.next := lt_next_of_holds hc hholds
  have hEW : EW s j = 0 := by
    have := hc.occ_le j; rw [occA_eq] at this; simp [hholds] at this; exact this
  unfold complete
  generalize hs1 : ({ s with inflight := fun i => if i = j then false else s.inflight i } : S) = s1
  have hfr : s1.next = s.next ∧ s1.specOf = s.specOf ∧ s1.holds = s.holds ∧ s1.used = s.used ∧
      s1.pendingLimits = s.pendingLimits ∧ s1.queue = s.queue ∧ s1.jobs = s.jobs ∧
      s1.inflight = fun i => if i = j then false else s.inflight i := by
    rw [← hs1]; exact ⟨rfl, rfl, rfl, rfl, rfl, rfl, rfl, rfl⟩
  obtain ⟨f1, f2, f3, f4, f5, f6, f7, f8⟩ := hfr
  have hocc : ∀ i, occA s1 i = occA s i := by intro i; unfold occA; rw [f6, f5, f3]
  have hC : ∀ i, C s1 i ↔ C s i := by intro i; unfold C; rw [f6]
  have hQ : ∀ i, Q s1 i ↔ Q s i := by intro i; unfold Q; rw [hC, f6]
  have hle : ∀ i, s1.inflight i = true → s.inflight i = true ∧ i ≠ j := by
    intro i hi'; rw [f8] at hi'
    by_cases e : i = j
    · simp [e] at hi'
    · simp [e] at hi'; exact ⟨hi', e⟩
  have hfalse : ∀ i, s.inflight i = false → s1.inflight i = false := by
    intro i hi'; rw [f8]; dsimp only; split <;> simp [hi']
  have c1 : Core p s1 (some j) := by
    refine ⟨?_, ?_, ?_, ?_, ?_, ?_, ?_, ?_, ?_, ?_, ?_, ?_⟩
    · intro r; rw [f4]; unfold held demOf spec; rw [f1, f3, f2]; exact hc.used_eq r
    · intro i; rw [hocc]; exact hc.occ_le i
    · intro i hi'; rw [f1] at hi'; rw [hocc, hQ]
      obtain ⟨a, b, c⟩ := hc.fresh i hi'
      exact ⟨a, hfalse i b, c⟩
    · intro i hi'; rw [f3]; exact hc.infl_holds i (hle i hi').1
    · intro i hC'
      rw [hC] at hC'
      exact hfalse i (hc.comp_notinfl i hC')
    · intro i hx hi'
      rw [f3] at hi'
      have e : i ≠ j := fun e => hx (by rw [e])
      rcases hc.holds_wit i (by simp) hi' with a | a
      · left; rw [f8]; simp [e]; exact a
      · right; exact (hC i).mpr a
    · intro i hq; rw [hQ] at hq
      have := hc.q_quiet i hq
      unfold EW at this ⊢; rw [f6, f5]; exact this
    · intro X t ht; rw [f7] at ht
      obtain ⟨a, b, c⟩ := hc.twins_quiet X t ht
      exact ⟨by rw [hocc]; exact a, hfalse t b, by rw [f1]; exact c⟩
    · intro c par hp; rw [f7] at hp
      obtain ⟨a, b, d⟩ := hc.parent_quiet c par hp
      exact ⟨by rw [hocc]; exact a, hfalse par b, by rw [f1]; exact d⟩
    · intro i hi'; rw [f7] at hi'; rw [hocc]; exact hc.cached_quiet i hi'
    · intro r; rw [f4]; exact hc.le_limit r
    · intro hd; rw [f5, f3]; exact hc.dry hd
  have p1 : PendWit p s1 := by
    intro hf hne; rw [f5] at hne
    rcases h.pend hf hne with ⟨k, a⟩ | ⟨k, a⟩
    · left; exact ⟨k, by rw [f3]; exact a⟩
    · right; exact ⟨k, by rw [f6]; exact a⟩
  have q1 : EW s1 j = 0 ∧ s1.inflight j = false ∧ j < s1.next := by
    refine ⟨?_, ?_, by rw [f1]; exact hlt⟩
    · unfold EW at hEW ⊢; rw [f6, f5]; exact hEW
    · rw [f8]; simp
  have key : ∀ ev, ((∃ f, ev = Ev.done j f) ∨ ev = Ev.reject j) → Inv p (enqueue s1 ev) := by
    intro ev hev
    have e2 := ext_enqueue s1 ev j (by rcases hev with ⟨f, a⟩ | a; exact Or.inl ⟨f, a⟩; exact Or.inr (Or.inl a)) q1
    refine ⟨core_fill_exempt (ext_core e2 c1) (fun _ => Or.inr ?_), ext_pendWit e2 p1⟩
    unfold C enqueue
    rcases hev with ⟨f, a⟩ | a
    · left; exact ⟨f, by subst a; simp⟩
    · right; subst a; simp
  have hspec : spec p s1 j = spec p s j := by unfold spec; rw [f2]
  dsimp only
  by_cases hfails : (spec p s1 j).fails = true
  · rw [if_pos hfails]; exact key _ (Or.inr rfl)
  · rw [if_neg hfails]; exact key _ (Or.inl ⟨false, rfl⟩)

theorem tl_eq (s : S) (e : Ev) (rest : List Ev) (hq : s.queue = e :: rest) : { s with queue := rest } = tl s := by
  unfold tl; rw [hq]; rfl

theorem pop_inv (p : Prog) (s : S) (h : Inv p s) : Inv p (pop p s) := by
  unfold pop
  split
  · exact h
  · rename_i e rest hq
    rw [tl_eq s e rest hq]
    have ct := core_tl p s e rest hq h.core
    cases e with
    | exec j =>
      obtain ⟨a, b, c, d, f⟩ := exec_head_facts p s j rest hq h.core
      exact execJob_inv p (tl s) j ct ⟨a, b, c, d, f⟩
    | resolve j =>
      have pt := pendWit_tl p s _ rest hq (by intro k; simp) h.pend
      have e1 := ext_resolveJob p (tl s) none ct j
      exact ⟨ext_core e1 ct, ext_pendWit e1 pt⟩
    | done j f =>
      have pt := pendWit_tl p s _ rest hq (by intro k; simp) h.pend
      have hC : C s j := Or.inl ⟨f, by rw [hq]; simp⟩
      have hni : (tl s).inflight j = false := h.core.comp_notinfl j hC
      have i1 := releaseIf_inv p (tl s) j ct pt hni
      obtain ⟨g1, g2, g3, g4, g5, g6⟩ := releaseIf_frame p (tl s) j
      have hEW : EW (tl s) j = 0 := by
        have := h.core.q_quiet j (Or.inl hC); have := tl_EW_le s j; omega
      have q1 : Quiet (releaseIf p (tl s) j) j := by
        refine ⟨?_, by rw [g2]; exact hni, by rw [g1]; exact lt_next_of_Q h.core (Or.inl hC)⟩
        rw [occA_eq, g5, hEW, g6]; simp
      show Inv p (doneJob p (tl s) j f)
      rw [doneJob_eq]
      exact doneRest_inv p _ j f i1 q1
    | reject j =>
      have pt := pendWit_tl p s _ rest hq (by intro k; simp) h.pend
      have hC : C s j := Or.inr (by rw [hq]; simp)
      have hni : (tl s).inflight j = false := h.core.comp_notinfl j hC
      have i1 := releaseIf_inv p (tl s) j ct pt hni
      show Inv p (rejectJob p (tl s) j)
      rw [rejectJob_eq]
      have e1 := ext_rejectRest p _ none i1.core j
      exact ⟨ext_core e1 i1.core, ext_pendWit e1 i1.pend⟩

theorem step_inv (p : Prog) (s t : S) (h : Inv p s) (hs : Step p s t) : Inv p t := by
  cases hs with
  | pop _ _ => exact pop_inv p s h
  | complete j _ hi => exact complete_inv p s j h hi

theorem reachable_inv (p : Prog) (s : S) (h : Reachable p s) : Inv p s := by
  induction h with
  | init => exact inv_init p
  | step _ hs ih => exact step_inv p _ _ ih hs

end RedunModel.SchedCore
