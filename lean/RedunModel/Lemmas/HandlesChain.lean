/-
Lemmas about the chain-workflow model of `RedunModel.Model.Handles` (`runTask`, `runChain`, `runWorkflows`):
the handle states form a trie of task chains, and the invariant `J` (valid states lie on the chain the external
system reflects; every valid state's parent is valid and linked) is kept by fork, rollback, call — for the
repaired and for the unrepaired backend.
-/
import RedunModel.Lemmas.Handles
namespace RedunModel.Handles
set_option linter.unusedSectionVars false
variable {H : Type} [DecidableEq H]

section Chain
variable (name k : String)

/-- the handle state after the tasks `rp` (last task first) -/
def nodeR : List String → HT
  | [] => .init name
  | t :: rp => .call (.fork (nodeR rp) k) t

/-- the handle state after the chain of tasks `p`, and its fork (the argument of the next task) -/
def node (p : List String) : HT := nodeR name k p.reverse
def fk (p : List String) : HT := .fork (node name k p) k

theorem node_nil : node name k [] = .init name := rfl

theorem node_snoc (p : List String) (t : String) : node name k (p ++ [t]) = .call (fk name k p) t := by
  simp [node, fk, nodeR, List.reverse_append]

theorem nodeR_inj {a b : List String} (h : nodeR name k a = nodeR name k b) : a = b := by
  induction a generalizing b with
  | nil => cases b with
    | nil => rfl
    | cons t b => simp [nodeR] at h
  | cons t a ih => cases b with
    | nil => simp [nodeR] at h
    | cons t' b =>
      simp only [nodeR, HT.call.injEq, HT.fork.injEq, and_true] at h
      rw [ih h.1, h.2]

theorem node_inj {p q : List String} (h : node name k p = node name k q) : p = q := by
  have := nodeR_inj name k h
  have h2 := congrArg List.reverse this
  simpa using h2

theorem fk_inj {p q : List String} (h : fk name k p = fk name k q) : p = q := by
  simp only [fk, HT.fork.injEq, and_true] at h
  exact node_inj name k h

theorem node_ne_fk (p q : List String) : node name k p ≠ fk name k q := by
  unfold node fk
  cases p.reverse with
  | nil => simp [nodeR]
  | cons t r => simp [nodeR]

theorem node_name (p : List String) : (node name k p).name = name := by
  unfold node
  induction p.reverse with
  | nil => rfl
  | cons t r ih => simpa [nodeR, HT.name] using ih

theorem fk_name (p : List String) : (fk name k p).name = name := by
  simp [fk, HT.name, node_name]

end Chain

/-- `advance_handle([parent], child)` for a recorded, non-skipped parent -/
theorem advance_single (fixed : Bool) (st : St H) (a c : HRef H) :
    st.advance fixed [⟨a, true, []⟩] c =
      { rows := touchRows (touchRows st.rows c) a, edges := addE st.edges (a.hash, c.hash) } := by
  cases fixed <;> simp [St.advance, touchedRefs, skipped, recordedEdges]

theorem isValid_advance_single (fixed : Bool) (st : St H) (a c : HRef H) (x : H) :
    (st.advance fixed [⟨a, true, []⟩] c).isValid x = true ↔ x = a.hash ∨ x = c.hash ∨ st.isValid x = true := by
  rw [advance_single]
  simp only [isValid_eq, validIn_touchRows, Bool.or_eq_true, decide_eq_true_eq]

section ChainInv
variable (name k : String)

/-- Invariant of the backend tables while the scheduler runs chain workflows on `Handle(name)`; `cur` is the chain
of tasks the external system currently reflects. -/
structure J (st : St HT) (cur : List String) : Prop where
  rowName : ∀ r ∈ st.rows, r.name = name
  edgeShape : ∀ a b, (a, b) ∈ st.edges →
      (∃ p, a = node name k p ∧ b = fk name k p) ∨ (∃ p t, a = fk name k p ∧ b = node name k (p ++ [t]))
  validShape : ∀ x, st.isValid x = true → ∃ p, p <+: cur ∧ (x = node name k p ∨ x = fk name k p)
  parentNode : ∀ p t, st.isValid (node name k (p ++ [t])) = true →
      st.isValid (fk name k p) = true ∧ (fk name k p, node name k (p ++ [t])) ∈ st.edges
  parentFk : ∀ p, st.isValid (fk name k p) = true →
      st.isValid (node name k p) = true ∧ (node name k p, fk name k p) ∈ st.edges

theorem J_init : J name k ({} : St HT) [] := by
  constructor <;> simp [St.isValid]

theorem J.weaken {st : St HT} {cur cur' : List String} (h : J name k st cur) (hp : cur <+: cur') : J name k st cur' := by
  refine ⟨h.rowName, h.edgeShape, ?_, h.parentNode, h.parentFk⟩
  intro x hx
  obtain ⟨p, hp1, hp2⟩ := h.validShape x hx
  exact ⟨p, hp1.trans hp, hp2⟩

theorem snoc_inj {p q : List String} {t t' : String} (h : p ++ [t] = q ++ [t']) : p = q ∧ t = t' := by
  have := List.append_inj' h rfl
  exact ⟨this.1, by simpa using this.2⟩

/-- `_preprocess_args`: the argument state `node p` is forked and the fork recorded -/
theorem J_advance_fork (fixed : Bool) {st : St HT} {cur p : List String} (h : J name k st cur) (hp : p <+: cur)
    (hv : p = [] ∨ st.isValid (node name k p) = true) :
    J name k (st.advance fixed [⟨(node name k p).ref, true, []⟩] (fk name k p).ref) cur := by
  have hval := isValid_advance_single fixed st (node name k p).ref (fk name k p).ref
  simp only [HT.ref] at hval
  have hedge : ∀ e, e ∈ (st.advance fixed [⟨(node name k p).ref, true, []⟩] (fk name k p).ref).edges ↔
      e ∈ st.edges ∨ e = (node name k p, fk name k p) := by
    intro e; rw [advance_single]; simp only [mem_addE, HT.ref]
  constructor
  · intro r hr
    rw [advance_single] at hr
    rcases mem_touchRows hr with ⟨r0, hr0, _, hn⟩ | ⟨_, hn⟩
    · rcases mem_touchRows hr0 with ⟨r1, hr1, _, hn1⟩ | ⟨_, hn1⟩
      · rw [← hn, ← hn1]; exact h.rowName r1 hr1
      · rw [← hn, hn1]; exact fk_name name k p
    · rw [hn]; exact node_name name k p
  · intro a b hab
    rcases (hedge (a, b)).1 hab with h1 | h1
    · exact h.edgeShape a b h1
    · simp only [Prod.mk.injEq] at h1; exact Or.inl ⟨p, h1.1, h1.2⟩
  · intro x hx
    rcases (hval x).1 hx with rfl | rfl | h1
    · exact ⟨p, hp, Or.inl rfl⟩
    · exact ⟨p, hp, Or.inr rfl⟩
    · exact h.validShape x h1
  · intro q t hq
    have hold : st.isValid (node name k (q ++ [t])) = true := by
      rcases (hval _).1 hq with h1 | h1 | h1
      · rcases hv with rfl | hv
        · have := node_inj name k h1; simp at this
        · rw [h1]; exact hv
      · exact absurd h1 (node_ne_fk name k _ _)
      · exact h1
    obtain ⟨h1, h2⟩ := h.parentNode q t hold
    exact ⟨(hval _).2 (Or.inr (Or.inr h1)), (hedge _).2 (Or.inl h2)⟩
  · intro q hq
    rcases (hval _).1 hq with h1 | h1 | h1
    · exact absurd h1.symm (node_ne_fk name k _ _)
    · have := fk_inj name k h1; subst this
      exact ⟨(hval _).2 (Or.inl rfl), (hedge _).2 (Or.inr rfl)⟩
    · obtain ⟨h2, h3⟩ := h.parentFk q h1
      exact ⟨(hval _).2 (Or.inr (Or.inr h2)), (hedge _).2 (Or.inl h3)⟩

/-- `_postprocess_result`: the result state `node (p ++ [t])` is derived from the fork and recorded -/
theorem J_advance_call (fixed : Bool) {st : St HT} {cur p : List String} {t : String} (h : J name k st cur)
    (hp : p ++ [t] <+: cur) (hv : st.isValid (fk name k p) = true) :
    J name k (st.advance fixed [⟨(fk name k p).ref, true, []⟩] (node name k (p ++ [t])).ref) cur := by
  have hval := isValid_advance_single fixed st (fk name k p).ref (node name k (p ++ [t])).ref
  simp only [HT.ref] at hval
  have hedge : ∀ e, e ∈ (st.advance fixed [⟨(fk name k p).ref, true, []⟩] (node name k (p ++ [t])).ref).edges ↔
      e ∈ st.edges ∨ e = (fk name k p, node name k (p ++ [t])) := by
    intro e; rw [advance_single]; simp only [mem_addE, HT.ref]
  constructor
  · intro r hr
    rw [advance_single] at hr
    rcases mem_touchRows hr with ⟨r0, hr0, _, hn⟩ | ⟨_, hn⟩
    · rcases mem_touchRows hr0 with ⟨r1, hr1, _, hn1⟩ | ⟨_, hn1⟩
      · rw [← hn, ← hn1]; exact h.rowName r1 hr1
      · rw [← hn, hn1]; exact node_name name k _
    · rw [hn]; exact fk_name name k p
  · intro a b hab
    rcases (hedge (a, b)).1 hab with h1 | h1
    · exact h.edgeShape a b h1
    · simp only [Prod.mk.injEq] at h1; exact Or.inr ⟨p, t, h1.1, h1.2⟩
  · intro x hx
    rcases (hval x).1 hx with rfl | rfl | h1
    · exact ⟨p, (List.prefix_append p [t]).trans hp, Or.inr rfl⟩
    · exact ⟨p ++ [t], hp, Or.inl rfl⟩
    · exact h.validShape x h1
  · intro q t' hq
    rcases (hval _).1 hq with h1 | h1 | h1
    · exact absurd h1 (node_ne_fk name k _ _)
    · obtain ⟨rfl, rfl⟩ := snoc_inj (node_inj name k h1)
      exact ⟨(hval _).2 (Or.inl rfl), (hedge _).2 (Or.inr rfl)⟩
    · obtain ⟨h2, h3⟩ := h.parentNode q t' h1
      exact ⟨(hval _).2 (Or.inr (Or.inr h2)), (hedge _).2 (Or.inl h3)⟩
  · intro q hq
    have hold : st.isValid (fk name k q) = true := by
      rcases (hval _).1 hq with h1 | h1 | h1
      · rw [fk_inj name k h1]; exact hv
      · exact absurd h1.symm (node_ne_fk name k _ _)
      · exact h1
    obtain ⟨h2, h3⟩ := h.parentFk q hold
    exact ⟨(hval _).2 (Or.inr (Or.inr h2)), (hedge _).2 (Or.inl h3)⟩

end ChainInv

section ChainRollback
variable (name k : String)

theorem prefix_eq_of_length_le {p q : List String} (h : p <+: q) (hl : q.length ≤ p.length) : p = q := by
  obtain ⟨s, rfl⟩ := h
  have : s = [] := by
    cases s with
    | nil => rfl
    | cons a s => simp at hl; omega
  simp [this]

/-- every state derived from the fork of `node p` lies strictly below `p` in the trie of task chains -/
theorem desc_shape {st : St HT} {cur : List String} (h : J name k st cur) (p : List String) (y : HT)
    (hd : Desc st.edges (fk name k p) y) :
    ∃ q, p <+: q ∧ p.length < q.length ∧ (y = node name k q ∨ y = fk name k q) := by
  induction hd with
  | edge he =>
    rcases h.edgeShape _ _ he with ⟨p', h1, _⟩ | ⟨p', t, h1, h2⟩
    · exact absurd h1.symm (node_ne_fk name k _ _)
    · have := fk_inj name k h1; subst this
      exact ⟨p ++ [t], List.prefix_append _ _, by simp, Or.inl h2⟩
  | step _ he ih =>
    obtain ⟨q, hq1, hq2, hq3⟩ := ih
    rcases h.edgeShape _ _ he with ⟨p', h1, h2⟩ | ⟨p', t, h1, h2⟩
    · rcases hq3 with rfl | rfl
      · have := node_inj name k h1; subst this
        exact ⟨q, hq1, hq2, Or.inr h2⟩
      · exact absurd h1.symm (node_ne_fk name k _ _)
    · rcases hq3 with rfl | rfl
      · exact absurd h1 (node_ne_fk name k _ _)
      · have := fk_inj name k h1; subst this
        exact ⟨q ++ [t], hq1.trans (List.prefix_append _ _), by simp; omega, Or.inl h2⟩

theorem joined_of_valid (fixed : Bool) {st : St HT} {cur : List String} (h : J name k st cur) {a b : HT}
    (he : (a, b) ∈ st.edges) (ha : st.isValid a = true) : (a, b) ∈ st.joined fixed name := by
  obtain ⟨r, hr, hrh, hrv⟩ := isValid_row ha
  exact mem_joined.2 ⟨he, r, hr, hrh, h.rowName r hr, Or.inr hrv⟩

theorem valid_below_reached_aux (fixed : Bool) {st : St HT} {cur : List String} (h : J name k st cur) (p : List String)
    (rq : List String) :
    (p <+: rq.reverse → p.length < rq.reverse.length → st.isValid (node name k rq.reverse) = true →
      Desc (st.joined fixed name) (fk name k p) (node name k rq.reverse)) ∧
    (p <+: rq.reverse → p.length < rq.reverse.length → st.isValid (fk name k rq.reverse) = true →
      Desc (st.joined fixed name) (fk name k p) (fk name k rq.reverse)) := by
  induction rq with
  | nil => exact ⟨fun _ hl => by simp at hl, fun _ hl => by simp at hl⟩
  | cons t rq ih =>
    rw [List.reverse_cons]
    generalize rq.reverse = q at ih ⊢
    have hnode : p <+: q ++ [t] → p.length < (q ++ [t]).length → st.isValid (node name k (q ++ [t])) = true →
        Desc (st.joined fixed name) (fk name k p) (node name k (q ++ [t])) := by
      intro hpq hl hv
      obtain ⟨hfv, hfe⟩ := h.parentNode q t hv
      have hj := joined_of_valid name k fixed h hfe hfv
      have h1 : p <+: q := List.prefix_of_prefix_length_le hpq (List.prefix_append q [t]) (by simp at hl; omega)
      by_cases hlen : p.length < q.length
      · exact .step (ih.2 h1 hlen hfv) hj
      · have hpq' : p = q := prefix_eq_of_length_le h1 (by omega)
        subst hpq'
        exact .edge hj
    refine ⟨hnode, ?_⟩
    intro hpq hl hv
    obtain ⟨hnv, hne⟩ := h.parentFk (q ++ [t]) hv
    exact .step (hnode hpq hl hnv) (joined_of_valid name k fixed h hne hnv)

/-- every *valid* state strictly below `p` is found by the search from the fork of `node p` — also by the
unrepaired search, because its parents are valid all the way up -/
theorem valid_below_reached (fixed : Bool) {st : St HT} {cur : List String} (h : J name k st cur) (p q : List String)
    (hpq : p <+: q) (hl : p.length < q.length) :
    (st.isValid (node name k q) = true → Desc (st.joined fixed name) (fk name k p) (node name k q)) ∧
    (st.isValid (fk name k q) = true → Desc (st.joined fixed name) (fk name k p) (fk name k q)) := by
  have := valid_below_reached_aux name k fixed h p q.reverse
  rw [List.reverse_reverse] at this
  exact ⟨this.1 hpq hl, this.2 hpq hl⟩

end ChainRollback

section ChainRun
variable (name k : String)

/-- `_perform_rollbacks` on the fork of `node p`: afterwards exactly the valid states at or above `p` remain -/
theorem J_rollback (fixed : Bool) {st : St HT} {cur p : List String} (h : J name k st cur) (hp : p <+: cur)
    (hv : st.isValid (fk name k p) = true) :
    ∃ st', st.rollback fixed (fk name k p).ref = .ok st' ∧ J name k st' p ∧ st'.isValid (fk name k p) = true := by
  obtain ⟨res, hrb, hres⟩ := rollback_spec fixed st (fk name k p).ref
  refine ⟨_, hrb, ?_⟩
  have hname : (fk name k p).ref.name = name := fk_name name k p
  have hhash : (fk name k p).ref.hash = fk name k p := rfl
  rw [hname, hhash] at hres
  have hval : ∀ x, (({ st with rows := st.rows.map fun r => if r.hash ∈ res then { r with valid := false } else r } : St HT)).isValid x = true ↔
      st.isValid x = true ∧ x ∉ res := by
    intro x; simp only [isValid_eq, validIn_map_inv, Bool.and_eq_true, decide_eq_true_eq]
  have hsub : ∀ y, y ∈ res → ∃ q, p <+: q ∧ p.length < q.length ∧ (y = node name k q ∨ y = fk name k q) := by
    intro y hy
    exact desc_shape name k h p y (Desc.mono (fun e he => (mem_joined.1 he).1) ((hres y).1 hy))
  have hfk : fk name k p ∉ res := by
    intro hm
    obtain ⟨q, _, hq2, hq3⟩ := hsub _ hm
    rcases hq3 with h1 | h1
    · exact absurd h1.symm (node_ne_fk name k _ _)
    · have := fk_inj name k h1; subst this; omega
  refine ⟨?_, (hval _).2 ⟨hv, hfk⟩⟩
  constructor
  · intro r hr
    obtain ⟨r0, hr0, rfl⟩ := List.mem_map.1 hr
    have := h.rowName r0 hr0
    split <;> simpa using this
  · exact h.edgeShape
  · intro x hx
    obtain ⟨hx1, hx2⟩ := (hval x).1 hx
    obtain ⟨q, hq, hxq⟩ := h.validShape x hx1
    refine ⟨q, ?_, hxq⟩
    by_cases hl : q.length ≤ p.length
    · exact List.prefix_of_prefix_length_le hq hp hl
    · exfalso
      have hpq : p <+: q := List.prefix_of_prefix_length_le hp hq (by omega)
      have hr := valid_below_reached name k fixed h p q hpq (by omega)
      rcases hxq with rfl | rfl
      · exact hx2 ((hres _).2 (hr.1 hx1))
      · exact hx2 ((hres _).2 (hr.2 hx1))
  · intro q t hq
    obtain ⟨hq1, hq2⟩ := (hval _).1 hq
    obtain ⟨h1, h2⟩ := h.parentNode q t hq1
    refine ⟨(hval _).2 ⟨h1, ?_⟩, h2⟩
    intro hm
    exact hq2 ((hres _).2 (.step ((hres _).1 hm) (joined_of_valid name k fixed h h2 h1)))
  · intro q hq
    obtain ⟨hq1, hq2⟩ := (hval _).1 hq
    obtain ⟨h1, h2⟩ := h.parentFk q hq1
    refine ⟨(hval _).2 ⟨h1, ?_⟩, h2⟩
    intro hm
    exact hq2 ((hres _).2 (.step ((hres _).1 hm) (joined_of_valid name k fixed h h2 h1)))

/-- one job of the chain keeps the invariant, returns `node (p ++ [t])`, valid, and the external system reflects
the chain up to and including this task -/
theorem runTask_spec (fixed : Bool) (w : WSt) (p : List String) (t : String) (h : J name k w.st w.ext)
    (hp : p <+: w.ext) (hv : p = [] ∨ w.st.isValid (node name k p) = true) :
    ∃ w' ran, runTask fixed k w p.length t (node name k p) = .ok (w', node name k (p ++ [t]), ran) ∧
      J name k w'.st w'.ext ∧ p ++ [t] <+: w'.ext ∧ w'.st.isValid (node name k (p ++ [t])) = true := by
  have h1 := J_advance_fork name k fixed h hp hv
  have hfv : (w.st.advance fixed [⟨(node name k p).ref, true, []⟩] (fk name k p).ref).isValid (fk name k p) = true :=
    (isValid_advance_single fixed _ _ _ _).2 (Or.inr (Or.inl rfl))
  unfold runTask
  simp only
  have hfk : HT.fork (node name k p) k = fk name k p := rfl
  rw [hfk, ← node_snoc name k p t]
  split
  · next hhit =>
    refine ⟨_, false, rfl, h1, ?_, hhit.2⟩
    obtain ⟨q, hq, hx⟩ := h1.validShape _ hhit.2
    rcases hx with hx | hx
    · rw [node_inj name k hx]; exact hq
    · exact absurd hx (node_ne_fk name k _ _)
  · obtain ⟨st2, hrb, hj2, hv2⟩ := J_rollback name k fixed h1 hp hfv
    rw [hrb]
    simp only
    have hext : w.ext.take p.length ++ [t] = p ++ [t] := by
      rw [← List.prefix_iff_eq_take.1 hp]
    have hj3 := J_advance_call name k fixed (t := t) (hj2.weaken name k (List.prefix_append p [t])) (List.prefix_refl _) hv2
    refine ⟨_, true, rfl, ?_, ?_, ?_⟩
    · simp only [hext]; exact hj3
    · simp only [hext]; exact List.prefix_refl _
    · exact (isValid_advance_single fixed _ _ _ _).2 (Or.inr (Or.inl rfl))

theorem runChain_spec (fixed : Bool) (ts : List String) (w : WSt) (p : List String) (ran : List String)
    (h : J name k w.st w.ext) (hp : p <+: w.ext) (hv : p = [] ∨ w.st.isValid (node name k p) = true) :
    ∃ w' ran', runChain fixed k w p.length ts (node name k p) ran = .ok (w', node name k (p ++ ts), ran') ∧
      J name k w'.st w'.ext ∧ p ++ ts <+: w'.ext ∧ (p ++ ts = [] ∨ w'.st.isValid (node name k (p ++ ts)) = true) := by
  induction ts generalizing w p ran with
  | nil => exact ⟨w, ran, by simp [runChain], h, by simpa using hp, by simpa using hv⟩
  | cons t ts ih =>
    obtain ⟨w1, didRun, hrt, hj1, hp1, hv1⟩ := runTask_spec name k fixed w p t h hp hv
    obtain ⟨w2, ran2, hrc, hj2, hp2, hv2⟩ := ih w1 (p ++ [t]) (if didRun then ran ++ [t] else ran) hj1 hp1 (Or.inr hv1)
    refine ⟨w2, ran2, ?_, hj2, by simpa using hp2, by simpa using hv2⟩
    simp only [runChain, hrt]
    have : (p ++ [t]).length = p.length + 1 := by simp
    rw [this] at hrc
    simpa using hrc

/-- invariant of a whole history of executions -/
theorem runWorkflows_spec (fixed : Bool) (name : String) (runs : List (List String)) (w : WSt)
    (h : J name "1" w.st w.ext) : ∃ w', runWorkflows fixed name w runs = .ok w' ∧ J name "1" w'.st w'.ext := by
  induction runs generalizing w with
  | nil => exact ⟨w, rfl, h⟩
  | cons ts rest ih =>
    obtain ⟨w1, ran, hrc, hj1, _, _⟩ := runChain_spec name "1" fixed ts w [] [] h (List.nil_prefix) (Or.inl rfl)
    obtain ⟨w2, h2, hj2⟩ := ih w1 hj1
    refine ⟨w2, ?_, hj2⟩
    simp only [runWorkflows, runWorkflow]
    simp only [List.length_nil, node_nil, List.nil_append] at hrc
    rw [hrc]; exact h2

end ChainRun

/-! ### process death between the start of a task and the next commit -/
section Crash
variable (name k : String)

/-- in the code's order nothing is pending when the task function is entered, however many handle states the job
received -/
theorem enterTask_early_durable (fixed : Bool) (d d' : DB) (fs : List (HRef HT)) (h : enterTask fixed true d fs = .ok d') :
    d'.ses = d'.dur := by
  unfold enterTask at h
  simp only [if_true] at h
  cases hr : d.rollbackAll fixed fs with
  | error e => simp [hr] at h
  | ok s => simp [hr] at h; subst h; rfl

theorem joined_true_map_inv (st : St HT) (res : List HT) (nm : String) (e : HT × HT) :
    e ∈ ({ st with rows := st.rows.map fun r => if r.hash ∈ res then { r with valid := false } else r } : St HT).joined true nm ↔
      e ∈ st.joined true nm := by
  simp only [mem_joined]
  constructor
  · rintro ⟨he, r, hr, h1, h2, _⟩
    obtain ⟨r0, hr0, rfl⟩ := List.mem_map.1 hr
    refine ⟨he, r0, hr0, ?_, ?_, Or.inl trivial⟩
    · revert h1; split <;> simp
    · revert h2; split <;> simp
  · rintro ⟨he, r, hr, h1, h2, _⟩
    refine ⟨he, _, List.mem_map.2 ⟨r, hr, rfl⟩, ?_, ?_, Or.inl trivial⟩
    · split <;> simpa using h1
    · split <;> simpa using h2

/-- `_perform_rollbacks` (repaired backend): after it, for EVERY handle state among the arguments, everything derived
from that state is invalid — two states of one handle name are rolled back separately -/
theorem rollbackAll_invalidates (fs : List (HRef HT)) (d d' : DB) (h : d.rollbackAll true fs = .ok d') :
    ∀ f ∈ fs, ∀ y, Desc (d.ses.joined true f.name) f.hash y → d'.ses.isValid y = false := by
  induction fs generalizing d with
  | nil => simp
  | cons f fs ih =>
    obtain ⟨res, hrb, hres⟩ := rollback_spec true d.ses f
    simp only [DB.rollbackAll, DB.rollback, hrb] at h
    have mono : ∀ (gs : List (HRef HT)) (a b : DB), a.rollbackAll true gs = .ok b → ∀ y, a.ses.isValid y = false →
        b.ses.isValid y = false := by
      intro gs
      induction gs with
      | nil => intro a b hab y hy; simp only [DB.rollbackAll, Except.ok.injEq] at hab; subst hab; exact hy
      | cons g gs ihg =>
        intro a b hab y hy
        obtain ⟨r2, hrb2, _⟩ := rollback_spec true a.ses g
        simp only [DB.rollbackAll, DB.rollback, hrb2] at hab
        refine ihg _ b hab y ?_
        simp only [isValid_eq, validIn_map_inv]
        rw [← isValid_eq, hy]; rfl
    intro g hg y hy
    rcases List.mem_cons.1 hg with rfl | hg
    · refine mono fs _ d' h y ?_
      simp only [isValid_eq, validIn_map_inv, (hres y).2 hy]
      simp
    · refine ih _ h g hg y ?_
      exact Desc.mono (fun e he => (joined_true_map_inv d.ses res g.name e).2 he) hy

theorem crashTask_spec (fixed : Bool) (w : WSt) (p : List String) (t : String) (h : J name k w.st w.ext)
    (hp : p <+: w.ext) (hv : p = [] ∨ w.st.isValid (node name k p) = true) :
    ∃ w' started, crashTask fixed true k w p.length t (node name k p) = .ok (w', started) ∧
      J name k w'.st w'.ext ∧
      (started = false → p ++ [t] <+: w'.ext ∧ w'.st.isValid (node name k (p ++ [t])) = true) := by
  have h1 := J_advance_fork name k fixed h hp hv
  have hfv : (w.st.advance fixed [⟨(node name k p).ref, true, []⟩] (fk name k p).ref).isValid (fk name k p) = true :=
    (isValid_advance_single fixed _ _ _ _).2 (Or.inr (Or.inl rfl))
  have hd1 : DB.advance fixed ⟨w.st, w.st⟩ [⟨(node name k p).ref, true, []⟩] (fk name k p).ref =
      ⟨w.st.advance fixed [⟨(node name k p).ref, true, []⟩] (fk name k p).ref,
       w.st.advance fixed [⟨(node name k p).ref, true, []⟩] (fk name k p).ref⟩ := rfl
  unfold crashTask
  simp only
  have hfk : HT.fork (node name k p) k = fk name k p := rfl
  rw [hfk, ← node_snoc name k p t, hd1]
  split
  · next hhit =>
    refine ⟨_, false, rfl, h1, fun _ => ⟨?_, hhit.2⟩⟩
    obtain ⟨q, hq, hx⟩ := h1.validShape _ hhit.2
    rcases hx with hx | hx
    · rw [node_inj name k hx]; exact hq
    · exact absurd hx (node_ne_fk name k _ _)
  · obtain ⟨st2, hrb, hj2, _⟩ := J_rollback name k fixed h1 hp hfv
    simp only [enterTask, DB.rollbackAll, DB.rollback, if_true, hrb, DB.commit, DB.crash]
    have hext : w.ext.take p.length ++ [t] = p ++ [t] := by
      rw [← List.prefix_iff_eq_take.1 hp]
    refine ⟨_, true, rfl, ?_, fun h => by simp at h⟩
    simp only [hext]
    exact hj2.weaken name k (List.prefix_append p [t])

theorem runChainCrash_spec (fixed : Bool) (ts : List String) (w : WSt) (p : List String) (cd : Nat)
    (h : J name k w.st w.ext) (hp : p <+: w.ext) (hv : p = [] ∨ w.st.isValid (node name k p) = true) :
    ∃ w', runChainCrash fixed true k w p.length ts (node name k p) cd = .ok w' ∧ J name k w'.st w'.ext := by
  induction ts generalizing w p cd with
  | nil => exact ⟨w, by simp [runChainCrash], h⟩
  | cons t ts ih =>
    cases cd with
    | zero =>
      obtain ⟨w1, started, hc, hj1, hcont⟩ := crashTask_spec name k fixed w p t h hp hv
      cases started with
      | true => exact ⟨w1, by simp only [runChainCrash, hc], hj1⟩
      | false =>
        obtain ⟨hp1, hv1⟩ := hcont rfl
        obtain ⟨w2, ran, hrc, hj2, _, _⟩ := runChain_spec name k fixed ts w1 (p ++ [t]) [] hj1 hp1 (Or.inr hv1)
        refine ⟨w2, ?_, hj2⟩
        have hl : (p ++ [t]).length = p.length + 1 := by simp
        rw [hl, node_snoc] at hrc
        simp only [runChainCrash, hc]
        have hfk : HT.fork (node name k p) k = fk name k p := rfl
        rw [hfk, hrc]
    | succ cd =>
      obtain ⟨w1, didRun, hrt, hj1, hp1, hv1⟩ := runTask_spec name k fixed w p t h hp hv
      obtain ⟨w2, hrc, hj2⟩ := ih w1 (p ++ [t]) cd hj1 hp1 (Or.inr hv1)
      refine ⟨w2, ?_, hj2⟩
      have hl : (p ++ [t]).length = p.length + 1 := by simp
      rw [hl] at hrc
      simp only [runChainCrash, hrt]
      exact hrc

end Crash

theorem runExecs_spec (fixed : Bool) (name : String) (execs : List Exec) (w : WSt) (h : J name "1" w.st w.ext) :
    ∃ w', runExecs fixed true name w execs = .ok w' ∧ J name "1" w'.st w'.ext := by
  induction execs generalizing w with
  | nil => exact ⟨w, rfl, h⟩
  | cons e rest ih =>
    cases e with
    | ok ts =>
      obtain ⟨w1, ran, hrc, hj1, _, _⟩ := runChain_spec name "1" fixed ts w [] [] h List.nil_prefix (Or.inl rfl)
      simp only [List.length_nil, node_nil, List.nil_append] at hrc
      obtain ⟨w2, h2, hj2⟩ := ih w1 hj1
      exact ⟨w2, by simp only [runExecs, runWorkflow, hrc]; exact h2, hj2⟩
    | killed ts cd =>
      obtain ⟨w1, hrc, hj1⟩ := runChainCrash_spec name "1" fixed ts w [] cd h List.nil_prefix (Or.inl rfl)
      simp only [List.length_nil, node_nil] at hrc
      obtain ⟨w2, h2, hj2⟩ := ih w1 hj1
      exact ⟨w2, by simp only [runExecs, hrc]; exact h2, hj2⟩

end RedunModel.Handles
