/-
Lemmas about the value-hash model (`RedunModel.Model.ValueHash`).
-/
import RedunModel.Model.ValueHash
namespace RedunModel.ValueHash

/-- Induction over values with the natural hypothesis for the child lists. -/
theorem V.ind {motive : V → Prop}
    (none : motive .none) (bool : ∀ b, motive (.bool b)) (int : ∀ z, motive (.int z))
    (float : ∀ b, motive (.float b))
    (str : ∀ s, motive (.str s)) (bytes : ∀ s, motive (.bytes s))
    (list : ∀ xs, (∀ x ∈ xs, motive x) → motive (.list xs))
    (tuple : ∀ xs, (∀ x ∈ xs, motive x) → motive (.tuple xs))
    (dict : ∀ ks vs, (∀ x ∈ ks, motive x) → (∀ x ∈ vs, motive x) → motive (.dict ks vs))
    (set : ∀ xs, (∀ x ∈ xs, motive x) → motive (.set xs))
    (fset : ∀ xs, (∀ x ∈ xs, motive x) → motive (.fset xs))
    (obj : ∀ c xs, (∀ x ∈ xs, motive x) → motive (.obj c xs))
    (sub : ∀ c b, motive b → motive (.sub c b))
    (v : V) : motive v :=
  V.rec (motive_1 := motive) (motive_2 := fun xs => ∀ x ∈ xs, motive x)
    none bool int float str bytes list tuple dict set fset obj sub
    (by intro x hx; cases hx)
    (by
      intro h t ih iht x hx
      cases hx with
      | head => exact ih
      | tail _ hm => exact iht x hm)
    v

theorem SetFrees_iff (xs : List V) : SetFrees xs ↔ ∀ x ∈ xs, SetFree x := by
  induction xs with
  | nil => simp [SetFrees]
  | cons x xs ih => simp [SetFrees, ih]

/-! ### a value without sets has exactly one layout -/
theorem sims_eq {xs ys : List V} (ih : ∀ x ∈ xs, ∀ b, SetFree x → Sim x b → x = b)
    (hf : ∀ x ∈ xs, SetFree x) (h : Sims xs ys) : xs = ys := by
  induction xs generalizing ys with
  | nil => cases h; rfl
  | cons x xs ihx =>
    cases h with
    | cons hxy hrest =>
      rw [ih x (by simp) _ (hf x (by simp)) hxy,
        ihx (fun z hz => ih z (by simp [hz])) (fun z hz => hf z (by simp [hz])) hrest]

theorem sim_eq_of_setFree (a b : V) (hf : SetFree a) (h : Sim a b) : a = b := by
  induction a using V.ind generalizing b with
  | none => cases h; rfl
  | bool _ => cases h; rfl
  | int _ => cases h; rfl
  | float _ => cases h; rfl
  | str _ => cases h; rfl
  | bytes _ => cases h; rfl
  | list xs ih => cases h with | list hs => rw [sims_eq ih ((SetFrees_iff xs).1 hf) hs]
  | tuple xs ih => cases h with | tuple hs => rw [sims_eq ih ((SetFrees_iff xs).1 hf) hs]
  | dict ks vs ihk ihv =>
    cases h with
    | dict hk hv => rw [sims_eq ihk ((SetFrees_iff ks).1 hf.1) hk, sims_eq ihv ((SetFrees_iff vs).1 hf.2) hv]
  | set xs ih => exact absurd hf (by simp [SetFree])
  | fset xs ih => exact absurd hf (by simp [SetFree])
  | obj c xs ih => cases h with | obj _ hs => rw [sims_eq ih ((SetFrees_iff xs).1 hf) hs]
  | sub c b ih => cases h with | sub _ hs => rw [ih _ hf hs]

theorem Rigids_iff (xs : List V) : Rigids xs ↔ ∀ x ∈ xs, Rigid x := by
  induction xs with
  | nil => simp [Rigids]
  | cons x xs ih => simp [Rigids, ih]

theorem sims_eq' {xs ys : List V} (ih : ∀ x ∈ xs, ∀ b, Rigid x → Sim x b → x = b)
    (hf : ∀ x ∈ xs, Rigid x) (h : Sims xs ys) : xs = ys := by
  induction xs generalizing ys with
  | nil => cases h; rfl
  | cons x xs ihx =>
    cases h with
    | cons hxy hrest =>
      rw [ih x (by simp) _ (hf x (by simp)) hxy,
        ihx (fun z hz => ih z (by simp [hz])) (fun z hz => hf z (by simp [hz])) hrest]

theorem perm_eq_of_length_le_one {xs zs : List V} (h : xs.length ≤ 1) (p : xs.Perm zs) : xs = zs := by
  match xs, h with
  | [], _ => exact (List.perm_nil.1 p.symm).symm
  | [x], _ => exact (List.perm_singleton.1 p.symm).symm

/-- sets with at most one element are as good as no sets: still exactly one layout -/
theorem sim_eq_of_rigid (a b : V) (hf : Rigid a) (h : Sim a b) : a = b := by
  induction a using V.ind generalizing b with
  | none => cases h; rfl
  | bool _ => cases h; rfl
  | int _ => cases h; rfl
  | float _ => cases h; rfl
  | str _ => cases h; rfl
  | bytes _ => cases h; rfl
  | list xs ih => cases h with | list hs => rw [sims_eq' ih ((Rigids_iff xs).1 hf) hs]
  | tuple xs ih => cases h with | tuple hs => rw [sims_eq' ih ((Rigids_iff xs).1 hf) hs]
  | dict ks vs ihk ihv =>
    cases h with
    | dict hk hv => rw [sims_eq' ihk ((Rigids_iff ks).1 hf.1) hk, sims_eq' ihv ((Rigids_iff vs).1 hf.2) hv]
  | set xs ih =>
    cases h with
    | set hp hs =>
      have := perm_eq_of_length_le_one hf.1 hp
      subst this
      rw [sims_eq' ih ((Rigids_iff xs).1 hf.2) hs]
  | fset xs ih =>
    cases h with
    | fset hp hs =>
      have := perm_eq_of_length_le_one hf.1 hp
      subst this
      rw [sims_eq' ih ((Rigids_iff xs).1 hf.2) hs]
  | obj c xs ih => cases h with | obj _ hs => rw [sims_eq' ih ((Rigids_iff xs).1 hf) hs]
  | sub c b ih => cases h with | sub _ hs => rw [ih _ hf hs]

/-! ### `Sim` is reflexive -/
theorem sims_refl_of {xs : List V} (ih : ∀ x ∈ xs, Sim x x) : Sims xs xs := by
  induction xs with
  | nil => exact .nil
  | cons x xs ihx => exact .cons (ih x (by simp)) (ihx (fun z hz => ih z (by simp [hz])))

theorem sim_refl (a : V) : Sim a a := by
  induction a using V.ind with
  | none => exact .none
  | bool b => exact .bool b
  | int z => exact .int z
  | float b => exact .float b
  | str s => exact .str s
  | bytes s => exact .bytes s
  | list xs ih => exact .list (sims_refl_of ih)
  | tuple xs ih => exact .tuple (sims_refl_of ih)
  | dict ks vs ihk ihv => exact .dict (sims_refl_of ihk) (sims_refl_of ihv)
  | set xs ih => exact .set (List.Perm.refl _) (sims_refl_of ih)
  | fset xs ih => exact .fset (List.Perm.refl _) (sims_refl_of ih)
  | obj c xs ih => exact .obj c (sims_refl_of ih)
  | sub c b ih => exact .sub c ih

/-- a permutation of the elements of a set is the same value -/
theorem sim_set_of_perm {xs ys : List V} (h : xs.Perm ys) : Sim (.set xs) (.set ys) :=
  .set h (sims_refl_of (fun x _ => sim_refl x))
theorem sim_fset_of_perm {xs ys : List V} (h : xs.Perm ys) : Sim (.fset xs) (.fset ys) :=
  .fset h (sims_refl_of (fun x _ => sim_refl x))

/-! ### `Sim` is an equivalence relation -/

/-- a permutation of the right-hand list can be followed on the left-hand list -/
theorem sims_perm_follow {bs cs : List V} (p : bs.Perm cs) :
    ∀ {as : List V}, Sims as bs → ∃ as', as.Perm as' ∧ Sims as' cs := by
  induction p with
  | nil => intro as h; exact ⟨as, List.Perm.refl _, h⟩
  | cons x _ ih =>
    intro as h
    cases h with
    | cons hxy hrest =>
      obtain ⟨as', hp, hs⟩ := ih hrest
      exact ⟨_ :: as', List.Perm.cons _ hp, .cons hxy hs⟩
  | swap x y l =>
    intro as h
    cases h with
    | cons h1 hrest =>
      cases hrest with
      | cons h2 hrest2 => exact ⟨_, List.Perm.swap _ _ _, .cons h2 (.cons h1 hrest2)⟩
  | trans _ _ ih1 ih2 =>
    intro as h
    obtain ⟨as1, hp1, hs1⟩ := ih1 h
    obtain ⟨as2, hp2, hs2⟩ := ih2 hs1
    exact ⟨as2, hp1.trans hp2, hs2⟩

theorem sims_mem_left {xs ys : List V} (h : Sims xs ys) : ∀ y ∈ ys, ∃ x ∈ xs, Sim x y := by
  induction xs generalizing ys with
  | nil => cases h; intro y hy; cases hy
  | cons x xs ih =>
    cases h with
    | cons hxy hrest =>
      intro y hy
      rcases List.mem_cons.1 hy with rfl | hy'
      · exact ⟨x, by simp, hxy⟩
      · obtain ⟨x', hx', hs⟩ := ih hrest y hy'
        exact ⟨x', by simp [hx'], hs⟩

theorem sims_symm_of {xs ys : List V} (ih : ∀ x ∈ xs, ∀ b, Sim x b → Sim b x) (h : Sims xs ys) : Sims ys xs := by
  induction xs generalizing ys with
  | nil => cases h; exact .nil
  | cons x xs ihx =>
    cases h with
    | cons hxy hrest => exact .cons (ih x (by simp) _ hxy) (ihx (fun z hz => ih z (by simp [hz])) hrest)

theorem sim_symm (a b : V) (h : Sim a b) : Sim b a := by
  induction a using V.ind generalizing b with
  | none => cases h; exact .none
  | bool _ => cases h; exact .bool _
  | int _ => cases h; exact .int _
  | float _ => cases h; exact .float _
  | str _ => cases h; exact .str _
  | bytes _ => cases h; exact .bytes _
  | list xs ih => cases h with | list hs => exact .list (sims_symm_of ih hs)
  | tuple xs ih => cases h with | tuple hs => exact .tuple (sims_symm_of ih hs)
  | dict ks vs ihk ihv => cases h with | dict hk hv => exact .dict (sims_symm_of ihk hk) (sims_symm_of ihv hv)
  | set xs ih =>
    cases h with
    | set hp hs =>
      have hs' := sims_symm_of (fun z hz => ih z (hp.mem_iff.2 hz)) hs
      obtain ⟨w, hpw, hsw⟩ := sims_perm_follow hp.symm hs'
      exact .set hpw hsw
  | fset xs ih =>
    cases h with
    | fset hp hs =>
      have hs' := sims_symm_of (fun z hz => ih z (hp.mem_iff.2 hz)) hs
      obtain ⟨w, hpw, hsw⟩ := sims_perm_follow hp.symm hs'
      exact .fset hpw hsw
  | obj c xs ih => cases h with | obj _ hs => exact .obj c (sims_symm_of ih hs)
  | sub c b ih => cases h with | sub _ hs => exact .sub c (ih _ hs)

theorem sims_trans_of {xs ys zs : List V} (ih : ∀ x ∈ xs, ∀ b c, Sim x b → Sim b c → Sim x c)
    (h1 : Sims xs ys) (h2 : Sims ys zs) : Sims xs zs := by
  induction xs generalizing ys zs with
  | nil => cases h1; cases h2; exact .nil
  | cons x xs ihx =>
    cases h1 with
    | cons hxy hrest =>
      cases h2 with
      | cons hyz hrest2 =>
        exact .cons (ih x (by simp) _ _ hxy hyz) (ihx (fun z hz => ih z (by simp [hz])) hrest hrest2)

theorem sim_trans (a b c : V) (h1 : Sim a b) (h2 : Sim b c) : Sim a c := by
  induction a using V.ind generalizing b c with
  | none => cases h1; exact h2
  | bool _ => cases h1; exact h2
  | int _ => cases h1; exact h2
  | float _ => cases h1; exact h2
  | str _ => cases h1; exact h2
  | bytes _ => cases h1; exact h2
  | list xs ih => cases h1 with | list hs => cases h2 with | list hs2 => exact .list (sims_trans_of ih hs hs2)
  | tuple xs ih => cases h1 with | tuple hs => cases h2 with | tuple hs2 => exact .tuple (sims_trans_of ih hs hs2)
  | dict ks vs ihk ihv =>
    cases h1 with
    | dict hk hv => cases h2 with
      | dict hk2 hv2 => exact .dict (sims_trans_of ihk hk hk2) (sims_trans_of ihv hv hv2)
  | set xs ih =>
    cases h1 with
    | set hp hs =>
      cases h2 with
      | set hp2 hs2 =>
        obtain ⟨w, hpw, hsw⟩ := sims_perm_follow hp2 hs
        exact .set (hp.trans hpw) (sims_trans_of (fun z hz => ih z ((hp.trans hpw).mem_iff.2 hz)) hsw hs2)
  | fset xs ih =>
    cases h1 with
    | fset hp hs =>
      cases h2 with
      | fset hp2 hs2 =>
        obtain ⟨w, hpw, hsw⟩ := sims_perm_follow hp2 hs
        exact .fset (hp.trans hpw) (sims_trans_of (fun z hz => ih z ((hp.trans hpw).mem_iff.2 hz)) hsw hs2)
  | obj c xs ih => cases h1 with | obj _ hs => cases h2 with | obj _ hs2 => exact .obj c (sims_trans_of ih hs hs2)
  | sub c b ih => cases h1 with | sub _ hs => cases h2 with | sub _ hs2 => exact .sub c (ih _ _ hs hs2)

/-! ### insertion sort on a strict total order does not depend on the input order -/
section sort
variable (lt : V → V → Bool)

theorem insertBy_perm (x : V) (l : List V) : (insertBy lt x l).Perm (x :: l) := by
  induction l with
  | nil => simp [insertBy]
  | cons y ys ih =>
    simp only [insertBy]
    split
    · exact List.Perm.refl _
    · exact (List.Perm.cons y ih).trans (List.Perm.swap x y ys)

theorem isort_perm (l : List V) : (isort lt l).Perm l := by
  induction l with
  | nil => simp [isort]
  | cons x xs ih => exact (insertBy_perm lt x _).trans (List.Perm.cons x ih)

/-- `lt` is a strict total order on the members of `l`. -/
structure StrictTotalOn (l : List V) : Prop where
  asymm : ∀ a ∈ l, ∀ b ∈ l, lt a b = true → lt b a = false
  trans : ∀ a ∈ l, ∀ b ∈ l, ∀ c ∈ l, lt a b = true → lt b c = true → lt a c = true
  connected : ∀ a ∈ l, ∀ b ∈ l, lt a b = false → lt b a = false → a = b

theorem StrictTotalOn.of_perm {l l' : List V} (h : l.Perm l') (s : StrictTotalOn lt l) : StrictTotalOn lt l' where
  asymm a ha b hb := s.asymm a (h.mem_iff.2 ha) b (h.mem_iff.2 hb)
  trans a ha b hb c hc := s.trans a (h.mem_iff.2 ha) b (h.mem_iff.2 hb) c (h.mem_iff.2 hc)
  connected a ha b hb := s.connected a (h.mem_iff.2 ha) b (h.mem_iff.2 hb)

/-- sortedness: no later element is smaller than an earlier one -/
def Sorted (l : List V) : Prop := l.Pairwise (fun a b => lt b a = false)

theorem insertBy_sorted {x : V} {l : List V} (s : StrictTotalOn lt (x :: l)) (hl : Sorted lt l) :
    Sorted lt (insertBy lt x l) := by
  induction l with
  | nil => simp [insertBy, Sorted]
  | cons y ys ih =>
    have hy : y ∈ x :: y :: ys := by simp
    have hx : x ∈ x :: y :: ys := by simp
    simp only [insertBy]
    have hl' := List.pairwise_cons.1 hl
    split
    · rename_i hxy
      refine List.pairwise_cons.2 ⟨?_, hl⟩
      intro z hz
      rcases List.mem_cons.1 hz with rfl | hz'
      · exact s.asymm x hx z hy hxy
      · -- z after y: lt z x would give lt z y by transitivity
        have hzm : z ∈ x :: y :: ys := by simp [hz']
        cases hzx : lt z x with
        | false => rfl
        | true =>
          have := s.trans z hzm x hx y hy hzx hxy
          rw [hl'.1 z hz'] at this
          cases this
    · rename_i hxy
      have hxy' : lt x y = false := by simpa using hxy
      have s' : StrictTotalOn lt (x :: ys) :=
        { asymm := fun a ha b hb => s.asymm a (by rcases List.mem_cons.1 ha with rfl | h <;> simp [*]) b
            (by rcases List.mem_cons.1 hb with rfl | h <;> simp [*])
          trans := fun a ha b hb c hc => s.trans a (by rcases List.mem_cons.1 ha with rfl | h <;> simp [*]) b
            (by rcases List.mem_cons.1 hb with rfl | h <;> simp [*]) c (by rcases List.mem_cons.1 hc with rfl | h <;> simp [*])
          connected := fun a ha b hb => s.connected a (by rcases List.mem_cons.1 ha with rfl | h <;> simp [*]) b
            (by rcases List.mem_cons.1 hb with rfl | h <;> simp [*]) }
      refine List.pairwise_cons.2 ⟨?_, ih s' hl'.2⟩
      intro z hz
      rcases List.mem_cons.1 ((insertBy_perm lt x ys).mem_iff.1 hz) with rfl | hz'
      · exact hxy'
      · exact hl'.1 z hz'

theorem isort_sorted {l : List V} (s : StrictTotalOn lt l) : Sorted lt (isort lt l) := by
  induction l with
  | nil => simp [isort, Sorted]
  | cons x xs ih =>
    have sxs : StrictTotalOn lt xs :=
      { asymm := fun a ha b hb => s.asymm a (by simp [ha]) b (by simp [hb])
        trans := fun a ha b hb c hc => s.trans a (by simp [ha]) b (by simp [hb]) c (by simp [hc])
        connected := fun a ha b hb => s.connected a (by simp [ha]) b (by simp [hb]) }
    exact insertBy_sorted lt (StrictTotalOn.of_perm lt (List.Perm.cons x (isort_perm lt xs).symm) s) (ih sxs)

/-- Two permutations of the same elements sort to the same list. -/
theorem isort_eq_of_perm {l l' : List V} (h : l.Perm l') (s : StrictTotalOn lt l) : isort lt l = isort lt l' := by
  have s' := StrictTotalOn.of_perm lt h s
  have p : (isort lt l).Perm (isort lt l') := (isort_perm lt l).trans (h.trans (isort_perm lt l').symm)
  refine List.Perm.eq_of_pairwise (le := fun a b => lt b a = false) ?_ (isort_sorted lt s) (isort_sorted lt s') p
  intro a b ha hb hab hba
  exact s.connected a ((isort_perm lt l).mem_iff.1 ha) b (h.mem_iff.2 ((isort_perm lt l').mem_iff.1 hb)) hba hab

end sort

end RedunModel.ValueHash
