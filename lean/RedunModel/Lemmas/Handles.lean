/-
Lemmas for `RedunModel.Model.Handles`: `rollback_handle`'s search (termination within the fuel, result =
descendants in the joined relation), the effect of `advance_handle` on validity, the refinement of the
reference lineage model by the repaired backend, and the agreement of the unrepaired rollback with the repaired
one on ancestor-closed states.  Property theorems are in `RedunModel.Props.C25`.
-/
import RedunModel.Model.Handles
namespace RedunModel.Handles

set_option linter.unusedSectionVars false
variable {H : Type} [DecidableEq H]

/-- reflexive-transitive closure of an edge list -/
inductive Reach (E : List (H × H)) : H → H → Prop where
  | refl (a : H) : Reach E a a
  | step {a b c : H} : Reach E a b → (b, c) ∈ E → Reach E a c

theorem Reach.head {E : List (H × H)} {a b c : H} (h : (a, b) ∈ E) (r : Reach E b c) : Reach E a c := by
  induction r with
  | refl => exact .step (.refl a) h
  | step _ h2 ih => exact .step ih h2

theorem mem_childrenIn {pairs : List (H × H)} {x c : H} : c ∈ childrenIn pairs x ↔ (x, c) ∈ pairs := by
  unfold childrenIn
  simp only [List.mem_map, List.mem_filter, decide_eq_true_eq]
  constructor
  · rintro ⟨⟨a, b⟩, ⟨hm, rfl⟩, rfl⟩; exact hm
  · intro h; exact ⟨(x, c), ⟨h, rfl⟩, rfl⟩

theorem desc_iff_reach {E : List (H × H)} {a y : H} : Desc E a y ↔ ∃ c, (a, c) ∈ E ∧ Reach E c y := by
  constructor
  · intro h
    induction h with
    | edge h => exact ⟨_, h, .refl _⟩
    | step _ h2 ih => obtain ⟨c, hc, hr⟩ := ih; exact ⟨c, hc, .step hr h2⟩
  · rintro ⟨c, hc, hr⟩
    induction hr with
    | refl => exact .edge hc
    | step _ h2 ih => exact .step ih h2

/-- every vertex of the result is a visited one or reachable from the queue -/
theorem dfs_sound (pairs : List (H × H)) (f : Nat) (q vis res : List H) (h : dfs pairs f q vis = some res) :
    ∀ y ∈ res, y ∈ vis ∨ ∃ c ∈ q, Reach pairs c y := by
  induction f generalizing q vis with
  | zero => simp [dfs] at h
  | succ f ih =>
    cases q with
    | nil => simp only [dfs, Option.some.injEq] at h; subst h; intro y hy; exact Or.inl hy
    | cons x q =>
      simp only [dfs] at h
      split at h
      · intro y hy
        rcases ih q vis h y hy with h1 | ⟨c, hc, hr⟩
        · exact Or.inl h1
        · exact Or.inr ⟨c, List.mem_cons_of_mem _ hc, hr⟩
      · intro y hy
        rcases ih _ _ h y hy with h1 | ⟨c, hc, hr⟩
        · rcases List.mem_cons.1 h1 with rfl | h1
          · exact Or.inr ⟨y, by simp, .refl _⟩
          · exact Or.inl h1
        · rcases List.mem_append.1 hc with h2 | h2
          · have : (x, c) ∈ pairs := mem_childrenIn.1 (List.mem_reverse.1 h2)
            exact Or.inr ⟨x, by simp, Reach.head this hr⟩
          · exact Or.inr ⟨c, List.mem_cons_of_mem _ h2, hr⟩

/-- the result contains the visited set and the queue and is closed under the edges, provided every edge out of
a visited vertex leads to a visited or queued one -/
theorem dfs_closed (pairs : List (H × H)) (f : Nat) (q vis res : List H) (h : dfs pairs f q vis = some res)
    (hinv : ∀ x ∈ vis, ∀ c, (x, c) ∈ pairs → c ∈ vis ∨ c ∈ q) :
    (∀ x ∈ vis, x ∈ res) ∧ (∀ x ∈ q, x ∈ res) ∧ ∀ x ∈ res, ∀ c, (x, c) ∈ pairs → c ∈ res := by
  induction f generalizing q vis with
  | zero => simp [dfs] at h
  | succ f ih =>
    cases q with
    | nil =>
      simp only [dfs, Option.some.injEq] at h; subst h
      refine ⟨fun x hx => hx, by simp, ?_⟩
      intro x hx c hc
      rcases hinv x hx c hc with h1 | h1
      · exact h1
      · simp at h1
    | cons x q =>
      simp only [dfs] at h
      split at h
      · next hx =>
        obtain ⟨h1, h2, h3⟩ := ih q vis h (by
          intro a ha c hc
          rcases hinv a ha c hc with h4 | h4
          · exact Or.inl h4
          · rcases List.mem_cons.1 h4 with rfl | h4
            · exact Or.inl hx
            · exact Or.inr h4)
        refine ⟨h1, ?_, h3⟩
        intro a ha
        rcases List.mem_cons.1 ha with rfl | ha
        · exact h1 _ hx
        · exact h2 a ha
      · next hx =>
        obtain ⟨h1, h2, h3⟩ := ih _ _ h (by
          intro a ha c hc
          rcases List.mem_cons.1 ha with rfl | ha
          · exact Or.inr (List.mem_append_left _ (List.mem_reverse.2 (mem_childrenIn.2 hc)))
          · rcases hinv a ha c hc with h4 | h4
            · exact Or.inl (List.mem_cons_of_mem _ h4)
            · rcases List.mem_cons.1 h4 with rfl | h4
              · exact Or.inl (by simp)
              · exact Or.inr (List.mem_append_right _ h4))
        refine ⟨fun a ha => h1 a (List.mem_cons_of_mem _ ha), ?_, h3⟩
        intro a ha
        rcases List.mem_cons.1 ha with rfl | ha
        · exact h1 _ (by simp)
        · exact h2 a (List.mem_append_right _ ha)

theorem filter_count_visit (pairs : List (H × H)) (x : H) (vis : List H) (hx : x ∉ vis) :
    (pairs.filter fun e => decide (e.1 ∉ vis)).length =
      (pairs.filter fun e => decide (e.1 ∉ x :: vis)).length + (childrenIn pairs x).length := by
  induction pairs with
  | nil => simp [childrenIn]
  | cons e es ih =>
    simp only [childrenIn, List.filter_cons] at ih ⊢
    by_cases h1 : e.1 = x
    · have : e.1 ∉ vis := by rw [h1]; exact hx
      simp [h1, hx] at ih ⊢
      omega
    · by_cases h2 : e.1 ∈ vis
      · simp [h1, h2] at ih ⊢; omega
      · simp [h1, h2] at ih ⊢; omega

/-- the loop ends within `|queue| + |edges out of unvisited vertices|` iterations -/
theorem dfs_total (pairs : List (H × H)) (f : Nat) (q vis : List H)
    (hf : q.length + (pairs.filter fun e => decide (e.1 ∉ vis)).length < f) :
    ∃ res, dfs pairs f q vis = some res := by
  induction f generalizing q vis with
  | zero => omega
  | succ f ih =>
    cases q with
    | nil => exact ⟨vis, by simp [dfs]⟩
    | cons x q =>
      simp only [dfs]
      split
      · exact ih q vis (by simp only [List.length_cons] at hf; omega)
      · next hx =>
        apply ih
        have := filter_count_visit pairs x vis hx
        simp only [List.length_append, List.length_reverse, List.length_cons] at hf ⊢
        omega

/-- `rollback_handle`'s search computes exactly the descendants of `h` in the joined relation -/
theorem dfs_desc (pairs : List (H × H)) (h : H) (res : List H)
    (hd : dfs pairs (pairs.length + (childrenIn pairs h).reverse.length + 1) (childrenIn pairs h).reverse [] = some res) :
    ∀ y, y ∈ res ↔ Desc pairs h y := by
  intro y
  rw [desc_iff_reach]
  constructor
  · intro hy
    rcases dfs_sound pairs _ _ _ _ hd y hy with h1 | ⟨c, hc, hr⟩
    · simp at h1
    · exact ⟨c, mem_childrenIn.1 (List.mem_reverse.1 hc), hr⟩
  · rintro ⟨c, hc, hr⟩
    obtain ⟨_, h2, h3⟩ := dfs_closed pairs _ _ _ _ hd (by simp)
    have hcres : c ∈ res := h2 c (List.mem_reverse.2 (mem_childrenIn.2 hc))
    induction hr with
    | refl => exact hcres
    | step _ h4 ih => exact h3 _ ih _ h4

theorem dfs_rollback_total (pairs : List (H × H)) (h : H) :
    ∃ res, dfs pairs (pairs.length + (childrenIn pairs h).reverse.length + 1) (childrenIn pairs h).reverse [] = some res := by
  apply dfs_total
  have : (pairs.filter fun e => decide (e.1 ∉ ([] : List H))).length ≤ pairs.length := List.length_filter_le _ _
  omega

/-- `is_valid_handle` on the rows of table `handle` -/
def validIn (rows : List (Row H)) (x : H) : Bool :=
  match rows.find? (fun r => decide (r.hash = x)) with
  | some r => r.valid
  | none => false

theorem isValid_eq (st : St H) (x : H) : st.isValid x = validIn st.rows x := rfl

theorem validIn_touchRows (rows : List (Row H)) (h : HRef H) (x : H) :
    validIn (touchRows rows h) x = (decide (x = h.hash) || validIn rows x) := by
  unfold touchRows validIn
  by_cases hany : rows.any (fun r => decide (r.hash = h.hash)) = true
  · simp only [hany, if_true]
    rw [List.find?_map]
    have hcomp : ((fun r : Row H => decide (r.hash = x)) ∘ fun r : Row H => if r.hash = h.hash then { r with valid := true } else r)
        = fun r : Row H => decide (r.hash = x) := by
      funext r; simp only [Function.comp]; split <;> rfl
    rw [hcomp]
    by_cases hx : x = h.hash
    · subst hx
      obtain ⟨r, hr, hrh⟩ := List.any_eq_true.1 hany
      cases hf : rows.find? (fun r => decide (r.hash = h.hash)) with
      | none =>
        have := List.find?_eq_none.1 hf r hr
        simp at this hrh; exact absurd hrh this
      | some r' =>
        have := List.find?_some hf
        simp at this
        simp [this]
    · cases hf : rows.find? (fun r => decide (r.hash = x)) with
      | none => simp [hx]
      | some r' =>
        have := List.find?_some hf
        simp at this
        have hne : r'.hash ≠ h.hash := by rw [this]; exact hx
        simp [hx, hne]
  · simp only [hany, Bool.false_eq_true, if_false]
    rw [List.find?_append]
    have hnone : ∀ r ∈ rows, r.hash ≠ h.hash := by
      intro r hr heq
      exact hany (List.any_eq_true.2 ⟨r, hr, by simp [heq]⟩)
    by_cases hx : x = h.hash
    · subst hx
      have : rows.find? (fun r => decide (r.hash = h.hash)) = none := by
        rw [List.find?_eq_none]; intro r hr; simp [hnone r hr]
      simp [this]
    · cases hf : rows.find? (fun r => decide (r.hash = x)) with
      | none => simp [hx, Ne.symm hx]
      | some r' => simp [hx]

theorem validIn_foldl_touch (refs : List (HRef H)) (rows : List (Row H)) (x : H) :
    validIn (refs.foldl touchRows rows) x = true ↔ validIn rows x = true ∨ x ∈ refs.map (·.hash) := by
  induction refs generalizing rows with
  | nil => simp
  | cons h hs ih =>
    simp only [List.foldl_cons, ih, validIn_touchRows, List.map_cons, List.mem_cons, Bool.or_eq_true, decide_eq_true_eq]
    constructor
    · rintro ((h1 | h1) | h1)
      · exact Or.inr (Or.inl h1)
      · exact Or.inl h1
      · exact Or.inr (Or.inr h1)
    · rintro (h1 | h1 | h1)
      · exact Or.inl (Or.inr h1)
      · exact Or.inl (Or.inl h1)
      · exact Or.inr h1

theorem mem_touchRows {rows : List (Row H)} {h : HRef H} {r : Row H} (hr : r ∈ touchRows rows h) :
    (∃ r0 ∈ rows, r0.hash = r.hash ∧ r0.name = r.name) ∨ (r.hash = h.hash ∧ r.name = h.name) := by
  unfold touchRows at hr
  split at hr
  · obtain ⟨r0, hr0, rfl⟩ := List.mem_map.1 hr
    left; refine ⟨r0, hr0, ?_⟩
    split <;> simp
  · rcases List.mem_append.1 hr with h1 | h1
    · exact Or.inl ⟨r, h1, rfl, rfl⟩
    · simp at h1; subst h1; exact Or.inr ⟨rfl, rfl⟩

theorem touchRows_keeps {rows : List (Row H)} {h : HRef H} {r0 : Row H} (hr : r0 ∈ rows) :
    ∃ r ∈ touchRows rows h, r.hash = r0.hash := by
  unfold touchRows
  split
  · exact ⟨_, List.mem_map.2 ⟨r0, hr, rfl⟩, by split <;> rfl⟩
  · exact ⟨r0, List.mem_append_left _ hr, rfl⟩

theorem touchRows_has (rows : List (Row H)) (h : HRef H) : ∃ r ∈ touchRows rows h, r.hash = h.hash := by
  unfold touchRows
  split
  · next hany =>
    obtain ⟨r, hr, hrh⟩ := List.any_eq_true.1 hany
    simp at hrh
    exact ⟨_, List.mem_map.2 ⟨r, hr, rfl⟩, by simp [hrh]⟩
  · exact ⟨⟨h.hash, h.name, true⟩, by simp, rfl⟩

/-- effect of a sequence of `get_or_create` on the handle rows -/
theorem foldl_touch_rows (nm : H → String) (refs : List (HRef H)) (rows : List (Row H))
    (hn : ∀ r ∈ rows, r.name = nm r.hash) (hr : ∀ h ∈ refs, h.name = nm h.hash) :
    (∀ r ∈ refs.foldl touchRows rows, r.name = nm r.hash) ∧
    (∀ a, (∃ r ∈ rows, r.hash = a) ∨ a ∈ refs.map (·.hash) → ∃ r ∈ refs.foldl touchRows rows, r.hash = a) := by
  induction refs generalizing rows with
  | nil => exact ⟨hn, by intro a h; simpa using h⟩
  | cons h hs ih =>
    have hn' : ∀ r ∈ touchRows rows h, r.name = nm r.hash := by
      intro r hr'
      rcases mem_touchRows hr' with ⟨r0, hr0, h1, h2⟩ | ⟨h1, h2⟩
      · rw [← h1, ← h2]; exact hn r0 hr0
      · rw [h1, h2]; exact hr h (by simp)
    obtain ⟨i1, i2⟩ := ih (touchRows rows h) hn' (fun h' hh => hr h' (List.mem_cons_of_mem _ hh))
    refine ⟨i1, ?_⟩
    intro a ha
    apply i2
    rcases ha with ⟨r, hr', rfl⟩ | ha
    · exact Or.inl (touchRows_keeps hr')
    · simp only [List.map_cons, List.mem_cons] at ha
      rcases ha with rfl | ha
      · exact Or.inl (touchRows_has rows h)
      · exact Or.inr ha

theorem mem_addE {edges : List (H × H)} {e x : H × H} : x ∈ addE edges e ↔ x ∈ edges ∨ x = e := by
  unfold addE
  split
  · constructor
    · exact Or.inl
    · rintro (h | rfl); exact h; assumption
  · simp

theorem mem_foldl_addE {es edges : List (H × H)} {x : H × H} : x ∈ es.foldl addE edges ↔ x ∈ edges ∨ x ∈ es := by
  induction es generalizing edges with
  | nil => simp
  | cons e es ih => simp only [List.foldl_cons, ih, mem_addE, List.mem_cons]; grind

theorem validIn_map_inv (rows : List (Row H)) (res : List H) (x : H) :
    validIn (rows.map fun r => if r.hash ∈ res then { r with valid := false } else r) x =
      (validIn rows x && decide (x ∉ res)) := by
  unfold validIn
  rw [List.find?_map]
  have hcomp : ((fun r : Row H => decide (r.hash = x)) ∘ fun r : Row H => if r.hash ∈ res then { r with valid := false } else r)
      = fun r : Row H => decide (r.hash = x) := by
    funext r; simp only [Function.comp]; split <;> rfl
  rw [hcomp]
  cases hf : rows.find? (fun r => decide (r.hash = x)) with
  | none => simp
  | some r =>
    have := List.find?_some hf
    simp at this
    subst this
    by_cases hm : r.hash ∈ res <;> simp [hm]

/-- `rollback_handle` always finds its result, and invalidates exactly the descendants in the joined relation -/
theorem rollback_spec (fixed : Bool) (st : St H) (h : HRef H) :
    ∃ res : List H, st.rollback fixed h = .ok { st with rows := st.rows.map fun r => if r.hash ∈ res then { r with valid := false } else r } ∧
      ∀ y, y ∈ res ↔ Desc (st.joined fixed h.name) h.hash y := by
  obtain ⟨res, hres⟩ := dfs_rollback_total (st.joined fixed h.name) h.hash
  refine ⟨res, ?_, dfs_desc _ _ _ hres⟩
  unfold St.rollback
  simp only [hres]

/-- Well-formed call: every handle carries the fullname its hash determines (`nm`), and one `advance_handle`
call only relates handles of one fullname. -/
def WFOp (nm : H → String) : Op H → Prop
  | .advance ps c => c.name = nm c.hash ∧ ∀ p ∈ ps, p.ref.name = nm p.ref.hash ∧ nm p.ref.hash = nm c.hash ∧
      ∀ a ∈ p.forkChain, a.name = nm a.hash ∧ nm a.hash = nm c.hash
  | .rollback h => h.name = nm h.hash

theorem Desc.mono {E E' : List (H × H)} (hsub : ∀ e ∈ E, e ∈ E') {a b : H} (h : Desc E a b) : Desc E' a b := by
  induction h with
  | edge h => exact .edge (hsub _ h)
  | step _ h2 ih => exact .step ih (hsub _ h2)

theorem mem_joined {fixed : Bool} {st : St H} {name : String} {e : H × H} :
    e ∈ st.joined fixed name ↔ e ∈ st.edges ∧ ∃ r ∈ st.rows, r.hash = e.1 ∧ r.name = name ∧ (fixed = true ∨ r.valid = true) := by
  unfold St.joined
  simp only [List.mem_filter, List.any_eq_true, Bool.and_eq_true, Bool.or_eq_true, decide_eq_true_eq]
  constructor
  · rintro ⟨h1, r, hr, ⟨h2, h3⟩, h4⟩; exact ⟨h1, r, hr, h2, h3, h4⟩
  · rintro ⟨h1, r, hr, h2, h3, h4⟩; exact ⟨h1, r, hr, ⟨h2, h3⟩, h4⟩

theorem chainEdges_mem {ref : HRef H} {chain : List (HRef H)} {a b : H} (h : (a, b) ∈ chainEdges ref chain) :
    a ∈ chain.map (·.hash) ∧ b ∈ (ref :: chain).map (·.hash) := by
  induction chain generalizing ref with
  | nil => simp [chainEdges] at h
  | cons fp rest ih =>
    simp only [chainEdges, List.mem_cons, Prod.mk.injEq] at h
    rcases h with ⟨rfl, rfl⟩ | h
    · simp
    · obtain ⟨h1, h2⟩ := ih h
      simp only [List.map_cons, List.mem_cons] at h1 h2 ⊢
      exact ⟨Or.inr h1, Or.inr h2⟩

/-- the model of the repaired backend and the reference lineage model describe the same valid set and edges -/
structure RI (nm : H → String) (st : St H) (sp : Spec H) : Prop where
  valid : ∀ x, st.isValid x = true ↔ sp.valid x
  edges : ∀ e, e ∈ st.edges ↔ e ∈ sp.edges
  names : ∀ r ∈ st.rows, r.name = nm r.hash
  edgeNm : ∀ a b, (a, b) ∈ st.edges → nm a = nm b ∧ ∃ r ∈ st.rows, r.hash = a

theorem desc_joined_iff {nm : H → String} {st : St H} {sp : Spec H} (hi : RI nm st sp) (h : HRef H)
    (hh : h.name = nm h.hash) (y : H) : Desc (st.joined true h.name) h.hash y ↔ Desc st.edges h.hash y := by
  constructor
  · exact Desc.mono (fun e he => (mem_joined.1 he).1)
  · intro hd
    -- every state derived from `h` has the fullname of `h`
    have key : Desc (st.joined true h.name) h.hash y ∧ nm y = nm h.hash := by
      induction hd with
      | edge he =>
        obtain ⟨h1, r, hr, hrh⟩ := hi.edgeNm _ _ he
        refine ⟨.edge (mem_joined.2 ⟨he, r, hr, hrh, ?_, Or.inl rfl⟩), h1.symm⟩
        rw [hi.names r hr, hrh, hh]
      | step _ he ih =>
        obtain ⟨h1, r, hr, hrh⟩ := hi.edgeNm _ _ he
        refine ⟨.step ih.1 (mem_joined.2 ⟨he, r, hr, hrh, ?_, Or.inl rfl⟩), ?_⟩
        · rw [hi.names r hr, hrh, ih.2, hh]
        · rw [← h1, ih.2]
    exact key.1

theorem desc_congr {E E' : List (H × H)} (h : ∀ e, e ∈ E ↔ e ∈ E') (a b : H) : Desc E a b ↔ Desc E' a b :=
  ⟨Desc.mono (fun e he => (h e).1 he), Desc.mono (fun e he => (h e).2 he)⟩

theorem step_refines (nm : H → String) (st : St H) (sp : Spec H) (op : Op H) (hi : RI nm st sp) (hwf : WFOp nm op) :
    ∃ st', st.step true op = .ok st' ∧ RI nm st' (sp.step op) := by
  cases op with
  | rollback h =>
    obtain ⟨res, hrb, hres⟩ := rollback_spec true st h
    refine ⟨_, hrb, ?_⟩
    constructor
    · intro x
      simp only [isValid_eq, validIn_map_inv, Bool.and_eq_true, decide_eq_true_eq, Spec.step]
      rw [← isValid_eq, hi.valid x, hres x, desc_joined_iff hi h hwf, desc_congr hi.edges]
    · exact hi.edges
    · intro r hr
      obtain ⟨r0, hr0, rfl⟩ := List.mem_map.1 hr
      have := hi.names r0 hr0
      split <;> simpa using this
    · intro a b hab
      obtain ⟨h1, r, hr, hrh⟩ := hi.edgeNm a b hab
      exact ⟨h1, _, List.mem_map.2 ⟨r, hr, rfl⟩, by split <;> simpa using hrh⟩
  | advance ps c =>
    obtain ⟨hc, hps⟩ := hwf
    have hrefs : ∀ h ∈ touchedRefs ps c, h.name = nm h.hash ∧ nm h.hash = nm c.hash := by
      intro h hh
      simp only [touchedRefs, List.mem_append, List.mem_flatMap, List.mem_cons, List.mem_map] at hh
      rcases hh with ⟨p, hp, ha⟩ | rfl | ⟨p, hp, rfl⟩
      · exact (hps p (List.mem_filter.1 hp).1).2.2 h ha
      · exact ⟨hc, rfl⟩
      · exact ⟨(hps p hp).1, (hps p hp).2.1⟩
    obtain ⟨hn', hex'⟩ := foldl_touch_rows nm (touchedRefs ps c) st.rows hi.names (fun h hh => (hrefs h hh).1)
    refine ⟨_, rfl, ?_⟩
    constructor
    · intro x
      simp only [isValid_eq, St.advance, validIn_foldl_touch, Spec.step, touched]
      rw [← isValid_eq, hi.valid x]
    · intro e
      simp only [St.advance, mem_foldl_addE, Spec.step, declared, List.mem_append, hi.edges e]
    · exact hn'
    · intro a b hab
      simp only [St.advance, mem_foldl_addE] at hab
      rcases hab with hab | hab
      · obtain ⟨h1, r, hr, hrh⟩ := hi.edgeNm a b hab
        exact ⟨h1, hex' a (Or.inl ⟨r, hr, hrh⟩)⟩
      · simp only [recordedEdges, if_true, List.mem_append, List.mem_map, List.mem_flatMap, Prod.mk.injEq] at hab
        rcases hab with ⟨p, hp, rfl, rfl⟩ | ⟨p, hp, hce⟩
        · refine ⟨(hps p hp).2.1, hex' _ (Or.inr ?_)⟩
          simp only [touchedRefs, List.map_append, List.map_cons, List.map_map, List.mem_append, List.mem_cons, List.mem_map]
          exact Or.inr (Or.inr ⟨p, hp, rfl⟩)
        · obtain ⟨ha, hb⟩ := chainEdges_mem hce
          have hpm := (List.mem_filter.1 hp).1
          have hna : nm a = nm c.hash := by
            obtain ⟨x, hx, rfl⟩ := List.mem_map.1 ha
            exact ((hps p hpm).2.2 x hx).2
          have hnb : nm b = nm c.hash := by
            simp only [List.map_cons, List.mem_cons] at hb
            rcases hb with rfl | hb
            · exact (hps p hpm).2.1
            · obtain ⟨x, hx, rfl⟩ := List.mem_map.1 hb
              exact ((hps p hpm).2.2 x hx).2
          refine ⟨by rw [hna, hnb], hex' _ (Or.inr ?_)⟩
          obtain ⟨x, hx, rfl⟩ := List.mem_map.1 ha
          simp only [touchedRefs, List.map_append, List.mem_append, List.mem_map, List.mem_flatMap]
          exact Or.inl ⟨x, ⟨p, hp, hx⟩, rfl⟩

theorem run_refines (nm : H → String) (st : St H) (sp : Spec H) (ops : List (Op H)) (hi : RI nm st sp)
    (hwf : ∀ op ∈ ops, WFOp nm op) :
    ∃ st', run true st ops = .ok st' ∧ RI nm st' (Spec.run sp ops) := by
  induction ops generalizing st sp with
  | nil => exact ⟨st, rfl, hi⟩
  | cons op ops ih =>
    obtain ⟨st1, h1, hi1⟩ := step_refines nm st sp op hi (hwf op (by simp))
    obtain ⟨st2, h2, hi2⟩ := ih st1 (sp.step op) hi1 (fun o ho => hwf o (List.mem_cons_of_mem _ ho))
    exact ⟨st2, by simp only [run, h1, h2], by simpa [Spec.run] using hi2⟩

theorem ri_init (nm : H → String) : RI nm ({} : St H) Spec.init := by
  constructor <;> simp [St.isValid, Spec.init]

/-- valid ⇒ every recorded parent valid (so, inductively, every ancestor) -/
def Closed (st : St H) : Prop := ∀ a b, (a, b) ∈ st.edges → st.isValid b = true → st.isValid a = true

theorem isValid_row {st : St H} {x : H} (h : st.isValid x = true) : ∃ r ∈ st.rows, r.hash = x ∧ r.valid = true := by
  unfold St.isValid at h
  cases hf : st.rows.find? (fun r => decide (r.hash = x)) with
  | none => simp [hf] at h
  | some r =>
    have := List.find?_some hf
    exact ⟨r, List.mem_of_find?_eq_some hf, by simpa using this, by simpa [hf] using h⟩

/-- On an ancestor-closed state the search of the unrepaired `rollback_handle` (valid parents only) finds every
*valid* descendant the full search finds. -/
theorem desc_joined_false_of_closed (nm : H → String) (st : St H) (hn : ∀ r ∈ st.rows, r.name = nm r.hash)
    (hc : Closed st) (h : HRef H) (x : H) (hd : Desc (st.joined true h.name) h.hash x) (hx : st.isValid x = true) :
    Desc (st.joined false h.name) h.hash x := by
  have lift : ∀ a b, (a, b) ∈ st.joined true h.name → st.isValid a = true → (a, b) ∈ st.joined false h.name := by
    intro a b hab ha
    obtain ⟨he, r, hr, hrh, hrn, _⟩ := mem_joined.1 hab
    obtain ⟨r1, hr1, hr1h, hr1v⟩ := isValid_row ha
    refine mem_joined.2 ⟨he, r1, hr1, hr1h, ?_, Or.inr hr1v⟩
    simp only at hrh hr1h
    rw [hn r1 hr1, hr1h, ← hrh, ← hn r hr, hrn]
  induction hd with
  | edge he => exact .edge (lift _ _ he (hc _ _ (mem_joined.1 he).1 hx))
  | step _ he ih =>
    have hb := hc _ _ (mem_joined.1 he).1 hx
    exact .step (ih hb) (lift _ _ he hb)

/-- **Partial result for the backend as it was**: on every ancestor-closed state whose rows carry the fullname of
their hash, its `rollback_handle` and the repaired one (= the reference, `matches_spec`) leave the same valid
set and the same edges. -/
theorem rollback_current_eq_fixed_of_closed (nm : H → String) (st : St H) (hn : ∀ r ∈ st.rows, r.name = nm r.hash)
    (hc : Closed st) (h : HRef H) :
    ∃ s1 s2, st.rollback false h = .ok s1 ∧ st.rollback true h = .ok s2 ∧ s1.edges = s2.edges ∧
      ∀ x, s1.isValid x = s2.isValid x := by
  obtain ⟨r1, h1, hr1⟩ := rollback_spec false st h
  obtain ⟨r2, h2, hr2⟩ := rollback_spec true st h
  refine ⟨_, _, h1, h2, rfl, ?_⟩
  intro x
  simp only [isValid_eq, validIn_map_inv]
  cases hv : validIn st.rows x with
  | false => simp
  | true =>
    have hiff : x ∈ r1 ↔ x ∈ r2 := by
      rw [hr1, hr2]
      constructor
      · exact Desc.mono (fun e he => mem_joined.2 ⟨(mem_joined.1 he).1, by
          obtain ⟨_, r, hr, a, b, _⟩ := mem_joined.1 he
          exact ⟨r, hr, a, b, Or.inl rfl⟩⟩)
      · intro hd; exact desc_joined_false_of_closed nm st hn hc h x hd hv
    by_cases hm : x ∈ r1
    · simp [hm, hiff.1 hm]
    · have hm2 : x ∉ r2 := fun h' => hm (hiff.2 h')
      simp [hm, hm2]

end RedunModel.Handles
