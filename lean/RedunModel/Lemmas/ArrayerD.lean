import RedunModel.Lemmas.ArrayerB
namespace RedunModel.Arrayer

/-- shape of one submitted batch: same description throughout; size 1, or between min and max -/
def okBatch (p : Params) (b : List Job) : Prop :=
  (∀ j1 ∈ b, ∀ j2 ∈ b, j1.descr = j2.descr) ∧ (b.length = 1 ∨ (p.minSize ≤ b.length ∧ b.length ≤ p.maxSize))

def jobsPc : MPc → Bool
  | .p185 | .p183x | .p188 | .p189 | .p190 | .p191 | .p197 | .p201 => true
  | _ => false

def remPc : MPc → Bool
  | .p190 | .p191 | .p193 | .p194 => true
  | _ => false

structure InvD (p : Params) (s : State) : Prop where
  pendHomog : ∀ d js, dget s.pending d = some js → ∀ j ∈ js, j.descr = d
  jobsHomog : jobsPc s.mon.pc = true → ∀ j ∈ s.mon.jobs, j.descr = s.mon.descr
  remHomog : remPc s.mon.pc = true → ∀ j ∈ s.mon.remainder, j.descr = s.mon.descr
  lenMax : (s.mon.pc = .p197 ∨ s.mon.pc = .p201) → s.mon.jobs.length ≤ p.maxSize
  lenMin : s.mon.pc = .p201 → p.minSize ≤ s.mon.jobs.length
  lenOver : (s.mon.pc = .p189 ∨ s.mon.pc = .p190) → p.maxSize < s.mon.jobs.length
  lenEq : s.mon.pc = .p191 → s.mon.jobs.length = p.maxSize
  shape : ∀ b ∈ s.submitted, okBatch p b

theorem invD_init (p : Params) (jobs : List Job) : InvD p (init jobs) := by
  unfold init; split <;> constructor <;> simp [jobsPc, remPc]

theorem mem_getD_dget (d : Dict (List Job)) (k : Nat) (j : Job) (h : j ∈ (dget d k).getD []) :
    ∃ js, dget d k = some js ∧ j ∈ js := by
  cases hd : dget d k with
  | none => simp [hd] at h
  | some js => exact ⟨js, rfl, by simpa [hd] using h⟩

theorem okBatch_single (p : Params) (j : Job) : okBatch p [j] := by
  simp [okBatch]

set_option maxHeartbeats 2000000 in
theorem invD_stepS (p : Params) (s s' : State) (h : InvD p s) (hs : stepS p s = some s') : InvD p s' := by
  obtain ⟨pending, stamps, num, lock, clock, submitted, errors, added, started, ⟨apc, cur, todo⟩, mon⟩ := s
  obtain ⟨ph, jh, rh, l1, l2, l3, l4, sh⟩ := h
  simp only at ph jh rh l1 l2 l3 l4 sh
  cases apc <;> simp only [stepS] at hs <;> (try split at hs) <;> simp at hs <;> (try subst hs)
  all_goals (constructor <;> simp only [] at * )
  all_goals first
    | assumption
    | grind [dget_dset, okBatch_single, jobsPc, remPc, mem_getD_dget]

theorem okBatch_of (p : Params) (b : List Job) (d : Nat) (hh : ∀ j ∈ b, j.descr = d)
    (hl : b.length = 1 ∨ (p.minSize ≤ b.length ∧ b.length ≤ p.maxSize)) : okBatch p b := by
  refine ⟨?_, hl⟩
  intro j1 h1 j2 h2; rw [hh j1 h1, hh j2 h2]

set_option maxHeartbeats 4000000 in
theorem invD_stepM (c : Cfg) (p : Params) (hwf : p.minSize ≤ p.maxSize) (s s' : State) (h : InvD p s)
    (hs : stepM c p s = some s') : InvD p s' := by
  obtain ⟨pending, stamps, num, lock, clock, submitted, errors, added, started, ad, ⟨mpc, currtime, iterUsed, iterRest, descr, isStale, acc, stales, jobs', remainder, timestamp, loopJobs, job, decRead, err⟩⟩ := s
  obtain ⟨ph, jh, rh, l1, l2, l3, l4, sh⟩ := h
  simp only at ph jh rh l1 l2 l3 l4 sh
  cases mpc <;> simp only [stepM, iterNext, afterScan, afterScanErr, decEntry] at hs <;> (try split at hs) <;> (try split at hs) <;> simp at hs <;> (try subst hs)
  all_goals (constructor <;> simp only [jobsPc, remPc] at * )
  all_goals first
    | assumption
    | grind [dget_dset, dget_derase, okBatch, mem_getD_dget, List.mem_of_mem_take, List.mem_of_mem_drop, List.length_take]
end RedunModel.Arrayer
