/-
C28, converse direction: a dry run that reaches a job it would have to run predicts a real run that runs it.
Core Lean only (on top of the SchedCore lemma files).
-/
import RedunModel.Lemmas.SchedDry
namespace RedunModel.SchedCore

/-! ## submissions only grow -/

theorem execJob_sub (p : Prog) (s : S) (j : JobId) :
    (execJob p s j).submits = s.submits ∨ (execJob p s j).submits = s.submits ++ [j] := by
  unfold execJob
  dsimp only
  split
  · exact Or.inl ((same_setJob _ _ _).trans (same_checkPending p _)).sub
  · split
    · exact Or.inl (((same_setJob _ _ _).trans (same_checkPending p _)).trans (same_enqueue _ _)).sub
    · exact Or.inl (((same_setJob _ _ _).trans (same_checkPending p _)).trans (same_enqueue _ _)).sub
    · exact Or.inl (((same_setJob _ _ _).trans (same_checkPending p _)).trans (same_enqueue _ _)).sub
    · repeat' split
      all_goals first | exact Or.inl rfl | exact Or.inr rfl

theorem pop_sub (p : Prog) (s : S) : ∃ l, (pop p s).submits = s.submits ++ l := by
  unfold pop
  split
  · exact ⟨[], by simp⟩
  · rename_i e rest hq
    cases e with
    | exec j =>
      rcases execJob_sub p { s with queue := rest } j with h | h
      · exact ⟨[], by rw [List.append_nil]; exact h⟩
      · exact ⟨[j], h⟩
    | resolve j => exact ⟨[], by rw [List.append_nil]; exact (keep_resolveJob p { s with queue := rest } j).sub⟩
    | done j f => exact ⟨[], by rw [List.append_nil]; exact (keep_doneJob p { s with queue := rest } j f).sub⟩
    | reject j => exact ⟨[], by rw [List.append_nil]; exact (keep_rejectJob p { s with queue := rest } j).sub⟩

theorem step_sub_ne (p : Prog) (s t : S) (hs : Step p s t) (h : s.submits ≠ []) : t.submits ≠ [] := by
  cases hs with
  | pop _ _ =>
    obtain ⟨l, hl⟩ := pop_sub p s
    rw [hl]
    intro h0
    exact h (List.append_eq_nil_iff.mp h0).1
  | complete j _ _ => exact h

/-! ## the step at which the dry run stops is a submission of the real run -/

theorem sumTo_zero (n : Nat) : sumTo (fun _ => 0) n = 0 := by
  induction n with
  | zero => rfl
  | succ n ih => simp [sumTo, ih]

theorem used_zero_of_no_holder (p : Prog) (s : S) (hi : Inv p s) (hh : ∀ j, s.holds j = false) (r : Res) : s.used r = 0 := by
  rw [hi.core.used_eq r]
  unfold held
  rw [sumTo_congr (g := fun _ => 0) (fun i _ => by simp [hh i])]
  exact sumTo_zero _

theorem within_of_feasible (p : Prog) (hf : Feasible p) (s : S) (hu : ∀ r, s.used r = 0) (j : JobId) :
    jobWithin p s j = true := by
  unfold jobWithin within
  rw [List.all_eq_true]
  intro r _
  have := hf (s.specOf j) r
  simp only [decide_eq_true_eq, hu r]
  unfold spec
  omega

/-- In a state without holders, processing an execution that misses pending twins and cache and has an
executor hands the job to the executor (real run, feasible limits). -/
theorem miss_submits (p : Prog) (hd : p.dryrun = false) (hf : Feasible p) (s : S) (hu : ∀ r, s.used r = 0)
    (j : JobId) (rest : List Ev) (hq : s.queue = Ev.exec j :: rest) (hm : missAtHead p s = true)
    (he : (spec p s j).execOk = true) :
    (pop p s).submits = s.submits ++ [j] ∧ (pop p s).inflight j = true := by
  unfold missAtHead at hm
  rw [hq] at hm
  simp only [Bool.and_eq_true, Option.isNone_iff_eq_none, beq_iff_eq] at hm
  obtain ⟨h1, h2⟩ := hm
  unfold pop
  rw [hq]
  dsimp only
  have hw := within_of_feasible p hf { s with queue := rest } hu j
  have hs : spec p { s with queue := rest } j = spec p s j := rfl
  unfold handle execJob
  dsimp only
  rw [hs]
  have h1' : (if optedIn (spec p s j) = true then lookupPending { s with queue := rest } ((spec p s j).key, (spec p s j).ctx) else none) = none := h1
  have h2' : cacheLookup { s with queue := rest } (spec p s j) = Hit.miss := h2
  rw [h1']
  dsimp only
  rw [h2']
  dsimp only
  simp only [hd, hw, he, Bool.not_false, Bool.not_true, Bool.true_and, Bool.false_eq_true, if_false]
  constructor
  · split <;> rfl
  · split
    · simp
    · rename_i h; exact absurd trivial h

end RedunModel.SchedCore
