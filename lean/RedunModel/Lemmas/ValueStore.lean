/-
Helper lemmas for the value-store model (C31): association-list lookup, `dropKey`, `put`.
-/
import RedunModel.Model.ValueStore
namespace RedunModel.ValueStore

section Lookup
variable {α β : Type} [DecidableEq α]

@[simp] theorem lookup_nil (k : α) : lookup k ([] : List (α × β)) = none := rfl
@[simp] theorem lookup_cons_self (k : α) (b : β) (t : List (α × β)) : lookup k ((k, b) :: t) = some b := by
  simp [lookup]
theorem lookup_cons_ne {a k : α} (h : a ≠ k) (b : β) (t : List (α × β)) : lookup k ((a, b) :: t) = lookup k t := by
  simp [lookup, h]

@[simp] theorem lookup_dropKey_self (k : α) (l : List (α × β)) : lookup k (dropKey k l) = none := by
  induction l with
  | nil => rfl
  | cons e t ih =>
    obtain ⟨a, b⟩ := e
    by_cases h : a = k
    · simp [dropKey, h] at ih ⊢; exact ih
    · simp only [dropKey, List.filter_cons, ne_eq, h, not_false_eq_true, decide_true, if_true] at ih ⊢
      rw [lookup_cons_ne h]; exact ih

theorem lookup_dropKey_ne {k k' : α} (h : k' ≠ k) (l : List (α × β)) : lookup k' (dropKey k l) = lookup k' l := by
  induction l with
  | nil => rfl
  | cons e t ih =>
    obtain ⟨a, b⟩ := e
    by_cases ha : a = k
    · subst ha
      have : a ≠ k' := fun e => h e.symm
      simp only [dropKey, List.filter_cons, ne_eq, not_true_eq_false, decide_false] at ih ⊢
      rw [lookup_cons_ne this]; simpa [dropKey] using ih
    · simp only [dropKey, List.filter_cons, ne_eq, ha, not_false_eq_true, decide_true, if_true] at ih ⊢
      by_cases hk : a = k'
      · subst hk; simp
      · rw [lookup_cons_ne hk, lookup_cons_ne hk]; exact ih

theorem dropKey_cons_self (k : α) (b : β) (l : List (α × β)) : dropKey k ((k, b) :: l) = dropKey k l := by
  simp [dropKey]

theorem dropKey_idem (k : α) (l : List (α × β)) : dropKey k (dropKey k l) = dropKey k l := by
  simp [dropKey, List.filter_filter]
end Lookup

theorem lookup_put_self (st : List (Key × Bytes)) (k : Key) (d : Bytes) :
    lookup k (put st k d) = some ((lookup k st).getD d) := by
  unfold put
  cases h : lookup k st <;> simp [h]

theorem lookup_put_ne (st : List (Key × Bytes)) {k k' : Key} (h : k ≠ k') (d : Bytes) :
    lookup k' (put st k d) = lookup k' st := by
  unfold put
  split
  · rfl
  · exact lookup_cons_ne h _ _

theorem put_put (st : List (Key × Bytes)) (k : Key) (d : Bytes) : put (put st k d) k d = put st k d := by
  have h := lookup_put_self st k d
  generalize put st k d = st' at h ⊢
  unfold put
  simp [h]

end RedunModel.ValueStore

/-! ### invariant of reachable backend states and the normal form of `record` (used by Props/C31) -/
namespace RedunModel.C31
open RedunModel.ValueStore

variable (fn : Bytes → Bytes)

/-- What every reachable backend state satisfies (hashes are perfect: a row / store file / FileCache file holds the
bytes its name is the hash of). -/
structure Inv (s : St) : Prop where
  row : ∀ k d, lookup k s.db = some d → d = [] ∨ d = k.2
  placeholder : ∀ k, lookup k s.db = some [] → s.store.isSome = true
  store : ∀ st, s.store = some st → ∀ k b, lookup k st = some b → b = k.2
  fc : ∀ f c, lookup f s.fc = some c → fn c = f

/-- no offloaded bytes are missing: every placeholder row has its store file -/
def Complete (s : St) : Prop :=
  ∀ k, lookup k s.db = some [] → ∃ st b, s.store = some st ∧ lookup k st = some b

theorem serialize_db (v : Val) (s : St) : (serialize fn v s).db = s.db ∧ (serialize fn v s).store = s.store := by
  cases v <;> simp [serialize]

theorem serialize_fc_inv (v : Val) (s : St) (h : ∀ f c, lookup f s.fc = some c → fn c = f) :
    ∀ f c, lookup f (serialize fn v s).fc = some c → fn c = f := by
  cases v with
  | plain d => simpa [serialize] using h
  | fcache p =>
    intro f c hl
    simp only [serialize] at hl
    by_cases hf : fn p = f
    · subst hf; simp at hl; rw [hl]
    · rw [lookup_cons_ne hf, lookup_dropKey_ne (fun e => hf e.symm)] at hl
      exact h f c hl

/-- the offload decision of `record_value` -/
def offloads (s : St) (n : Nat) (cfg : Cfg) : Bool := s.store.isSome && decide (n + overhead ≥ cfg.minSize)

/-- normal form of a successful `record` -/
theorem record_ok (v : Val) (cfg : Cfg) (s : St) (hle : (ser fn v).length ≤ cfg.maxSize) :
    record fn v cfg s =
      ({ db := if (lookup (key fn v) s.db).isSome then s.db
               else (key fn v, if offloads s (ser fn v).length cfg then [] else ser fn v) :: s.db,
         store := if offloads s (ser fn v).length cfg then s.store.map (fun st => put st (key fn v) (ser fn v)) else s.store,
         fc := (serialize fn v s).fc }, .ok (key fn v)) := by
  have hnot : ¬ (ser fn v).length > cfg.maxSize := by omega
  obtain ⟨hdb, hst⟩ := serialize_db fn v s
  unfold record
  simp only [hnot, if_false, hdb, hst, offloads]
  obtain ⟨db, store, fc⟩ := s
  cases store <;> simp

theorem record_too_large (v : Val) (cfg : Cfg) (s : St) (hgt : (ser fn v).length > cfg.maxSize) :
    record fn v cfg s = (serialize fn v s, .error .tooLarge) := by
  unfold record
  simp [hgt]

theorem deser_after_serialize (v : Val) (s : St) (db : List (Key × Bytes)) (store : Option (List (Key × Bytes))) :
    deser { db := db, store := store, fc := (serialize fn v s).fc } (key fn v) (ser fn v) = some v := by
  cases v with
  | plain d => simp [deser, key, isFc, ser]
  | fcache p => simp [deser, key, isFc, ser, serialize]

theorem put_lookup_data {s : St} (hI : Inv fn s) (v : Val) (st : List (Key × Bytes)) (hs : s.store = some st) :
    lookup (key fn v) (put st (key fn v) (ser fn v)) = some (ser fn v) := by
  rw [lookup_put_self]
  cases h : lookup (key fn v) st with
  | none => rfl
  | some b => have := hI.store st hs _ _ h; simp [this, key]

/-- Core of the round trip. The side condition only concerns a pre-existing placeholder row: its store file is
present, or this call offloads again (and so re-creates it). -/
theorem roundtrip_core (v : Val) (cfg : Cfg) (s : St) (hI : Inv fn s) (hne : ser fn v ≠ [])
    (hle : (ser fn v).length ≤ cfg.maxSize)
    (hP : lookup (key fn v) s.db = some [] →
      (∃ st b, s.store = some st ∧ lookup (key fn v) st = some b) ∨ offloads s (ser fn v).length cfg = true) :
    ValueStore.get (key fn v) (record fn v cfg s).1 = .ok (some v) := by
  rw [record_ok fn v cfg s hle]
  have hoff : offloads s (ser fn v).length cfg = true → ∃ st, s.store = some st := by
    intro h
    simp only [offloads, Bool.and_eq_true] at h
    cases hs : s.store with
    | none => simp [hs] at h
    | some st => exact ⟨st, rfl⟩
  unfold ValueStore.get
  simp only
  cases hl : lookup (key fn v) s.db with
  | none =>
    simp only [Option.isSome_none, Bool.false_eq_true, if_false, lookup_cons_self]
    cases ho : offloads s (ser fn v).length cfg with
    | true =>
      obtain ⟨st, hs⟩ := hoff ho
      simp [hs, put_lookup_data fn hI v st hs, deser_after_serialize]
    | false => simp [hne, deser_after_serialize]
  | some d =>
    simp only [Option.isSome_some, if_true, hl]
    rcases hI.row _ _ hl with hd | hd
    · subst hd
      simp only [ne_eq, not_true_eq_false, if_false]
      cases ho : offloads s (ser fn v).length cfg with
      | true =>
        obtain ⟨st, hs⟩ := hoff ho
        simp [hs, put_lookup_data fn hI v st hs, deser_after_serialize]
      | false =>
        rcases hP hl with ⟨st, b, hs, hb⟩ | h
        · have hb' : b = ser fn v := hI.store st hs _ _ hb
          subst hb'
          simp [hs, hb, deser_after_serialize]
        · rw [ho] at h; cases h
    · have hd' : d = ser fn v := hd
      subst hd'
      simp [hne, deser_after_serialize]

theorem complete_record (v : Val) (cfg : Cfg) (s : St) (hI : Inv fn s) (hC : Complete s) (hne : ser fn v ≠ []) :
    Complete (record fn v cfg s).1 := by
  by_cases hle : (ser fn v).length ≤ cfg.maxSize
  · rw [record_ok fn v cfg s hle]
    have hoff : offloads s (ser fn v).length cfg = true → ∃ st, s.store = some st := by
      intro h
      simp only [offloads, Bool.and_eq_true] at h
      cases hs : s.store with
      | none => simp [hs] at h
      | some st => exact ⟨st, rfl⟩
    have old : ∀ k, lookup k s.db = some [] → ∃ st b, (if offloads s (ser fn v).length cfg = true then
        s.store.map (fun st => put st (key fn v) (ser fn v)) else s.store) = some st ∧ lookup k st = some b := by
      intro k h'
      obtain ⟨st, b, hs, hb⟩ := hC k h'
      split
      · by_cases hk : key fn v = k
        · subst hk; exact ⟨put st (key fn v) (ser fn v), _, by simp [hs], put_lookup_data fn hI v st hs⟩
        · exact ⟨put st (key fn v) (ser fn v), b, by simp [hs], by rw [lookup_put_ne _ hk]; exact hb⟩
      · exact ⟨st, b, hs, hb⟩
    intro k h
    simp only at h ⊢
    split at h
    · exact old k h
    · by_cases hk : key fn v = k
      · subst hk
        simp only [lookup_cons_self, Option.some.injEq] at h
        cases ho : offloads s (ser fn v).length cfg with
        | true =>
          obtain ⟨st, hs⟩ := hoff ho
          exact ⟨put st (key fn v) (ser fn v), _, by simp [hs], put_lookup_data fn hI v st hs⟩
        | false => simp [ho] at h; exact absurd h hne
      · rw [lookup_cons_ne hk] at h; exact old k h
  · rw [record_too_large fn v cfg s (by omega)]
    obtain ⟨hdb, hst⟩ := serialize_db fn v s
    intro k h
    rw [hdb] at h; rw [hst]; exact hC k h

/-- states reachable from a fresh backend by recording values (any thresholds), attaching a value store and
deleting FileCache files — everything except deleting store files -/
inductive Reach : St → Prop
  | init (b : Bool) : Reach (St.init b)
  | record (s : St) (v : Val) (cfg : Cfg) : Reach s → ser fn v ≠ [] → Reach (record fn v cfg s).1
  | attach (s : St) : Reach s → Reach (attachStore s)
  | dropFc (s : St) (f : Bytes) : Reach s → Reach (dropFc f s)

theorem deser_key (s : St) (hI : Inv fn s) (k : Key) (v : Val) (h : deser s k k.2 = some v) : key fn v = k := by
  unfold deser at h
  obtain ⟨k1, k2⟩ := k
  cases k1 with
  | true =>
    simp only [if_true, Option.map_eq_some_iff] at h
    obtain ⟨c, hc, hv⟩ := h
    subst hv
    simp [key, isFc, ser, hI.fc _ _ hc]
  | false =>
    simp at h
    subst h
    simp [key, isFc, ser]

theorem offloads_after (v : Val) (cfg : Cfg) (s : St) (hle : (ser fn v).length ≤ cfg.maxSize) (n : Nat) (c : Cfg) :
    offloads (record fn v cfg s).1 n c = offloads s n c := by
  rw [record_ok fn v cfg s hle]
  simp only [offloads]
  obtain ⟨db, store, fc⟩ := s
  cases store with
  | none => simp
  | some st =>
    by_cases hp : (ser fn v).length + overhead ≥ cfg.minSize <;> simp [hp]

end RedunModel.C31
