/-
Helper lemmas for the cache-key model (C15): positional filtering as one pass over slots,
defaults merged under explicit keywords, membership characterisations.
-/
import RedunModel.Model.Keys
import RedunModel.Lemmas.Pre
namespace RedunModel.Keys
open RedunModel.Pre List

/-- Positional filtering written as one pass with the slot (bound parameter) of every index. -/
def kept (cfg : List String) : (Nat → Option String) → List Arg → List Arg
  | _, [] => []
  | f, a :: t => (if keepArg cfg (f 0) a then [a] else []) ++ kept cfg (fun i => f (i + 1)) t

def slotOf (ns : List String) (v : Option String) (i : Nat) : Option String :=
  if h : i < ns.length then some ns[i] else v

theorem kept_const (cfg : List String) (v : Option String) (args : List Arg) :
    kept cfg (fun _ => v) args = args.filter (fun a => keepArg cfg v a) := by
  induction args with
  | nil => rfl
  | cons a t ih =>
    simp only [kept, filter_cons, ih]
    split <;> simp

theorem kept_zip (cfg : List String) (v : Option String) (ns : List String) (args : List Arg) :
    (((ns.zip args).filter (fun na => keepArg cfg (some na.1) na.2)).map (·.2)
      ++ (args.drop ns.length).filter (fun a => keepArg cfg v a)) = kept cfg (slotOf ns v) args := by
  induction ns generalizing args with
  | nil =>
    have : slotOf [] v = fun _ => v := by funext i; simp [slotOf]
    simp [this, kept_const]
  | cons n ns ih =>
    cases args with
    | nil => simp [kept]
    | cons a t =>
      have hs : (fun i => slotOf (n :: ns) v (i + 1)) = slotOf ns v := by
        funext i; simp [slotOf]
      have h0 : slotOf (n :: ns) v 0 = some n := by simp [slotOf]
      simp only [zip_cons_cons, filter_cons, length_cons, drop_succ_cons, kept, hs, h0, ← ih t]
      split <;> simp

theorem filterArgs_eq_kept (cfg : List String) (sig : Sig) (args : List Arg) :
    filterArgs cfg sig args = kept cfg (slotOfPos sig) args := by
  have : slotOfPos sig = slotOf (posNames sig) (varPosName sig) := by
    funext i; simp [slotOfPos, slotOf]
  rw [this, ← kept_zip]; rfl

theorem keepArg_eq (cfg : List String) (s : Option String) (a : Arg) :
    keepArg cfg s a = (!(isConfig cfg s) && !a.ji) := by
  cases s <;> simp [keepArg, isConfig]

/-- Equal filtered hash lists agree at every kept index, when the two argument lists have JobInfo
values at the same places. -/
theorem kept_inj (cfg : List String) (f : Nat → Option String) (xs ys : List Arg)
    (hlen : xs.length = ys.length)
    (hji : ∀ (i : Nat) (a b : Arg), xs[i]? = some a → ys[i]? = some b → a.ji = b.ji)
    (heq : (kept cfg f xs).map argHash = (kept cfg f ys).map argHash)
    (i : Nat) (a b : Arg) (ha : xs[i]? = some a) (hb : ys[i]? = some b)
    (hk : keepArg cfg (f i) a = true) : a.h = b.h := by
  induction xs generalizing ys f i with
  | nil => simp at ha
  | cons x xt ih =>
    cases ys with
    | nil => simp at hb
    | cons y yt =>
      have hxy : x.ji = y.ji := hji 0 x y (by simp) (by simp)
      have hkxy : keepArg cfg (f 0) x = keepArg cfg (f 0) y := by simp [keepArg_eq, hxy]
      simp only [kept, ← hkxy] at heq
      have htail : (kept cfg (fun i => f (i + 1)) xt).map argHash
          = (kept cfg (fun i => f (i + 1)) yt).map argHash ∧
          (keepArg cfg (f 0) x = true → x.h = y.h) := by
        by_cases hkx : keepArg cfg (f 0) x = true
        · simp only [hkx, if_true, singleton_append, map_cons, cons.injEq, argHash, Pre.val.injEq] at heq
          exact ⟨heq.2, fun _ => heq.1⟩
        · simp only [hkx] at heq
          exact ⟨by simpa using heq, fun h => absurd h hkx⟩
      cases i with
      | zero =>
        simp only [getElem?_cons_zero, Option.some.injEq] at ha hb
        subst ha; subst hb
        exact htail.2 hk
      | succ j =>
        simp only [getElem?_cons_succ] at ha hb
        exact ih (fun i => f (i + 1)) yt (by simpa using hlen)
          (fun i a b h1 h2 => hji (i + 1) a b (by simpa using h1) (by simpa using h2))
          htail.1 j ha hb hk

/-- Values at config slots and JobInfo values do not influence the filtered hash list. -/
theorem kept_stable (cfg : List String) (f : Nat → Option String) (xs ys : List Arg)
    (hlen : xs.length = ys.length)
    (hrel : ∀ (i : Nat) (a b : Arg), xs[i]? = some a → ys[i]? = some b →
      a = b ∨ isConfig cfg (f i) = true ∨ (a.ji = true ∧ b.ji = true)) :
    kept cfg f xs = kept cfg f ys := by
  induction xs generalizing ys f with
  | nil => cases ys with
    | nil => rfl
    | cons _ _ => simp at hlen
  | cons x xt ih =>
    cases ys with
    | nil => simp at hlen
    | cons y yt =>
      have ht := ih (fun i => f (i + 1)) yt (by simpa using hlen)
        (fun i a b h1 h2 => hrel (i + 1) a b (by simpa using h1) (by simpa using h2))
      simp only [kept, ht]
      congr 1
      rcases hrel 0 x y (by simp) (by simp) with h | h | h
      · rw [h]
      · simp [keepArg_eq, h]
      · simp [keepArg_eq, h.1, h.2]

end RedunModel.Keys

namespace RedunModel.Keys
open RedunModel.Pre List

theorem hasKey_iff (kw : Kwargs) (k : String) : hasKey kw k = true ↔ k ∈ keys kw := by
  simp only [hasKey, any_eq_true, keys, mem_map, beq_iff_eq]

theorem defaultOf_some {n : Nat} {kw : Kwargs} {p : Param} {i : Nat} {e : String × Arg} :
    defaultOf n kw p i = some e ↔
      ¬ (i < n ∧ p.kind.positional = true) ∧ p.name ∉ keys kw ∧ p.default = some e.2 ∧ e.1 = p.name := by
  unfold defaultOf
  by_cases h1 : i < n ∧ p.kind.positional = true
  · simp [h1]
  · by_cases h2 : hasKey kw p.name = true
    · have := (hasKey_iff kw p.name).mp h2
      simp [h1, h2, this]
    · have h2' : p.name ∉ keys kw := fun h => h2 ((hasKey_iff kw p.name).mpr h)
      rw [if_neg h1, if_neg h2]
      cases hd : p.default with
      | none => simp
      | some d =>
        simp only [Option.some.injEq, h1, not_false_eq_true, h2', true_and]
        constructor
        · rintro rfl; exact ⟨rfl, rfl⟩
        · rintro ⟨h, h'⟩; cases e; simp_all

theorem mem_getArgDefaults {sig : Sig} {n : Nat} {kw : Kwargs} {e : String × Arg} :
    e ∈ getArgDefaults sig n kw ↔ ∃ p i, (p, i) ∈ sig.zipIdx ∧
      ¬ (i < n ∧ p.kind.positional = true) ∧ p.name ∉ keys kw ∧ p.default = some e.2 ∧ e.1 = p.name := by
  simp only [getArgDefaults, mem_filterMap, defaultOf_some, Prod.exists]

theorem defaults_disjoint (sig : Sig) (n : Nat) (kw : Kwargs) :
    ∀ k ∈ keys kw, k ∉ keys (getArgDefaults sig n kw) := by
  intro k hk hk'
  simp only [keys, mem_map] at hk'
  obtain ⟨e, he, rfl⟩ := hk'
  obtain ⟨p, i, _, _, h3, _, h5⟩ := mem_getArgDefaults.mp he
  rw [h5] at hk; exact h3 hk

theorem defaults_keys_sublist (sig : Sig) (n : Nat) (kw : Kwargs) (m : Nat) :
    (keys ((sig.zipIdx m).filterMap (fun pi => defaultOf n kw pi.1 pi.2))).Sublist (sig.map (·.name)) := by
  induction sig generalizing m with
  | nil => simp [keys]
  | cons p t ih =>
    simp only [zipIdx_cons, filterMap_cons, map_cons]
    cases h : defaultOf n kw p m with
    | none => exact (ih (m + 1)).cons _
    | some e =>
      have := (defaultOf_some.mp h).2.2.2
      simp only [keys, map_cons, this]
      exact (ih (m + 1)).cons_cons _

theorem defaults_keys_nodup (sig : Sig) (n : Nat) (kw : Kwargs) (hsig : (sig.map (·.name)).Nodup) :
    (keys (getArgDefaults sig n kw)).Nodup :=
  Nodup.sublist (defaults_keys_sublist sig n kw 0) hsig

/-- the keyword dict that reaches `hash_args_eval` -/
def finalKw (sig : Sig) (n : Nat) (kw : Kwargs) : Kwargs := dictMerge (getArgDefaults sig n kw) kw

theorem finalKw_eq (sig : Sig) (n : Nat) (kw : Kwargs) (hn : (keys kw).Nodup) :
    finalKw sig n kw = getArgDefaults sig n kw ++ kw :=
  dictMerge_disjoint _ _ hn (defaults_disjoint sig n kw)

theorem finalKw_keys_nodup (sig : Sig) (n : Nat) (kw : Kwargs) (hsig : (sig.map (·.name)).Nodup)
    (hn : (keys kw).Nodup) : (keys (finalKw sig n kw)).Nodup := by
  rw [finalKw_eq sig n kw hn]
  simp only [keys, map_append]
  refine nodup_append.mpr ⟨defaults_keys_nodup sig n kw hsig, hn, ?_⟩
  intro a ha b hb e
  subst e
  exact defaults_disjoint sig n kw a hb ha

theorem keys_hashKw_filter (cfg : List String) (kw : Kwargs) :
    (keys (hashKw (filterKwargs cfg kw))).Sublist (keys kw) := by
  simp only [keys, hashKw, map_map, filterKwargs]
  exact (filter_sublist).map _

theorem mem_hashKw_filter {cfg : List String} {kw : Kwargs} {e : String × Pre} :
    e ∈ hashKw (filterKwargs cfg kw) ↔
      ∃ a, (e.1, a) ∈ kw ∧ keepArg cfg (some e.1) a = true ∧ e.2 = .val a.h := by
  simp only [hashKw, filterKwargs, mem_map, mem_filter, argHash]
  constructor
  · rintro ⟨⟨k, a⟩, ⟨h1, h2⟩, rfl⟩; exact ⟨a, h1, h2, rfl⟩
  · rintro ⟨a, h1, h2, h3⟩; exact ⟨(e.1, a), ⟨h1, h2⟩, by cases e; simp_all⟩

/-- The dict part of two keys is equal as soon as the final keyword dicts have the same items. -/
theorem dictPart_eq_of_mem_iff (cfg : List String) (k1 k2 : Kwargs) (h1 : (keys k1).Nodup)
    (h2 : (keys k2).Nodup)
    (h : ∀ e, e ∈ hashKw (filterKwargs cfg k1) ↔ e ∈ hashKw (filterKwargs cfg k2)) :
    sortKw (hashKw (filterKwargs cfg k1)) = sortKw (hashKw (filterKwargs cfg k2)) := by
  have n1 : (keys (hashKw (filterKwargs cfg k1))).Nodup := Nodup.sublist (keys_hashKw_filter cfg k1) h1
  have n2 : (keys (hashKw (filterKwargs cfg k2))).Nodup := Nodup.sublist (keys_hashKw_filter cfg k2) h2
  refine sortKw_eq_of_perm ?_ n1
  have m1 : (hashKw (filterKwargs cfg k1)).Nodup := by
    simp only [keys] at n1; exact Pairwise.of_map (·.1) (fun a b h e => h (by rw [e])) n1
  have m2 : (hashKw (filterKwargs cfg k2)).Nodup := by
    simp only [keys] at n2; exact Pairwise.of_map (·.1) (fun a b h e => h (by rw [e])) n2
  exact (perm_ext_iff_of_nodup m1 m2).mpr h

end RedunModel.Keys
