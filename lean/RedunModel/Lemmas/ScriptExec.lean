/-
Lemmas about the text that `script_task` finally executes (C29, theorem `second_prepare_keeps_command`):
lines of `strip`/`dedent` results, the full command `[cd] + stage + wrapper + unstage` as text, and the
here-document reader applied to `prepare_command(full_command)`.  Core Lean only.
-/
import RedunModel.Lemmas.Script
namespace RedunModel.Script


/-! ### blank lines, `strip` and `dedent` -/

theorem dropWhile_head_false {p : Char → Bool} (s : Str) {c : Char} {t : Str} (h : s.dropWhile p = c :: t) : p c = false := by
  induction s with
  | nil => simp at h
  | cons d s ih =>
    cases hd : p d with
    | true => simp only [List.dropWhile, hd] at h; exact ih h
    | false => simp only [List.dropWhile, hd] at h; cases h; exact hd

theorem snoc_induction {α : Type} {P : List α → Prop} (hnil : P []) (hsnoc : ∀ l a, P l → P (l ++ [a])) : ∀ l, P l := by
  have : ∀ l : List α, P l.reverse := by
    intro l
    induction l with
    | nil => exact hnil
    | cons a l ih => rw [List.reverse_cons]; exact hsnoc _ _ ih
  intro l
  have := this l.reverse
  rwa [List.reverse_reverse] at this

theorem mem_of_mem_dropLast' {α : Type} {a : α} : ∀ {l : List α}, a ∈ l.dropLast → a ∈ l
  | [], h => by simp at h
  | [_], h => by simp at h
  | x :: y :: l, h => by
    rw [List.dropLast_cons_cons] at h
    rcases List.mem_cons.1 h with e | e
    · subst e; simp
    · exact List.mem_cons_of_mem _ (mem_of_mem_dropLast' e)

/-- a line that `dedent` would normalise: only spaces/tabs -/
def Blank (l : Str) : Prop := l.all isSpTab = true

/-- no line of the text is a non-empty run of spaces/tabs -/
def NoBlankLines (ls : List Str) : Prop := ∀ l ∈ ls, Blank l → l = []

theorem isSpTab_isPySpace {c : Char} (h : isSpTab c = true) : isPySpace c = true := by
  simp [isSpTab] at h
  rcases h with e | e <;> subst e <;> decide

theorem nl_isPySpace : isPySpace '\n' = true := by decide

theorem not_blank_of_head {c : Char} {l : Str} (hc : isPySpace c = false) : ¬ Blank (c :: l) := by
  intro hb
  simp [Blank, List.all_cons] at hb
  have := isSpTab_isPySpace hb.1
  rw [hc] at this; cases this

/-- lines of a text and of the text after the first character -/
theorem tail_lines_cons (c : Char) (s : Str) :
    (c = '\n' ∧ (splitNL (c :: s)).tail = splitNL s) ∨ (c ≠ '\n' ∧ (splitNL (c :: s)).tail = (splitNL s).tail) := by
  by_cases hc : c = '\n'
  · subst hc; left; exact ⟨rfl, by rw [splitNL_cons_nl]; rfl⟩
  · right
    obtain ⟨l, ls, h1, h2⟩ := splitNL_cons_ne hc s
    exact ⟨hc, by rw [h2, h1]; rfl⟩

theorem head_line_of_nonspace (c : Char) (s : Str) (hc : isPySpace c = false) :
    ∃ l ls, splitNL (c :: s) = (c :: l) :: ls := by
  have hne : c ≠ '\n' := by intro e; subst e; rw [nl_isPySpace] at hc; cases hc
  obtain ⟨l, ls, _, h2⟩ := splitNL_cons_ne hne s
  exact ⟨l, ls, h2⟩

theorem lstrip_lines (s : Str) (h : NoBlankLines (splitNL s).tail) : NoBlankLines (splitNL (lstrip s)) := by
  induction s with
  | nil => intro l hl _; simp [lstrip, splitNL] at hl; exact hl
  | cons c s ih =>
    unfold lstrip
    cases hc : isPySpace c with
    | true =>
      simp only [List.dropWhile, hc]
      apply ih
      rcases tail_lines_cons c s with ⟨_, e⟩ | ⟨_, e⟩
      · rw [e] at h; intro l hl; exact h l (List.mem_of_mem_tail hl)
      · rw [e] at h; exact h
    | false =>
      simp only [List.dropWhile, hc]
      obtain ⟨l0, ls, e⟩ := head_line_of_nonspace c s hc
      rw [e] at h ⊢
      intro l hl hb
      rcases List.mem_cons.1 hl with e' | e'
      · subst e'; exact absurd hb (not_blank_of_head hc)
      · exact h l e' hb

theorem lstrip_head (s : Str) : lstrip s = [] ∨ ∃ c t, lstrip s = c :: t ∧ isPySpace c = false := by
  unfold lstrip
  cases h : s.dropWhile isPySpace with
  | nil => exact Or.inl rfl
  | cons c t =>
    right
    refine ⟨c, t, rfl, ?_⟩
    exact dropWhile_head_false s h

/-! right end -/
theorem splitNL_snoc_nl (s : Str) : splitNL (s ++ ['\n']) = splitNL s ++ [[]] := by
  rw [splitNL_append_nl]; rfl

theorem splitNL_snoc_ne (s : Str) (c : Char) (hc : c ≠ '\n') :
    ∃ init last, splitNL s = init ++ [last] ∧ splitNL (s ++ [c]) = init ++ [last ++ [c]] := by
  induction s with
  | nil => exact ⟨[], [], by simp [splitNL], by simp [splitNL, hc]⟩
  | cons d s ih =>
    obtain ⟨init, last, h1, h2⟩ := ih
    by_cases hd : d = '\n'
    · subst hd
      exact ⟨[] :: init, last, by rw [splitNL_cons_nl, h1]; rfl, by rw [List.cons_append, splitNL_cons_nl, h2]; rfl⟩
    · obtain ⟨l, ls, e1, e2⟩ := splitNL_cons_ne hd s
      obtain ⟨l', ls', e1', e2'⟩ := splitNL_cons_ne hd (s ++ [c])
      rw [List.cons_append, e2', e2]
      rw [h2] at e1'
      rw [h1] at e1
      cases init with
      | nil =>
        simp at e1 e1'
        exact ⟨[], d :: last, by simp [← e1.1, ← e1.2], by simp [← e1'.1, ← e1'.2]⟩
      | cons i0 irest =>
        simp at e1 e1'
        exact ⟨(d :: i0) :: irest, last, by simp [← e1.1, ← e1.2], by simp [← e1'.1, ← e1'.2]⟩

theorem rstrip_snoc (s : Str) (c : Char) : rstrip (s ++ [c]) = if isPySpace c then rstrip s else s ++ [c] := by
  unfold rstrip
  simp only [List.reverse_append, List.reverse_cons, List.reverse_nil, List.nil_append, List.singleton_append]
  cases hc : isPySpace c <;> simp [List.dropWhile, hc]

theorem dropLast_append_singleton {α : Type} (a : List α) (x : α) : (a ++ [x]).dropLast = a := by simp

theorem rstrip_lines (s : Str) (h : NoBlankLines (splitNL s).dropLast) : NoBlankLines (splitNL (rstrip s)) := by
  induction s using snoc_induction with
  | hnil => intro l hl _; simp [rstrip, splitNL] at hl; exact hl
  | hsnoc s c ih =>
    rw [rstrip_snoc]
    cases hc : isPySpace c with
    | true =>
      simp only [if_true]
      apply ih
      by_cases hn : c = '\n'
      · subst hn
        rw [splitNL_snoc_nl, dropLast_append_singleton] at h
        intro l hl; exact h l (mem_of_mem_dropLast' hl)
      · obtain ⟨init, last, h1, h2⟩ := splitNL_snoc_ne s c hn
        rw [h2, dropLast_append_singleton] at h
        rw [h1, dropLast_append_singleton]; exact h
    | false =>
      simp only [Bool.false_eq_true, if_false]
      have hn : c ≠ '\n' := by intro e; subst e; rw [nl_isPySpace] at hc; cases hc
      obtain ⟨init, last, h1, h2⟩ := splitNL_snoc_ne s c hn
      rw [h2, dropLast_append_singleton] at h
      rw [h2]
      intro l hl hb
      rcases List.mem_append.1 hl with e | e
      · exact h l e hb
      · simp at e; subst e
        exfalso
        simp [Blank, List.all_append] at hb
        have := isSpTab_isPySpace hb.2
        rw [hc] at this; cases this

theorem strip_lines (s : Str) (h : NoBlankLines (splitNL s)) : NoBlankLines (splitNL (strip s)) := by
  unfold strip
  apply rstrip_lines
  have := lstrip_lines s (fun l hl => h l (List.mem_of_mem_tail hl))
  intro l hl; exact this l (mem_of_mem_dropLast' hl)



theorem splitNL_joinNL (ls : List Str) (hne : ls ≠ []) (h : ∀ l ∈ ls, '\n' ∉ l) : splitNL (joinNL ls) = ls := by
  induction ls with
  | nil => exact absurd rfl hne
  | cons l ls ih =>
    cases ls with
    | nil => simp [joinNL, splitNL_no_nl (h l (by simp))]
    | cons l2 ls =>
      rw [joinNL_cons_cons, splitNL_append_nl, splitNL_no_nl (h l (by simp)),
        ih (by simp) (fun x hx => h x (List.mem_cons_of_mem _ hx))]
      rfl

theorem normBlank_blank (l : Str) (h : Blank (normBlank l)) : normBlank l = [] := by
  unfold normBlank at h ⊢
  by_cases hn : l.all isSpTab = true
  · simp [hn]
  · simp only [hn] at h; exact absurd h hn

theorem takeWhile_all_true (p : Char → Bool) (l : Str) : (l.takeWhile p).all p = true := by
  induction l with
  | nil => rfl
  | cons c cs ih =>
    cases hc : p c with
    | false => simp [List.takeWhile, hc]
    | true =>
      simp only [List.takeWhile, hc, List.all_cons, Bool.true_and]
      exact ih

theorem lcp_all (a b : Str) (h : a.all isSpTab = true) : (lcp a b).all isSpTab = true := by
  induction a generalizing b with
  | nil => simp [lcp]
  | cons x xs ih =>
    cases b with
    | nil => simp [lcp]
    | cons y ys =>
      simp only [List.all_cons, Bool.and_eq_true] at h
      unfold lcp
      split
      · simp only [List.all_cons, Bool.and_eq_true]; exact ⟨h.1, ih ys h.2⟩
      · rfl

theorem marginStep_all (m : Option Str) (l : Str) (h : ∀ mg, m = some mg → mg.all isSpTab = true) :
    ∀ mg, marginStep m l = some mg → mg.all isSpTab = true := by
  intro mg hm
  unfold marginStep at hm
  split at hm
  · exact h mg hm
  · split at hm
    · cases hm; exact takeWhile_all_true _ _
    · rename_i mg0
      cases hm; exact lcp_all _ _ (h mg0 rfl)

theorem margin_all (ls : List Str) (mg : Str) (h : margin ls = some mg) : mg.all isSpTab = true := by
  unfold margin at h
  have : ∀ (ls : List Str) (m : Option Str), (∀ mg, m = some mg → mg.all isSpTab = true) →
      ∀ mg, ls.foldl marginStep m = some mg → mg.all isSpTab = true := by
    intro ls
    induction ls with
    | nil => intro m hm mg h; exact hm mg h
    | cons l ls ih => intro m hm mg h; exact ih (marginStep m l) (marginStep_all m l hm) mg h
  exact this ls none (by intro mg h; cases h) mg h

theorem stripMargin_blank (mg x : Str) (hmg : mg.all isSpTab = true) (h : Blank (stripMargin mg x)) : Blank x := by
  unfold stripMargin at h
  split at h
  · rename_i hp
    rw [List.isPrefixOf_iff_prefix] at hp
    obtain ⟨r, rfl⟩ := hp
    simp only [List.drop_left] at h
    simp only [Blank, List.all_append, Bool.and_eq_true]
    exact ⟨hmg, h⟩
  · exact h

theorem stripMargin_nil (mg : Str) : stripMargin mg [] = [] := by
  unfold stripMargin; split <;> simp

theorem not_mem_normBlank {c : Char} {l : Str} (h : c ∉ l) : c ∉ normBlank l := by
  unfold normBlank; split
  · simp
  · exact h

theorem not_mem_stripMargin {c : Char} {mg l : Str} (h : c ∉ l) : c ∉ stripMargin mg l := by
  unfold stripMargin; split
  · intro hm; exact h (List.mem_of_mem_drop hm)
  · exact h

theorem dedentLines_spec (ls : List Str) :
    (dedentLines ls).length = ls.length ∧ NoBlankLines (dedentLines ls) ∧
      ((∀ l ∈ ls, '\n' ∉ l) → ∀ l ∈ dedentLines ls, '\n' ∉ l) := by
  unfold dedentLines
  simp only
  have hbase : NoBlankLines (ls.map normBlank) := by
    intro l hl hb
    obtain ⟨l0, _, rfl⟩ := List.mem_map.1 hl
    exact normBlank_blank l0 hb
  have hnl : (∀ l ∈ ls, '\n' ∉ l) → ∀ l ∈ ls.map normBlank, '\n' ∉ l := by
    intro h l hl
    obtain ⟨l0, hl0, rfl⟩ := List.mem_map.1 hl
    exact not_mem_normBlank (h l0 hl0)
  split
  · rename_i mg hm
    split
    · exact ⟨by simp, hbase, hnl⟩
    · refine ⟨by simp, ?_, ?_⟩
      · intro l hl hb
        obtain ⟨l1, hl1, rfl⟩ := List.mem_map.1 hl
        have := hbase l1 hl1 (stripMargin_blank mg l1 (margin_all _ mg hm) hb)
        rw [this, stripMargin_nil]
      · intro h l hl
        obtain ⟨l1, hl1, rfl⟩ := List.mem_map.1 hl
        exact not_mem_stripMargin (hnl h l1 hl1)
  · exact ⟨by simp, hbase, hnl⟩

theorem dedent_lines (s : Str) : NoBlankLines (splitNL (dedent s)) := by
  unfold dedent
  obtain ⟨hlen, hnb, hnl⟩ := dedentLines_spec (splitNL s)
  have hne : dedentLines (splitNL s) ≠ [] := by
    intro e
    rw [e] at hlen
    have := splitNL_ne_nil s
    cases hs : splitNL s with
    | nil => exact this hs
    | cons a b => rw [hs] at hlen; simp at hlen
  rw [splitNL_joinNL _ hne (hnl (fun l hl => mem_splitNL_no_nl hl))]
  exact hnb

/-- (L1) after `prepare_command`, no line is a non-empty run of spaces/tabs -/
theorem prepare_lines (c : Str) : NoBlankLines (splitNL (prepare c)) := by
  have hb := strip_lines (dedent c) (dedent_lines c)
  unfold prepare
  simp only
  split
  · exact hb
  · rw [splitNL_append_nl]
    intro l hl hbl
    rcases List.mem_append.1 hl with e | e
    · have : splitNL defaultShell = ["#!/usr/bin/env bash".toList, "set -exo pipefail".toList] := by decide
      rw [this] at e
      simp only [List.mem_cons, List.not_mem_nil, or_false] at e
      rcases e with e | e <;> subst e <;> revert hbl <;> simp [Blank] <;> decide
    · exact hb l e hbl



/-! ### the full command as text -/

/-- `"\n" + p` for every later command -/
def nlAll : List Str → Str
  | [] => []
  | p :: ps => '\n' :: p ++ nlAll ps

theorem joinNL_cons_nlAll (x : Str) (ps : List Str) : joinNL (x :: ps) = x ++ nlAll ps := by
  induction ps generalizing x with
  | nil => simp [joinNL, nlAll]
  | cons p ps ih => rw [joinNL_cons_cons, ih, nlAll]; simp

theorem joinNL_append_cons (pre : List Str) (w : Str) (post : List Str) :
    joinNL (pre ++ w :: post) = unlines pre ++ (w ++ nlAll post) := by
  induction pre with
  | nil => simp [unlines, joinNL_cons_nlAll]
  | cons p ps ih =>
    cases hps : ps ++ w :: post with
    | nil => simp at hps
    | cons a b =>
      rw [List.cons_append, hps, joinNL_cons_cons, ← hps, ih, unlines]
      simp

theorem splitNL_unlines_append (pre : List Str) (x : Str) (h : ∀ p ∈ pre, '\n' ∉ p) :
    splitNL (unlines pre ++ x) = pre ++ splitNL x := by
  induction pre with
  | nil => simp [unlines]
  | cons p ps ih =>
    rw [unlines, List.append_assoc, List.cons_append, splitNL_append_nl, splitNL_no_nl (h p (by simp)),
      ih (fun q hq => h q (List.mem_cons_of_mem _ hq))]
    rfl

theorem splitNL_append_nlAll (x : Str) (post : List Str) (h : ∀ p ∈ post, '\n' ∉ p) :
    splitNL (x ++ nlAll post) = splitNL x ++ post := by
  induction post generalizing x with
  | nil => simp [nlAll]
  | cons p ps ih =>
    rw [nlAll, show x ++ ('\n' :: p ++ nlAll ps) = (x ++ '\n' :: p) ++ nlAll ps by simp,
      ih _ (fun q hq => h q (List.mem_cons_of_mem _ hq)), splitNL_append_nl, splitNL_no_nl (h p (by simp))]
    simp

/-! ### margin of a text that has an unindented line -/

theorem lcp_nil_right (a : Str) : lcp a [] = [] := by cases a <;> rfl
theorem lcp_nil_left (b : Str) : lcp [] b = [] := rfl

theorem foldl_margin_nil (ls : List Str) : ls.foldl marginStep (some []) = some [] := by
  induction ls with
  | nil => rfl
  | cons l ls ih =>
    simp only [List.foldl]
    have : marginStep (some []) l = some [] := by
      unfold marginStep; split
      · rfl
      · simp [lcp_nil_left]
    rw [this, ih]

theorem foldl_margin_witness (ls : List Str) (m : Option Str)
    (h : ∃ l ∈ ls, ¬ Blank l ∧ l.takeWhile isSpTab = []) : ls.foldl marginStep m = some [] := by
  induction ls generalizing m with
  | nil => obtain ⟨l, hl, _⟩ := h; simp at hl
  | cons l0 ls ih =>
    obtain ⟨l, hl, hnb, htw⟩ := h
    simp only [List.foldl]
    rcases List.mem_cons.1 hl with e | e
    · subst e
      have : marginStep m l = some [] := by
        unfold marginStep
        have hnb' : ¬ (l.all isSpTab = true) := hnb
        rw [if_neg hnb']
        cases m with
        | none => simp [htw]
        | some mg => simp [htw, lcp_nil_right]
      rw [this, foldl_margin_nil]
    · exact ih _ ⟨l, e, hnb, htw⟩

theorem dedent_fixed (s : Str) (h1 : NoBlankLines (splitNL s))
    (h2 : ∃ l ∈ splitNL s, ¬ Blank l ∧ l.takeWhile isSpTab = []) : dedent s = s := by
  unfold dedent dedentLines
  have hmap : (splitNL s).map normBlank = splitNL s := by
    conv => rhs; rw [← List.map_id (splitNL s)]
    apply List.map_congr_left
    intro l hl
    unfold normBlank
    split
    · rename_i hb; exact (h1 l hl hb).symm
    · rfl
  simp only [hmap]
  have : margin (splitNL s) = some [] := foldl_margin_witness _ none h2
  rw [this]
  simp [joinNL_splitNL]

/-! ### `strip` of a text with known ends -/

theorem lstrip_unlines (pre : List Str) (z : Str)
    (hpre : ∀ p ∈ pre, p = [] ∨ ∃ c t, p = c :: t ∧ isPySpace c = false)
    (hz : ∃ c t, z = c :: t ∧ isPySpace c = false) :
    ∃ pre', (∀ p ∈ pre', p ∈ pre) ∧ lstrip (unlines pre ++ z) = unlines pre' ++ z ∧
      (pre' = [] ∨ ∃ c t ps, pre' = (c :: t) :: ps) := by
  induction pre with
  | nil =>
    obtain ⟨c, t, rfl, hc⟩ := hz
    exact ⟨[], by simp, by simp [lstrip, unlines, hc], Or.inl rfl⟩
  | cons p ps ih =>
    rcases hpre p (by simp) with e | ⟨c, t, e, hc⟩
    · subst e
      obtain ⟨pre', h1, h2, h3⟩ := ih (fun q hq => hpre q (List.mem_cons_of_mem _ hq))
      refine ⟨pre', fun q hq => List.mem_cons_of_mem _ (h1 q hq), ?_, h3⟩
      rw [← h2]
      simp [lstrip, unlines, nl_isPySpace]
    · subst e
      exact ⟨(c :: t) :: ps, fun q hq => hq, by simp [lstrip, unlines, hc], Or.inr ⟨c, t, ps, rfl⟩⟩

theorem dropWhile_ne_nil_of_mem {p : Char → Bool} (s : Str) (h : ∃ x ∈ s, p x = false) : s.dropWhile p ≠ [] := by
  induction s with
  | nil => obtain ⟨x, hx, _⟩ := h; simp at hx
  | cons c s ih =>
    cases hc : p c with
    | false => simp [List.dropWhile, hc]
    | true =>
      simp only [List.dropWhile, hc]
      obtain ⟨x, hx, hpx⟩ := h
      rcases List.mem_cons.1 hx with e | e
      · subst e; rw [hc] at hpx; cases hpx
      · exact ih ⟨x, e, hpx⟩

theorem rstrip_ne_nil (s : Str) (h : ∃ x ∈ s, isPySpace x = false) : rstrip s ≠ [] := by
  unfold rstrip
  intro e
  rw [List.reverse_eq_nil_iff] at e
  obtain ⟨x, hx, hpx⟩ := h
  exact dropWhile_ne_nil_of_mem s.reverse ⟨x, List.mem_reverse.2 hx, hpx⟩ e

theorem rstrip_append (y r : Str) (h : rstrip r ≠ []) : rstrip (y ++ r) = y ++ rstrip r := by
  unfold rstrip at h ⊢
  rw [List.reverse_append, List.dropWhile_append]
  have : (r.reverse.dropWhile isPySpace).isEmpty = false := by
    cases hd : r.reverse.dropWhile isPySpace with
    | nil => rw [hd] at h; simp at h
    | cons a b => rfl
  simp [this]

theorem rstrip_is_prefix (s : Str) : ∃ t, s = rstrip s ++ t := by
  unfold rstrip
  refine ⟨(s.reverse.takeWhile isPySpace).reverse, ?_⟩
  rw [← List.reverse_append, List.takeWhile_append_dropWhile, List.reverse_reverse]

/-! ### skipping lines that start no here-document -/
theorem findHeredoc_skip (skip rest : List Str) (h : ∀ l ∈ skip, parseDelim l = none) :
    findHeredoc (skip ++ rest) = findHeredoc rest := by
  induction skip with
  | nil => rfl
  | cons l ls ih =>
    rw [List.cons_append, findHeredoc, h l (by simp)]
    exact ih (fun x hx => h x (List.mem_cons_of_mem _ hx))



/-- a command line that cannot disturb the wrapper: one line, empty or starting with a character that is
neither white space nor `#`, and not itself the start of the here-document -/
structure Harmless (p : Str) : Prop where
  noNl : '\n' ∉ p
  head : p = [] ∨ ∃ c t, p = c :: t ∧ isPySpace c = false ∧ c ≠ '#'
  noDelim : parseDelim p = none

theorem Harmless.noblank {p : Str} (hp : Harmless p) : Blank p → p = [] := by
  intro hb
  rcases hp.head with e | ⟨c, t, e, hc, _⟩
  · exact e
  · subst e; exact absurd hb (not_blank_of_head hc)

def catLine (eof : Str) : Str := catPrefix ++ eof ++ ['"']
def head3 : List Str := ["(".toList, "# Save command to temp file.".toList, "COMMAND_FILE=\"$(mktemp)\"".toList]

/-- the wrapper up to and including the terminator line -/
def wrapBody (c eof : Str) : Str := wrapHead ++ '\n' :: catLine eof ++ '\n' :: c ++ '\n' :: eof

theorem wrapWith_eq (c eof : Str) : wrapWith c eof = wrapBody c eof ++ '\n' :: wrapFoot := by
  simp [wrapWith, wrapBody, catLine]

theorem catLine_no_nl {eof : Str} (h : '\n' ∉ eof) : '\n' ∉ catLine eof := by
  unfold catLine
  simp only [List.mem_append, not_or]
  exact ⟨⟨by decide, h⟩, by decide⟩

theorem splitNL_wrapBody (c eof : Str) (h : '\n' ∉ eof) :
    splitNL (wrapBody c eof) = head3 ++ catLine eof :: (splitNL c ++ [eof]) := by
  unfold wrapBody
  rw [splitNL_append_nl, splitNL_append_nl, splitNL_append_nl, splitNL_wrapHead, splitNL_no_nl (catLine_no_nl h),
    splitNL_no_nl h]
  simp [head3]


theorem not_blank_cons {c : Char} {l : Str} (h : isSpTab c = false) : ¬ Blank (c :: l) := by
  simp [Blank, List.all_cons, h]

theorem startsShebang_false {c : Char} {t : Str} (h : c ≠ '#') : startsShebang (c :: t) = false := by
  have h' : ('#' == c) = false := by simp; exact fun e => h e.symm
  simp [startsShebang, List.isPrefixOf, h']

def footLines : List Str := ["".toList, "# Execute temp file.".toList, "chmod +x \"$COMMAND_FILE\"".toList,
      "\"$COMMAND_FILE\"".toList, "RETCODE=$?".toList, "".toList, "# Remove temp file.".toList,
      "rm \"$COMMAND_FILE\"".toList, "".toList, "exit $RETCODE".toList, ")".toList, "".toList]

set_option maxRecDepth 10000 in
theorem splitNL_wrapFoot : splitNL wrapFoot = footLines := by decide

theorem noBlank_wrapFoot : NoBlankLines (splitNL wrapFoot) := by
  rw [splitNL_wrapFoot]
  intro l hl hb
  simp only [footLines, List.mem_cons, List.not_mem_nil, or_false] at hl
  rcases hl with e | e | e | e | e | e | e | e | e | e | e | e <;> subst e <;>
    first | rfl | exact absurd hb (not_blank_cons (by decide))

theorem wrapHead_cons : ∃ t, wrapHead = '(' :: t := ⟨_, rfl⟩
set_option maxRecDepth 10000 in
theorem paren_mem_wrapFoot : ')' ∈ wrapFoot := by decide

theorem keep (c eof : Str) (pre post : List Str)
    (hc : NoBlankLines (splitNL c)) (he : eof ∉ splitNL c) (henl : '\n' ∉ eof) (heb : ¬ Blank eof)
    (hpre : ∀ p ∈ pre, Harmless p) (hpost : ∀ p ∈ post, Harmless p) :
    tempFileOf (prepare (joinNL (pre ++ wrapWith c eof :: post))) = some (c ++ ['\n']) := by
  -- the text
  have hF : joinNL (pre ++ wrapWith c eof :: post) =
      unlines pre ++ (wrapBody c eof ++ '\n' :: (wrapFoot ++ nlAll post)) := by
    rw [joinNL_append_cons, wrapWith_eq]; simp
  have hprenl : ∀ p ∈ pre, '\n' ∉ p := fun p hp => (hpre p hp).noNl
  have hpostnl : ∀ p ∈ post, '\n' ∉ p := fun p hp => (hpost p hp).noNl
  have hlines : splitNL (joinNL (pre ++ wrapWith c eof :: post)) =
      pre ++ ((head3 ++ catLine eof :: (splitNL c ++ [eof])) ++ (splitNL wrapFoot ++ post)) := by
    rw [hF, splitNL_unlines_append _ _ hprenl, splitNL_append_nl, splitNL_append_nlAll _ _ hpostnl,
      splitNL_wrapBody _ _ henl]
  -- dedent leaves it alone
  have hded : dedent (joinNL (pre ++ wrapWith c eof :: post)) = joinNL (pre ++ wrapWith c eof :: post) := by
    apply dedent_fixed
    · rw [hlines]
      intro l hl hb
      rcases List.mem_append.1 hl with h | h
      · exact (hpre l h).noblank hb
      · rcases List.mem_append.1 h with h | h
        · rcases List.mem_append.1 h with h | h
          · simp only [head3, List.mem_cons, List.not_mem_nil, or_false] at h
            rcases h with e | e | e <;> subst e <;> exact absurd hb (not_blank_cons (by decide))
          · rcases List.mem_cons.1 h with e | h
            · subst e; exact absurd hb (by unfold catLine; exact not_blank_cons (l := _) (c := 'c') (by decide))
            · rcases List.mem_append.1 h with h | h
              · exact hc l h hb
              · simp at h; subst h; exact absurd hb heb
        · rcases List.mem_append.1 h with h | h
          · exact noBlank_wrapFoot l h hb
          · exact (hpost l h).noblank hb
    · refine ⟨"(".toList, ?_, not_blank_cons (by decide), rfl⟩
      rw [hlines]
      exact List.mem_append_right _ (List.mem_append_left _ (List.mem_append_left _ (List.mem_cons_self ..)))
  -- strip
  have hZ : ∃ ch t, wrapBody c eof ++ '\n' :: (wrapFoot ++ nlAll post) = ch :: t ∧ isPySpace ch = false :=
    by
      obtain ⟨t, ht⟩ := wrapHead_cons
      exact ⟨'(', _, by simp only [wrapBody, ht, List.cons_append]; rfl, by decide⟩
  obtain ⟨pre', hsub, hl, hhead⟩ := lstrip_unlines pre _ (fun p hp => by
    rcases (hpre p hp).head with e | ⟨ch, t, e, h1, _⟩
    · exact Or.inl e
    · exact Or.inr ⟨ch, t, e, h1⟩) hZ
  have hR2 : rstrip (wrapFoot ++ nlAll post) ≠ [] :=
    rstrip_ne_nil _ ⟨')', List.mem_append_left _ paren_mem_wrapFoot, by decide⟩
  have hR : rstrip ('\n' :: (wrapFoot ++ nlAll post)) = '\n' :: rstrip (wrapFoot ++ nlAll post) := by
    have := rstrip_append ['\n'] _ hR2
    simpa using this
  have hstrip : strip (joinNL (pre ++ wrapWith c eof :: post)) =
      unlines pre' ++ (wrapBody c eof ++ '\n' :: rstrip (wrapFoot ++ nlAll post)) := by
    unfold strip
    rw [hF, hl, show unlines pre' ++ (wrapBody c eof ++ '\n' :: (wrapFoot ++ nlAll post)) =
      (unlines pre' ++ wrapBody c eof) ++ '\n' :: (wrapFoot ++ nlAll post) by simp,
      rstrip_append _ _ (by rw [hR]; simp), hR]
    simp
  have hnoshebang : startsShebang (unlines pre' ++ (wrapBody c eof ++ '\n' :: rstrip (wrapFoot ++ nlAll post))) = false := by
    rcases hhead with e | ⟨ch, t, ps, e⟩
    · subst e
      obtain ⟨t, ht⟩ := wrapHead_cons
      simp only [unlines, List.nil_append, wrapBody, ht, List.cons_append]
      exact startsShebang_false (by decide)
    · rcases (hpre (ch :: t) (hsub _ (by rw [e]; simp))).head with e' | ⟨ch', t', e', _, hne⟩
      · cases e'
      · cases e'
        rw [e]
        simp only [unlines, List.cons_append]
        exact startsShebang_false hne
  have hprep : prepare (joinNL (pre ++ wrapWith c eof :: post)) =
      defaultShell ++ '\n' :: (unlines pre' ++ (wrapBody c eof ++ '\n' :: rstrip (wrapFoot ++ nlAll post))) := by
    unfold prepare
    simp only [hded, hstrip, hnoshebang]
    simp
  -- read the here-document
  unfold tempFileOf
  rw [hprep, splitNL_append_nl, splitNL_unlines_append _ _ (fun p hp => hprenl p (hsub p hp)), splitNL_append_nl,
    splitNL_wrapBody _ _ henl]
  have hsh : splitNL defaultShell = ["#!/usr/bin/env bash".toList, "set -exo pipefail".toList] := by decide
  rw [hsh]
  have hskip : ∀ l ∈ ["#!/usr/bin/env bash".toList, "set -exo pipefail".toList] ++ pre' ++ head3, parseDelim l = none := by
    intro l hl
    rcases List.mem_append.1 hl with h | h
    · rcases List.mem_append.1 h with h | h
      · simp only [List.mem_cons, List.not_mem_nil, or_false] at h
        rcases h with e | e <;> subst e <;> decide
      · exact (hpre l (hsub l h)).noDelim
    · simp only [head3, List.mem_cons, List.not_mem_nil, or_false] at h
      rcases h with e | e | e <;> subst e <;> decide
  have hshape : ["#!/usr/bin/env bash".toList, "set -exo pipefail".toList] ++
      (pre' ++ (head3 ++ catLine eof :: (splitNL c ++ [eof]) ++ splitNL (rstrip (wrapFoot ++ nlAll post)))) =
      (["#!/usr/bin/env bash".toList, "set -exo pipefail".toList] ++ pre' ++ head3) ++
        catLine eof :: (splitNL c ++ eof :: splitNL (rstrip (wrapFoot ++ nlAll post))) := by simp
  rw [hshape, findHeredoc_skip _ _ hskip, findHeredoc]
  have : parseDelim (catLine eof) = some eof := parseDelim_catLine eof
  rw [this]
  simp only
  rw [heredocBody_found eof (splitNL c) _ he]
  simp [unlines_splitNL]


/-! ### the commands `script()` puts around the wrapper are harmless -/

theorem not_prefix_cp (rest : Str) : catPrefix.isPrefixOf ('c' :: 'p' :: rest) = false := rfl
theorem not_prefix_cd (rest : Str) : catPrefix.isPrefixOf ('c' :: 'd' :: rest) = false := rfl

theorem quoteBody_no_nl {s : Str} (h : '\n' ∉ s) : '\n' ∉ quoteBody s := by
  induction s with
  | nil => simp [quoteBody]
  | cons c cs ih =>
    have hc : c ≠ '\n' := by intro e; subst e; simp at h
    have hcs : '\n' ∉ cs := fun e => h (List.mem_cons_of_mem _ e)
    unfold quoteBody
    split
    · intro hm
      rcases List.mem_append.1 hm with e | e
      · revert e; decide
      · exact ih hcs e
    · intro hm
      rcases List.mem_cons.1 hm with e | e
      · exact hc e.symm
      · exact ih hcs e

theorem shQuote_no_nl {s : Str} (h : '\n' ∉ s) : '\n' ∉ shQuote s := by
  unfold shQuote
  split
  · decide
  · split
    · exact h
    · intro hm
      rcases List.mem_cons.1 hm with e | e
      · cases e
      · rcases List.mem_append.1 e with e | e
        · exact quoteBody_no_nl h e
        · simp at e

theorem harmless_nil : Harmless [] := ⟨by simp, Or.inl rfl, by decide⟩

theorem shellCopy_harmless (d : Bool) (src dst : Str) (h1 : '\n' ∉ src) (h2 : '\n' ∉ dst) :
    Harmless (shellCopy d src dst) := by
  have hq1 := shQuote_no_nl h1
  have hq2 := shQuote_no_nl h2
  cases d with
  | true =>
    have e : shellCopy true src dst = 'c' :: 'p' :: (" -r ".toList ++ shQuote src ++ ' ' :: shQuote dst) := by
      simp [shellCopy]
    rw [e]
    refine ⟨?_, Or.inr ⟨'c', _, rfl, by decide, by decide⟩, by simp [parseDelim, not_prefix_cp]⟩
    simp only [List.mem_cons, List.mem_append, not_or]
    exact ⟨by decide, by decide, ⟨by decide, hq1⟩, by decide, hq2⟩
  | false =>
    have e : shellCopy false src dst = 'c' :: 'p' :: (" ".toList ++ shQuote src ++ ' ' :: shQuote dst) := by
      simp [shellCopy]
    rw [e]
    refine ⟨?_, Or.inr ⟨'c', _, rfl, by decide, by decide⟩, by simp [parseDelim, not_prefix_cp]⟩
    simp only [List.mem_cons, List.mem_append, not_or]
    exact ⟨by decide, by decide, ⟨by decide, hq1⟩, by decide, hq2⟩

theorem cdPart_harmless (t : Option Str) (ht : ∀ d, t = some d → '\n' ∉ d) : ∀ p ∈ cdPart t, Harmless p := by
  intro p hp
  cases t with
  | none => simp [cdPart] at hp
  | some d =>
    simp only [cdPart, List.mem_singleton] at hp
    subst hp
    have e : shJoin ["cd".toList, d] = 'c' :: 'd' :: ' ' :: shQuote d := by
      have : shQuote ['c', 'd'] = ['c', 'd'] := by decide
      simp [shJoin, joinSp, this]
    rw [e]
    refine ⟨?_, Or.inr ⟨'c', _, rfl, by decide, by decide⟩, by simp [parseDelim, not_prefix_cd]⟩
    simp only [List.mem_cons, not_or]
    exact ⟨by decide, by decide, by decide, shQuote_no_nl (ht d rfl)⟩

/-- path hygiene assumed of staging leaves: no newline inside a path -/
def leafOk : Leaf → Prop
  | .staging _ _ l r => '\n' ∉ l.path ∧ '\n' ∉ r.path
  | _ => True

theorem renderStage_harmless (l : Leaf) (hl : leafOk l) (s : Str) (h : renderStage l = .ok s) : Harmless s := by
  cases l with
  | staging fam d loc rem =>
    simp only [renderStage, Except.ok.injEq] at h
    subst h
    split
    · exact harmless_nil
    · exact shellCopy_harmless d _ _ hl.2 hl.1
  | fref f => simp [renderStage] at h
  | other tag => simp [renderStage] at h
  | result => simp [renderStage] at h

theorem renderUnstage_harmless (l : Leaf) (hl : leafOk l) (s : Str) (h : renderUnstage (preprocessOutput l) = some s) :
    Harmless s := by
  cases l with
  | staging fam d loc rem =>
    simp only [preprocessOutput, renderUnstage, Option.some.injEq] at h
    subst h
    split
    · exact harmless_nil
    · exact shellCopy_harmless d _ _ hl.1 hl.2
  | fref f =>
    by_cases hc : (!f.isDir && decide (f.path ≠ ['-'])) = true
    · simp only [preprocessOutput, hc, if_true, renderUnstage, Option.some.injEq] at h
      subst h; exact harmless_nil
    · simp only [preprocessOutput, hc, renderUnstage] at h
      cases h
  | other tag => simp [preprocessOutput, renderUnstage] at h
  | result => simp [preprocessOutput, renderUnstage] at h

theorem eofCand_EOF_props (k : Nat) : '\n' ∉ eofCand "EOF".toList k ∧ ¬ Blank (eofCand "EOF".toList k) := by
  unfold eofCand
  split
  · exact ⟨by decide, not_blank_cons (by decide)⟩
  · refine ⟨?_, not_blank_cons (l := _) (c := 'E') (by decide)⟩
    intro hm
    rcases List.mem_append.1 hm with e | e
    · revert e; decide
    · exact natChars_no_nl _ e

end RedunModel.Script
