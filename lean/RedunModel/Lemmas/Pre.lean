import RedunModel.Model.Pre
namespace RedunModel.Pre
open List

variable {α : Type}

theorem insertKw_perm (a : String × α) (l : List (String × α)) : (insertKw a l).Perm (a :: l) := by
  induction l with
  | nil => simp [insertKw]
  | cons b t ih =>
    simp only [insertKw]
    split
    · exact Perm.refl _
    · exact (Perm.cons b ih).trans (Perm.swap a b t)

theorem sortKw_perm (l : List (String × α)) : (sortKw l).Perm l := by
  induction l with
  | nil => simp [sortKw]
  | cons a t ih =>
    have : sortKw (a :: t) = insertKw a (sortKw t) := rfl
    rw [this]
    exact (insertKw_perm a _).trans (Perm.cons a ih)

def KeyLe (a b : String × α) : Prop := a.1 ≤ b.1

theorem insertKw_sorted (a : String × α) (l : List (String × α)) (h : l.Pairwise KeyLe) :
    (insertKw a l).Pairwise KeyLe := by
  induction l with
  | nil => simp [insertKw]
  | cons b t ih =>
    simp only [insertKw]
    have hb := (pairwise_cons.mp h)
    split
    · rename_i hab
      refine pairwise_cons.mpr ⟨?_, h⟩
      intro c hc
      rcases mem_cons.mp hc with rfl | hc
      · exact hab
      · exact String.le_trans hab (hb.1 c hc)
    · rename_i hab
      refine pairwise_cons.mpr ⟨?_, ih hb.2⟩
      intro c hc
      have := (insertKw_perm a t).mem_iff.mp hc
      rcases mem_cons.mp this with rfl | hc
      · rcases String.le_total c.1 b.1 with h1 | h1
        · exact absurd h1 hab
        · exact h1
      · exact hb.1 c hc

theorem sortKw_sorted (l : List (String × α)) : (sortKw l).Pairwise KeyLe := by
  induction l with
  | nil => simp [sortKw]
  | cons a t ih => exact insertKw_sorted a _ ih

/-- In an item list with unique keys an item is determined by its key. -/
theorem eq_of_key_eq {l : List (String × α)} (hn : (keys l).Nodup) {a b : String × α}
    (ha : a ∈ l) (hb : b ∈ l) (h : a.1 = b.1) : a = b := by
  induction l with
  | nil => cases ha
  | cons c t ih =>
    simp only [keys, map_cons, nodup_cons, mem_map, not_exists, not_and] at hn
    rcases mem_cons.mp ha with ea | ha <;> rcases mem_cons.mp hb with eb | hb
    · rw [ea, eb]
    · exact absurd (by rw [← h, ea]) (hn.1 b hb)
    · exact absurd (by rw [h, eb]) (hn.1 a ha)
    · exact ih (by simpa [keys] using hn.2) ha hb

/-- Keyword order is irrelevant: two insertion orders of the same dict sort to the same items. -/
theorem sortKw_eq_of_perm {l₁ l₂ : List (String × α)} (hp : l₁.Perm l₂) (hn : (keys l₁).Nodup) :
    sortKw l₁ = sortKw l₂ := by
  have p1 := sortKw_perm l₁
  have p2 := sortKw_perm l₂
  refine Perm.eq_of_pairwise (le := KeyLe) ?_ (sortKw_sorted l₁) (sortKw_sorted l₂)
    (p1.trans (hp.trans p2.symm))
  intro a b ha hb hab hba
  have ha' : a ∈ l₁ := p1.mem_iff.mp ha
  have hb' : b ∈ l₁ := hp.mem_iff.mpr (p2.mem_iff.mp hb)
  exact eq_of_key_eq hn ha' hb' (String.le_antisymm hab hba)

theorem perm_of_sortKw_eq {l₁ l₂ : List (String × α)} (h : sortKw l₁ = sortKw l₂) : l₁.Perm l₂ :=
  (sortKw_perm l₁).symm.trans (h ▸ sortKw_perm l₂)

theorem mem_sortKw {l : List (String × α)} {a : String × α} : a ∈ sortKw l ↔ a ∈ l :=
  (sortKw_perm l).mem_iff

theorem dictSet_of_not_mem (d : List (String × α)) (k : String) (v : α) (h : k ∉ keys d) :
    dictSet d k v = d ++ [(k, v)] := by
  induction d with
  | nil => rfl
  | cons c t ih =>
    simp only [keys, map_cons, mem_cons, not_or] at h
    simp only [dictSet]
    rw [if_neg (fun e => h.1 e.symm)]
    simp [ih (by simpa [keys] using h.2)]

/-- `{**a, **b}` is concatenation when `b`'s keys are unique and disjoint from `a`'s. -/
theorem dictMerge_disjoint (a b : List (String × α)) (hb : (keys b).Nodup)
    (hd : ∀ k ∈ keys b, k ∉ keys a) : dictMerge a b = a ++ b := by
  induction b generalizing a with
  | nil => simp [dictMerge]
  | cons c t ih =>
    simp only [keys, map_cons, nodup_cons] at hb
    have hc : c.1 ∉ keys a := hd c.1 (by simp [keys])
    have : dictMerge a (c :: t) = dictMerge (dictSet a c.1 c.2) t := rfl
    rw [this, dictSet_of_not_mem a c.1 c.2 hc, ih _ (by simpa [keys] using hb.2)]
    · simp
    · intro k hk
      simp only [keys, map_append, map_cons, map_nil, mem_append, mem_singleton, not_or]
      refine ⟨hd k (by simp only [keys, map_cons, mem_cons]; exact Or.inr hk), ?_⟩
      intro e; subst e; exact hb.1 hk

end RedunModel.Pre
