/-
Registration order in the promise machine: `PInv` — callback lists and running notification loops are in
registration order, and a `then()` call that was made while no notification loop of its promise had callbacks
waiting (`State.during` = false) has its callback invoked only after every earlier `then()` call on the same
promise (same branch) had its callback invoked.  `Reach.pinv`: holds in every reachable state.
-/
import RedunModel.Lemmas.PromiseColl
namespace RedunModel.Promise

/-! ### registration order -/

def RidLt (c1 c2 : Cb) : Prop := c1.rid < c2.rid
def SameOwner (s : State) (r1 r2 : Nat) : Prop := ∃ p, s.regs[r1]? = some p ∧ s.regs[r2]? = some p

structure PInv (s : State) : Prop where
  dlen : s.during.length = s.regs.length
  heap : ∀ (p : Nat) (pr : Prom), s.heap[p]? = some pr → ∀ b, (pick b pr).Pairwise RidLt
  frames : ∀ v todo, Frame.notify v todo ∈ s.stack → todo.Pairwise RidLt
  log : ∀ (r1 r2 : Nat) (b : Br) (v : Val) (l1 l2 : List Event), r1 < r2 → SameOwner s r1 r2 →
    s.during[r2]? = some false → s.log = l1 ++ Event.invoke r2 b v :: l2 → calls r1 b l2 = 1
  wait : ∀ v todo, Frame.notify v todo ∈ s.stack → ∀ c ∈ todo, s.during[c.rid]? = some false →
    ∀ r1, r1 < c.rid → SameOwner s r1 c.rid → (∃ c1 ∈ todo, c1.rid = r1 ∧ c1.br = c.br) ∨ calls r1 c.br s.log = 1

theorem cons_eq_append_cons {α} {e x : α} {log l1 l2 : List α} (h : e :: log = l1 ++ x :: l2) :
    (l1 = [] ∧ e = x ∧ log = l2) ∨ ∃ l1', l1 = e :: l1' ∧ log = l1' ++ x :: l2 := by
  cases l1 with
  | nil => simp at h; exact .inl ⟨rfl, h.1, h.2⟩
  | cons y ys => simp at h; exact .inr ⟨ys, by rw [h.1], h.2⟩

/-- same registrations and same invocations in the log; lists and loops only lose entries or keep them -/
theorem PInv.same {s s' : State} (P : PInv s) (hr : s'.regs = s.regs) (hd : s'.during = s.during)
    (hlog : s'.log = s.log ∨ ∃ e, s'.log = e :: s.log ∧ ∀ rid b v, e ≠ .invoke rid b v)
    (hh : ∀ (p : Nat) (pr : Prom), s'.heap[p]? = some pr → ∀ b, pick b pr = [] ∨ ∃ pr0, s.heap[p]? = some pr0 ∧ pick b pr = pick b pr0)
    (hs : ∀ v todo, Frame.notify v todo ∈ s'.stack → Frame.notify v todo ∈ s.stack) : PInv s' := by
  have hcalls : ∀ rid b, calls rid b s'.log = calls rid b s.log := by
    intro rid b
    rcases hlog with h | ⟨e, h, he⟩
    · rw [h]
    · rw [h, calls_cons]
      have : Event.isInv rid b e = false := by
        cases e with
        | invoke r b' v => exact absurd rfl (he r b' v)
        | _ => rfl
      simp [this]
  have hso : ∀ r1 r2, SameOwner s' r1 r2 → SameOwner s r1 r2 := by
    intro r1 r2 ⟨p, h1, h2⟩; exact ⟨p, hr ▸ h1, hr ▸ h2⟩
  refine ⟨by rw [hr, hd]; exact P.dlen, ?_, ?_, ?_, ?_⟩
  · intro p pr h b
    rcases hh p pr h b with h0 | ⟨pr0, h0, e⟩
    · rw [h0]; exact List.Pairwise.nil
    · rw [e]; exact P.heap p pr0 h0 b
  · intro v todo h; exact P.frames v todo (hs v todo h)
  · intro r1 r2 b v l1 l2 hlt hso' hdur hl
    rcases hlog with h | ⟨e, h, he⟩
    · exact P.log r1 r2 b v l1 l2 hlt (hso _ _ hso') (hd ▸ hdur) (h ▸ hl)
    · rw [h] at hl
      rcases cons_eq_append_cons hl with ⟨_, h2, _⟩ | ⟨l1', _, h3⟩
      · exact absurd h2 (he r2 b v)
      · exact P.log r1 r2 b v l1' l2 hlt (hso _ _ hso') (hd ▸ hdur) h3
  · intro v todo h c hc hdur r1 hlt hso'
    rw [hcalls]
    exact P.wait v todo (hs v todo h) c hc (hd ▸ hdur) r1 hlt (hso _ _ hso')

theorem PInv.pop {s : State} (P : PInv s) {f rest} (hs : s.stack = f :: rest) : PInv { s with stack := rest } :=
  P.same rfl rfl (.inl rfl) (fun p pr h b => .inr ⟨pr, h, rfl⟩)
    (fun v todo h => by rw [hs]; exact List.mem_cons_of_mem _ h)

theorem PInv.push {s : State} (P : PInv s) (f : Frame) (hf : ∀ v todo, f ≠ .notify v todo) : PInv (push f s) := by
  refine P.same rfl rfl (.inl rfl) (fun p pr h b => .inr ⟨pr, h, rfl⟩) ?_
  intro v todo h
  simp only [Promise.push, List.mem_cons] at h
  rcases h with h | h
  · exact absurd h.symm (hf v todo)
  · exact h

theorem PInv.emit {s : State} (P : PInv s) (e : Event) (he : ∀ rid b v, e ≠ .invoke rid b v) : PInv (emit e s) :=
  P.same rfl rfl (.inr ⟨e, rfl, he⟩) (fun p pr h b => .inr ⟨pr, h, rfl⟩) (fun _ _ h => h)

theorem PInv.setColls {s : State} (P : PInv s) (c) : PInv { s with colls := c } :=
  P.same rfl rfl (.inl rfl) (fun p pr h b => .inr ⟨pr, h, rfl⟩) (fun _ _ h => h)

theorem PInv_newProm {s : State} (P : PInv s) (o) : PInv (newProm o s) := by
  refine P.same rfl rfl (.inl rfl) ?_ (fun _ _ h => h)
  intro p pr h b
  rcases (getElem?_snoc_eq_some _ _ _ _).mp h with h | ⟨_, rfl⟩
  · exact .inr ⟨pr, h, rfl⟩
  · exact .inl (pick_empty b o)

theorem exists_of_cnt_pos {rid b} {l : List Cb} (h : 0 < cnt rid b l) : ∃ c ∈ l, c.rid = rid ∧ c.br = b := by
  unfold cnt at h
  obtain ⟨c, hc, hp⟩ := List.countP_pos_iff.mp h
  simp only [Cb.is, Bool.and_eq_true, beq_iff_eq] at hp
  exact ⟨c, hc, hp⟩

theorem PInv_settle {s : State} (I : Inv s) (P : PInv s) (b q v) : PInv (settle b q v s) := by
  rcases settle_cases b q v s with e | ⟨pr, hq, hpend, e⟩
  · rw [e]; exact P
  rw [e]
  refine ⟨P.dlen, ?_, ?_, P.log, ?_⟩
  · intro p pr' hp b'
    simp only [List.getElem?_set] at hp
    by_cases hpq : q = p
    · simp [hpq] at hp; obtain ⟨_, rfl⟩ := hp; cases b' <;> exact List.Pairwise.nil
    · simp [hpq] at hp; exact P.heap p pr' hp b'
  · intro v' todo h
    simp only [List.mem_cons] at h
    rcases h with h | h
    · cases h; exact P.heap q pr hq b
    · exact P.frames v' todo h
  · intro v' todo h c hc hdur r1 hlt hso
    simp only [List.mem_cons] at h
    rcases h with h | h
    · cases h
      obtain ⟨hbr, hown⟩ := I.owner q pr hq b c hc
      obtain ⟨p', h1, h2⟩ := hso
      rw [hown] at h2; cases h2
      have := (I.acct r1 q pr h1 hq).1 hpend
      have hcnt : cnt r1 b (pick b pr) = 1 := by cases b <;> simp [pick, this.1, this.2]
      obtain ⟨c1, hc1, h3, h4⟩ := exists_of_cnt_pos (by omega : 0 < cnt r1 b (pick b pr))
      exact .inl ⟨c1, hc1, h3, by rw [h4, hbr]⟩
    · exact P.wait v' todo h c hc hdur r1 hlt hso

theorem waiting_false {s : State} {p} (h : waiting p s = false) :
    ∀ v todo, Frame.notify v todo ∈ s.stack → ∀ c ∈ todo, s.regs[c.rid]? ≠ some p := by
  intro v todo hm c hc heq
  unfold waiting at h
  rw [List.any_eq_false] at h
  have := h _ hm
  simp only [List.any_eq_true, not_exists, not_and, beq_iff_eq] at this
  exact this c hc (by simp [heq])

theorem PInv_thenOp {s : State} (I : Inv s) (P : PInv s) (p r j) : PInv (thenOp p r j s) := by
  rcases thenOp_cases p r j s with ⟨_, e⟩ | ⟨pr, hp, hcase⟩
  · rw [e]; exact P.emit _ (by intros; simp)
  have hplt : p < s.heap.length := (List.getElem?_eq_some_iff.mp hp).1
  have hreg_old : ∀ rid, rid < s.regs.length → (s.regs ++ [p])[rid]? = s.regs[rid]? :=
    fun rid h => List.getElem?_append_left h
  have hdur_old : ∀ rid w, rid < s.regs.length → (s.during ++ [w])[rid]? = s.during[rid]? :=
    fun rid w h => List.getElem?_append_left (by rw [P.dlen]; exact h)
  have hso_old : ∀ w r1 r2, r1 < r2 → r2 < s.regs.length →
      SameOwner { s with regs := s.regs ++ [p], during := s.during ++ [w] } r1 r2 → SameOwner s r1 r2 := by
    intro w r1 r2 h12 h2 ⟨p', h1, h2'⟩
    exact ⟨p', by rw [← hreg_old r1 (by omega)]; exact h1, by rw [← hreg_old r2 h2]; exact h2'⟩
  have hlog_lt : ∀ r2 b v, Event.invoke r2 b v ∈ s.log → r2 < s.regs.length := by
    intro r2 b v h
    obtain ⟨p', _, h1, _⟩ := I.logs r2 b v h
    exact (List.getElem?_eq_some_iff.mp h1).1
  have hfr_lt : ∀ v todo, Frame.notify v todo ∈ s.stack → ∀ c ∈ todo, c.rid < s.regs.length := by
    intro v todo h c hc
    obtain ⟨p', _, h1, _⟩ := I.frames v todo h c hc
    exact (List.getElem?_eq_some_iff.mp h1).1
  -- the clauses that only look at the log and the old loops are the same in both cases
  have hlogc : ∀ (st : List Frame) (hp' : List Prom) (w : Bool) (r1 r2 : Nat) (b : Br) (v : Val) (l1 l2 : List Event), r1 < r2 →
      SameOwner { s with heap := hp', regs := s.regs ++ [p], during := s.during ++ [w], stack := st } r1 r2 →
      (s.during ++ [w])[r2]? = some false → s.log = l1 ++ Event.invoke r2 b v :: l2 → calls r1 b l2 = 1 := by
    intro st hp' w r1 r2 b v l1 l2 h12 hso hdur hl
    have h2 := hlog_lt r2 b v (by rw [hl]; simp)
    exact P.log r1 r2 b v l1 l2 h12 (hso_old w r1 r2 h12 h2 hso) (by rw [← hdur_old r2 w h2]; exact hdur) hl
  have hwaitc : ∀ (st : List Frame) (hp' : List Prom) (w : Bool) v todo, Frame.notify v todo ∈ s.stack → ∀ c ∈ todo,
      (s.during ++ [w])[c.rid]? = some false → ∀ r1, r1 < c.rid →
      SameOwner { s with heap := hp', regs := s.regs ++ [p], during := s.during ++ [w], stack := st } r1 c.rid →
      (∃ c1 ∈ todo, c1.rid = r1 ∧ c1.br = c.br) ∨ calls r1 c.br s.log = 1 := by
    intro st hp' w v todo h c hc hdur r1 hlt hso
    have h2 := hfr_lt v todo h c hc
    exact P.wait v todo h c hc (by rw [← hdur_old c.rid w h2]; exact hdur) r1 hlt (hso_old w r1 c.rid hlt h2 hso)
  rcases hcase with ⟨hst, e⟩ | ⟨b, v, hst, e⟩
  · rw [e]
    refine ⟨by simp [P.dlen], ?_, P.frames, hlogc _ _ _, hwaitc _ _ _⟩
    intro p' pr' hp' b'
    rcases (heap_then_lookup _ _ _ _ hplt _ _).mp hp' with ⟨rfl, rfl⟩ | ⟨_, hp'⟩ | ⟨rfl, rfl⟩
    · have hold := P.heap _ pr hp b'
      have hlt : ∀ c ∈ pick b' pr, c.rid < s.regs.length := fun c hc =>
        (List.getElem?_eq_some_iff.mp (I.owner _ pr hp b' c hc).2).1
      cases b' <;> simp only [pick] at hold hlt ⊢ <;> rw [List.pairwise_append] <;>
        refine ⟨hold, by simp, ?_⟩ <;> intro x hx y hy <;> simp only [List.mem_singleton] at hy <;> subst hy <;>
        exact hlt x hx
    · exact P.heap p' pr' hp' b'
    · rw [pick_empty]; exact List.Pairwise.nil
  · rw [e]
    have hcl := I.clean p pr b v hp hst
    have hpick : pick b pr = [] := by cases b <;> simp [pick, hcl.1, hcl.2]
    refine ⟨by simp [P.dlen], ?_, ?_, hlogc _ _ _, ?_⟩
    · intro p' pr' hp' b'
      rcases (heap_then_lookup _ _ _ _ hplt _ _).mp hp' with ⟨rfl, rfl⟩ | ⟨_, hp'⟩ | ⟨rfl, rfl⟩
      · cases b' <;> exact List.Pairwise.nil
      · exact P.heap p' pr' hp' b'
      · rw [pick_empty]; exact List.Pairwise.nil
    · intro v' todo h
      simp only [List.mem_cons] at h
      rcases h with h | h
      · cases h; rw [hpick]; simp
      · exact P.frames v' todo h
    · intro v' todo h c hc hdur r1 hlt hso
      simp only [List.mem_cons] at h
      rcases h with h | h
      · cases h
        rw [hpick] at hc
        simp only [List.nil_append, List.mem_singleton] at hc
        subst hc
        simp only [mkCb_rid, mkCb_br] at hdur hlt hso ⊢
        right
        have hw : waiting p s = false := by
          have : (s.during ++ [waiting p s])[s.regs.length]? = some (waiting p s) := by
            rw [← P.dlen]; simp
          rw [this] at hdur; simpa using hdur
        obtain ⟨p', h1, h2⟩ := hso
        have h2' : p' = p := by
          have : (s.regs ++ [p])[s.regs.length]? = some p := by simp
          rw [this] at h2; cases h2; rfl
        subst h2'
        have h1' : s.regs[r1]? = some p' := by rw [← hreg_old r1 hlt]; exact h1
        have hacct := (I.acct r1 p' pr h1' hp).2 b v hst
        have hz : stackCnt r1 b s.stack = 0 := by
          apply stackCnt_zero_of
          intro v'' todo' hm c' hc' ⟨hr, _⟩
          exact waiting_false hw v'' todo' hm c' hc' (by rw [hr]; exact h1')
        omega
      · exact hwaitc _ _ _ v' todo h c hc hdur r1 hlt hso

theorem PInv.notify_step {s : State} (I : Inv s) (P : PInv s) {v c todo stk} (hs : s.stack = .notify v (c :: todo) :: stk) :
    PInv (invoked s v c todo stk) := by
  obtain ⟨_, _, hzero⟩ := I.head_uncalled hs
  have hmem : Frame.notify v (c :: todo) ∈ s.stack := by rw [hs]; exact List.mem_cons_self ..
  have hsorted := P.frames v (c :: todo) hmem
  rw [List.pairwise_cons] at hsorted
  have hcalls : ∀ rid b, calls rid b (invoked s v c todo stk).log =
      calls rid b s.log + if c.rid = rid ∧ c.br = b then 1 else 0 := fun rid b => calls_invoked rid b
  refine ⟨P.dlen, P.heap, ?_, ?_, ?_⟩
  · intro v' todo' h
    simp only [invoked, List.mem_cons] at h
    rcases h with h | h
    · cases h; exact hsorted.2
    · exact P.frames v' todo' (by rw [hs]; exact List.mem_cons_of_mem _ h)
  · intro r1 r2 b v' l1 l2 hlt hso hdur hl
    rcases cons_eq_append_cons (show Event.invoke c.rid c.br v :: s.log = l1 ++ Event.invoke r2 b v' :: l2 from hl) with
      ⟨_, h2, h3⟩ | ⟨l1', _, h3⟩
    · simp only [Event.invoke.injEq] at h2
      obtain ⟨rfl, rfl, rfl⟩ := h2
      subst h3
      rcases P.wait v (c :: todo) hmem c (List.mem_cons_self ..) hdur r1 hlt hso with ⟨c1, hc1, h4, _⟩ | h
      · rcases List.mem_cons.mp hc1 with rfl | hc1
        · omega
        · have : RidLt c c1 := hsorted.1 c1 hc1
          unfold RidLt at this; omega
      · exact h
    · exact P.log r1 r2 b v' l1' l2 hlt hso hdur h3
  · intro v' todo' h c' hc' hdur r1 hlt hso
    rw [hcalls]
    -- the loop this entry was in before the step
    have hold : ∃ todo0, Frame.notify v' todo0 ∈ s.stack ∧ c' ∈ todo0 ∧
        ∀ c1 ∈ todo0, c1 ∈ todo' ∨ c1 = c := by
      simp only [invoked, List.mem_cons] at h
      rcases h with h | h
      · cases h
        exact ⟨c :: todo, hmem, List.mem_cons_of_mem _ hc', fun c1 h1 => by
          rcases List.mem_cons.mp h1 with h1 | h1
          · exact .inr h1
          · exact .inl h1⟩
      · exact ⟨todo', by rw [hs]; exact List.mem_cons_of_mem _ h, hc', fun c1 h1 => .inl h1⟩
    obtain ⟨todo0, hm0, hc0, hsub⟩ := hold
    rcases P.wait v' todo0 hm0 c' hc0 hdur r1 hlt hso with ⟨c1, hc1, h4, h5⟩ | hcall
    · rcases hsub c1 hc1 with h | rfl
      · exact .inl ⟨c1, h, h4, h5⟩
      · right
        have := hzero c'.br
        rw [← h4, ← h5] at *
        simp [hzero]
    · right
      by_cases he : c.rid = r1 ∧ c.br = c'.br
      · have := hzero c'.br
        rw [he.1] at this; omega
      · simp [he]; exact hcall

/-- accounting invariant and order invariant together -/
structure IP (s : State) : Prop where
  i : Inv s
  p : PInv s

theorem IP.pop {s : State} (A : IP s) {f rest} (hs : s.stack = f :: rest) (hn : ∀ rid b, frameCnt rid b f = 0) :
    IP { s with stack := rest } := ⟨A.i.pop hs hn, A.p.pop hs⟩
theorem IP.push {s : State} (A : IP s) (f : Frame) (hf : ∀ v todo, f ≠ .notify v todo) : IP (push f s) :=
  ⟨A.i.push f hf, A.p.push f hf⟩
theorem IP.emit {s : State} (A : IP s) (e : Event) (he : ∀ rid b v, e ≠ .invoke rid b v) : IP (emit e s) :=
  ⟨A.i.emit e he, A.p.emit e he⟩
theorem IP.setColls {s : State} (A : IP s) (c) : IP { s with colls := c } := ⟨A.i.setColls c, A.p.setColls c⟩
theorem IP_settle {s : State} (A : IP s) (b q v) : IP (settle b q v s) := ⟨Inv_settle A.i b q v, PInv_settle A.i A.p b q v⟩
theorem IP_thenOp {s : State} (A : IP s) (p r j) : IP (thenOp p r j s) := ⟨Inv_thenOp A.i p r j, PInv_thenOp A.i A.p p r j⟩
theorem IP_newProm {s : State} (A : IP s) (o) : IP (newProm o s) := ⟨Inv_newProm A.i o, PInv_newProm A.p o⟩

theorem IP_note {s : State} (A : IP s) (a) : IP (note a s) := by
  unfold note; split
  · exact A
  · exact A.setColls _

theorem IP_finish {s : State} (A : IP s) (r q) : IP (finish r q s) := by
  unfold finish
  split
  · exact IP_thenOp (A.emit _ (by intros; simp)) _ _ _
  · exact IP_settle A _ _ _

theorem IP_callFn {s : State} (A : IP s) (f q v) : IP (callFn f q v s) := by
  unfold callFn
  split
  · exact (A.emit _ (by intros; simp)).push _ (by intros; simp)
  · exact IP_settle ((A.emit _ (by intros; simp)).push _ (by intros; simp)) _ _ _
  · exact IP_settle (A.push _ (by intros; simp)) _ _ _
  · split
    · exact A
    · dsimp only
      split
      · exact IP_settle ((A.setColls _).push _ (by intros; simp)) _ _ _
      · exact (A.setColls _).push _ (by intros; simp)
  · split
    · exact A
    · exact IP_settle (A.push _ (by intros; simp)) _ _ _
  · split
    · exact A
    · dsimp only
      split
      · exact IP_settle ((A.setColls _).push _ (by intros; simp)) _ _ _
      · exact (A.setColls _).push _ (by intros; simp)

theorem IP_invokeBody {s : State} (A : IP s) (c v) : IP (invokeBody c v s) := by
  unfold invokeBody
  split
  · exact IP_settle A _ _ _
  · exact IP_callFn A _ _ _

theorem IP_collect {s : State} (A : IP s) (m ps) : IP (collect m ps s) := by
  unfold collect
  split
  · dsimp only
    split
    · exact IP_settle ((IP_newProm A _).setColls _) _ _ _
    · exact ((IP_newProm A _).setColls _).push _ (by intros; simp)
  · exact A.emit _ (by intros; simp)

theorem IP_act {s : State} (A : IP s) (arg a) : IP (act arg a s) := by
  unfold act
  split
  · exact IP_thenOp A _ _ _
  · split
    · exact IP_settle (A.emit _ (by intros; simp)) _ _ _
    · exact A.emit _ (by intros; simp)
  · split
    · exact IP_settle (A.emit _ (by intros; simp)) _ _ _
    · exact A.emit _ (by intros; simp)
  · exact IP_newProm A _
  · exact (IP_newProm A _).push _ (by intros; simp)
  · exact IP_collect A _ _
  · exact IP_collect A _ _

theorem IP_kont {s : State} (A : IP s) (arg k) : IP (kont arg k s) := by
  unfold kont
  split
  · exact A
  · exact IP_finish A _ _
  · exact IP_finish A _ _
  · exact IP_settle A _ _ _
  · exact IP_settle A _ _ _
  · exact A

theorem IP_step {s s' : State} (A : IP s) (h : step s = some s') : IP s' := by
  unfold step at h
  split at h
  · simp at h
  · next f rest hst =>
    dsimp only at h
    split at h <;> simp only [Option.some.injEq] at h <;> subst h
    · exact A.pop hst (by intros; rfl)
    · exact IP_invokeBody ⟨A.i.notify_step hst, A.p.notify_step A.i hst⟩ _ _
    · exact IP_finish (A.pop hst (by intros; rfl)) _ _
    · exact IP_kont (A.pop hst (by intros; rfl)) _ _
    · exact IP_act ((A.pop hst (by intros; rfl)).push _ (by intros; simp)) _ _
    · exact A.pop hst (by intros; rfl)
    · exact IP_thenOp ((IP_note (A.pop hst (by intros; rfl)) _).push _ (by intros; simp)) _ _ _

theorem IP_init : IP init := by
  refine ⟨Inv_init, ⟨rfl, ?_, ?_, ?_, ?_⟩⟩
  · intro p pr h; simp [init] at h
  · intro v todo h; simp [init] at h
  · intro r1 r2 b v l1 l2 _ _ _ h; simp [init] at h
  · intro v todo h; simp [init] at h

theorem Reach.pinv {s : State} (h : Reach s) : PInv s := by
  have : IP s := by
    induction h with
    | refl => exact IP_init
    | step _ hs ih => exact IP_step ih hs
    | op arg a _ ih => exact IP_act ih arg a
  exact this.p

end RedunModel.Promise
