/-
Helper lemmas for the task-hash model (C17): sorting `hash_includes` by digest rank.
-/
import RedunModel.Model.TaskHash
import RedunModel.Lemmas.Pre
namespace RedunModel.TaskHash
open RedunModel.Pre List

/-! ### sorting the includes -/

theorem insertR_perm (a : Inc) (l : List Inc) : (insertR a l).Perm (a :: l) := by
  induction l with
  | nil => simp [insertR]
  | cons b t ih =>
    simp only [insertR]
    split
    · exact Perm.refl _
    · exact (Perm.cons b ih).trans (Perm.swap a b t)

theorem sortR_perm (l : List Inc) : (sortR l).Perm l := by
  induction l with
  | nil => simp [sortR]
  | cons a t ih =>
    have : sortR (a :: t) = insertR a (sortR t) := rfl
    rw [this]
    exact (insertR_perm a _).trans (Perm.cons a ih)

def RankLe (a b : Inc) : Prop := a.1 ≤ b.1

theorem insertR_sorted (a : Inc) (l : List Inc) (h : l.Pairwise RankLe) : (insertR a l).Pairwise RankLe := by
  induction l with
  | nil => simp [insertR]
  | cons b t ih =>
    simp only [insertR]
    have hb := pairwise_cons.mp h
    split
    · rename_i hab
      refine pairwise_cons.mpr ⟨?_, h⟩
      intro c hc
      rcases mem_cons.mp hc with e | hc
      · rw [e]; exact hab
      · exact Nat.le_trans hab (hb.1 c hc)
    · rename_i hab
      refine pairwise_cons.mpr ⟨?_, ih hb.2⟩
      intro c hc
      rcases mem_cons.mp ((insertR_perm a t).mem_iff.mp hc) with e | hc
      · rw [e]; exact Nat.le_of_lt (Nat.lt_of_not_le hab)
      · exact hb.1 c hc

theorem sortR_sorted (l : List Inc) : (sortR l).Pairwise RankLe := by
  induction l with
  | nil => simp [sortR]
  | cons a t ih => exact insertR_sorted a _ ih

/-- ranks are consistent with the items: equal rank ⇔ equal pre-image (the rank is the position of
the item's digest in the digest order, and digests are injective on pre-images) -/
def RankOK (l : List Inc) : Prop := ∀ a ∈ l, ∀ b ∈ l, a.1 = b.1 → a.2 = b.2

theorem sortR_eq_of_perm {l₁ l₂ : List Inc} (hp : l₁.Perm l₂) (hr : RankOK l₁) : sortR l₁ = sortR l₂ := by
  have p1 := sortR_perm l₁
  have p2 := sortR_perm l₂
  refine Perm.eq_of_pairwise (le := RankLe) ?_ (sortR_sorted l₁) (sortR_sorted l₂) (p1.trans (hp.trans p2.symm))
  intro a b ha hb hab hba
  have ha' : a ∈ l₁ := p1.mem_iff.mp ha
  have hb' : b ∈ l₁ := hp.mem_iff.mpr (p2.mem_iff.mp hb)
  have h1 : a.1 = b.1 := Nat.le_antisymm hab hba
  have h2 := hr a ha' b hb' h1
  cases a; cases b; simp_all


end RedunModel.TaskHash
