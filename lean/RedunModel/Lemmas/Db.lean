/-
Helper lemmas about `RedunModel.Model.Db` (shared by C03 / C22 / C23).
Part 1: the call-graph invariant (`SubtreeInv`) and how adding a node / healing / importing preserves it.
Part 2: sessions: which durable states the recording operations can leave behind.
-/
import RedunModel.Model.Db
set_option maxRecDepth 2000
namespace RedunModel.Db


theorem pickNewest_mem : ∀ {l : List NodeRow} {n : NodeRow}, pickNewest l = some n → n ∈ l := by
  intro l
  induction l with
  | nil => intro n h; simp [pickNewest] at h
  | cons a rest ih =>
    intro n h
    simp only [pickNewest] at h
    cases hr : pickNewest rest with
    | none => rw [hr] at h; simp at h; simp [h]
    | some m =>
      rw [hr] at h
      simp only at h
      split at h
      · simp at h; subst h; exact List.mem_cons_of_mem _ (ih hr)
      · simp at h; simp [h]

theorem getCallNode_spec {v : Variant} {db : Db} {t a : H} {reg : List H} {n : NodeRow}
    (h : getCallNode v db t a reg = some n) :
    n ∈ db.nodes ∧ n.task = t ∧ n.args = a ∧ nodeCurrent v db reg n = true := by
  have hm := pickNewest_mem h
  simp only [List.mem_filter, Bool.and_eq_true, beq_iff_eq] at hm
  exact ⟨hm.1.1, hm.1.2.1, hm.1.2.2, hm.2⟩


inductive Reach (db : Db) : H → H → Prop
  | refl (c : H) : Reach db c c
  | step {a b c : H} (e : EdgeRow) (he : e ∈ db.edges) (hp : e.parent = a) (hc : e.child = b)
      (h : Reach db b c) : Reach db a c

def SubtreeInv (db : Db) : Prop :=
  ∀ c d n, subtreeOf db c ≠ [] → Reach db c d → n ∈ db.nodes → n.call = d → n.task ∈ subtreeOf db c

def EdgesClosed (db : Db) : Prop := ∀ e ∈ db.edges, hasNode db e.parent = true ∧ hasNode db e.child = true
def SubClosed (db : Db) : Prop := ∀ r ∈ db.subtree, hasNode db r.call = true

theorem mem_subtreeOf {db : Db} {c t : H} : t ∈ subtreeOf db c ↔ (⟨c, t⟩ : SubRow) ∈ db.subtree := by
  simp only [subtreeOf, List.mem_map, List.mem_filter, beq_iff_eq]
  constructor
  · rintro ⟨r, ⟨hr, hc⟩, ht⟩
    cases r; simp at hc ht; subst hc; subst ht; exact hr
  · intro h; exact ⟨⟨c, t⟩, ⟨h, rfl⟩, rfl⟩

theorem hasNode_iff {db : Db} {c : H} : hasNode db c = true ↔ ∃ n ∈ db.nodes, n.call = c := by
  simp [hasNode]

theorem subtreeOf_nil_of_not_node {db : Db} {c : H} (hsc : SubClosed db) (h : hasNode db c = false) :
    subtreeOf db c = [] := by
  cases hs : subtreeOf db c with
  | nil => rfl
  | cons t ts =>
    have : t ∈ subtreeOf db c := by rw [hs]; simp
    have := hsc _ (mem_subtreeOf.mp this)
    simp at this; rw [this] at h; cases h

/-- In an extension that only adds edges leaving NEW nodes, paths from an old node are old paths. -/
theorem reach_old {db db' : Db} {es : List EdgeRow} (he : db'.edges = db.edges ++ es)
    (hes : ∀ e ∈ es, hasNode db e.parent = false) (hec : EdgesClosed db)
    {x d : H} (hx : hasNode db x = true) (hr : Reach db' x d) : Reach db x d ∧ hasNode db d = true := by
  induction hr with
  | refl c => exact ⟨Reach.refl c, hx⟩
  | step e hmem hp hc _ ih =>
    rw [he, List.mem_append] at hmem
    rcases hmem with hold | hnew
    · have hch := (hec e hold).2
      rw [hc] at hch
      have := ih hch
      exact ⟨Reach.step e hold hp hc this.1, this.2⟩
    · have := hes e hnew
      rw [hp, hx] at this; cases this

theorem reach_mono {db db' : Db} (h : ∀ e ∈ db.edges, e ∈ db'.edges) {x d : H} (hr : Reach db x d) :
    Reach db' x d := by
  induction hr with
  | refl c => exact Reach.refl c
  | step e hmem hp hc _ ih => exact Reach.step e (h e hmem) hp hc ih

/-- Recording ONE new call node with edges to already recorded children and its subtree rows. -/
theorem inv_record {db db' : Db} {n : NodeRow} {es : List EdgeRow} {S : List H}
    (hn : db'.nodes = db.nodes ++ [n]) (he : db'.edges = db.edges ++ es)
    (hs : db'.subtree = db.subtree ++ S.map (fun t => ⟨n.call, t⟩))
    (hnew : hasNode db n.call = false)
    (hes : ∀ e ∈ es, e.parent = n.call ∧ hasNode db e.child = true)
    (hec : EdgesClosed db) (hsc : SubClosed db) (hinv : SubtreeInv db)
    (hown : n.task ∈ S)
    (hpre : ∀ e ∈ es, ∀ d m, Reach db e.child d → m ∈ db.nodes → m.call = d → m.task ∈ S) :
    SubtreeInv db' ∧ EdgesClosed db' ∧ SubClosed db' := by
  have hes' : ∀ e ∈ es, hasNode db e.parent = false := fun e h => by rw [(hes e h).1]; exact hnew
  have hnode' : ∀ c, hasNode db c = true → hasNode db' c = true := by
    intro c h; simp only [hasNode, hn, List.any_append, Bool.or_eq_true]; exact Or.inl h
  have hnodeN : hasNode db' n.call = true := by
    simp [hasNode, hn]
  have hsub : ∀ c, subtreeOf db' c = subtreeOf db c ++ (if n.call = c then S else []) := by
    intro c
    simp only [subtreeOf, hs, List.filter_append, List.map_append, List.filter_map, List.map_map]
    congr 1
    by_cases hc : n.call = c
    · subst hc; simp [Function.comp_def]
    · simp [hc, Function.comp_def]
  refine ⟨?_, ?_, ?_⟩
  · intro c d m hne hr hm hmd
    rw [hn, List.mem_append, List.mem_singleton] at hm
    by_cases hc : n.call = c
    · -- the new node
      subst hc
      rw [hsub, subtreeOf_nil_of_not_node hsc hnew]; simp only [List.nil_append, if_true]
      cases hr with
      | refl _ =>
        rcases hm with hm | hm
        · have : hasNode db n.call = true := hasNode_iff.mpr ⟨m, hm, hmd⟩
          rw [hnew] at this; cases this
        · subst hm; exact hown
      | step e hmem hp hc' hr' =>
        rw [he, List.mem_append] at hmem
        rcases hmem with hold | hnw
        · have := (hec e hold).1; rw [hp, hnew] at this; cases this
        · have hch := (hes e hnw).2
          rw [hc'] at hch
          have hro := reach_old he hes' hec hch hr'
          rcases hm with hm | hm
          · have := hpre e hnw d m (hc' ▸ hro.1) hm hmd; exact this
          · subst hm; rw [hmd, hro.2] at hnew; cases hnew
    · -- an old node
      have hsub' : subtreeOf db' c = subtreeOf db c := by rw [hsub]; simp [hc]
      rw [hsub'] at hne ⊢
      have hcn : hasNode db c = true := by
        cases hcn : hasNode db c with
        | true => rfl
        | false => exact absurd (subtreeOf_nil_of_not_node hsc hcn) hne
      have hro := reach_old he hes' hec hcn hr
      rcases hm with hm | hm
      · exact hinv c d m hne hro.1 hm hmd
      · subst hm; rw [hmd, hro.2] at hnew; cases hnew
  · intro e hmem
    rw [he, List.mem_append] at hmem
    rcases hmem with hold | hnw
    · exact ⟨hnode' _ (hec e hold).1, hnode' _ (hec e hold).2⟩
    · exact ⟨by rw [(hes e hnw).1]; exact hnodeN, hnode' _ (hes e hnw).2⟩
  · intro r hmem
    rw [hs, List.mem_append] at hmem
    rcases hmem with hold | hnw
    · exact hnode' _ (hsc r hold)
    · simp only [List.mem_map] at hnw
      obtain ⟨t, _, rfl⟩ := hnw
      exact hnodeN

/-- Adding the subtree rows of an existing node that had none (the `healSubtree` branch). -/
theorem inv_heal {db db' : Db} {c : H} {S : List H}
    (hn : db'.nodes = db.nodes) (he : db'.edges = db.edges)
    (hs : db'.subtree = db.subtree ++ S.map (fun t => ⟨c, t⟩))
    (hnode : hasNode db c = true) (hempty : subtreeOf db c = [])
    (hec : EdgesClosed db) (hsc : SubClosed db) (hinv : SubtreeInv db)
    (hpre : ∀ d m, Reach db c d → m ∈ db.nodes → m.call = d → m.task ∈ S) :
    SubtreeInv db' ∧ EdgesClosed db' ∧ SubClosed db' := by
  have hnode' : ∀ x, hasNode db' x = hasNode db x := by intro x; simp [hasNode, hn]
  have hsub : ∀ x, subtreeOf db' x = subtreeOf db x ++ (if c = x then S else []) := by
    intro x
    simp only [subtreeOf, hs, List.filter_append, List.map_append, List.filter_map, List.map_map]
    congr 1
    by_cases hc : c = x
    · subst hc; simp [Function.comp_def]
    · simp [hc, Function.comp_def]
  have hreach : ∀ x d, Reach db' x d → Reach db x d := by
    intro x d h; exact reach_mono (fun e h => by rw [← he]; exact h) h
  refine ⟨?_, ?_, ?_⟩
  · intro x d m hne hr hm hmd
    rw [hn] at hm
    by_cases hc : c = x
    · subst hc
      rw [hsub, hempty]; simp only [List.nil_append, if_true]
      exact hpre d m (hreach _ _ hr) hm hmd
    · have hsub' : subtreeOf db' x = subtreeOf db x := by rw [hsub]; simp [hc]
      rw [hsub'] at hne ⊢
      exact hinv x d m hne (hreach _ _ hr) hm hmd
  · intro e hmem; rw [he] at hmem; rw [hnode', hnode']; exact hec e hmem
  · intro r hmem
    rw [hs, List.mem_append] at hmem
    rw [hnode']
    rcases hmem with hold | hnw
    · exact hsc r hold
    · simp only [List.mem_map] at hnw
      obtain ⟨t, _, rfl⟩ := hnw
      exact hnode

/-- Importing call nodes (with their child edges, WITHOUT subtree rows): old nodes keep the invariant. -/
theorem inv_import {db db' : Db} {ns : List NodeRow} {es : List EdgeRow}
    (hn : db'.nodes = db.nodes ++ ns) (he : db'.edges = db.edges ++ es)
    (hs : db'.subtree = db.subtree)
    (hnew : ∀ n ∈ ns, hasNode db n.call = false)
    (hes : ∀ e ∈ es, hasNode db e.parent = false)
    (hec : EdgesClosed db) (hsc : SubClosed db) (hinv : SubtreeInv db) :
    SubtreeInv db' ∧ SubClosed db' := by
  have hnode' : ∀ c, hasNode db c = true → hasNode db' c = true := by
    intro c h; simp only [hasNode, hn, List.any_append, Bool.or_eq_true]; exact Or.inl h
  have hsub : ∀ x, subtreeOf db' x = subtreeOf db x := by intro x; simp [subtreeOf, hs]
  refine ⟨?_, ?_⟩
  · intro c d m hne hr hm hmd
    rw [hsub] at hne ⊢
    have hcn : hasNode db c = true := by
      cases hcn : hasNode db c with
      | true => rfl
      | false => exact absurd (subtreeOf_nil_of_not_node hsc hcn) hne
    have hro := reach_old he hes hec hcn hr
    rw [hn, List.mem_append] at hm
    rcases hm with hm | hm
    · exact hinv c d m hne hro.1 hm hmd
    · have := hnew m hm; rw [hmd, hro.2] at this; cases this
  · intro r hmem; rw [hs] at hmem; exact hnode' _ (hsc r hmem)

/-- Operations that touch neither call nodes, edges nor subtree rows. -/
theorem inv_frame {db db' : Db} (hn : db'.nodes = db.nodes) (he : db'.edges = db.edges)
    (hs : db'.subtree = db.subtree) :
    (SubtreeInv db → SubtreeInv db') ∧ (EdgesClosed db → EdgesClosed db') ∧ (SubClosed db → SubClosed db') := by
  have hnode' : ∀ x, hasNode db' x = hasNode db x := by intro x; simp [hasNode, hn]
  have hsub : ∀ x, subtreeOf db' x = subtreeOf db x := by intro x; simp [subtreeOf, hs]
  refine ⟨?_, ?_, ?_⟩
  · intro hinv c d m hne hr hm hmd
    rw [hsub] at hne ⊢; rw [hn] at hm
    exact hinv c d m hne (reach_mono (fun e h => by rw [← he]; exact h) hr) hm hmd
  · intro hec e hmem; rw [he] at hmem; rw [hnode', hnode']; exact hec e hmem
  · intro hsc r hmem; rw [hs] at hmem; rw [hnode']; exact hsc r hmem

/-! ## sessions -/


def nodeOf : RowOp → Option NodeRow | .node r => some r | _ => none
def edgeOf : RowOp → Option EdgeRow | .edge r => some r | _ => none
def subOf : RowOp → Option SubRow | .sub r => some r | _ => none
def valueOf : RowOp → Option ValueRow | .value r => some r | _ => none

theorem applyOps_append (db : Db) (a b : List RowOp) : applyOps db (a ++ b) = applyOps (applyOps db a) b := by
  simp [applyOps, List.foldl_append]

theorem applyOps_nodes (db : Db) (ops : List RowOp) : (applyOps db ops).nodes = db.nodes ++ ops.filterMap nodeOf := by
  induction ops generalizing db with
  | nil => simp [applyOps]
  | cons op rest ih =>
    have : applyOps db (op :: rest) = applyOps (applyOps db [op]) rest := by simp [applyOps]
    rw [this, ih]
    cases op <;> simp [applyOps, applyOp, nodeOf] <;> rfl

theorem applyOps_edges (db : Db) (ops : List RowOp) : (applyOps db ops).edges = db.edges ++ ops.filterMap edgeOf := by
  induction ops generalizing db with
  | nil => simp [applyOps]
  | cons op rest ih =>
    have : applyOps db (op :: rest) = applyOps (applyOps db [op]) rest := by simp [applyOps]
    rw [this, ih]
    cases op <;> simp [applyOps, applyOp, edgeOf] <;> rfl

theorem applyOps_subtree (db : Db) (ops : List RowOp) : (applyOps db ops).subtree = db.subtree ++ ops.filterMap subOf := by
  induction ops generalizing db with
  | nil => simp [applyOps]
  | cons op rest ih =>
    have : applyOps db (op :: rest) = applyOps (applyOps db [op]) rest := by simp [applyOps]
    rw [this, ih]
    cases op <;> simp [applyOps, applyOp, subOf] <;> rfl

theorem applyOps_values (db : Db) (ops : List RowOp) : (applyOps db ops).values = db.values ++ ops.filterMap valueOf := by
  induction ops generalizing db with
  | nil => simp [applyOps]
  | cons op rest ih =>
    have : applyOps db (op :: rest) = applyOps (applyOps db [op]) rest := by simp [applyOps]
    rw [this, ih]
    cases op <;> simp [applyOps, applyOp, valueOf] <;> rfl

/-- the call-graph part of the tables -/
def G (db : Db) : List NodeRow × List EdgeRow × List SubRow := (db.nodes, db.edges, db.subtree)

theorem G_applyOps (db : Db) (ops : List RowOp) (h1 : ops.filterMap nodeOf = []) (h2 : ops.filterMap edgeOf = [])
    (h3 : ops.filterMap subOf = []) : G (applyOps db ops) = G db := by
  simp [G, applyOps_nodes, applyOps_edges, applyOps_subtree, h1, h2, h3]

@[simp] theorem view_add (s : Sess) (op : RowOp) : (s.add op).view = applyOp s.view op := by
  simp [Sess.add, Sess.view, applyOps, List.foldl_append]
@[simp] theorem view_addAll (s : Sess) (ops : List RowOp) : (s.addAll ops).view = applyOps s.view ops := by
  simp [Sess.addAll, Sess.view, applyOps, List.foldl_append]
@[simp] theorem view_commit (s : Sess) : s.commit.view = s.view := by
  unfold Sess.commit
  split
  · rfl
  · simp [Sess.view, applyOps]
@[simp] theorem pend_commit (s : Sess) : s.commit.pend = [] := by
  unfold Sess.commit
  split
  · rename_i h; simpa using h
  · rfl
theorem db_commit (s : Sess) : s.commit.db = s.view := by
  unfold Sess.commit
  split
  · rename_i h; simp at h; simp [Sess.view, h, applyOps]
  · rfl
theorem log_commit (s : Sess) : s.commit.log = s.log ∨ s.commit.log = s.log ++ [⟨s.view, s.pendingExecs⟩] := by
  unfold Sess.commit
  split
  · exact Or.inl rfl
  · exact Or.inr rfl
@[simp] theorem log_add (s : Sess) (op : RowOp) : (s.add op).log = s.log := rfl
@[simp] theorem log_addAll (s : Sess) (ops : List RowOp) : (s.addAll ops).log = s.log := rfl
theorem view_of_pend_nil (s : Sess) (h : s.pend = []) : s.view = s.db := by simp [Sess.view, h, applyOps]

theorem specialMissing_graph (db : Db) (r : ValueRow) :
    (specialMissing db r).filterMap nodeOf = [] ∧ (specialMissing db r).filterMap edgeOf = [] ∧
    (specialMissing db r).filterMap subOf = [] := by
  unfold specialMissing
  cases r.kind <;> simp <;> (refine ⟨?_, ?_, ?_⟩ <;> intro _ <;> rfl)

theorem G_applyOp_value (db : Db) (r : ValueRow) : G (applyOp db (.value r)) = G db := rfl

/-- a step that adds rows outside the call-graph tables and commits -/
theorem addCommit_graph (s : Sess) (ops : List RowOp) (h1 : ops.filterMap nodeOf = []) (h2 : ops.filterMap edgeOf = [])
    (h3 : ops.filterMap subOf = []) :
    G (s.addAll ops).commit.view = G s.view ∧
    (∀ snap ∈ (s.addAll ops).commit.log, snap ∈ s.log ∨ G snap.db = G s.view) ∧
    (s.addAll ops).commit.pend = [] := by
  refine ⟨by simp only [view_commit, view_addAll]; exact G_applyOps _ _ h1 h2 h3, ?_, by simp⟩
  intro snap hmem
  rcases log_commit (s.addAll ops) with hl | hl
  · rw [hl] at hmem; exact Or.inl (by simpa using hmem)
  · rw [hl] at hmem; simp only [log_addAll, List.mem_append, List.mem_singleton] at hmem
    rcases hmem with h | h
    · exact Or.inl h
    · right; subst h; simp only [view_addAll]; exact G_applyOps _ _ h1 h2 h3

theorem add_eq_addAll (s : Sess) (op : RowOp) : s.add op = s.addAll [op] := rfl


theorem recordValueCore_graph (v : Variant) (r : ValueRow) (s : Sess) :
    G (recordValueCore v r s).view = G s.view ∧
    (∀ snap ∈ (recordValueCore v r s).log, snap ∈ s.log ∨ G snap.db = G s.view) ∧
    (recordValueCore v r s).pend = [] := by
  have hsm := specialMissing_graph
  unfold recordValueCore
  simp only
  split
  · have h := addCommit_graph (s.add (.value r)) (specialMissing (s.add (.value r)).view r) (hsm _ _).1 (hsm _ _).2.1 (hsm _ _).2.2
    refine ⟨h.1.trans (by simp; rfl), ?_, h.2.2⟩
    intro snap hmem
    rcases h.2.1 snap hmem with h' | h'
    · exact Or.inl (by simpa using h')
    · exact Or.inr (h'.trans (by simp; rfl))
  · have h0 := addCommit_graph s [.value r] rfl rfl rfl
    rw [← add_eq_addAll] at h0
    have h := addCommit_graph (s.add (.value r)).commit (specialMissing (s.add (.value r)).commit.view r) (hsm _ _).1 (hsm _ _).2.1 (hsm _ _).2.2
    refine ⟨h.1.trans h0.1, ?_, h.2.2⟩
    intro snap hmem
    rcases h.2.1 snap hmem with h' | h'
    · exact h0.2.1 snap h'
    · exact Or.inr (h'.trans h0.1)

theorem newSubValues_graph (db : Db) (seen : List H) (subs : List ValueRow) :
    (newSubValues db seen subs).filterMap nodeOf = [] ∧ (newSubValues db seen subs).filterMap edgeOf = [] ∧
    (newSubValues db seen subs).filterMap subOf = [] := by
  induction subs generalizing seen with
  | nil => simp [newSubValues]
  | cons r rest ih =>
    simp only [newSubValues]
    split
    · exact ih seen
    · have := ih (seen ++ [r.hash])
      exact ⟨by rw [List.filterMap_cons]; simpa [nodeOf] using this.1, by rw [List.filterMap_cons]; simpa [edgeOf] using this.2.1,
        by rw [List.filterMap_cons]; simpa [subOf] using this.2.2⟩

theorem newSubLinks_graph (db : Db) (parent : H) (seen : List H) (subs : List ValueRow) :
    (newSubLinks db parent seen subs).filterMap nodeOf = [] ∧ (newSubLinks db parent seen subs).filterMap edgeOf = [] ∧
    (newSubLinks db parent seen subs).filterMap subOf = [] := by
  induction subs generalizing seen with
  | nil => simp [newSubLinks]
  | cons r rest ih =>
    simp only [newSubLinks]
    split
    · exact ih seen
    · have := ih (seen ++ [r.hash])
      exact ⟨by rw [List.filterMap_cons]; simpa [nodeOf] using this.1, by rw [List.filterMap_cons]; simpa [edgeOf] using this.2.1,
        by rw [List.filterMap_cons]; simpa [subOf] using this.2.2⟩

theorem subSpecialOps_graph (db : Db) (seenF seenT : List H) (subs : List ValueRow) :
    (subSpecialOps db seenF seenT subs).filterMap nodeOf = [] ∧ (subSpecialOps db seenF seenT subs).filterMap edgeOf = [] ∧
    (subSpecialOps db seenF seenT subs).filterMap subOf = [] := by
  induction subs generalizing seenF seenT with
  | nil => simp [subSpecialOps]
  | cons r rest ih =>
    simp only [subSpecialOps]
    split
    · exact ih seenF seenT
    · split
      · exact ih seenF seenT
      · have := ih seenF (seenT ++ [r.hash])
        exact ⟨by rw [List.filterMap_cons]; simpa [nodeOf] using this.1, by rw [List.filterMap_cons]; simpa [edgeOf] using this.2.1,
          by rw [List.filterMap_cons]; simpa [subOf] using this.2.2⟩
    · split
      · exact ih seenF seenT
      · have := ih (seenF ++ [r.hash]) seenT
        exact ⟨by rw [List.filterMap_cons]; simpa [nodeOf] using this.1, by rw [List.filterMap_cons]; simpa [edgeOf] using this.2.1,
          by rw [List.filterMap_cons]; simpa [subOf] using this.2.2⟩

theorem recordSubvalues_graph (parent : H) (subs : List ValueRow) (s : Sess) :
    G (recordSubvalues parent subs s).view = G s.view ∧
    (∀ snap ∈ (recordSubvalues parent subs s).log, snap ∈ s.log ∨ G snap.db = G s.view) ∧
    (s.pend = [] → (recordSubvalues parent subs s).pend = []) := by
  unfold recordSubvalues
  split
  · exact ⟨rfl, fun snap h => Or.inl h, fun h => h⟩
  · have a1 := newSubValues_graph s.view [] subs
    have a2 := newSubLinks_graph s.view parent [] subs
    have h0 := addCommit_graph s (newSubValues s.view [] subs ++ newSubLinks s.view parent [] subs)
      (by rw [List.filterMap_append, a1.1, a2.1]; rfl) (by rw [List.filterMap_append, a1.2.1, a2.2.1]; rfl)
      (by rw [List.filterMap_append, a1.2.2, a2.2.2]; rfl)
    have a3 := subSpecialOps_graph (s.addAll (newSubValues s.view [] subs ++ newSubLinks s.view parent [] subs)).commit.view [] [] subs
    have h := addCommit_graph (s.addAll (newSubValues s.view [] subs ++ newSubLinks s.view parent [] subs)).commit _ a3.1 a3.2.1 a3.2.2
    refine ⟨h.1.trans h0.1, ?_, fun _ => h.2.2⟩
    intro snap hmem
    rcases h.2.1 snap hmem with h' | h'
    · exact h0.2.1 snap h'
    · exact Or.inr (h'.trans h0.1)

theorem valueOps_graph (db : Db) (x : ValueSpec) :
    (valueOps db x).filterMap nodeOf = [] ∧ (valueOps db x).filterMap edgeOf = [] ∧
    (valueOps db x).filterMap subOf = [] := by
  unfold valueOps
  simp only
  have h2 := specialMissing_graph
  split
  · refine ⟨?_, ?_, ?_⟩ <;> rw [List.filterMap_append]
    · rw [(h2 _ _).1]; rfl
    · rw [(h2 _ _).2.1]; rfl
    · rw [(h2 _ _).2.2]; rfl
  · have a1 := newSubValues_graph
    have a2 := newSubLinks_graph
    have a3 := subSpecialOps_graph
    refine ⟨?_, ?_, ?_⟩ <;> simp only [List.filterMap_append]
    · rw [(h2 _ _).1, (a1 _ _ _).1, (a2 _ _ _ _).1, (a3 _ _ _ _).1]; rfl
    · rw [(h2 _ _).2.1, (a1 _ _ _).2.1, (a2 _ _ _ _).2.1, (a3 _ _ _ _).2.1]; rfl
    · rw [(h2 _ _).2.2, (a1 _ _ _).2.2, (a2 _ _ _ _).2.2, (a3 _ _ _ _).2.2]; rfl

/-- `record_value` never touches the call graph tables: every durable state it produces carries the call
graph the session saw when it was called. -/
theorem recordValue_graph (v : Variant) (x : ValueSpec) (s : Sess) :
    G (recordValue v x s).view = G s.view ∧
    (∀ snap ∈ (recordValue v x s).log, snap ∈ s.log ∨ G snap.db = G s.view) ∧
    (s.pend = [] → (recordValue v x s).pend = []) := by
  unfold recordValue
  split
  · exact ⟨rfl, fun snap h => Or.inl h, fun h => h⟩
  · split
    · have hg := valueOps_graph s.view x
      have h := addCommit_graph s (valueOps s.view x) hg.1 hg.2.1 hg.2.2
      exact ⟨h.1, h.2.1, fun _ => h.2.2⟩
    · have h0 := recordValueCore_graph v x.row s
      have h := recordSubvalues_graph x.row.hash x.subs (recordValueCore v x.row s)
      refine ⟨h.1.trans h0.1, ?_, fun _ => h.2.2 h0.2.2⟩
      intro snap hmem
      rcases h.2.1 snap hmem with h' | h'
      · exact h0.2.1 snap h'
      · exact Or.inr (h'.trans h0.1)

theorem recordValues_graph (v : Variant) (rs : List ValueSpec) (s : Sess) :
    G (recordValues v rs s).view = G s.view ∧
    (∀ snap ∈ (recordValues v rs s).log, snap ∈ s.log ∨ G snap.db = G s.view) ∧
    (s.pend = [] → (recordValues v rs s).pend = []) := by
  induction rs generalizing s with
  | nil => exact ⟨rfl, fun snap h => Or.inl h, fun h => h⟩
  | cons r rest ih =>
    have h1 := recordValue_graph v r s
    have h2 := ih (recordValue v r s)
    simp only [recordValues, List.foldl_cons] at h2 ⊢
    refine ⟨h2.1.trans h1.1, ?_, fun hp => h2.2.2 (h1.2.2 hp)⟩
    intro snap h
    rcases h2.2.1 snap h with h | h
    · exact h1.2.1 snap h
    · exact Or.inr (h.trans h1.1)

theorem hasValue_applyOps_mono (db : Db) (ops : List RowOp) (h : H) (hv : hasValue db h = true) :
    hasValue (applyOps db ops) h = true := by
  simp only [hasValue, applyOps_values, List.any_append, Bool.or_eq_true] at hv ⊢
  exact Or.inl hv

theorem hasValue_applyOp_mono (db : Db) (op : RowOp) (h : H) (hv : hasValue db h = true) :
    hasValue (applyOp db op) h = true := hasValue_applyOps_mono db [op] h hv

theorem hasValue_commit_addAll (s : Sess) (ops : List RowOp) (h : H) (hv : hasValue s.view h = true) :
    hasValue (s.addAll ops).commit.view h = true := by
  simp only [view_commit, view_addAll]; exact hasValue_applyOps_mono _ _ _ hv

theorem recordValueCore_mono (v : Variant) (r : ValueRow) (s : Sess) (h : H) (hv : hasValue s.view h = true) :
    hasValue (recordValueCore v r s).view h = true := by
  unfold recordValueCore
  simp only
  split
  · exact hasValue_commit_addAll _ _ _ (by simp only [view_add]; exact hasValue_applyOp_mono _ _ _ hv)
  · exact hasValue_commit_addAll _ _ _ (by simp only [view_commit, view_add]; exact hasValue_applyOp_mono _ _ _ hv)

theorem recordSubvalues_mono (parent : H) (subs : List ValueRow) (s : Sess) (h : H) (hv : hasValue s.view h = true) :
    hasValue (recordSubvalues parent subs s).view h = true := by
  unfold recordSubvalues
  split
  · exact hv
  · exact hasValue_commit_addAll _ _ _ (hasValue_commit_addAll _ _ _ hv)

theorem recordValue_mono (v : Variant) (x : ValueSpec) (s : Sess) (h : H) (hv : hasValue s.view h = true) :
    hasValue (recordValue v x s).view h = true := by
  unfold recordValue
  split
  · exact hv
  · split
    · exact hasValue_commit_addAll _ _ _ hv
    · exact recordSubvalues_mono _ _ _ _ (recordValueCore_mono _ _ _ _ hv)

theorem hasValue_after_value (db : Db) (r : ValueRow) : hasValue (applyOp db (.value r)) r.hash = true := by
  simp [hasValue, applyOp]

theorem recordValueCore_has (v : Variant) (r : ValueRow) (s : Sess) : hasValue (recordValueCore v r s).view r.hash = true := by
  unfold recordValueCore
  simp only
  split
  · exact hasValue_commit_addAll _ _ _ (by simp only [view_add]; exact hasValue_after_value _ _)
  · exact hasValue_commit_addAll _ _ _ (by simp only [view_commit, view_add]; exact hasValue_after_value _ _)

theorem valueOps_mem (db : Db) (x : ValueSpec) : RowOp.value x.row ∈ valueOps db x := by
  unfold valueOps
  simp only
  split <;> simp

theorem hasValue_of_mem_ops (db : Db) (ops : List RowOp) (r : ValueRow) (h : RowOp.value r ∈ ops) :
    hasValue (applyOps db ops) r.hash = true := by
  simp only [hasValue, applyOps_values, List.any_append, Bool.or_eq_true, List.any_eq_true]
  right
  exact ⟨r, List.mem_filterMap.mpr ⟨_, h, rfl⟩, by simp⟩

theorem recordValue_has (v : Variant) (x : ValueSpec) (s : Sess) : hasValue (recordValue v x s).view x.row.hash = true := by
  unfold recordValue
  split
  · rename_i h; exact h
  · split
    · simp only [view_commit, view_addAll]
      exact hasValue_of_mem_ops _ _ _ (valueOps_mem _ _)
    · exact recordSubvalues_mono _ _ _ _ (recordValueCore_has _ _ _)

theorem recordValues_mono (v : Variant) (rs : List ValueSpec) (s : Sess) (h : H) (hv : hasValue s.view h = true) :
    hasValue (recordValues v rs s).view h = true := by
  induction rs generalizing s with
  | nil => exact hv
  | cons r rest ih => exact ih _ (recordValue_mono v r s h hv)

theorem recordValues_has (v : Variant) (rs : List ValueSpec) (s : Sess) :
    ∀ r ∈ rs, hasValue (recordValues v rs s).view r.row.hash = true := by
  induction rs generalizing s with
  | nil => intro r h; cases h
  | cons r rest ih =>
    intro x hx
    simp only [List.mem_cons] at hx
    rcases hx with hx | hx
    · subst hx; exact recordValues_mono v rest _ _ (recordValue_has v x s)
    · exact ih _ x hx

def argOps (c : H) (args : List ArgSpec) : List RowOp :=
  args.flatMap (fun a => RowOp.arg ⟨c, a.slot, a.value.row.hash⟩ :: a.upstream.map (fun u => RowOp.argRes ⟨c, a.slot, u⟩))

/-- once every argument value is recorded, `_record_args` only adds rows (no commit in between) -/
theorem recordArgs_noop (v : Variant) (c : H) (args : List ArgSpec) (s : Sess)
    (h : ∀ a ∈ args, hasValue s.view a.value.row.hash = true) :
    recordArgs v c args s = s.addAll (argOps c args) := by
  induction args generalizing s with
  | nil => simp [recordArgs, argOps, Sess.addAll]
  | cons a rest ih =>
    have ha := h a (by simp)
    have hrv : recordValue v a.value s = s := by unfold recordValue; simp [ha]
    simp only [recordArgs, hrv]
    rw [ih]
    · simp [Sess.addAll, Sess.add, argOps, List.append_assoc]
    · intro b hb
      simp only [view_addAll, view_add]
      exact hasValue_applyOps_mono _ _ _ (hasValue_applyOp_mono _ _ _ (h b (by simp [hb])))

theorem argOps_graph (c : H) (args : List ArgSpec) :
    (argOps c args).filterMap nodeOf = [] ∧ (argOps c args).filterMap edgeOf = [] ∧
    (argOps c args).filterMap subOf = [] := by
  induction args with
  | nil => simp [argOps]
  | cons a rest ih =>
    simp only [argOps, List.flatMap_cons, List.filterMap_append, List.filterMap_cons] at ih ⊢
    refine ⟨?_, ?_, ?_⟩
    · simp only [nodeOf, List.filterMap_map]; rw [ih.1]; simp [Function.comp_def, nodeOf]
    · simp only [edgeOf, List.filterMap_map]; rw [ih.2.1]; simp [Function.comp_def, edgeOf]
    · simp only [subOf, List.filterMap_map]; rw [ih.2.2]; simp [Function.comp_def, subOf]

theorem subOps_graph (c : H) (ts : List H) :
    (subOps c ts).filterMap nodeOf = [] ∧ (subOps c ts).filterMap edgeOf = [] ∧
    (subOps c ts).filterMap subOf = ts.map (fun t => ⟨c, t⟩) := by
  simp [subOps, List.filterMap_map, Function.comp_def, nodeOf, edgeOf, subOf]

def edgeRows (db : Db) (c : H) (children : List H) : List EdgeRow :=
  (children.zipIdx.filter (fun p => hasNode db p.1)).map (fun p => ⟨c, p.1, p.2⟩)

theorem edgeOps_graph (db : Db) (c : H) (children : List H) :
    (edgeOps db c children).filterMap nodeOf = [] ∧ (edgeOps db c children).filterMap edgeOf = edgeRows db c children ∧
    (edgeOps db c children).filterMap subOf = [] := by
  simp [edgeOps, edgeRows, List.filterMap_map, Function.comp_def, nodeOf, edgeOf, subOf]

theorem mem_edgeRows {db : Db} {c : H} {children : List H} {e : EdgeRow} (h : e ∈ edgeRows db c children) :
    e.parent = c ∧ e.child ∈ children ∧ hasNode db e.child = true := by
  simp only [edgeRows, List.mem_map, List.mem_filter] at h
  obtain ⟨p, ⟨hp, hn⟩, rfl⟩ := h
  refine ⟨rfl, ?_, hn⟩
  have := List.mem_zipIdx hp
  simp at this
  rw [this.2]; simp

theorem build_view (db : Db) (n : NodeRow) (children : List H) (S : List H) (args : List ArgSpec) :
    let d1 := applyOp db (.node n)
    let d := applyOps (applyOps (applyOps d1 (edgeOps d1 n.call children)) (subOps n.call S)) (argOps n.call args)
    d.nodes = db.nodes ++ [n] ∧ d.edges = db.edges ++ edgeRows d1 n.call children ∧
      d.subtree = db.subtree ++ S.map (fun t => ⟨n.call, t⟩) := by
  have h1 := edgeOps_graph (applyOp db (.node n)) n.call children
  have h2 := subOps_graph n.call S
  have h3 := argOps_graph n.call args
  simp only [applyOps_nodes, applyOps_edges, applyOps_subtree, h1.1, h1.2.1, h1.2.2, h2.1, h2.2.1, h2.2.2,
    h3.1, h3.2.1, h3.2.2, List.append_nil]
  simp [applyOp]

theorem G_eq {a b : Db} (h : G a = G b) : a.nodes = b.nodes ∧ a.edges = b.edges ∧ a.subtree = b.subtree := by
  simp only [G, Prod.mk.injEq] at h; exact h

theorem hasNode_congr {a b : Db} (h : a.nodes = b.nodes) (c : H) : hasNode a c = hasNode b c := by
  simp [hasNode, h]

theorem subtreeOf_congr {a b : Db} (h : a.subtree = b.subtree) (c : H) : subtreeOf a c = subtreeOf b c := by
  simp [subtreeOf, h]

theorem edgeRows_congr {a b : Db} (h : a.nodes = b.nodes) (c : H) (ch : List H) : edgeRows a c ch = edgeRows b c ch := by
  simp only [edgeRows]; congr 2; funext p; exact hasNode_congr h p.1

/-- the shape of a durable state `record_call_node` may add to the log -/
def CallNodeSnap (v : Variant) (a : CallArgs) (db0 : Db) (d : Db) : Prop :=
  G d = G db0 ∨
  (hasNode db0 a.node.call = false ∧ d.nodes = db0.nodes ++ [a.node] ∧
    d.edges = db0.edges ++ edgeRows (applyOp db0 (.node a.node)) a.node.call a.children ∧
    d.subtree = db0.subtree ++ a.subtree.map (fun t => ⟨a.node.call, t⟩)) ∨
  (v.healSubtree = true ∧ hasNode db0 a.node.call = true ∧ subtreeOf db0 a.node.call = [] ∧
    d.nodes = db0.nodes ∧ d.edges = db0.edges ∧
    d.subtree = db0.subtree ++ a.subtree.map (fun t => ⟨a.node.call, t⟩))

/-- the durable state after an uninterrupted `record_call_node` -/
def CallNodeFinal (v : Variant) (a : CallArgs) (db0 : Db) (d : Db) : Prop :=
  (hasNode db0 a.node.call = false → d.nodes = db0.nodes ++ [a.node] ∧
    d.edges = db0.edges ++ edgeRows (applyOp db0 (.node a.node)) a.node.call a.children ∧
    d.subtree = db0.subtree ++ a.subtree.map (fun t => ⟨a.node.call, t⟩)) ∧
  (hasNode db0 a.node.call = true → (v.healSubtree = true ∧ subtreeOf db0 a.node.call = []) →
    d.nodes = db0.nodes ∧ d.edges = db0.edges ∧
    d.subtree = db0.subtree ++ a.subtree.map (fun t => ⟨a.node.call, t⟩)) ∧
  (hasNode db0 a.node.call = true → ¬ (v.healSubtree = true ∧ subtreeOf db0 a.node.call = []) → d = db0)

/-- Repaired `record_call_node`: every durable state it can leave behind (any crash point) has either the old
call graph, or the old call graph plus the COMPLETE new node (node, child edges and subtree rows together). -/
theorem recordCallNode_atomic (v : Variant) (hv : v.atomicCallNode = true) (a : CallArgs) (s : Sess)
    (hp : s.pend = []) :
    (recordCallNode v a s).pend = [] ∧
    (∀ snap ∈ (recordCallNode v a s).log, snap ∈ s.log ∨ CallNodeSnap v a s.db snap.db) ∧
    CallNodeFinal v a s.db (recordCallNode v a s).db := by
  have hview := view_of_pend_nil s hp
  unfold recordCallNode
  simp only [hview]
  split
  · rename_i hnode
    split
    · rename_i hheal
      simp only [Bool.and_eq_true, List.isEmpty_iff] at hheal
      have h1 := recordValues_graph v (taskValues a.subtree) s
      rw [hview] at h1
      have hp1 := h1.2.2 hp
      have hshape : let d := ((recordValues v (taskValues a.subtree) s).addAll (subOps a.node.call a.subtree)).view
          d.nodes = s.db.nodes ∧ d.edges = s.db.edges ∧
          d.subtree = s.db.subtree ++ a.subtree.map (fun t => ⟨a.node.call, t⟩) := by
        have hg := G_eq h1.1
        have h2 := subOps_graph a.node.call a.subtree
        refine ⟨?_, ?_, ?_⟩
        · simp only [view_addAll, applyOps_nodes, h2.1, List.append_nil, hg.1]
        · simp only [view_addAll, applyOps_edges, h2.2.1, List.append_nil, hg.2.1]
        · simp only [view_addAll, applyOps_subtree, h2.2.2, hg.2.2]
      simp only at hshape
      have hsnap : CallNodeSnap v a s.db ((recordValues v (taskValues a.subtree) s).addAll (subOps a.node.call a.subtree)).view :=
        Or.inr (Or.inr ⟨hheal.1, hnode, hheal.2, hshape⟩)
      refine ⟨by simp, ?_, ?_⟩
      · intro snap hmem
        rcases log_commit ((recordValues v (taskValues a.subtree) s).addAll (subOps a.node.call a.subtree)) with hl | hl
        · rw [hl] at hmem; simp only [log_addAll] at hmem
          rcases h1.2.1 snap hmem with h | h
          · exact Or.inl h
          · exact Or.inr (Or.inl h)
        · rw [hl] at hmem; simp only [log_addAll, List.mem_append, List.mem_singleton] at hmem
          rcases hmem with hmem | hmem
          · rcases h1.2.1 snap hmem with h | h
            · exact Or.inl h
            · exact Or.inr (Or.inl h)
          · right; subst hmem; exact hsnap
      · rw [db_commit]
        unfold CallNodeFinal
        exact ⟨fun h => (by rw [hnode] at h; cases h), fun _ _ => hshape, fun _ h => absurd hheal h⟩
    · rename_i hheal
      simp only [Bool.and_eq_true, List.isEmpty_iff] at hheal
      refine ⟨hp, fun snap h => Or.inl h, ?_⟩
      unfold CallNodeFinal
      exact ⟨fun h => (by rw [hnode] at h; cases h), fun _ h => absurd h hheal, fun _ _ => rfl⟩
  · rename_i hnode
    have hnode : hasNode s.db a.node.call = false := by simpa using hnode
    -- phase 1: values
    have h1 := recordValues_graph v (a.args.map (·.value)) s
    rw [hview] at h1
    have hp1 := h1.2.2 hp
    generalize hs1 : recordValues v (a.args.map (·.value)) s = s1 at *
    have hhas1 : ∀ x ∈ a.args, hasValue s1.view x.value.row.hash = true := by
      intro x hx
      have := recordValues_has v (a.args.map (·.value)) s x.value (List.mem_map_of_mem hx)
      rw [hs1] at this; exact this
    -- phase 2: tasks (optional)
    have h2 : ∀ s2 : Sess, s2 = (if (a.children.any fun ch => !hasNode s1.view ch) = true then recordValues v (taskValues a.subtree) s1 else s1) →
        G s2.view = G s.db ∧ (∀ snap ∈ s2.log, snap ∈ s.log ∨ G snap.db = G s.db) ∧ s2.pend = [] ∧
        (∀ x ∈ a.args, hasValue s2.view x.value.row.hash = true) := by
      intro s2 hs2
      split at hs2
      · have h := recordValues_graph v (taskValues a.subtree) s1
        subst hs2
        refine ⟨h.1.trans h1.1, ?_, h.2.2 hp1, fun x hx => recordValues_mono _ _ _ _ (hhas1 x hx)⟩
        intro snap hmem
        rcases h.2.1 snap hmem with h' | h'
        · exact h1.2.1 snap h'
        · exact Or.inr (h'.trans h1.1)
      · subst hs2; exact ⟨h1.1, h1.2.1, hp1, hhas1⟩
    generalize hs2 : (if (a.children.any fun ch => !hasNode s1.view ch) = true then recordValues v (taskValues a.subtree) s1 else s1) = s2 at *
    obtain ⟨hg2, hlog2, hp2, hhas2⟩ := h2 s2 rfl
    have hview2 := view_of_pend_nil s2 hp2
    rw [recordArgs_noop]
    · have hshape : let d := ((((s2.add (.node a.node)).addAll (edgeOps (s2.add (.node a.node)).view a.node.call a.children)).addAll
            (subOps a.node.call a.subtree)).addAll (argOps a.node.call a.args)).view
          d.nodes = s.db.nodes ++ [a.node] ∧
          d.edges = s.db.edges ++ edgeRows (applyOp s.db (.node a.node)) a.node.call a.children ∧
          d.subtree = s.db.subtree ++ a.subtree.map (fun t => ⟨a.node.call, t⟩) := by
        simp only [view_addAll, view_add]
        have hb := build_view s2.view a.node a.children a.subtree a.args
        simp only at hb
        have hg := G_eq hg2
        rw [hb.1, hb.2.1, hb.2.2, hg.1, hg.2.1, hg.2.2]
        refine ⟨rfl, ?_, rfl⟩
        congr 1
        apply edgeRows_congr
        simp [applyOp, hg.1]
      simp only at hshape
      have hsnap : CallNodeSnap v a s.db ((((s2.add (.node a.node)).addAll (edgeOps (s2.add (.node a.node)).view a.node.call a.children)).addAll
          (subOps a.node.call a.subtree)).addAll (argOps a.node.call a.args)).view :=
        Or.inr (Or.inl ⟨hnode, hshape⟩)
      refine ⟨by simp, ?_, ?_⟩
      · intro snap hmem
        rcases log_commit ((((s2.add (.node a.node)).addAll (edgeOps (s2.add (.node a.node)).view a.node.call a.children)).addAll
            (subOps a.node.call a.subtree)).addAll (argOps a.node.call a.args)) with hl | hl
        · rw [hl] at hmem; simp only [log_addAll, log_add] at hmem
          rcases hlog2 snap hmem with h | h
          · exact Or.inl h
          · exact Or.inr (Or.inl h)
        · rw [hl] at hmem; simp only [log_addAll, log_add, List.mem_append, List.mem_singleton] at hmem
          rcases hmem with hmem | hmem
          · rcases hlog2 snap hmem with h | h
            · exact Or.inl h
            · exact Or.inr (Or.inl h)
          · right; subst hmem; exact hsnap
      · rw [db_commit]
        unfold CallNodeFinal
        exact ⟨fun _ => hshape, fun h => (by rw [hnode] at h; cases h), fun h => (by rw [hnode] at h; cases h)⟩
    · intro x hx
      simp only [view_addAll, view_add]
      exact hasValue_applyOps_mono _ _ _ (hasValue_applyOps_mono _ _ _ (hasValue_applyOp_mono _ _ _ (hhas2 x hx)))

theorem setEvalCache_graph (v : Variant) (e : EvalRow) (val : ValueSpec) (s : Sess) :
    G (setEvalCache v e val s).view = G s.view ∧
    (∀ snap ∈ (setEvalCache v e val s).log, snap ∈ s.log ∨ G snap.db = G s.view) ∧
    (s.pend = [] → (setEvalCache v e val s).pend = []) := by
  have h1 := recordValue_graph v val s
  unfold setEvalCache
  simp only
  split
  · split
    · exact h1
    · have h2 := addCommit_graph (recordValue v val s) [.evalSet e.eval e.value] rfl rfl rfl
      rw [add_eq_addAll]
      refine ⟨h2.1.trans h1.1, ?_, fun _ => h2.2.2⟩
      intro snap hmem
      rcases h2.2.1 snap hmem with h | h
      · exact h1.2.1 snap h
      · exact Or.inr (h.trans h1.1)
  · have h2 := addCommit_graph (recordValue v val s) [.eval e] rfl rfl rfl
    rw [add_eq_addAll]
    refine ⟨h2.1.trans h1.1, ?_, fun _ => h2.2.2⟩
    intro snap hmem
    rcases h2.2.1 snap hmem with h | h
    · exact h1.2.1 snap h
    · exact Or.inr (h.trans h1.1)

theorem recordJobEnd_graph (id : H) (call : Option H) (cached : Bool) (s : Sess) :
    G (recordJobEnd id call cached s).view = G s.view ∧
    (∀ snap ∈ (recordJobEnd id call cached s).log, snap ∈ s.log ∨ G snap.db = G s.view) ∧
    (recordJobEnd id call cached s).pend = [] := by
  unfold recordJobEnd
  rw [add_eq_addAll]
  exact addCommit_graph s [.jobEnd id call cached] rfl rfl rfl

theorem recordJobStart_graph (v : Variant) (j : JobRow) (root : Bool) (s s' : Sess)
    (h : recordJobStart v j root s = .ok s') :
    G s'.view = G s.view ∧ (∀ snap ∈ s'.log, snap ∈ s.log ∨ G snap.db = G s.view) ∧ s'.pend = [] := by
  have h1 := recordValue_graph v ⟨⟨j.task, .task⟩, []⟩ s
  unfold recordJobStart at h
  simp only at h
  split at h
  · split at h
    · simp only [Except.ok.injEq] at h
      subst h
      split
      · have h2 := addCommit_graph (recordValue v ⟨⟨j.task, .task⟩, []⟩ s) [.exec ⟨j.exec, j.id⟩, .job j] rfl rfl rfl
        simp only [Sess.add, Sess.addAll, List.append_assoc, List.cons_append, List.nil_append] at h2 ⊢
        refine ⟨h2.1.trans h1.1, ?_, h2.2.2⟩
        intro snap hmem
        rcases h2.2.1 snap hmem with h | h
        · exact h1.2.1 snap h
        · exact Or.inr (h.trans h1.1)
      · have h2 := addCommit_graph { recordValue v ⟨⟨j.task, .task⟩, []⟩ s with pendingExecs := (recordValue v ⟨⟨j.task, .task⟩, []⟩ s).pendingExecs.erase j.exec } [.exec ⟨j.exec, j.id⟩, .job j] rfl rfl rfl
        simp only [Sess.add, Sess.addAll, List.append_assoc, List.cons_append, List.nil_append] at h2 ⊢
        refine ⟨h2.1.trans h1.1, ?_, h2.2.2⟩
        intro snap hmem
        rcases h2.2.1 snap hmem with h | h
        · exact h1.2.1 snap h
        · exact Or.inr (h.trans h1.1)
    · cases h
  · simp only [Except.ok.injEq] at h
    subst h
    have h2 := addCommit_graph (recordValue v ⟨⟨j.task, .task⟩, []⟩ s) [.job j] rfl rfl rfl
    rw [add_eq_addAll]
    refine ⟨h2.1.trans h1.1, ?_, h2.2.2⟩
    intro snap hmem
    rcases h2.2.1 snap hmem with h | h
    · exact h1.2.1 snap h
    · exact Or.inr (h.trans h1.1)

theorem newRecords_mem {db : Db} {seen : List H} {rs : List Rec} {r : Rec} (h : r ∈ newRecords db seen rs) :
    r ∈ rs ∧ isRecordId db r.id = false := by
  induction rs generalizing seen with
  | nil => simp [newRecords] at h
  | cons x rest ih =>
    simp only [newRecords] at h
    split at h
    · have := ih h; exact ⟨List.mem_cons_of_mem _ this.1, this.2⟩
    · rename_i hc
      simp only [List.mem_cons] at h
      rcases h with h | h
      · subst h
        simp only [Bool.or_eq_true, not_or, Bool.not_eq_true] at hc
        exact ⟨by simp, hc.1⟩
      · have := ih h; exact ⟨List.mem_cons_of_mem _ this.1, this.2⟩

theorem recOps_subOf (r : Rec) : (recOps r).filterMap subOf = [] := by
  cases r with
  | exec r => rfl
  | job r => rfl
  | node r ch args =>
    simp only [recOps, List.filterMap_cons, List.filterMap_append, List.filterMap_map, List.filterMap_flatMap]
    simp [subOf, Function.comp_def]
  | value r subs t f =>
    simp only [recOps, List.filterMap_cons, List.filterMap_append, List.filterMap_map]
    cases t <;> cases f <;> simp [subOf, Function.comp_def]
  | tag r ps =>
    simp only [recOps, List.filterMap_cons, List.filterMap_map]
    simp [subOf, Function.comp_def]

theorem recOps_nodeOf {r : Rec} {n : NodeRow} (h : n ∈ (recOps r).filterMap nodeOf) : n.call = r.id := by
  cases r with
  | exec r => simp [recOps, nodeOf] at h
  | job r => simp [recOps, nodeOf] at h
  | node r ch args =>
    simp only [recOps, List.filterMap_cons, List.filterMap_append, List.filterMap_map, List.filterMap_flatMap] at h
    simp [nodeOf, Function.comp_def] at h
    subst h; rfl
  | value r subs t f =>
    simp only [recOps, List.filterMap_cons, List.filterMap_append, List.filterMap_map] at h
    cases t <;> cases f <;> simp [nodeOf, Function.comp_def] at h
  | tag r ps =>
    simp only [recOps, List.filterMap_cons, List.filterMap_map] at h
    simp [nodeOf, Function.comp_def] at h

theorem recOps_edgeOf {r : Rec} {e : EdgeRow} (h : e ∈ (recOps r).filterMap edgeOf) : e.parent = r.id := by
  cases r with
  | exec r => simp [recOps, edgeOf] at h
  | job r => simp [recOps, edgeOf] at h
  | node r ch args =>
    simp only [recOps, List.filterMap_cons, List.filterMap_append, List.filterMap_map, List.filterMap_flatMap] at h
    simp [edgeOf, Function.comp_def] at h
    obtain ⟨a, b, _, rfl⟩ := h; rfl
  | value r subs t f =>
    simp only [recOps, List.filterMap_cons, List.filterMap_append, List.filterMap_map] at h
    cases t <;> cases f <;> simp [edgeOf, Function.comp_def] at h
  | tag r ps =>
    simp only [recOps, List.filterMap_cons, List.filterMap_map] at h
    simp [edgeOf, Function.comp_def] at h

theorem isRecordId_false_hasNode {db : Db} {c : H} (h : isRecordId db c = false) : hasNode db c = false := by
  simp only [isRecordId, Bool.or_eq_false_iff] at h; exact h.1.1.2

/-- `put_records`: new call nodes come with their child edges and WITHOUT subtree rows; one commit. -/
theorem putRecords_graph (rs : List Rec) (s : Sess) (hp : s.pend = []) :
    ∃ ns es, (putRecords rs s).db.nodes = s.db.nodes ++ ns ∧ (putRecords rs s).db.edges = s.db.edges ++ es ∧
      (putRecords rs s).db.subtree = s.db.subtree ∧
      (∀ n ∈ ns, hasNode s.db n.call = false) ∧ (∀ e ∈ es, hasNode s.db e.parent = false) ∧
      (putRecords rs s).pend = [] ∧
      (∀ snap ∈ (putRecords rs s).log, snap ∈ s.log ∨ snap.db = (putRecords rs s).db) := by
  have hview := view_of_pend_nil s hp
  refine ⟨((newRecords s.db [] rs).flatMap recOps).filterMap nodeOf, ((newRecords s.db [] rs).flatMap recOps).filterMap edgeOf, ?_⟩
  have hsubnil : ((newRecords s.db [] rs).flatMap recOps).filterMap subOf = [] := by
    rw [List.filterMap_flatMap]
    simp [recOps_subOf]
  have hN : ∀ n ∈ ((newRecords s.db [] rs).flatMap recOps).filterMap nodeOf, hasNode s.db n.call = false := by
    intro n hn
    rw [List.filterMap_flatMap, List.mem_flatMap] at hn
    obtain ⟨r, hr, hn⟩ := hn
    rw [recOps_nodeOf hn]
    exact isRecordId_false_hasNode (newRecords_mem hr).2
  have hE : ∀ e ∈ ((newRecords s.db [] rs).flatMap recOps).filterMap edgeOf, hasNode s.db e.parent = false := by
    intro e he
    rw [List.filterMap_flatMap, List.mem_flatMap] at he
    obtain ⟨r, hr, he⟩ := he
    rw [recOps_edgeOf he]
    exact isRecordId_false_hasNode (newRecords_mem hr).2
  unfold putRecords
  simp only [hview]
  split
  · rename_i hempty
    simp only [Sess.addAll, hp, List.nil_append, List.isEmpty_iff] at hempty
    simp only [Sess.addAll, hp, hempty, List.filterMap_nil, List.append_nil]
    exact ⟨trivial, trivial, trivial, by simp, by simp, trivial, fun snap h => Or.inl h⟩
  · simp only [view_addAll, hview, postprocessTags, applyOps_nodes, applyOps_edges, applyOps_subtree, hsubnil,
      List.append_nil, log_addAll]
    refine ⟨trivial, trivial, trivial, hN, hE, trivial, ?_⟩
    intro snap hmem
    simp only [List.mem_append, List.mem_singleton] at hmem
    rcases hmem with h | h
    · exact Or.inl h
    · right; subst h; rfl

/-! ## `record_call_node`, any variant -/


theorem recordArgs_graph (v : Variant) (c : H) (args : List ArgSpec) (s : Sess) :
    G (recordArgs v c args s).view = G s.view ∧
    (∀ snap ∈ (recordArgs v c args s).log, snap ∈ s.log ∨ G snap.db = G s.view) := by
  induction args generalizing s with
  | nil => exact ⟨rfl, fun snap h => Or.inl h⟩
  | cons a rest ih =>
    simp only [recordArgs]
    have h1 := recordValue_graph v a.value s
    have hg : G (((recordValue v a.value s).add (.arg ⟨c, a.slot, a.value.row.hash⟩)).addAll
        (a.upstream.map (fun u => RowOp.argRes ⟨c, a.slot, u⟩))).view = G s.view := by
      simp only [view_addAll, view_add]
      rw [G_applyOps _ _ (by simp [List.filterMap_map, Function.comp_def, nodeOf])
        (by simp [List.filterMap_map, Function.comp_def, edgeOf]) (by simp [List.filterMap_map, Function.comp_def, subOf])]
      exact h1.1
    have h2 := ih (((recordValue v a.value s).add (.arg ⟨c, a.slot, a.value.row.hash⟩)).addAll
        (a.upstream.map (fun u => RowOp.argRes ⟨c, a.slot, u⟩)))
    refine ⟨h2.1.trans hg, ?_⟩
    intro snap hmem
    rcases h2.2 snap hmem with h | h
    · simp only [log_addAll, log_add] at h
      exact h1.2.1 snap h
    · exact Or.inr (h.trans hg)

theorem recordValue_congr {v v' : Variant} (h : v.atomicValue = v'.atomicValue) (x : ValueSpec) (s : Sess) :
    recordValue v x s = recordValue v' x s := by
  unfold recordValue recordValueCore
  rw [h]

theorem recordValues_congr {v v' : Variant} (h : v.atomicValue = v'.atomicValue) (xs : List ValueSpec) (s : Sess) :
    recordValues v xs s = recordValues v' xs s := by
  induction xs generalizing s with
  | nil => rfl
  | cons x rest ih => simp only [recordValues, List.foldl_cons] at ih ⊢; rw [recordValue_congr h]; exact ih _

/-- a durable state of the unrepaired `record_call_node` between its commits: the node and its child edges are
there, its subtree rows are not (yet) -/
def CallNodeBare (a : CallArgs) (db0 d : Db) : Prop :=
  hasNode db0 a.node.call = false ∧ d.nodes = db0.nodes ++ [a.node] ∧
    d.edges = db0.edges ++ edgeRows (applyOp db0 (.node a.node)) a.node.call a.children ∧
    d.subtree = db0.subtree

/-- **`record_call_node`, any variant**: every durable state it can leave behind has the old call graph, or the
new node with its edges but WITHOUT subtree rows (only the unrepaired code), or the complete new node, or the
healed node. -/
theorem recordCallNode_shapes (v : Variant) (a : CallArgs) (s : Sess) (hp : s.pend = []) :
    (recordCallNode v a s).pend = [] ∧
    (∀ snap ∈ (recordCallNode v a s).log, snap ∈ s.log ∨ CallNodeSnap v a s.db snap.db ∨ CallNodeBare a s.db snap.db) ∧
    CallNodeFinal v a s.db (recordCallNode v a s).db := by
  cases hv : v.atomicCallNode with
  | true =>
    have h := recordCallNode_atomic v hv a s hp
    exact ⟨h.1, fun snap hm => (h.2.1 snap hm).elim Or.inl (fun x => Or.inr (Or.inl x)), h.2.2⟩
  | false =>
    have hview := view_of_pend_nil s hp
    cases hnode : hasNode s.db a.node.call with
    | true =>
      -- same code path as the repaired variant (existing node: heal or nothing)
      have : recordCallNode v a s = recordCallNode { v with atomicCallNode := true } a s := by
        have hc := recordValues_congr (v := v) (v' := { v with atomicCallNode := true }) rfl (taskValues a.subtree) s
        unfold recordCallNode
        simp only [hview, hnode, if_true, hc]
      rw [this]
      have h := recordCallNode_atomic { v with atomicCallNode := true } rfl a s hp
      refine ⟨h.1, fun snap hm => (h.2.1 snap hm).elim Or.inl (fun x => Or.inr (Or.inl ?_)), ?_⟩
      · exact x
      · exact h.2.2
    | false =>
      unfold recordCallNode
      simp only [hview, hnode, hv]
      simp only [Bool.false_eq_true, if_false]
      -- pending: node + edges
      generalize hs2 : (s.add (.node a.node)).addAll (edgeOps (s.add (.node a.node)).view a.node.call a.children) = s2
      have hview1 : (s.add (.node a.node)).view = applyOp s.db (.node a.node) := by rw [view_add, hview]
      have hbare : s2.view.nodes = s.db.nodes ++ [a.node] ∧
          s2.view.edges = s.db.edges ++ edgeRows (applyOp s.db (.node a.node)) a.node.call a.children ∧
          s2.view.subtree = s.db.subtree := by
        rw [← hs2, view_addAll, hview1]
        have he := edgeOps_graph (applyOp s.db (.node a.node)) a.node.call a.children
        simp only [applyOps_nodes, applyOps_edges, applyOps_subtree, he.1, he.2.1, he.2.2, List.append_nil]
        simp [applyOp]
      have hlog2 : s2.log = s.log := by rw [← hs2]; rfl
      have bare_of : ∀ d : Db, G d = G s2.view → CallNodeBare a s.db d := by
        intro d hd
        have := G_eq hd
        exact ⟨hnode, this.1.trans hbare.1, this.2.1.trans hbare.2.1, this.2.2.trans hbare.2.2⟩
      -- _record_args and its commit
      have h3 := recordArgs_graph v a.node.call a.args s2
      generalize hs3 : recordArgs v a.node.call a.args s2 = s3 at *
      have h4log : ∀ snap ∈ s3.commit.log, snap ∈ s.log ∨ CallNodeBare a s.db snap.db := by
        intro snap hm
        rcases log_commit s3 with hl | hl
        · rw [hl] at hm
          rcases h3.2 snap hm with h | h
          · exact Or.inl (hlog2 ▸ h)
          · exact Or.inr (bare_of _ h)
        · rw [hl] at hm; simp only [List.mem_append, List.mem_singleton] at hm
          rcases hm with hm | hm
          · rcases h3.2 snap hm with h | h
            · exact Or.inl (hlog2 ▸ h)
            · exact Or.inr (bare_of _ h)
          · subst hm; exact Or.inr (bare_of _ h3.1)
      have hp4 : s3.commit.pend = [] := pend_commit s3
      have hv4 : G s3.commit.view = G s2.view := by rw [view_commit]; exact h3.1
      -- optional task values
      have h5 : ∀ s5 : Sess, s5 = (if (a.children.any fun ch => !hasNode s3.commit.view ch) = true then
            recordValues v (taskValues a.subtree) s3.commit else s3.commit) →
          G s5.view = G s2.view ∧ s5.pend = [] ∧ (∀ snap ∈ s5.log, snap ∈ s.log ∨ CallNodeBare a s.db snap.db) := by
        intro s5 h
        split at h
        · subst h
          have hr := recordValues_graph v (taskValues a.subtree) s3.commit
          refine ⟨hr.1.trans hv4, hr.2.2 hp4, ?_⟩
          intro snap hm
          rcases hr.2.1 snap hm with h' | h'
          · exact h4log snap h'
          · exact Or.inr (bare_of _ (h'.trans hv4))
        · subst h; exact ⟨hv4, hp4, h4log⟩
      generalize hs5 : (if (a.children.any fun ch => !hasNode s3.commit.view ch) = true then
            recordValues v (taskValues a.subtree) s3.commit else s3.commit) = s5 at *
      obtain ⟨hg5, hp5, hlog5⟩ := h5 s5 rfl
      -- the subtree rows
      have hshape : (s5.addAll (subOps a.node.call a.subtree)).view.nodes = s.db.nodes ++ [a.node] ∧
          (s5.addAll (subOps a.node.call a.subtree)).view.edges =
            s.db.edges ++ edgeRows (applyOp s.db (.node a.node)) a.node.call a.children ∧
          (s5.addAll (subOps a.node.call a.subtree)).view.subtree =
            s.db.subtree ++ a.subtree.map (fun t => ⟨a.node.call, t⟩) := by
        have hg := G_eq hg5
        have h2 := subOps_graph a.node.call a.subtree
        simp only [view_addAll, applyOps_nodes, applyOps_edges, applyOps_subtree, h2.1, h2.2.1, h2.2.2,
          List.append_nil, hg.1, hg.2.1, hg.2.2, hbare.1, hbare.2.1, hbare.2.2]
        exact ⟨trivial, trivial, trivial⟩
      refine ⟨pend_commit _, ?_, ?_⟩
      · intro snap hm
        rcases log_commit (s5.addAll (subOps a.node.call a.subtree)) with hl | hl
        · rw [hl] at hm
          rcases hlog5 snap (by simpa using hm) with h | h
          · exact Or.inl h
          · exact Or.inr (Or.inr h)
        · rw [hl] at hm; simp only [log_addAll, List.mem_append, List.mem_singleton] at hm
          rcases hm with hm | hm
          · rcases hlog5 snap hm with h | h
            · exact Or.inl h
            · exact Or.inr (Or.inr h)
          · subst hm
            exact Or.inr (Or.inl (Or.inr (Or.inl ⟨hnode, hshape⟩)))
      · rw [db_commit]
        unfold CallNodeFinal
        exact ⟨fun _ => hshape, fun h => (by rw [hnode] at h; cases h), fun h => (by rw [hnode] at h; cases h)⟩
end RedunModel.Db
