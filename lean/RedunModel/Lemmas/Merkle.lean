/-
Lemmas for the call-graph recorder model (C20): the order on symbolic call hashes is a total order,
sorting is permutation invariant, and the database invariants kept by the recorder.
-/
import RedunModel.Model.Merkle
namespace RedunModel.Merkle
open List

namespace H
theorem nat_swap (a b : Nat) : (compare a b).swap = compare b a := by
  rcases Nat.lt_trichotomy a b with h | h | h
  · rw [Nat.compare_eq_lt.2 h, Nat.compare_eq_gt.2 h]; rfl
  · subst h; simp
  · rw [Nat.compare_eq_gt.2 h, Nat.compare_eq_lt.2 h]; rfl

mutual
  theorem cmp_eq : ∀ (a b : H), cmp a b = .eq → a = b
    | .call t a r k, .call t' a' r' k', h => by
      simp only [cmp, Ordering.then_eq_eq, Nat.compare_eq_eq] at h
      obtain ⟨rfl, rfl, rfl, hk⟩ := h
      rw [cmpL_eq k k' hk]
  theorem cmpL_eq : ∀ (a b : List H), cmpL a b = .eq → a = b
    | [], [], _ => rfl
    | [], _ :: _, h => by simp [cmpL] at h
    | _ :: _, [], h => by simp [cmpL] at h
    | x :: xs, y :: ys, h => by
      simp only [cmpL, Ordering.then_eq_eq] at h
      rw [cmp_eq x y h.1, cmpL_eq xs ys h.2]
end

mutual
  theorem cmp_swap : ∀ (a b : H), (cmp a b).swap = cmp b a
    | .call t a r k, .call t' a' r' k' => by
      simp only [cmp, Ordering.swap_then, nat_swap, cmpL_swap k k']
  theorem cmpL_swap : ∀ (a b : List H), (cmpL a b).swap = cmpL b a
    | [], [] => rfl
    | [], _ :: _ => rfl
    | _ :: _, [] => rfl
    | x :: xs, y :: ys => by
      simp only [cmpL, Ordering.swap_then, cmp_swap x y, cmpL_swap xs ys]
end

mutual
  theorem cmp_lt_trans : ∀ (a b c : H), cmp a b = .lt → cmp b c = .lt → cmp a c = .lt
    | .call t1 a1 r1 k1, .call t2 a2 r2 k2, .call t3 a3 r3 k3, h1, h2 => by
      simp only [cmp, Ordering.then_eq_lt, Nat.compare_eq_lt, Nat.compare_eq_eq] at h1 h2 ⊢
      have ih := cmpL_lt_trans k1 k2 k3
      grind
  theorem cmpL_lt_trans : ∀ (a b c : List H), cmpL a b = .lt → cmpL b c = .lt → cmpL a c = .lt
    | [], [], _, h1, _ => by simp [cmpL] at h1
    | [], _ :: _, [], _, h2 => by simp [cmpL] at h2
    | [], _ :: _, _ :: _, _, _ => by simp [cmpL]
    | _ :: _, [], _, h1, _ => by simp [cmpL] at h1
    | _ :: _, _ :: _, [], _, h2 => by simp [cmpL] at h2
    | x :: xs, y :: ys, z :: zs, h1, h2 => by
      simp only [cmpL, Ordering.then_eq_lt] at h1 h2 ⊢
      have ih1 := cmp_lt_trans x y z
      have ih2 := cmpL_lt_trans xs ys zs
      have e1 := cmp_eq x y
      have e2 := cmp_eq y z
      rcases h1 with h1 | ⟨h1, h1'⟩ <;> rcases h2 with h2 | ⟨h2, h2'⟩
      · exact .inl (ih1 h1 h2)
      · rw [← e2 h2]; exact .inl h1
      · rw [e1 h1]; exact .inl h2
      · rw [e1 h1] ; exact .inr ⟨h2, ih2 h1' h2'⟩
end

theorem cmp_refl (a : H) : cmp a a = .eq := by
  have h := cmp_swap a a
  cases hc : cmp a a <;> simp [hc] at h ⊢

theorem eqb_iff {a b : H} : eqb a b = true ↔ a = b := by
  unfold eqb
  constructor
  · intro h; exact cmp_eq a b (by simpa using h)
  · rintro rfl; simp [cmp_refl]

theorem le_total (a b : H) : (le a b || le b a) = true := by
  unfold le
  have h := cmp_swap a b
  cases hc : cmp a b <;> simp [hc] at h ⊢ <;> simp [← h]

theorem le_antisymm {a b : H} (h1 : le a b = true) (h2 : le b a = true) : a = b := by
  unfold le at h1 h2
  have h := cmp_swap a b
  apply cmp_eq
  cases hc : cmp a b <;> simp [hc] at h h1 h2 ⊢
  simp [← h] at h2

theorem le_trans {a b c : H} (h1 : le a b = true) (h2 : le b c = true) : le a c = true := by
  unfold le at *
  cases hab : cmp a b
  · cases hbc : cmp b c
    · simp [cmp_lt_trans a b c hab hbc]
    · rw [← cmp_eq b c hbc]; simp [hab]
    · simp [hbc] at h2
  · rw [cmp_eq a b hab]; exact h2
  · simp [hab] at h1
end H

theorem sortH_perm {l1 l2 : List H} (h : l1.Perm l2) : sortH l1 = sortH l2 := by
  unfold sortH
  apply List.Perm.eq_of_pairwise (le := fun a b => H.le a b = true)
  · intro a b _ _ h1 h2; exact H.le_antisymm h1 h2
  · exact pairwise_mergeSort (le := H.le) (fun a b c => H.le_trans) (fun a b => H.le_total a b) l1
  · exact pairwise_mergeSort (le := H.le) (fun a b c => H.le_trans) (fun a b => H.le_total a b) l2
  · exact (mergeSort_perm l1 H.le).trans (h.trans (mergeSort_perm l2 H.le).symm)

theorem sortH_perm_self (l : List H) : (sortH l).Perm l := mergeSort_perm l H.le

/-! ### hasNode -/
theorem hasNodeL_iff {nodes : List NodeRow} {h : H} :
    hasNodeL nodes h = true ↔ ∃ r ∈ nodes, r.id = h := by
  simp [hasNodeL, H.eqb_iff]

theorem hasNodeL_append {a b : List NodeRow} {h : H} :
    hasNodeL (a ++ b) h = (hasNodeL a h || hasNodeL b h) := by
  simp [hasNodeL]

theorem hasNodeL_mono {a b : List NodeRow} {h : H} (hh : hasNodeL a h = true) :
    hasNodeL (a ++ b) h = true := by simp [hasNodeL_append, hh]

/-! ### views as a flatMap; permutation invariance of the call hash -/
def viewOf (k : JT) : List H := if k.visible then (callHash k).toList else []

theorem views_eq_flatMap (kids : List JT) : views kids = kids.flatMap viewOf := by
  induction kids with
  | nil => simp [views]
  | cons k ks ih => simp [views, viewOf, ih]

theorem views_perm {k1 k2 : List JT} (h : k1.Perm k2) : (views k1).Perm (views k2) := by
  rw [views_eq_flatMap, views_eq_flatMap]; exact h.flatMap_right _

theorem callHash_job (i : Info) (l s : Bool) (kids : List JT) :
    callHash (.job i l s kids) = finHash i (views kids) := by simp [callHash]

theorem hashCallNode_perm {t a r : Nat} {k1 k2 : List H} (h : k1.Perm k2) :
    hashCallNode t a r k1 = hashCallNode t a r k2 := by
  unfold hashCallNode; rw [sortH_perm h]

theorem finHash_perm (i : Info) {k1 k2 : List H} (h : k1.Perm k2) : finHash i k1 = finHash i k2 := by
  unfold finHash; rw [hashCallNode_perm h]

/-- two pre-images with the same id have the same fields and the same children up to order -/
theorem hashCallNode_inj {t a r t' a' r' : Nat} {k k' : List H}
    (h : hashCallNode t a r k = hashCallNode t' a' r' k') : t = t' ∧ a = a' ∧ r = r' ∧ k.Perm k' := by
  unfold hashCallNode at h
  injection h with h1 h2 h3 h4
  exact ⟨h1, h2, h3, (sortH_perm_self k).symm.trans (h4 ▸ sortH_perm_self k')⟩


/-! ### the Merkle invariant of the database -/

/-- A node row is the pre-image of its own fields and of *some* child list; every `CallEdge` leaving it
sits at a position of that list and points to a recorded node. -/
def NodeOK (db : Db) (r : NodeRow) : Prop :=
  ∃ ks : List H, r.id = hashCallNode r.task r.args r.result ks ∧
    ∀ c n, (r.id, c, n) ∈ db.edges → ks[n]? = some c ∧ db.hasNode c = true

structure Merkle (db : Db) : Prop where
  nodes : ∀ r ∈ db.nodes, NodeOK db r
  closed : ∀ p c n, (p, c, n) ∈ db.edges → db.hasNode p = true
  pk : db.nodes.Pairwise fun a b => a.id ≠ b.id

theorem merkle_empty : Merkle {} := by
  constructor <;> simp

theorem mem_newEdges {nodes : List NodeRow} {h : H} {kids : List H} {p c : H} {n : Nat} :
    (p, c, n) ∈ newEdges nodes h kids ↔ p = h ∧ kids[n]? = some c ∧ hasNodeL nodes c = true := by
  simp only [newEdges, mem_map, mem_filter, Prod.mk.injEq, Prod.exists, mem_zipIdx_iff_getElem?]
  constructor
  · rintro ⟨c', n', ⟨h1, h2⟩, rfl, rfl, rfl⟩
    exact ⟨rfl, by simpa using h1, h2⟩
  · rintro ⟨rfl, h1, h2⟩
    exact ⟨c, n, ⟨by simpa using h1, h2⟩, rfl, rfl, rfl⟩

theorem recordCallNode_old {db : Db} {t a r : Nat} {kids : List H}
    (h : db.hasNode (hashCallNode t a r kids) = true) : (recordCallNode db t a r kids).1 = db := by
  unfold recordCallNode; simp [h]

theorem recordCallNode_new {db : Db} {t a r : Nat} {kids : List H}
    (h : db.hasNode (hashCallNode t a r kids) = false) :
    (recordCallNode db t a r kids).1 =
      { db with nodes := db.nodes ++ [{ id := hashCallNode t a r kids, task := t, args := a, result := r }],
                edges := db.edges ++ newEdges (db.nodes ++ [{ id := hashCallNode t a r kids, task := t, args := a, result := r }])
                  (hashCallNode t a r kids) kids } := by
  unfold recordCallNode; simp [h]

theorem recordCallNode_hash (db : Db) (t a r : Nat) (kids : List H) :
    (recordCallNode db t a r kids).2 = hashCallNode t a r kids := by
  unfold recordCallNode; simp only []; split <;> rfl

theorem recordCallNode_hasNode_mono {db : Db} {t a r : Nat} {kids : List H} {h : H}
    (hh : db.hasNode h = true) : (recordCallNode db t a r kids).1.hasNode h = true := by
  cases hc : db.hasNode (hashCallNode t a r kids)
  · rw [recordCallNode_new hc]; exact hasNodeL_mono hh
  · rw [recordCallNode_old hc]; exact hh

theorem recordCallNode_hasNode_self (db : Db) (t a r : Nat) (kids : List H) :
    (recordCallNode db t a r kids).1.hasNode (hashCallNode t a r kids) = true := by
  cases hc : db.hasNode (hashCallNode t a r kids)
  · rw [recordCallNode_new hc]; simp [Db.hasNode, hasNodeL, H.eqb_iff]
  · rw [recordCallNode_old hc]; exact hc

theorem merkle_recordCallNode {db : Db} (m : Merkle db) (t a r : Nat) (kids : List H) :
    Merkle (recordCallNode db t a r kids).1 := by
  cases hh : db.hasNode (hashCallNode t a r kids)
  · rw [recordCallNode_new hh]
    have hfresh : ∀ r' ∈ db.nodes, r'.id ≠ hashCallNode t a r kids := by
      intro r' hr' e
      have : db.hasNode (hashCallNode t a r kids) = true := hasNodeL_iff.2 ⟨r', hr', e⟩
      simp [hh] at this
    constructor
    · intro r' hr'
      simp only [mem_append, mem_singleton] at hr'
      rcases hr' with hr' | rfl
      · obtain ⟨ks, hid, hed⟩ := m.nodes r' hr'
        refine ⟨ks, hid, ?_⟩
        intro c n hmem
        simp only [mem_append] at hmem
        rcases hmem with hmem | hmem
        · have := hed c n hmem
          exact ⟨this.1, hasNodeL_mono this.2⟩
        · exact absurd (mem_newEdges.1 hmem).1 (hfresh r' hr')
      · refine ⟨kids, rfl, ?_⟩
        intro c n hmem
        simp only [mem_append] at hmem
        rcases hmem with hmem | hmem
        · have := m.closed _ _ _ hmem
          simp [hh] at this
        · have := mem_newEdges.1 hmem
          exact ⟨this.2.1, this.2.2⟩
    · intro p c n hmem
      simp only [mem_append] at hmem
      rcases hmem with hmem | hmem
      · exact hasNodeL_mono (m.closed _ _ _ hmem)
      · rw [(mem_newEdges.1 hmem).1]
        simp [Db.hasNode, hasNodeL, H.eqb_iff]
    · simp only [pairwise_append, pairwise_cons, not_mem_nil, false_imp_iff, implies_true, Pairwise.nil, and_self, mem_singleton, forall_eq, true_and]
      exact ⟨m.pk, hfresh⟩
  · rw [recordCallNode_old hh]; exact m


/-! ### operations that do not touch the call graph -/
@[simp] theorem recordJobTags_nodes (db : Db) (e : Nat) (i : Info) : (recordJobTags db e i).nodes = db.nodes := rfl
@[simp] theorem recordJobTags_edges (db : Db) (e : Nat) (i : Info) : (recordJobTags db e i).edges = db.edges := rfl
@[simp] theorem recordJobTags_jobs (db : Db) (e : Nat) (i : Info) : (recordJobTags db e i).jobs = db.jobs := rfl
@[simp] theorem recordJobTags_execs (db : Db) (e : Nat) (i : Info) : (recordJobTags db e i).execs = db.execs := rfl
@[simp] theorem jobStart_nodes (db : Db) (e : Nat) (p : Option Nat) (i : Info) : (jobStart db e p i).nodes = db.nodes := rfl
@[simp] theorem jobStart_edges (db : Db) (e : Nat) (p : Option Nat) (i : Info) : (jobStart db e p i).edges = db.edges := rfl
@[simp] theorem jobStart_tags (db : Db) (e : Nat) (p : Option Nat) (i : Info) : (jobStart db e p i).tags = db.tags := rfl
@[simp] theorem jobEnd_nodes (db : Db) (e : Nat) (p : Option Nat) (i : Info) (c : Option H) :
    (jobEnd db e p i c).nodes = db.nodes := by unfold jobEnd; split <;> rfl
@[simp] theorem jobEnd_edges (db : Db) (e : Nat) (p : Option Nat) (i : Info) (c : Option H) :
    (jobEnd db e p i c).edges = db.edges := by unfold jobEnd; split <;> rfl
@[simp] theorem jobEnd_tags (db : Db) (e : Nat) (p : Option Nat) (i : Info) (c : Option H) :
    (jobEnd db e p i c).tags = db.tags := by unfold jobEnd; split <;> rfl

@[simp] theorem jobStart_hasNode (db : Db) (e : Nat) (p : Option Nat) (i : Info) (h : H) :
    (jobStart db e p i).hasNode h = db.hasNode h := rfl

theorem merkle_congr {db db' : Db} (hn : db'.nodes = db.nodes) (he : db'.edges = db.edges) (m : Merkle db) :
    Merkle db' := by
  constructor
  · intro r hr
    rw [hn] at hr
    obtain ⟨ks, h1, h2⟩ := m.nodes r hr
    refine ⟨ks, h1, ?_⟩
    intro c n hc
    rw [he] at hc
    have := h2 c n hc
    exact ⟨this.1, by simpa [Db.hasNode, hn] using this.2⟩
  · intro p c n hc
    rw [he] at hc
    simpa [Db.hasNode, hn] using m.closed p c n hc
  · rw [hn]; exact m.pk

/-- the job computes its own call hash (no hash handed over by the cache, and it did end) -/
def Fin.computed : Fin → Bool
  | .ok | .fail => true
  | _ => false

/-- nodes and edges after the end of a job -/
theorem finishJob_graph (db : Db) (e : Nat) (p : Option Nat) (i : Info) (l s : Bool) (kids : List JT) :
    ((finishJob db e p (.job i l s kids)).nodes, (finishJob db e p (.job i l s kids)).edges) =
      if (i.prov && i.fin.computed) = true then
        ((recordCallNode db i.task i.args i.result (views kids)).1.nodes,
         (recordCallNode db i.task i.args i.result (views kids)).1.edges)
      else (db.nodes, db.edges) := by
  unfold finishJob
  cases hp : i.prov
  · simp [hp]
  · cases hf : i.fin <;> simp [hp, hf, Fin.computed]

theorem merkle_finishJob {db : Db} (m : Merkle db) (e : Nat) (p : Option Nat) (t : JT) :
    Merkle (finishJob db e p t) := by
  cases t with
  | ref h => exact m
  | job i l s kids =>
    have h := finishJob_graph db e p i l s kids
    split at h
    · injection h with h1 h2
      exact merkle_congr h1 h2 (merkle_recordCallNode m _ _ _ _)
    · injection h with h1 h2
      exact merkle_congr h1 h2 m

theorem merkle_startJob {db : Db} (m : Merkle db) (e : Nat) (p : Option Nat) (t : JT) :
    Merkle (startJob db e p t) := by
  cases t with
  | ref h => exact m
  | job i l s kids =>
    simp only [startJob]
    cases hp : i.prov
    · simpa using m
    · simpa using merkle_congr (db := db) (db' := jobStart db e p i) rfl rfl m

theorem merkle_step {db : Db} (m : Merkle db) (ev : Ev) : Merkle (step db ev) := by
  cases ev with
  | start e p t => exact merkle_startJob m e p t
  | finish e p t => exact merkle_finishJob m e p t

theorem merkle_run {db : Db} (m : Merkle db) (evs : List Ev) : Merkle (run db evs) := by
  induction evs generalizing db with
  | nil => exact m
  | cons ev evs ih => exact ih (merkle_step m ev)

/-! ### recorded nodes stay recorded -/
theorem hasNode_finishJob {db : Db} {h : H} (hh : db.hasNode h = true) (e : Nat) (p : Option Nat) (t : JT) :
    (finishJob db e p t).hasNode h = true := by
  cases t with
  | ref _ => exact hh
  | job i l s kids =>
    have hg := finishJob_graph db e p i l s kids
    split at hg
    · injection hg with h1 h2
      have := recordCallNode_hasNode_mono (t := i.task) (a := i.args) (r := i.result) (kids := views kids) hh
      simpa [Db.hasNode, h1] using this
    · injection hg with h1 h2
      simpa [Db.hasNode, h1] using hh

theorem hasNode_step {db : Db} {h : H} (hh : db.hasNode h = true) (ev : Ev) : (step db ev).hasNode h = true := by
  cases ev with
  | start e p t =>
    cases t with
    | ref _ => exact hh
    | job i l s kids => simp only [step, startJob]; cases hp : i.prov <;> simpa using hh
  | finish e p t => exact hasNode_finishJob hh e p t

theorem hasNode_run {db : Db} {h : H} (hh : db.hasNode h = true) (evs : List Ev) : (run db evs).hasNode h = true := by
  induction evs generalizing db with
  | nil => exact hh
  | cons ev evs ih => exact ih (hasNode_step hh ev)

theorem run_append (db : Db) (a b : List Ev) : run db (a ++ b) = run (run db a) b := by
  simp [run, foldl_append]


/-! ### what the end of a job records -/

theorem finHash_computed {i : Info} {ks : List H} (hp : i.prov = true) (hc : i.fin.computed = true) :
    finHash i ks = some (hashCallNode i.task i.args i.result ks) := by
  unfold finHash
  cases hf : i.fin <;> simp [hf, Fin.computed, hp] at hc ⊢

theorem finishJob_nodes_computed {db : Db} {e : Nat} {p : Option Nat} {i : Info} {l s : Bool} {kids : List JT}
    (hp : i.prov = true) (hc : i.fin.computed = true) :
    (finishJob db e p (.job i l s kids)).nodes = (recordCallNode db i.task i.args i.result (views kids)).1.nodes ∧
    (finishJob db e p (.job i l s kids)).edges = (recordCallNode db i.task i.args i.result (views kids)).1.edges := by
  have h := finishJob_graph db e p i l s kids
  simp only [hp, hc, Bool.and_self, if_true] at h
  injection h with h1 h2
  exact ⟨h1, h2⟩

/-- The node of a job that ended with provenance is in the database and carries the job's fields. -/
theorem finish_records_node {db : Db} (m : Merkle db) (e : Nat) (p : Option Nat) (i : Info) (l s : Bool) (kids : List JT)
    (hp : i.prov = true) (hc : i.fin.computed = true) :
    ∃ r ∈ (finishJob db e p (.job i l s kids)).nodes,
      some r.id = callHash (.job i l s kids) ∧ r.task = i.task ∧ r.args = i.args ∧ r.result = i.result := by
  have m' := merkle_finishJob m e p (.job i l s kids)
  have hn := (finishJob_nodes_computed (db := db) (e := e) (p := p) (l := l) (s := s) (kids := kids) hp hc).1
  have hs := recordCallNode_hasNode_self db i.task i.args i.result (views kids)
  obtain ⟨r, hr, hid⟩ := hasNodeL_iff.1 hs
  rw [← hn] at hr
  refine ⟨r, hr, ?_, ?_⟩
  · rw [callHash_job, finHash_computed hp hc, hid]
  · obtain ⟨ks, hk, _⟩ := m'.nodes r hr
    rw [hid] at hk
    have := hashCallNode_inj hk
    exact ⟨this.1.symm, this.2.1.symm, this.2.2.1.symm⟩

/-- A freshly recorded node gets exactly one edge per slot of the job's child list whose hash is a
recorded node (position = index in `child_jobs`); nothing else changes. -/
theorem fresh_edges {db : Db} (e : Nat) (p : Option Nat) (i : Info) (l s : Bool) (kids : List JT)
    (hp : i.prov = true) (hc : i.fin.computed = true)
    (hfresh : db.hasNode (hashCallNode i.task i.args i.result (views kids)) = false) :
    (finishJob db e p (.job i l s kids)).edges =
      db.edges ++ newEdges (finishJob db e p (.job i l s kids)).nodes
        (hashCallNode i.task i.args i.result (views kids)) (views kids) := by
  have h := finishJob_nodes_computed (db := db) (e := e) (p := p) (l := l) (s := s) (kids := kids) hp hc
  rw [h.1, h.2, recordCallNode_new hfresh]

theorem old_edges {db : Db} (e : Nat) (p : Option Nat) (i : Info) (l s : Bool) (kids : List JT)
    (hp : i.prov = true) (hc : i.fin.computed = true)
    (hold : db.hasNode (hashCallNode i.task i.args i.result (views kids)) = true) :
    (finishJob db e p (.job i l s kids)).edges = db.edges ∧ (finishJob db e p (.job i l s kids)).nodes = db.nodes := by
  have h := finishJob_nodes_computed (db := db) (e := e) (p := p) (l := l) (s := s) (kids := kids) hp hc
  rw [h.1, h.2, recordCallNode_old hold]; exact ⟨rfl, rfl⟩

/-- Ending the same job again changes neither nodes nor edges. -/
theorem finish_idempotent (db : Db) (e : Nat) (p : Option Nat) (t : JT) :
    (finishJob (finishJob db e p t) e p t).nodes = (finishJob db e p t).nodes ∧
    (finishJob (finishJob db e p t) e p t).edges = (finishJob db e p t).edges := by
  cases t with
  | ref _ => exact ⟨rfl, rfl⟩
  | job i l s kids =>
    cases hpc : (i.prov && i.fin.computed)
    · have h1 := finishJob_graph db e p i l s kids
      have h2 := finishJob_graph (finishJob db e p (.job i l s kids)) e p i l s kids
      simp only [hpc, Bool.false_eq_true, if_false] at h1 h2
      injection h2 with a b
      exact ⟨a, b⟩
    · simp only [Bool.and_eq_true] at hpc
      obtain ⟨hp, hc⟩ := hpc
      have h1 := finishJob_nodes_computed (db := db) (e := e) (p := p) (l := l) (s := s) (kids := kids) hp hc
      have hs := recordCallNode_hasNode_self db i.task i.args i.result (views kids)
      have : (finishJob db e p (.job i l s kids)).hasNode (hashCallNode i.task i.args i.result (views kids)) = true := by
        simpa [Db.hasNode, h1.1] using hs
      have := old_edges (db := finishJob db e p (.job i l s kids)) e p i l s kids hp hc this
      exact ⟨this.2, this.1⟩

/-! ### Job rows, Execution rows -/

theorem mem_setEnd {jobs : List JobRow} {jid : Nat} {call : Option H} {cached : Bool} {r : JobRow} (h : r ∈ jobs) :
    (if r.jid = jid then { r with call := call, cached := cached, ended := true } else r) ∈ setEnd jobs jid call cached := by
  unfold setEnd; exact mem_map.2 ⟨r, h, rfl⟩

/-- After the end of a job that records provenance there is a Job row with its id, the call hash the
job ended with, its cached flag; parent / execution / task of a row written at the start are kept. -/
theorem jobEnd_row (db : Db) (e : Nat) (p : Option Nat) (i : Info) (c : Option H) :
    ∃ r ∈ (jobEnd db e p i c).jobs, r.jid = i.jid ∧ r.call = c ∧ r.cached = i.cached ∧ r.ended = true ∧
      (∀ r0 ∈ db.jobs, r0.jid = i.jid → ∃ r' ∈ (jobEnd db e p i c).jobs,
          r'.jid = i.jid ∧ r'.parent = r0.parent ∧ r'.exec = r0.exec ∧ r'.task = r0.task ∧ r'.call = c) ∧
      ((∀ r0 ∈ db.jobs, r0.jid ≠ i.jid) → r.parent = p ∧ r.exec = e ∧ r.task = i.task) := by
  unfold jobEnd
  by_cases hex : db.jobs.any (fun r => r.jid = i.jid) = true
  · simp only [hex, if_true]
    obtain ⟨r0, hr0, hj⟩ := any_eq_true.1 hex
    have hj : r0.jid = i.jid := by simpa using hj
    have hm := mem_setEnd (jid := i.jid) (call := c) (cached := i.cached) hr0
    simp only [hj, if_true] at hm
    refine ⟨_, hm, rfl, rfl, rfl, rfl, ?_, ?_⟩
    · intro r1 hr1 hj1
      have hm1 := mem_setEnd (jid := i.jid) (call := c) (cached := i.cached) hr1
      simp only [hj1, if_true] at hm1
      exact ⟨_, hm1, rfl, rfl, rfl, rfl, rfl⟩
    · intro hno; exact absurd hj (hno r0 hr0)
  · simp only [hex, Bool.false_eq_true, if_false]
    have hnew : ({ jid := i.jid, parent := p, exec := e, task := i.task, call := none, cached := false, ended := false } : JobRow)
        ∈ (jobStart db e p i).jobs := by simp [jobStart]
    have hm := mem_setEnd (jid := i.jid) (call := c) (cached := i.cached) hnew
    simp only [if_true] at hm
    refine ⟨_, hm, rfl, rfl, rfl, rfl, ?_, ?_⟩
    · intro r1 hr1 hj1
      have : db.jobs.any (fun r => r.jid = i.jid) = true := any_eq_true.2 ⟨r1, hr1, by simpa using hj1⟩
      exact absurd this hex
    · intro _; exact ⟨rfl, rfl, rfl⟩

theorem finishJob_jobs_of_prov {db : Db} {e : Nat} {p : Option Nat} {i : Info} {l s : Bool} {kids : List JT}
    (hp : i.prov = true) (hf : i.fin.computed = true ∨ ∃ h, i.fin = .hit h) :
    ∃ db1 : Db, db1.jobs = db.jobs ∧
      (finishJob db e p (.job i l s kids)).jobs = (jobEnd db1 e p i (callHash (.job i l s kids))).jobs := by
  rcases hf with hc | ⟨h, hh⟩
  · refine ⟨recordJobTags (recordCallNode db i.task i.args i.result (views kids)).1 e i, ?_, ?_⟩
    · simp only [recordJobTags_jobs]
      cases hn : db.hasNode (hashCallNode i.task i.args i.result (views kids))
      · rw [recordCallNode_new hn]
      · rw [recordCallNode_old hn]
    · rw [callHash_job, finHash_computed hp hc, ← recordCallNode_hash db]
      unfold finishJob
      cases hfin : i.fin <;> simp [hp, hfin, Fin.computed] at hc ⊢
  · refine ⟨recordJobTags db e i, rfl, ?_⟩
    rw [callHash_job]
    unfold finishJob finHash
    simp [hp, hh]

/-! ### tags -/
theorem mem_foldl_addTag {ts : List Tag} {acc : List Tag} {t : Tag} :
    t ∈ ts.foldl addTag acc ↔ t ∈ acc ∨ t ∈ ts := by
  induction ts generalizing acc with
  | nil => simp
  | cons x xs ih =>
    simp only [foldl_cons, ih, mem_cons]
    unfold addTag
    split
    · constructor
      · rintro (h | h)
        · exact .inl h
        · exact .inr (.inr h)
      · rintro (h | h | h)
        · exact .inl h
        · subst h; exact .inl ‹_›
        · exact .inr h
    · simp only [mem_append, mem_singleton]
      constructor
      · rintro ((h | h) | h)
        · exact .inl h
        · exact .inr (.inl h)
        · exact .inr (.inr h)
      · rintro (h | h | h)
        · exact .inl (.inl h)
        · exact .inl (.inr h)
        · exact .inr h

theorem finishJob_tags {db : Db} {e : Nat} {p : Option Nat} {i : Info} {l s : Bool} {kids : List JT}
    (hp : i.prov = true) (hf : i.fin.computed = true ∨ ∃ h, i.fin = .hit h) (t : Tag) :
    t ∈ (finishJob db e p (.job i l s kids)).tags ↔ t ∈ db.tags ∨ t ∈ jobTags e i := by
  have key : (finishJob db e p (.job i l s kids)).tags = (jobTags e i).foldl addTag db.tags := by
    rcases hf with hc | ⟨h, hh⟩
    · unfold finishJob
      cases hfin : i.fin <;> simp [hp, hfin, Fin.computed] at hc ⊢ <;>
      · simp only [recordJobTags]
        cases hn : db.hasNode (hashCallNode i.task i.args i.result (views kids))
        · rw [recordCallNode_new hn]
        · rw [recordCallNode_old hn]
    · unfold finishJob
      simp [hp, hh, recordJobTags]
  rw [key, mem_foldl_addTag]

theorem finishJob_tags_noop {db : Db} {e : Nat} {p : Option Nat} {i : Info} {l s : Bool} {kids : List JT}
    (h : i.prov = false ∨ i.fin = .unfinished) : (finishJob db e p (.job i l s kids)).tags = db.tags := by
  unfold finishJob
  rcases h with h | h
  · simp [h]
  · cases hp : i.prov <;> simp [h]


/-! ### the database alone determines every id when all children are recorded -/

/-- Every node id can be recomputed from the rows: own fields + children listed by the `CallEdge` rows. -/
def DbMerkle (db : Db) : Prop :=
  ∀ r ∈ db.nodes, r.id = hashCallNode r.task r.args r.result (edgeKids db r.id)

theorem edgeKids_congr {db db' : Db} (he : db'.edges = db.edges) (p : H) : edgeKids db' p = edgeKids db p := by
  unfold edgeKids; rw [he]

theorem dbMerkle_congr {db db' : Db} (hn : db'.nodes = db.nodes) (he : db'.edges = db.edges) (d : DbMerkle db) :
    DbMerkle db' := by
  intro r hr
  rw [hn] at hr
  rw [edgeKids_congr he]; exact d r hr

theorem newEdges_filter_other {nodes : List NodeRow} {h x : H} {kids : List H} (hx : H.eqb h x = false) :
    (newEdges nodes h kids).filter (fun e => H.eqb e.1 x) = [] := by
  simp only [newEdges, filter_eq_nil_iff, mem_map, mem_filter, Prod.exists, Bool.not_eq_true]
  rintro e ⟨c, n, _, rfl⟩
  exact hx

theorem newEdges_all {nodes : List NodeRow} {h : H} {kids : List H} (hall : ∀ c ∈ kids, hasNodeL nodes c = true) :
    ((newEdges nodes h kids).filter (fun e => H.eqb e.1 h)).map (fun e => e.2.1) = kids := by
  have hf : kids.zipIdx.filter (fun p => hasNodeL nodes p.1) = kids.zipIdx := by
    apply filter_eq_self.2
    intro p hp
    exact hall p.1 (by
      have := (mem_zipIdx_iff_getElem? (x := p)).1 (by simpa using hp)
      exact mem_of_getElem? (by simpa using this))
  simp only [newEdges, hf, filter_map, map_map]
  have : (kids.zipIdx.filter ((fun e : H × H × Nat => H.eqb e.1 h) ∘ fun p => (h, p.1, p.2))) = kids.zipIdx := by
    apply filter_eq_self.2
    intro p _
    simp [H.eqb_iff]
  rw [this]
  have : ((fun e : H × H × Nat => e.2.1) ∘ fun p : H × Nat => (h, p.1, p.2)) = Prod.fst := by
    funext p; rfl
  rw [this]
  simp

theorem edgeKids_eq (db : Db) (p : H) : edgeKids db p = ((db.edges.filter fun e => H.eqb e.1 p).map fun e => e.2.1) := rfl

theorem dbMerkle_recordCallNode {db : Db} (m : Merkle db) (d : DbMerkle db) (t a r : Nat) (kids : List H)
    (hall : ∀ c ∈ kids, db.hasNode c = true) : DbMerkle (recordCallNode db t a r kids).1 := by
  cases hh : db.hasNode (hashCallNode t a r kids)
  · rw [recordCallNode_new hh]
    intro r' hr'
    simp only [mem_append, mem_singleton] at hr'
    rcases hr' with hr' | rfl
    · have hne : H.eqb (hashCallNode t a r kids) r'.id = false := by
        cases hx : H.eqb (hashCallNode t a r kids) r'.id
        · rfl
        · have := H.eqb_iff.1 hx
          have : db.hasNode (hashCallNode t a r kids) = true := hasNodeL_iff.2 ⟨r', hr', this.symm⟩
          simp [hh] at this
      have hd := d r' hr'
      rw [edgeKids_eq] at hd ⊢
      simp only [filter_append, newEdges_filter_other hne, append_nil]
      exact hd
    · have hold : db.edges.filter (fun e => H.eqb e.1 (hashCallNode t a r kids)) = [] := by
        apply filter_eq_nil_iff.2
        intro e he hx
        have := m.closed e.1 e.2.1 e.2.2 he
        rw [H.eqb_iff.1 hx, hh] at this
        exact absurd this (by simp)
      have hall' : ∀ c ∈ kids, hasNodeL (db.nodes ++ [{ id := hashCallNode t a r kids, task := t, args := a, result := r }]) c = true :=
        fun c hc => hasNodeL_mono (hall c hc)
      rw [edgeKids_eq]
      simp only [filter_append, hold, nil_append, newEdges_all hall']
  · rw [recordCallNode_old hh]; exact d

theorem dbMerkle_finishJob {db : Db} (m : Merkle db) (d : DbMerkle db) (e : Nat) (p : Option Nat)
    (i : Info) (l s : Bool) (kids : List JT) (hall : ∀ c ∈ views kids, db.hasNode c = true) :
    DbMerkle (finishJob db e p (.job i l s kids)) := by
  have h := finishJob_graph db e p i l s kids
  split at h
  · injection h with h1 h2
    exact dbMerkle_congr h1 h2 (dbMerkle_recordCallNode m d _ _ _ _ hall)
  · injection h with h1 h2
    exact dbMerkle_congr h1 h2 d

/- trees in which every job records provenance, ended by computing its own hash, and is seen by its parent -/
mutual
  def AllProv : JT → Bool
    | .ref _ => false
    | .job i l s kids => i.prov && i.fin.computed && l && s && AllProvL kids
  def AllProvL : List JT → Bool
    | [] => true
    | k :: ks => AllProv k && AllProvL ks
end

theorem step_start_graph (db : Db) (e : Nat) (p : Option Nat) (t : JT) :
    (step db (.start e p t)).nodes = db.nodes ∧ (step db (.start e p t)).edges = db.edges := by
  cases t with
  | ref _ => exact ⟨rfl, rfl⟩
  | job i l s kids => simp only [step, startJob]; cases hp : i.prov <;> simp

mutual
  theorem dbMerkle_tree : ∀ (t : JT) (db : Db) (e : Nat) (p : Option Nat), Merkle db → DbMerkle db → AllProv t = true →
      DbMerkle (run db (events e p t)) ∧ ∃ h, callHash t = some h ∧ (run db (events e p t)).hasNode h = true
    | .ref _, _, _, _, _, _, hall => by simp [AllProv] at hall
    | .job i l s kids, db, e, p, m, d, hall => by
      simp only [AllProv, Bool.and_eq_true] at hall
      obtain ⟨⟨⟨⟨hp, hc⟩, hl⟩, hs⟩, hk⟩ := hall
      have hst := step_start_graph db e p (.job i l s kids)
      have m1 : Merkle (step db (.start e p (.job i l s kids))) := merkle_step m _
      have d1 : DbMerkle (step db (.start e p (.job i l s kids))) := dbMerkle_congr hst.1 hst.2 d
      obtain ⟨d2, hrec⟩ := dbMerkle_list kids _ e (some i.jid) m1 d1 hk
      have m2 := merkle_run m1 (eventsL e (some i.jid) kids)
      have d3 := dbMerkle_finishJob m2 d2 e p i l s kids hrec
      have hrun : run db (events e p (.job i l s kids)) =
          finishJob (run (step db (.start e p (.job i l s kids))) (eventsL e (some i.jid) kids)) e p (.job i l s kids) := by
        simp only [events, run, foldl_cons, foldl_append, foldl_nil, step]
      rw [hrun]
      refine ⟨d3, hashCallNode i.task i.args i.result (views kids), ?_, ?_⟩
      · rw [callHash_job, finHash_computed hp hc]
      · have hn := (finishJob_nodes_computed (db := run (step db (.start e p (.job i l s kids))) (eventsL e (some i.jid) kids))
            (e := e) (p := p) (l := l) (s := s) (kids := kids) hp hc).1
        have := recordCallNode_hasNode_self (run (step db (.start e p (.job i l s kids))) (eventsL e (some i.jid) kids))
          i.task i.args i.result (views kids)
        simpa [Db.hasNode, hn] using this
  theorem dbMerkle_list : ∀ (ks : List JT) (db : Db) (e : Nat) (p : Option Nat), Merkle db → DbMerkle db → AllProvL ks = true →
      DbMerkle (run db (eventsL e p ks)) ∧ ∀ c ∈ views ks, (run db (eventsL e p ks)).hasNode c = true
    | [], db, e, p, _, d, _ => by simp [eventsL, run, views]; exact d
    | k :: ks, db, e, p, m, d, hall => by
      simp only [AllProvL, Bool.and_eq_true] at hall
      obtain ⟨d1, h, hh, hrec1⟩ := dbMerkle_tree k db e p m d hall.1
      have m1 := merkle_run m (events e p k)
      obtain ⟨d2, hrec2⟩ := dbMerkle_list ks _ e p m1 d1 hall.2
      simp only [eventsL, run_append]
      refine ⟨d2, ?_⟩
      intro c hc
      simp only [views, mem_append] at hc
      rcases hc with hc | hc
      · split at hc
        · rw [hh] at hc
          simp at hc
          subst hc
          exact hasNode_run hrec1 _
        · simp at hc
      · exact hrec2 c hc
end


/-! ### Job.call_hash always references a recorded CallNode (the foreign key) -/
def FK (db : Db) : Prop := ∀ row ∈ db.jobs, ∀ h, row.call = some h → db.hasNode h = true

theorem fk_jobEnd {db : Db} (fk : FK db) (e : Nat) (p : Option Nat) (i : Info) (c : Option H)
    (hc : ∀ h, c = some h → db.hasNode h = true) : FK (jobEnd db e p i c) := by
  intro row hrow h hh
  have hn : (jobEnd db e p i c).hasNode h = db.hasNode h := by simp [Db.hasNode]
  rw [hn]
  unfold jobEnd at hrow
  split at hrow
  · simp only [setEnd, mem_map] at hrow
    obtain ⟨r0, hr0, rfl⟩ := hrow
    split at hh
    · exact hc h hh
    · exact fk r0 hr0 h hh
  · simp only [setEnd, jobStart, mem_map, mem_append, mem_singleton] at hrow
    obtain ⟨r0, hr0, rfl⟩ := hrow
    rcases hr0 with hr0 | rfl
    · split at hh
      · exact hc h hh
      · exact fk r0 hr0 h hh
    · simp at hh
      exact hc h hh

theorem fk_mono_nodes {db db' : Db} (fk : FK db) (hj : db'.jobs = db.jobs)
    (hn : ∀ h, db.hasNode h = true → db'.hasNode h = true) : FK db' := by
  intro row hrow h hh
  rw [hj] at hrow
  exact hn h (fk row hrow h hh)

theorem recordCallNode_jobs (db : Db) (t a r : Nat) (kids : List H) : (recordCallNode db t a r kids).1.jobs = db.jobs := by
  cases hn : db.hasNode (hashCallNode t a r kids)
  · rw [recordCallNode_new hn]
  · rw [recordCallNode_old hn]

theorem fk_finishJob {db : Db} (fk : FK db) (e : Nat) (p : Option Nat) (t : JT)
    (hhit : ∀ i l s kids h, t = .job i l s kids → i.fin = .hit h → db.hasNode h = true) : FK (finishJob db e p t) := by
  cases t with
  | ref _ => exact fk
  | job i l s kids =>
    unfold finishJob
    cases hp : i.prov
    · simpa [hp] using fk
    · cases hf : i.fin
      · simp only [hp, hf, Bool.not_true, Bool.false_eq_true, if_false]
        apply fk_jobEnd
        · exact fk_mono_nodes fk (by simp [recordCallNode_jobs]) (fun h hh => by
            simpa [Db.hasNode] using recordCallNode_hasNode_mono (t := i.task) (a := i.args) (r := i.result) (kids := views kids) hh)
        · intro h hh
          simp only [Option.some.injEq] at hh
          rw [← hh, recordCallNode_hash]
          simpa [Db.hasNode] using recordCallNode_hasNode_self db i.task i.args i.result (views kids)
      · simp only [hp, hf, Bool.not_true, Bool.false_eq_true, if_false]
        apply fk_jobEnd
        · exact fk_mono_nodes fk (by simp [recordCallNode_jobs]) (fun h hh => by
            simpa [Db.hasNode] using recordCallNode_hasNode_mono (t := i.task) (a := i.args) (r := i.result) (kids := views kids) hh)
        · intro h hh
          simp only [Option.some.injEq] at hh
          rw [← hh, recordCallNode_hash]
          simpa [Db.hasNode] using recordCallNode_hasNode_self db i.task i.args i.result (views kids)
      · rename_i h0
        simp only [hp, hf, Bool.not_true, Bool.false_eq_true, if_false]
        apply fk_jobEnd
        · exact fk_mono_nodes fk rfl (fun h hh => hh)
        · intro h hh
          simp only [Option.some.injEq] at hh
          subst hh
          simpa [Db.hasNode] using hhit i l s kids h0 rfl hf
      · simpa [hp, hf] using fk

theorem fk_startJob {db : Db} (fk : FK db) (e : Nat) (p : Option Nat) (t : JT) : FK (startJob db e p t) := by
  cases t with
  | ref _ => exact fk
  | job i l s kids =>
    simp only [startJob]
    cases hp : i.prov
    · simpa using fk
    · simp only [if_true]
      intro row hrow h hh
      simp only [jobStart, mem_append, mem_singleton] at hrow
      rcases hrow with hrow | rfl
      · exact fk row hrow h hh
      · simp at hh


end RedunModel.Merkle
