/-
Dry runs of `SchedCore` (C28): event uniqueness and exact `Promise.all` accounting.  In a dry run nothing is
registered in `_pending_jobs`, so no job collapses; every job has at most one queued event, a settled job
has none, and a job resolves only after all its children resolved.  Main results: `reachable_dryTok`,
`miss_blocks_root`.
-/
import RedunModel.Lemmas.SchedLive
namespace RedunModel.SchedCore

/-! ## part 1: event counts -/

/-- number of queued events of job `j` -/
def tk (s : S) (j : JobId) : Nat := s.queue.countP (fun e => evJob e == j)

theorem tk_enqueue (s : S) (e : Ev) (j : JobId) :
    tk (enqueue s e) j = tk s j + (if evJob e = j then 1 else 0) := by
  unfold tk enqueue
  simp only [List.countP_append, List.countP_cons, List.countP_nil, beq_iff_eq]
  omega

theorem tk_tl (s : S) (e : Ev) (rest : List Ev) (hq : s.queue = e :: rest) (j : JobId) :
    tk s j = tk (tl s) j + (if evJob e = j then 1 else 0) := by
  unfold tk tl
  rw [hq]
  simp only [List.tail_cons, List.countP_cons, beq_iff_eq]

theorem tk_pos_of_mem {s : S} {e : Ev} (h : e ∈ s.queue) : 1 ≤ tk s (evJob e) := by
  unfold tk
  exact List.countP_pos_iff.mpr ⟨e, h, by simp⟩

theorem not_mem_of_tk_zero {s : S} {e : Ev} {j : JobId} (h : tk s j = 0) (he : evJob e = j) : e ∉ s.queue := by
  intro hm
  have := tk_pos_of_mem hm
  rw [he] at this; omega

def noKids (s : S) (j : JobId) : Prop := ∀ c, c < s.next → (s.jobs c).parent ≠ some j

/-- exactly one flip from `true` to `false` -/
theorem cntTo_flip {f g : Nat → Bool} {n : Nat} (j : Nat) (hj : j < n) (h : ∀ i, i ≠ j → f i = g i)
    (hf : f j = true) (hg : g j = false) : cntTo g n + 1 = cntTo f n := by
  induction n with
  | zero => omega
  | succ n ih =>
    simp only [cntTo]
    by_cases hjn : j = n
    · subst hjn
      rw [cntTo_congr (f := g) (g := f) (fun i hi => (h i (by omega)).symm), hf, hg]
      simp
    · rw [h n (fun e => hjn e.symm)]
      have := ih (by omega)
      omega

theorem cntTo_zero_forall {f : Nat → Bool} {n : Nat} (h : cntTo f n = 0) : ∀ i, i < n → f i = false := by
  induction n with
  | zero => intro i hi; omega
  | succ n ih =>
    simp only [cntTo] at h
    intro i hi
    by_cases hin : i = n
    · subst hin
      by_cases hf : f i = true
      · simp [hf] at h
      · simpa using hf
    · exact ih (by omega) i (by omega)

/-! ## the dry-run invariant -/

/-- `x` exempts one job from the `Promise.all` lower bound (the parent whose children are being spawned). -/
structure DryTok (s : S) (x : Option JobId) : Prop where
  pj : s.pendingJobs = []
  tw : ∀ i, (s.jobs i).twins = []
  tok : ∀ j, tk s j ≤ 1 ∧ (¬ pend s j → tk s j = 0) ∧ (s.next ≤ j → tk s j = 0)
  par : ∀ j c, c < s.next → (s.jobs c).parent = some j → pend s c → (s.jobs j).evalFailed = false →
    tk s j = 0 ∧ pend s j
  pre : ∀ j, (Ev.exec j ∈ s.queue ∨ ∃ f, Ev.done j f ∈ s.queue) → noKids s j
  rej : ∀ j c, c < s.next → (s.jobs c).parent = some j → (s.jobs c).status = Status.rejected →
    (s.jobs j).evalFailed = true
  lb : ∀ j, some j ≠ x → (s.jobs j).evalFailed = false → cntPend s j ≤ (s.jobs j).waiting
  rk : ∀ j, ((s.jobs j).status = Status.resolved ∨ Ev.resolve j ∈ s.queue) →
    ∀ c, c < s.next → (s.jobs c).parent = some j → (s.jobs c).status = Status.resolved
  chain : (s.jobs 0).parent = none ∧ ∀ c, 0 < c → c < s.next → ∃ par, par < c ∧ (s.jobs c).parent = some par

/-- frame: the queue and everything else the invariant reads are unchanged -/
structure Fq (s s' : S) : Prop where
  next : s'.next = s.next
  queue : s'.queue = s.queue
  pj : s'.pendingJobs = s.pendingJobs
  st : ∀ i, (s'.jobs i).status = (s.jobs i).status
  ef : ∀ i, (s'.jobs i).evalFailed = (s.jobs i).evalFailed
  par : ∀ i, (s'.jobs i).parent = (s.jobs i).parent
  tw : ∀ i, (s'.jobs i).twins = (s.jobs i).twins

theorem Fq.refl (s : S) : Fq s s := ⟨rfl, rfl, rfl, fun _ => rfl, fun _ => rfl, fun _ => rfl, fun _ => rfl⟩
theorem Fq.trans {a b c : S} (h1 : Fq a b) (h2 : Fq b c) : Fq a c :=
  ⟨h2.next.trans h1.next, h2.queue.trans h1.queue, h2.pj.trans h1.pj, fun i => (h2.st i).trans (h1.st i),
    fun i => (h2.ef i).trans (h1.ef i), fun i => (h2.par i).trans (h1.par i),
    fun i => (h2.tw i).trans (h1.tw i)⟩

theorem Fq.tk {s s' : S} (h : Fq s s') (j : JobId) : tk s' j = tk s j := by unfold SchedCore.tk; rw [h.queue]
theorem Fq.pendIff {s s' : S} (h : Fq s s') (j : JobId) : pend s' j ↔ pend s j := by unfold pend; rw [h.st]
theorem Fq.noKids {s s' : S} (h : Fq s s') (j : JobId) : noKids s' j ↔ noKids s j := by
  unfold SchedCore.noKids; rw [h.next]; simp only [h.par]

theorem DryTok.parlt {s : S} {x : Option JobId} (hd : DryTok s x) {c par : JobId} (hc : c < s.next)
    (hp : (s.jobs c).parent = some par) : par < c := by
  by_cases h0 : c = 0
  · subst h0; rw [hd.chain.1] at hp; simp at hp
  · obtain ⟨par', p1, p2⟩ := hd.chain.2 c (Nat.pos_of_ne_zero h0) hc
    rw [p2] at hp
    have : par' = par := Option.some.inj hp
    exact this ▸ p1

/-- frame with a new `waiting` field (and possibly another exemption) -/
theorem Fq.dryW {s s' : S} {x x' : Option JobId} (h : Fq s s') (hd : DryTok s x)
    (hlb : ∀ j, some j ≠ x' → (s.jobs j).evalFailed = false → cntPend s j ≤ (s'.jobs j).waiting) : DryTok s' x' := by
  refine ⟨by rw [h.pj]; exact hd.pj, fun i => by rw [h.tw]; exact hd.tw i, ?_, ?_, ?_, ?_, ?_, ?_, ?_⟩
  · intro j
    rw [h.tk, h.pendIff, h.next]; exact hd.tok j
  · intro j c hc hp hpc he
    rw [h.next] at hc; rw [h.par] at hp; rw [h.pendIff] at hpc; rw [h.ef] at he
    rw [h.tk, h.pendIff]; exact hd.par j c hc hp hpc he
  · intro j hq
    rw [h.queue] at hq; rw [h.noKids]; exact hd.pre j hq
  · intro j c hc hp hs
    rw [h.next] at hc; rw [h.par] at hp; rw [h.st] at hs
    rw [h.ef]; exact hd.rej j c hc hp hs
  · intro j hx he
    rw [h.ef] at he
    rw [cntPend_congr h.next h.par h.st]; exact hlb j hx he
  · intro j hj c hc hp
    rw [h.st, h.queue] at hj; rw [h.next] at hc; rw [h.par] at hp
    rw [h.st]; exact hd.rk j hj c hc hp
  · obtain ⟨a, b⟩ := hd.chain
    refine ⟨by rw [h.par]; exact a, ?_⟩
    intro c h0 hc
    rw [h.next] at hc
    obtain ⟨par, p1, p2⟩ := b c h0 hc
    exact ⟨par, p1, by rw [h.par]; exact p2⟩

theorem Fq.dry {s s' : S} {x : Option JobId} (h : Fq s s') (hw : ∀ i, (s'.jobs i).waiting = (s.jobs i).waiting)
    (hd : DryTok s x) : DryTok s' x :=
  h.dryW hd (fun j hx he => by rw [hw]; exact hd.lb j hx he)

/-! ## part 2: queue primitives -/

theorem dry_tl (s : S) (e : Ev) (rest : List Ev) (hq : s.queue = e :: rest) (hd : DryTok s none) :
    DryTok (tl s) none := by
  have hle : ∀ j, tk (tl s) j ≤ tk s j := by intro j; rw [tk_tl s e rest hq j]; omega
  have hmem : ∀ e', e' ∈ (tl s).queue → e' ∈ s.queue := fun e' h => List.mem_of_mem_tail h
  refine ⟨hd.pj, hd.tw, ?_, ?_, ?_, hd.rej, hd.lb, ?_, hd.chain⟩
  · intro j
    obtain ⟨a, b, c⟩ := hd.tok j
    exact ⟨Nat.le_trans (hle j) a, fun h => Nat.le_zero.mp (b h ▸ hle j), fun h => Nat.le_zero.mp (c h ▸ hle j)⟩
  · intro j c hc hp hpc he
    obtain ⟨a, b⟩ := hd.par j c hc hp hpc he
    exact ⟨Nat.le_zero.mp (a ▸ hle j), b⟩
  · intro j hq'
    apply hd.pre j
    rcases hq' with a | ⟨f, a⟩
    · exact Or.inl (hmem _ a)
    · exact Or.inr ⟨f, hmem _ a⟩
  · intro j hj
    apply hd.rk j
    rcases hj with a | a
    · exact Or.inl a
    · exact Or.inr (hmem _ a)

/-- queueing a post-exec event of a pending job that has no event queued -/
theorem dry_enqueue {s : S} {x : Option JobId} (e : Ev) (j : JobId) (hd : DryTok s x) (hej : evJob e = j)
    (hne : ∀ k, e ≠ Ev.exec k) (htk : tk s j = 0) (hp : pend s j) (hlt : j < s.next)
    (hpar : ∀ c, c < s.next → (s.jobs c).parent = some j → pend s c → (s.jobs j).evalFailed = true)
    (hpre : (∃ f, e = Ev.done j f) → noKids s j)
    (hrk : e = Ev.resolve j → ∀ c, c < s.next → (s.jobs c).parent = some j → (s.jobs c).status = Status.resolved) :
    DryTok (enqueue s e) x := by
  have htk' := tk_enqueue s e
  rw [hej] at htk'
  have hmem : ∀ e', e' ∈ (enqueue s e).queue → e' ∈ s.queue ∨ e' = e := by
    intro e' h
    rcases List.mem_append.mp h with a | a
    · exact Or.inl a
    · exact Or.inr (List.mem_singleton.mp a)
  refine ⟨hd.pj, hd.tw, ?_, ?_, ?_, hd.rej, hd.lb, ?_, hd.chain⟩
  · intro i
    obtain ⟨a, b, c⟩ := hd.tok i
    rw [htk']
    by_cases hij : j = i
    · subst hij
      simp only [if_true]
      exact ⟨by omega, fun h => absurd hp h, fun h => absurd hlt (Nat.not_lt.mpr h)⟩
    · simp only [hij, if_false, Nat.add_zero]
      exact ⟨a, b, c⟩
  · intro i c hc hpc hpp he
    rw [htk']
    by_cases hij : j = i
    · subst hij
      have := hpar c hc hpc hpp
      have he' : (s.jobs j).evalFailed = false := he
      rw [this] at he'; simp at he'
    · simp only [hij, if_false, Nat.add_zero]
      exact hd.par i c hc hpc hpp he
  · intro i hq
    rcases hq with a | ⟨f, a⟩
    · rcases hmem _ a with b | b
      · exact hd.pre i (Or.inl b)
      · exact absurd b.symm (hne i)
    · rcases hmem _ a with b | b
      · exact hd.pre i (Or.inr ⟨f, b⟩)
      · have : i = j := by rw [← hej, ← b]; rfl
        subst this
        exact hpre ⟨f, b.symm⟩
  · intro i hi
    rcases hi with a | a
    · exact hd.rk i (Or.inl a)
    · rcases hmem _ a with b | b
      · exact hd.rk i (Or.inr b)
      · have : i = j := by rw [← hej, ← b]; rfl
        subst this
        exact hrk b.symm


/-! ## part 3: spawning the children (dry run) -/

theorem tk_spawnOne (s : S) (j : JobId) (c : SpecId) (i : JobId) :
    tk (spawnOne s j c) i = tk s i + (if s.next = i then 1 else 0) := by
  unfold tk spawnOne
  simp only [List.countP_append, List.countP_cons, List.countP_nil, beq_iff_eq, evJob]
  omega

theorem cntTo_zero_of_forall {f : Nat → Bool} {n : Nat} (h : ∀ i, i < n → f i = false) : cntTo f n = 0 := by
  induction n with
  | zero => rfl
  | succ n ih => simp only [cntTo]; rw [ih (fun i hi => h i (by omega)), h n (by omega)]; simp

theorem dry_spawnOne {s : S} {j : JobId} {c : SpecId} (hd : DryTok s (some j)) (htk : tk s j = 0) (hp : pend s j)
    (hlt : j < s.next) : DryTok (spawnOne s j c) (some j) := by
  have hjn : j ≠ s.next := Nat.ne_of_lt hlt
  have hpend : ∀ i, i ≠ s.next → (pend (spawnOne s j c) i ↔ pend s i) := by
    intro i hi; unfold pend; rw [spawnOne_jobs_ne s j c i hi]
  have htkn := tk_spawnOne s j c
  have htkne : ∀ i, i ≠ s.next → tk (spawnOne s j c) i = tk s i := by
    intro i hi; rw [htkn]; have : ¬ s.next = i := fun e => hi e.symm
    simp [this]
  have hnokid : ∀ c', c' < s.next → (s.jobs c').parent ≠ some s.next := by
    intro c' hc' hp'
    have := hd.parlt hc' hp'
    exact absurd (Nat.lt_trans this hc') (Nat.lt_irrefl _)
  have hmem : ∀ e, e ∈ (spawnOne s j c).queue → e ∈ s.queue ∨ e = Ev.exec s.next := by
    intro e h
    rcases List.mem_append.mp h with a | a
    · exact Or.inl a
    · exact Or.inr (List.mem_singleton.mp a)
  have hfresh : tk s s.next = 0 := (hd.tok s.next).2.2 (Nat.le_refl _)
  refine ⟨hd.pj, ?_, ?_, ?_, ?_, ?_, ?_, ?_, ?_⟩
  · intro i
    by_cases hin : i = s.next
    · subst hin; rw [spawnOne_jobs_new]
    · rw [spawnOne_jobs_ne s j c i hin]; exact hd.tw i
  · intro i
    by_cases hin : i = s.next
    · subst hin
      rw [htkn, hfresh]
      refine ⟨by simp, fun h => absurd (by unfold pend; rw [spawnOne_jobs_new]) h, fun h => ?_⟩
      have : s.next + 1 ≤ s.next := h
      omega
    · obtain ⟨a, b, d⟩ := hd.tok i
      rw [htkne i hin, hpend i hin]
      exact ⟨a, b, fun h => d (by have : s.next + 1 ≤ i := h; omega)⟩
  · intro i c' hc' hpc hpp he
    by_cases hcn : c' = s.next
    · subst hcn
      rw [spawnOne_jobs_new] at hpc
      simp at hpc; subst hpc
      rw [htkne _ hjn, hpend _ hjn]; exact ⟨htk, hp⟩
    · have hc'' : c' < s.next := by have : c' < s.next + 1 := hc'; omega
      rw [spawnOne_jobs_ne s j c c' hcn] at hpc
      have hin : i ≠ s.next := fun e => hnokid c' hc'' (e ▸ hpc)
      rw [spawnOne_jobs_ne s j c i hin] at he
      rw [htkne i hin, hpend i hin]
      exact hd.par i c' hc'' hpc ((hpend c' hcn).mp hpp) he
  · intro i hq c' hc' hpc
    by_cases hcn : c' = s.next
    · subst hcn
      rw [spawnOne_jobs_new] at hpc
      simp at hpc; subst hpc
      -- the new child's parent `j` has no event queued
      rcases hq with a | ⟨f, a⟩
      · rcases hmem _ a with b | b
        · exact not_mem_of_tk_zero htk rfl b
        · simp at b; exact hjn b
      · rcases hmem _ a with b | b
        · exact not_mem_of_tk_zero htk rfl b
        · simp at b
    · have hc'' : c' < s.next := by have : c' < s.next + 1 := hc'; omega
      rw [spawnOne_jobs_ne s j c c' hcn] at hpc
      have hin : i ≠ s.next := fun e => hnokid c' hc'' (e ▸ hpc)
      have hq' : Ev.exec i ∈ s.queue ∨ ∃ f, Ev.done i f ∈ s.queue := by
        rcases hq with a | ⟨f, a⟩
        · rcases hmem _ a with b | b
          · exact Or.inl b
          · simp at b; exact absurd b hin
        · rcases hmem _ a with b | b
          · exact Or.inr ⟨f, b⟩
          · simp at b
      exact hd.pre i hq' c' hc'' hpc
  · intro i c' hc' hpc hs
    by_cases hcn : c' = s.next
    · subst hcn; rw [spawnOne_jobs_new] at hs; simp at hs
    · have hc'' : c' < s.next := by have : c' < s.next + 1 := hc'; omega
      rw [spawnOne_jobs_ne s j c c' hcn] at hpc hs
      have hin : i ≠ s.next := fun e => hnokid c' hc'' (e ▸ hpc)
      rw [spawnOne_jobs_ne s j c i hin]
      exact hd.rej i c' hc'' hpc hs
  · intro i hx he
    have hij : i ≠ j := fun e => hx (by rw [e])
    rw [spawnOne_cnt]
    simp only [hij, if_false, Nat.add_zero]
    by_cases hin : i = s.next
    · subst hin
      have : cntPend s s.next = 0 := by
        unfold cntPend
        apply cntTo_zero_of_forall
        intro c' hc'
        unfold kidPend
        have := hnokid c' hc'
        simp [this]
      rw [this]; exact Nat.zero_le _
    · rw [spawnOne_jobs_ne s j c i hin] at he ⊢
      exact hd.lb i hx he
  · intro i hi c' hc' hpc
    have hin : i ≠ s.next := by
      intro e; subst e
      rcases hi with a | a
      · rw [spawnOne_jobs_new] at a; simp at a
      · rcases hmem _ a with b | b
        · exact not_mem_of_tk_zero hfresh rfl b
        · simp at b
    have hi' : (s.jobs i).status = Status.resolved ∨ Ev.resolve i ∈ s.queue := by
      rcases hi with a | a
      · rw [spawnOne_jobs_ne s j c i hin] at a; exact Or.inl a
      · rcases hmem _ a with b | b
        · exact Or.inr b
        · simp at b
    by_cases hcn : c' = s.next
    · subst hcn
      rw [spawnOne_jobs_new] at hpc
      simp at hpc; subst hpc
      rcases hi' with a | a
      · unfold pend at hp; rw [hp] at a; simp at a
      · exact absurd a (not_mem_of_tk_zero htk rfl)
    · have hc'' : c' < s.next := by have : c' < s.next + 1 := hc'; omega
      rw [spawnOne_jobs_ne s j c c' hcn] at hpc ⊢
      exact hd.rk i hi' c' hc'' hpc
  · obtain ⟨a, b⟩ := hd.chain
    have h0 : (0 : Nat) ≠ s.next := by intro e; rw [← e] at hlt; exact absurd hlt (Nat.not_lt_zero _)
    refine ⟨by rw [spawnOne_jobs_ne s j c 0 h0]; exact a, ?_⟩
    intro c' h0' hc'
    by_cases hcn : c' = s.next
    · subst hcn; exact ⟨j, hlt, by rw [spawnOne_jobs_new]⟩
    · have hc'' : c' < s.next := by have : c' < s.next + 1 := hc'; omega
      obtain ⟨par, p1, p2⟩ := b c' h0' hc''
      exact ⟨par, p1, by rw [spawnOne_jobs_ne s j c c' hcn]; exact p2⟩

end RedunModel.SchedCore
