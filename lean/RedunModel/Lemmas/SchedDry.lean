/-
Dry runs of `SchedCore` (C28): event uniqueness and exact `Promise.all` accounting.  In a dry run nothing is
registered in `_pending_jobs`, so no job collapses; every job has at most one queued event, a settled job
has none, and a job resolves only after all its children resolved.  Main results: `reachable_dryTok`,
`miss_blocks_root`.
-/
import RedunModel.Lemmas.SchedLive
namespace RedunModel.SchedCore

/-! ## part 1: event counts -/

/-- number of queued events of job `j` -/
def tk (s : S) (j : JobId) : Nat := s.queue.countP (fun e => evJob e == j)

theorem tk_enqueue (s : S) (e : Ev) (j : JobId) :
    tk (enqueue s e) j = tk s j + (if evJob e = j then 1 else 0) := by
  unfold tk enqueue
  simp only [List.countP_append, List.countP_cons, List.countP_nil, beq_iff_eq]
  omega

theorem tk_tl (s : S) (e : Ev) (rest : List Ev) (hq : s.queue = e :: rest) (j : JobId) :
    tk s j = tk (tl s) j + (if evJob e = j then 1 else 0) := by
  unfold tk tl
  rw [hq]
  simp only [List.tail_cons, List.countP_cons, beq_iff_eq]

theorem tk_pos_of_mem {s : S} {e : Ev} (h : e ∈ s.queue) : 1 ≤ tk s (evJob e) := by
  unfold tk
  exact List.countP_pos_iff.mpr ⟨e, h, by simp⟩

theorem not_mem_of_tk_zero {s : S} {e : Ev} {j : JobId} (h : tk s j = 0) (he : evJob e = j) : e ∉ s.queue := by
  intro hm
  have := tk_pos_of_mem hm
  rw [he] at this; omega

def noKids (s : S) (j : JobId) : Prop := ∀ c, c < s.next → (s.jobs c).parent ≠ some j

/-- exactly one flip from `true` to `false` -/
theorem cntTo_flip {f g : Nat → Bool} {n : Nat} (j : Nat) (hj : j < n) (h : ∀ i, i ≠ j → f i = g i)
    (hf : f j = true) (hg : g j = false) : cntTo g n + 1 = cntTo f n := by
  induction n with
  | zero => omega
  | succ n ih =>
    simp only [cntTo]
    by_cases hjn : j = n
    · subst hjn
      rw [cntTo_congr (f := g) (g := f) (fun i hi => (h i (by omega)).symm), hf, hg]
      simp
    · rw [h n (fun e => hjn e.symm)]
      have := ih (by omega)
      omega

theorem cntTo_zero_forall {f : Nat → Bool} {n : Nat} (h : cntTo f n = 0) : ∀ i, i < n → f i = false := by
  induction n with
  | zero => intro i hi; omega
  | succ n ih =>
    simp only [cntTo] at h
    intro i hi
    by_cases hin : i = n
    · subst hin
      by_cases hf : f i = true
      · simp [hf] at h
      · simpa using hf
    · exact ih (by omega) i (by omega)

/-! ## the dry-run invariant -/

/-- `x` exempts one job from the `Promise.all` lower bound (the parent whose children are being spawned). -/
structure DryTok (s : S) (x : Option JobId) : Prop where
  pj : s.pendingJobs = []
  tw : ∀ i, (s.jobs i).twins = []
  tok : ∀ j, tk s j ≤ 1 ∧ (¬ pend s j → tk s j = 0) ∧ (s.next ≤ j → tk s j = 0)
  par : ∀ j c, c < s.next → (s.jobs c).parent = some j → pend s c → (s.jobs j).evalFailed = false →
    tk s j = 0 ∧ pend s j
  pre : ∀ j, (Ev.exec j ∈ s.queue ∨ ∃ f, Ev.done j f ∈ s.queue) → noKids s j
  rej : ∀ j c, c < s.next → (s.jobs c).parent = some j → (s.jobs c).status = Status.rejected →
    (s.jobs j).evalFailed = true
  lb : ∀ j, some j ≠ x → (s.jobs j).evalFailed = false → cntPend s j ≤ (s.jobs j).waiting
  rk : ∀ j, ((s.jobs j).status = Status.resolved ∨ Ev.resolve j ∈ s.queue) →
    ∀ c, c < s.next → (s.jobs c).parent = some j → (s.jobs c).status = Status.resolved
  chain : (s.jobs 0).parent = none ∧ ∀ c, 0 < c → c < s.next → ∃ par, par < c ∧ (s.jobs c).parent = some par

/-- frame: the queue and everything else the invariant reads are unchanged -/
structure Fq (s s' : S) : Prop where
  next : s'.next = s.next
  queue : s'.queue = s.queue
  pj : s'.pendingJobs = s.pendingJobs
  st : ∀ i, (s'.jobs i).status = (s.jobs i).status
  ef : ∀ i, (s'.jobs i).evalFailed = (s.jobs i).evalFailed
  par : ∀ i, (s'.jobs i).parent = (s.jobs i).parent
  tw : ∀ i, (s'.jobs i).twins = (s.jobs i).twins

theorem Fq.refl (s : S) : Fq s s := ⟨rfl, rfl, rfl, fun _ => rfl, fun _ => rfl, fun _ => rfl, fun _ => rfl⟩
theorem Fq.trans {a b c : S} (h1 : Fq a b) (h2 : Fq b c) : Fq a c :=
  ⟨h2.next.trans h1.next, h2.queue.trans h1.queue, h2.pj.trans h1.pj, fun i => (h2.st i).trans (h1.st i),
    fun i => (h2.ef i).trans (h1.ef i), fun i => (h2.par i).trans (h1.par i),
    fun i => (h2.tw i).trans (h1.tw i)⟩

theorem Fq.tk {s s' : S} (h : Fq s s') (j : JobId) : tk s' j = tk s j := by unfold SchedCore.tk; rw [h.queue]
theorem Fq.pendIff {s s' : S} (h : Fq s s') (j : JobId) : pend s' j ↔ pend s j := by unfold pend; rw [h.st]
theorem Fq.noKids {s s' : S} (h : Fq s s') (j : JobId) : noKids s' j ↔ noKids s j := by
  unfold SchedCore.noKids; rw [h.next]; simp only [h.par]

theorem DryTok.parlt {s : S} {x : Option JobId} (hd : DryTok s x) {c par : JobId} (hc : c < s.next)
    (hp : (s.jobs c).parent = some par) : par < c := by
  by_cases h0 : c = 0
  · subst h0; rw [hd.chain.1] at hp; simp at hp
  · obtain ⟨par', p1, p2⟩ := hd.chain.2 c (Nat.pos_of_ne_zero h0) hc
    rw [p2] at hp
    have : par' = par := Option.some.inj hp
    exact this ▸ p1

/-- frame with a new `waiting` field (and possibly another exemption) -/
theorem Fq.dryW {s s' : S} {x x' : Option JobId} (h : Fq s s') (hd : DryTok s x)
    (hlb : ∀ j, some j ≠ x' → (s.jobs j).evalFailed = false → cntPend s j ≤ (s'.jobs j).waiting) : DryTok s' x' := by
  refine ⟨by rw [h.pj]; exact hd.pj, fun i => by rw [h.tw]; exact hd.tw i, ?_, ?_, ?_, ?_, ?_, ?_, ?_⟩
  · intro j
    rw [h.tk, h.pendIff, h.next]; exact hd.tok j
  · intro j c hc hp hpc he
    rw [h.next] at hc; rw [h.par] at hp; rw [h.pendIff] at hpc; rw [h.ef] at he
    rw [h.tk, h.pendIff]; exact hd.par j c hc hp hpc he
  · intro j hq
    rw [h.queue] at hq; rw [h.noKids]; exact hd.pre j hq
  · intro j c hc hp hs
    rw [h.next] at hc; rw [h.par] at hp; rw [h.st] at hs
    rw [h.ef]; exact hd.rej j c hc hp hs
  · intro j hx he
    rw [h.ef] at he
    rw [cntPend_congr h.next h.par h.st]; exact hlb j hx he
  · intro j hj c hc hp
    rw [h.st, h.queue] at hj; rw [h.next] at hc; rw [h.par] at hp
    rw [h.st]; exact hd.rk j hj c hc hp
  · obtain ⟨a, b⟩ := hd.chain
    refine ⟨by rw [h.par]; exact a, ?_⟩
    intro c h0 hc
    rw [h.next] at hc
    obtain ⟨par, p1, p2⟩ := b c h0 hc
    exact ⟨par, p1, by rw [h.par]; exact p2⟩

theorem Fq.dry {s s' : S} {x : Option JobId} (h : Fq s s') (hw : ∀ i, (s'.jobs i).waiting = (s.jobs i).waiting)
    (hd : DryTok s x) : DryTok s' x :=
  h.dryW hd (fun j hx he => by rw [hw]; exact hd.lb j hx he)

/-! ## part 2: queue primitives -/

theorem dry_tl (s : S) (e : Ev) (rest : List Ev) (hq : s.queue = e :: rest) (hd : DryTok s none) :
    DryTok (tl s) none := by
  have hle : ∀ j, tk (tl s) j ≤ tk s j := by intro j; rw [tk_tl s e rest hq j]; omega
  have hmem : ∀ e', e' ∈ (tl s).queue → e' ∈ s.queue := fun e' h => List.mem_of_mem_tail h
  refine ⟨hd.pj, hd.tw, ?_, ?_, ?_, hd.rej, hd.lb, ?_, hd.chain⟩
  · intro j
    obtain ⟨a, b, c⟩ := hd.tok j
    exact ⟨Nat.le_trans (hle j) a, fun h => Nat.le_zero.mp (b h ▸ hle j), fun h => Nat.le_zero.mp (c h ▸ hle j)⟩
  · intro j c hc hp hpc he
    obtain ⟨a, b⟩ := hd.par j c hc hp hpc he
    exact ⟨Nat.le_zero.mp (a ▸ hle j), b⟩
  · intro j hq'
    apply hd.pre j
    rcases hq' with a | ⟨f, a⟩
    · exact Or.inl (hmem _ a)
    · exact Or.inr ⟨f, hmem _ a⟩
  · intro j hj
    apply hd.rk j
    rcases hj with a | a
    · exact Or.inl a
    · exact Or.inr (hmem _ a)

/-- queueing a post-exec event of a pending job that has no event queued -/
theorem dry_enqueue {s : S} {x : Option JobId} (e : Ev) (j : JobId) (hd : DryTok s x) (hej : evJob e = j)
    (hne : ∀ k, e ≠ Ev.exec k) (htk : tk s j = 0) (hp : pend s j) (hlt : j < s.next)
    (hpar : ∀ c, c < s.next → (s.jobs c).parent = some j → pend s c → (s.jobs j).evalFailed = true)
    (hpre : (∃ f, e = Ev.done j f) → noKids s j)
    (hrk : e = Ev.resolve j → ∀ c, c < s.next → (s.jobs c).parent = some j → (s.jobs c).status = Status.resolved) :
    DryTok (enqueue s e) x := by
  have htk' := tk_enqueue s e
  rw [hej] at htk'
  have hmem : ∀ e', e' ∈ (enqueue s e).queue → e' ∈ s.queue ∨ e' = e := by
    intro e' h
    rcases List.mem_append.mp h with a | a
    · exact Or.inl a
    · exact Or.inr (List.mem_singleton.mp a)
  refine ⟨hd.pj, hd.tw, ?_, ?_, ?_, hd.rej, hd.lb, ?_, hd.chain⟩
  · intro i
    obtain ⟨a, b, c⟩ := hd.tok i
    rw [htk']
    by_cases hij : j = i
    · subst hij
      simp only [if_true]
      exact ⟨by omega, fun h => absurd hp h, fun h => absurd hlt (Nat.not_lt.mpr h)⟩
    · simp only [hij, if_false, Nat.add_zero]
      exact ⟨a, b, c⟩
  · intro i c hc hpc hpp he
    rw [htk']
    by_cases hij : j = i
    · subst hij
      have := hpar c hc hpc hpp
      have he' : (s.jobs j).evalFailed = false := he
      rw [this] at he'; simp at he'
    · simp only [hij, if_false, Nat.add_zero]
      exact hd.par i c hc hpc hpp he
  · intro i hq
    rcases hq with a | ⟨f, a⟩
    · rcases hmem _ a with b | b
      · exact hd.pre i (Or.inl b)
      · exact absurd b.symm (hne i)
    · rcases hmem _ a with b | b
      · exact hd.pre i (Or.inr ⟨f, b⟩)
      · have : i = j := by rw [← hej, ← b]; rfl
        subst this
        exact hpre ⟨f, b.symm⟩
  · intro i hi
    rcases hi with a | a
    · exact hd.rk i (Or.inl a)
    · rcases hmem _ a with b | b
      · exact hd.rk i (Or.inr b)
      · have : i = j := by rw [← hej, ← b]; rfl
        subst this
        exact hrk b.symm


/-! ## part 3: spawning the children (dry run) -/

theorem tk_spawnOne (s : S) (j : JobId) (c : SpecId) (i : JobId) :
    tk (spawnOne s j c) i = tk s i + (if s.next = i then 1 else 0) := by
  unfold tk spawnOne
  simp only [List.countP_append, List.countP_cons, List.countP_nil, beq_iff_eq, evJob]
  omega

theorem cntTo_zero_of_forall {f : Nat → Bool} {n : Nat} (h : ∀ i, i < n → f i = false) : cntTo f n = 0 := by
  induction n with
  | zero => rfl
  | succ n ih => simp only [cntTo]; rw [ih (fun i hi => h i (by omega)), h n (by omega)]; simp

theorem dry_spawnOne {s : S} {j : JobId} {c : SpecId} (hd : DryTok s (some j)) (htk : tk s j = 0) (hp : pend s j)
    (hlt : j < s.next) : DryTok (spawnOne s j c) (some j) := by
  have hjn : j ≠ s.next := Nat.ne_of_lt hlt
  have hpend : ∀ i, i ≠ s.next → (pend (spawnOne s j c) i ↔ pend s i) := by
    intro i hi; unfold pend; rw [spawnOne_jobs_ne s j c i hi]
  have htkn := tk_spawnOne s j c
  have htkne : ∀ i, i ≠ s.next → tk (spawnOne s j c) i = tk s i := by
    intro i hi; rw [htkn]; have : ¬ s.next = i := fun e => hi e.symm
    simp [this]
  have hnokid : ∀ c', c' < s.next → (s.jobs c').parent ≠ some s.next := by
    intro c' hc' hp'
    have := hd.parlt hc' hp'
    exact absurd (Nat.lt_trans this hc') (Nat.lt_irrefl _)
  have hmem : ∀ e, e ∈ (spawnOne s j c).queue → e ∈ s.queue ∨ e = Ev.exec s.next := by
    intro e h
    rcases List.mem_append.mp h with a | a
    · exact Or.inl a
    · exact Or.inr (List.mem_singleton.mp a)
  have hfresh : tk s s.next = 0 := (hd.tok s.next).2.2 (Nat.le_refl _)
  refine ⟨hd.pj, ?_, ?_, ?_, ?_, ?_, ?_, ?_, ?_⟩
  · intro i
    by_cases hin : i = s.next
    · subst hin; rw [spawnOne_jobs_new]
    · rw [spawnOne_jobs_ne s j c i hin]; exact hd.tw i
  · intro i
    by_cases hin : i = s.next
    · subst hin
      rw [htkn, hfresh]
      refine ⟨by simp, fun h => absurd (by unfold pend; rw [spawnOne_jobs_new]) h, fun h => ?_⟩
      have : s.next + 1 ≤ s.next := h
      omega
    · obtain ⟨a, b, d⟩ := hd.tok i
      rw [htkne i hin, hpend i hin]
      exact ⟨a, b, fun h => d (by have : s.next + 1 ≤ i := h; omega)⟩
  · intro i c' hc' hpc hpp he
    by_cases hcn : c' = s.next
    · subst hcn
      rw [spawnOne_jobs_new] at hpc
      simp at hpc; subst hpc
      rw [htkne _ hjn, hpend _ hjn]; exact ⟨htk, hp⟩
    · have hc'' : c' < s.next := by have : c' < s.next + 1 := hc'; omega
      rw [spawnOne_jobs_ne s j c c' hcn] at hpc
      have hin : i ≠ s.next := fun e => hnokid c' hc'' (e ▸ hpc)
      rw [spawnOne_jobs_ne s j c i hin] at he
      rw [htkne i hin, hpend i hin]
      exact hd.par i c' hc'' hpc ((hpend c' hcn).mp hpp) he
  · intro i hq c' hc' hpc
    by_cases hcn : c' = s.next
    · subst hcn
      rw [spawnOne_jobs_new] at hpc
      simp at hpc; subst hpc
      -- the new child's parent `j` has no event queued
      rcases hq with a | ⟨f, a⟩
      · rcases hmem _ a with b | b
        · exact not_mem_of_tk_zero htk rfl b
        · simp at b; exact hjn b
      · rcases hmem _ a with b | b
        · exact not_mem_of_tk_zero htk rfl b
        · simp at b
    · have hc'' : c' < s.next := by have : c' < s.next + 1 := hc'; omega
      rw [spawnOne_jobs_ne s j c c' hcn] at hpc
      have hin : i ≠ s.next := fun e => hnokid c' hc'' (e ▸ hpc)
      have hq' : Ev.exec i ∈ s.queue ∨ ∃ f, Ev.done i f ∈ s.queue := by
        rcases hq with a | ⟨f, a⟩
        · rcases hmem _ a with b | b
          · exact Or.inl b
          · simp at b; exact absurd b hin
        · rcases hmem _ a with b | b
          · exact Or.inr ⟨f, b⟩
          · simp at b
      exact hd.pre i hq' c' hc'' hpc
  · intro i c' hc' hpc hs
    by_cases hcn : c' = s.next
    · subst hcn; rw [spawnOne_jobs_new] at hs; simp at hs
    · have hc'' : c' < s.next := by have : c' < s.next + 1 := hc'; omega
      rw [spawnOne_jobs_ne s j c c' hcn] at hpc hs
      have hin : i ≠ s.next := fun e => hnokid c' hc'' (e ▸ hpc)
      rw [spawnOne_jobs_ne s j c i hin]
      exact hd.rej i c' hc'' hpc hs
  · intro i hx he
    have hij : i ≠ j := fun e => hx (by rw [e])
    rw [spawnOne_cnt]
    simp only [hij, if_false, Nat.add_zero]
    by_cases hin : i = s.next
    · subst hin
      have : cntPend s s.next = 0 := by
        unfold cntPend
        apply cntTo_zero_of_forall
        intro c' hc'
        unfold kidPend
        have := hnokid c' hc'
        simp [this]
      rw [this]; exact Nat.zero_le _
    · rw [spawnOne_jobs_ne s j c i hin] at he ⊢
      exact hd.lb i hx he
  · intro i hi c' hc' hpc
    have hin : i ≠ s.next := by
      intro e; subst e
      rcases hi with a | a
      · rw [spawnOne_jobs_new] at a; simp at a
      · rcases hmem _ a with b | b
        · exact not_mem_of_tk_zero hfresh rfl b
        · simp at b
    have hi' : (s.jobs i).status = Status.resolved ∨ Ev.resolve i ∈ s.queue := by
      rcases hi with a | a
      · rw [spawnOne_jobs_ne s j c i hin] at a; exact Or.inl a
      · rcases hmem _ a with b | b
        · exact Or.inr b
        · simp at b
    by_cases hcn : c' = s.next
    · subst hcn
      rw [spawnOne_jobs_new] at hpc
      simp at hpc; subst hpc
      rcases hi' with a | a
      · unfold pend at hp; rw [hp] at a; simp at a
      · exact absurd a (not_mem_of_tk_zero htk rfl)
    · have hc'' : c' < s.next := by have : c' < s.next + 1 := hc'; omega
      rw [spawnOne_jobs_ne s j c c' hcn] at hpc ⊢
      exact hd.rk i hi' c' hc'' hpc
  · obtain ⟨a, b⟩ := hd.chain
    have h0 : (0 : Nat) ≠ s.next := by intro e; rw [← e] at hlt; exact absurd hlt (Nat.not_lt_zero _)
    refine ⟨by rw [spawnOne_jobs_ne s j c 0 h0]; exact a, ?_⟩
    intro c' h0' hc'
    by_cases hcn : c' = s.next
    · subst hcn; exact ⟨j, hlt, by rw [spawnOne_jobs_new]⟩
    · have hc'' : c' < s.next := by have : c' < s.next + 1 := hc'; omega
      obtain ⟨par, p1, p2⟩ := b c' h0' hc''
      exact ⟨par, p1, by rw [spawnOne_jobs_ne s j c c' hcn]; exact p2⟩


/-! ## part 4: `_done_job_main_thread` (dry run) -/

theorem dry_exempt {s : S} (j : JobId) (hd : DryTok s none) : DryTok s (some j) :=
  { hd with lb := fun i _ he => hd.lb i (by simp) he }

theorem cntPend_zero_of_noKids {s : S} {j : JobId} (h : noKids s j) : cntPend s j = 0 := by
  unfold cntPend
  apply cntTo_zero_of_forall
  intro c hc
  unfold kidPend
  have := h c hc
  simp [this]

theorem dry_spawnFold {j : JobId} (cs : List SpecId) (s : S) (hd : DryTok s (some j)) (htk : tk s j = 0)
    (hp : pend s j) (hlt : j < s.next) :
    DryTok (cs.foldl (fun s c => spawnOne s j c) s) (some j) ∧
    tk (cs.foldl (fun s c => spawnOne s j c) s) j = 0 ∧
    j < (cs.foldl (fun s c => spawnOne s j c) s).next ∧
    (cs.foldl (fun s c => spawnOne s j c) s).jobs j = s.jobs j ∧
    cntPend (cs.foldl (fun s c => spawnOne s j c) s) j = cntPend s j + cs.length := by
  induction cs generalizing s with
  | nil => exact ⟨hd, htk, hlt, rfl, rfl⟩
  | cons c cs ih =>
    have hjn : j ≠ s.next := Nat.ne_of_lt hlt
    have d1 := dry_spawnOne (c := c) hd htk hp hlt
    have htk1 : tk (spawnOne s j c) j = 0 := by
      rw [tk_spawnOne, htk]; have : ¬ s.next = j := fun e => hjn e.symm
      simp [this]
    have hj1 : (spawnOne s j c).jobs j = s.jobs j := spawnOne_jobs_ne s j c j hjn
    have hp1 : pend (spawnOne s j c) j := by unfold pend; rw [hj1]; exact hp
    obtain ⟨a, b, d, e, f⟩ := ih (spawnOne s j c) d1 htk1 hp1 (Nat.lt_succ_of_lt hlt)
    refine ⟨a, b, d, by rw [List.foldl_cons, e, hj1], ?_⟩
    rw [List.foldl_cons, f, spawnOne_cnt]
    simp only [if_true, List.length_cons]
    omega

theorem fq_setWaiting (s : S) (j : JobId) (n : Nat) : Fq s (setJob s j fun js => { js with waiting := n }) := by
  refine ⟨rfl, rfl, rfl, ?_, ?_, ?_, ?_⟩ <;>
  · intro i; simp only [setJob]; split <;> rfl

theorem dry_setWaiting {s : S} {j : JobId} (n : Nat) (hd : DryTok s (some j))
    (hn : (s.jobs j).evalFailed = false → cntPend s j ≤ n) :
    DryTok (setJob s j fun js => { js with waiting := n }) none := by
  refine (fq_setWaiting s j n).dryW hd ?_
  intro i _ he
  by_cases hij : i = j
  · subst hij; simp only [setJob, if_true]; exact hn he
  · simp only [setJob, hij, if_false]
    exact hd.lb i (fun e => hij (Option.some.inj e)) he

theorem fq_fields (s : S) (cse : List CseEntry) (et : List Nat) :
    Fq s { s with cse := cse, evalTable := et } :=
  ⟨rfl, rfl, rfl, fun _ => rfl, fun _ => rfl, fun _ => rfl, fun _ => rfl⟩

theorem fq_record (p : Prog) (s : S) (j : JobId) (b : Bool) : Fq s (record p s j b) := by
  unfold record; dsimp only; split
  · exact fq_fields s _ s.evalTable
  · exact Fq.refl s

theorem record_waiting (p : Prog) (s : S) (j : JobId) (b : Bool) (i : JobId) :
    ((record p s j b).jobs i).waiting = (s.jobs i).waiting := by
  unfold record; dsimp only; split <;> rfl

theorem releaseIf_dry (p : Prog) (s : S) (j : JobId) (h : s.holds j = false) : releaseIf p s j = s := by
  unfold releaseIf; simp [h]

/-- `_done_job_main_thread` in a dry run; `s` is the state with the event already taken off -/
theorem doneJob_dry (p : Prog) (s : S) (j : JobId) (f : Bool) (hd : DryTok s none) (hholds : s.holds j = false)
    (htk : tk s j = 0) (hp : pend s j) (hlt : j < s.next) (hnk : noKids s j) :
    DryTok (doneJob p s j f) none := by
  rw [doneJob_eq, releaseIf_dry p s j hholds]
  unfold doneRest
  have f1 : Fq s (if (!(s.jobs j).wasCached && (spec p s j).prov) = true then
      { s with evalTable := (spec p s j).key :: s.evalTable } else s) ∧
      ∀ i, ((if (!(s.jobs j).wasCached && (spec p s j).prov) = true then
      { s with evalTable := (spec p s j).key :: s.evalTable } else s).jobs i).waiting = (s.jobs i).waiting := by
    split
    · exact ⟨fq_fields s s.cse _, fun _ => rfl⟩
    · exact ⟨Fq.refl s, fun _ => rfl⟩
  have hsp : spec p (if (!(s.jobs j).wasCached && (spec p s j).prov) = true then
      { s with evalTable := (spec p s j).key :: s.evalTable } else s) j = spec p s j := by
    split <;> rfl
  generalize (if (!(s.jobs j).wasCached && (spec p s j).prov) = true then
      { s with evalTable := (spec p s j).key :: s.evalTable } else s) = s2 at f1 hsp
  obtain ⟨f1, w1⟩ := f1
  have d2 : DryTok s2 none := f1.dry w1 hd
  have htk2 : tk s2 j = 0 := by rw [f1.tk]; exact htk
  have hp2 : pend s2 j := (f1.pendIff j).mpr hp
  have hlt2 : j < s2.next := by rw [f1.next]; exact hlt
  have hnk2 : noKids s2 j := (f1.noKids j).mpr hnk
  dsimp only
  split
  · exact dry_enqueue _ j d2 rfl (by intro k; simp) htk2 hp2 hlt2
      (fun c hc hpc _ => absurd hpc (hnk2 c hc)) (fun ⟨_, h⟩ => by simp at h)
      (fun _ c hc hpc => absurd hpc (hnk2 c hc))
  · unfold spawn
    dsimp only
    obtain ⟨a, b, c, d, e⟩ := dry_spawnFold (spec p s2 j).children s2 (dry_exempt j d2) htk2 hp2 hlt2
    rw [cntPend_zero_of_noKids hnk2] at e
    have d4 := dry_setWaiting (spec p s2 j).children.length a (fun _ => by omega)
    split
    · rename_i hnil
      have hcs : (spec p s2 j).children = [] := by simpa using hnil
      rw [hcs] at d4 ⊢
      simp only [List.foldl_nil, List.length_nil] at d4 ⊢
      have fw := fq_setWaiting s2 j 0
      exact dry_enqueue _ j d4 rfl (by intro k; simp) (by rw [fw.tk]; exact htk2) ((fw.pendIff j).mpr hp2)
        (by rw [fw.next]; exact hlt2)
        (fun c hc hpc _ => absurd hpc ((fw.noKids j).mpr hnk2 c hc)) (fun ⟨_, h⟩ => by simp at h)
        (fun _ c hc hpc => absurd hpc ((fw.noKids j).mpr hnk2 c hc))
    · exact d4


/-! ## part 5: settling (dry run) -/

theorem status_cases (st : Status) : st = Status.pending ∨ st = Status.resolved ∨ st = Status.rejected := by
  cases st <;> simp

theorem ResEff.dry {s s' : S} {j : JobId} (h : ResEff s s' j) (hd : DryTok s none) (htk : tk s j = 0)
    (hp : pend s j) (hlt : j < s.next)
    (hk : ∀ c, c < s.next → (s.jobs c).parent = some j → (s.jobs c).status = Status.resolved) :
    DryTok s' none := by
  have hpend : ∀ i, pend s' i ↔ (pend s i ∧ i ≠ j) := by
    intro i; unfold pend; rw [h.st]
    by_cases e : i = j
    · simp [e]
    · simp [e]
  -- the parent (if any) is pending, has no event queued unless its evaluation failed
  have hparfact : ∀ par, (s.jobs j).parent = some par → (s.jobs par).evalFailed = false → tk s par = 0 ∧ pend s par :=
    fun par hpar he => hd.par par j hlt hpar hp he
  have hparne : ∀ par, (s.jobs j).parent = some par → par ≠ j := by
    intro par hpar e; have := hd.parlt hlt hpar; subst e; exact Nat.lt_irrefl _ this
  have htk' : ∀ i, tk s' i = tk s i ∨
      (tk s' i = tk s i + 1 ∧ (s.jobs j).parent = some i ∧ (s.jobs i).evalFailed = false ∧ (s.jobs i).waiting - 1 = 0 ∧
        Ev.resolve i ∈ s'.queue) := by
    intro i
    rcases h.queue with q | ⟨par, q1, q2, q3, q⟩
    · left; unfold tk; rw [q]
    · by_cases e : par = i
      · subst e; right
        refine ⟨?_, q1, q2, q3, by rw [q]; simp⟩
        unfold tk; rw [q]; simp [List.countP_append, evJob]
      · left; unfold tk; rw [q]; simp [List.countP_append, evJob, e]
  have hmem : ∀ e, e ∈ s'.queue → e ∈ s.queue ∨ ∃ par, e = Ev.resolve par ∧ (s.jobs j).parent = some par ∧
      (s.jobs par).evalFailed = false ∧ (s.jobs par).waiting - 1 = 0 := by
    intro e he
    rcases h.queue with q | ⟨par, q1, q2, q3, q⟩
    · rw [q] at he; exact Or.inl he
    · rw [q] at he
      rcases List.mem_append.mp he with a | a
      · exact Or.inl a
      · exact Or.inr ⟨par, List.mem_singleton.mp a, q1, q2, q3⟩
  have hmono : ∀ e, e ∈ s.queue → e ∈ s'.queue := by
    intro e he
    rcases h.queue with q | ⟨par, _, _, _, q⟩
    · rw [q]; exact he
    · rw [q]; exact List.mem_append_left _ he
  -- the lower bound after the step, for every job
  have hlb : ∀ i, (s.jobs i).evalFailed = false → cntPend s' i ≤ (s'.jobs i).waiting := by
    intro i he
    have h0 := hd.lb i (by simp) he
    rw [h.wt]
    unfold cntPend at h0 ⊢
    rw [h.next]
    have hkid : ∀ c, c ≠ j → kidPend s i c = kidPend s' i c := by
      intro c hcj; unfold kidPend; rw [h.par, h.st]; simp [hcj]
    by_cases hpar : (s.jobs j).parent = some i
    · simp only [hpar, if_true]
      have hf : kidPend s i j = true := by unfold kidPend; simp [hpar]; exact hp
      have hg : kidPend s' i j = false := by unfold kidPend; rw [h.st]; simp
      have := cntTo_flip (f := kidPend s i) (g := kidPend s' i) (n := s.next) j hlt hkid hf hg
      omega
    · simp only [hpar, if_false]
      have : cntTo (kidPend s' i) s.next = cntTo (kidPend s i) s.next := by
        apply cntTo_congr
        intro c _
        by_cases hcj : c = j
        · subst hcj; unfold kidPend; rw [h.par]; simp [hpar]
        · exact (hkid c hcj).symm
      omega
  refine ⟨by rw [h.pj]; exact hd.pj, fun i => by rw [h.tw]; exact hd.tw i, ?_, ?_, ?_, ?_, ?_, ?_, ?_⟩
  · intro i
    obtain ⟨a, b, c⟩ := hd.tok i
    rw [h.next]
    rcases htk' i with e | ⟨e, e1, e2, _, _⟩
    · rw [e]
      refine ⟨a, fun hnp => ?_, c⟩
      by_cases hij : i = j
      · subst hij; exact htk
      · exact b (fun hpi => hnp ((hpend i).mpr ⟨hpi, hij⟩))
    · obtain ⟨t0, pp⟩ := hparfact i e1 e2
      rw [e, t0]
      refine ⟨by omega, fun hnp => absurd ((hpend i).mpr ⟨pp, hparne i e1⟩) hnp, fun hn => ?_⟩
      exact absurd (Nat.lt_trans (hd.parlt hlt e1) hlt) (Nat.not_lt.mpr hn)
  · intro i c hc hpc hpp he
    rw [h.next] at hc; rw [h.par] at hpc; rw [h.ef] at he
    obtain ⟨hpp0, hcj⟩ := (hpend c).mp hpp
    have hij : i ≠ j := by
      intro e; subst e
      have := hk c hc hpc; unfold pend at hpp0; rw [hpp0] at this; simp at this
    obtain ⟨t0, pp⟩ := hd.par i c hc hpc hpp0 he
    refine ⟨?_, (hpend i).mpr ⟨pp, hij⟩⟩
    rcases htk' i with e | ⟨_, e1, e2, e3, _⟩
    · rw [e]; exact t0
    · -- `resolve i` was queued: then `i` waits for nobody, but `c` is still pending
      exfalso
      have hl := hlb i e2
      rw [h.wt] at hl
      simp only [e1, if_true, e3] at hl
      have hz : cntPend s' i = 0 := Nat.le_zero.mp hl
      unfold cntPend at hz
      rw [h.next] at hz
      have := cntTo_zero_forall hz c hc
      unfold kidPend at this
      rw [h.par] at this
      simp [hpc] at this
      exact this hpp
  · intro i hq
    have hq' : Ev.exec i ∈ s.queue ∨ ∃ f, Ev.done i f ∈ s.queue := by
      rcases hq with a | ⟨f, a⟩
      · rcases hmem _ a with b | ⟨par, b, _⟩
        · exact Or.inl b
        · simp at b
      · rcases hmem _ a with b | ⟨par, b, _⟩
        · exact Or.inr ⟨f, b⟩
        · simp at b
    intro c hc hpc
    rw [h.next] at hc; rw [h.par] at hpc
    exact hd.pre i hq' c hc hpc
  · intro i c hc hpc hs
    rw [h.next] at hc; rw [h.par] at hpc; rw [h.st] at hs
    rw [h.ef]
    by_cases hcj : c = j
    · simp [hcj] at hs
    · simp only [hcj, if_false] at hs; exact hd.rej i c hc hpc hs
  · intro i _ he
    rw [h.ef] at he; exact hlb i he
  · intro i hi c hc hpc
    rw [h.next] at hc; rw [h.par] at hpc
    rw [h.st]
    by_cases hcj : c = j
    · simp [hcj]
    · simp only [hcj, if_false]
      have hold : ((s.jobs i).status = Status.resolved ∨ Ev.resolve i ∈ s.queue) ∨ i = j ∨
          ((s.jobs j).parent = some i ∧ (s.jobs i).evalFailed = false ∧ (s.jobs i).waiting - 1 = 0) := by
        rcases hi with a | a
        · rw [h.st] at a
          by_cases hij : i = j
          · exact Or.inr (Or.inl hij)
          · simp only [hij, if_false] at a; exact Or.inl (Or.inl a)
        · rcases hmem _ a with b | ⟨par, b, b1, b2, b3⟩
          · exact Or.inl (Or.inr b)
          · simp at b; subst b; exact Or.inr (Or.inr ⟨b1, b2, b3⟩)
      rcases hold with a | a | ⟨a1, a2, a3⟩
      · exact hd.rk i a c hc hpc
      · subst a; exact hk c hc hpc
      · -- all children of `i` are resolved: none pending (count), none rejected (`evalFailed` is false)
        have hl := hlb i a2
        rw [h.wt] at hl
        simp only [a1, if_true, a3] at hl
        have hz : cntPend s' i = 0 := Nat.le_zero.mp hl
        unfold cntPend at hz
        rw [h.next] at hz
        have hnp := cntTo_zero_forall hz c hc
        unfold kidPend at hnp
        rw [h.par, h.st] at hnp
        simp [hpc, hcj] at hnp
        rcases status_cases (s.jobs c).status with e | e | e
        · exact absurd e hnp
        · exact e
        · have := hd.rej i c hc hpc e; rw [a2] at this; simp at this
  · obtain ⟨a, b⟩ := hd.chain
    refine ⟨by rw [h.par]; exact a, ?_⟩
    intro c h0 hc
    rw [h.next] at hc
    obtain ⟨par, p1, p2⟩ := b c h0 hc
    exact ⟨par, p1, by rw [h.par]; exact p2⟩


theorem RejEff.dry {s s' : S} {j : JobId} (h : RejEff s s' j) (hd : DryTok s none) (htk : tk s j = 0)
    (hp : pend s j) (hlt : j < s.next)
    (hk : ∀ c, c < s.next → (s.jobs c).parent = some j → pend s c → (s.jobs j).evalFailed = true) :
    DryTok s' none := by
  have hpend : ∀ i, pend s' i ↔ (pend s i ∧ i ≠ j) := by
    intro i; unfold pend; rw [h.st]
    by_cases e : i = j
    · simp [e]
    · simp [e]
  have hparne : ∀ par, (s.jobs j).parent = some par → par ≠ j := by
    intro par hpar e; have := hd.parlt hlt hpar; subst e; exact Nat.lt_irrefl _ this
  have htk' : ∀ i, tk s' i = tk s i ∨
      (tk s' i = tk s i + 1 ∧ (s.jobs j).parent = some i ∧ (s.jobs i).evalFailed = false) := by
    intro i
    rcases h.queue with q | ⟨par, q1, q2, q⟩
    · left; unfold tk; rw [q]
    · by_cases e : par = i
      · subst e; right
        refine ⟨?_, q1, q2⟩
        unfold tk; rw [q]; simp [List.countP_append, evJob]
      · left; unfold tk; rw [q]; simp [List.countP_append, evJob, e]
  have hmem : ∀ e, e ∈ s'.queue → e ∈ s.queue ∨ ∃ par, e = Ev.reject par := by
    intro e he
    rcases h.queue with q | ⟨par, _, _, q⟩
    · rw [q] at he; exact Or.inl he
    · rw [q] at he
      rcases List.mem_append.mp he with a | a
      · exact Or.inl a
      · exact Or.inr ⟨par, List.mem_singleton.mp a⟩
  have hefF : ∀ i, (s'.jobs i).evalFailed = false → ¬ (s.jobs j).parent = some i ∧ (s.jobs i).evalFailed = false := by
    intro i he
    rw [h.ef] at he
    by_cases hpar : (s.jobs j).parent = some i
    · simp [hpar] at he
    · simp only [hpar, if_false] at he; exact ⟨hpar, he⟩
  refine ⟨by rw [h.pj]; exact hd.pj, fun i => by rw [h.tw]; exact hd.tw i, ?_, ?_, ?_, ?_, ?_, ?_, ?_⟩
  · intro i
    obtain ⟨a, b, c⟩ := hd.tok i
    rw [h.next]
    rcases htk' i with e | ⟨e, e1, e2⟩
    · rw [e]
      refine ⟨a, fun hnp => ?_, c⟩
      by_cases hij : i = j
      · subst hij; exact htk
      · exact b (fun hpi => hnp ((hpend i).mpr ⟨hpi, hij⟩))
    · obtain ⟨t0, pp⟩ := hd.par i j hlt e1 hp e2
      rw [e, t0]
      refine ⟨by omega, fun hnp => absurd ((hpend i).mpr ⟨pp, hparne i e1⟩) hnp, fun hn => ?_⟩
      exact absurd (Nat.lt_trans (hd.parlt hlt e1) hlt) (Nat.not_lt.mpr hn)
  · intro i c hc hpc hpp he
    rw [h.next] at hc; rw [h.par] at hpc
    obtain ⟨hnpar, he0⟩ := hefF i he
    obtain ⟨hpp0, hcj⟩ := (hpend c).mp hpp
    have hij : i ≠ j := by
      intro e; subst e
      have := hk c hc hpc hpp0; rw [he0] at this; simp at this
    obtain ⟨t0, pp⟩ := hd.par i c hc hpc hpp0 he0
    refine ⟨?_, (hpend i).mpr ⟨pp, hij⟩⟩
    rcases htk' i with e | ⟨_, e1, _⟩
    · rw [e]; exact t0
    · exact absurd e1 hnpar
  · intro i hq
    have hq' : Ev.exec i ∈ s.queue ∨ ∃ f, Ev.done i f ∈ s.queue := by
      rcases hq with a | ⟨f, a⟩
      · rcases hmem _ a with b | ⟨par, b⟩
        · exact Or.inl b
        · simp at b
      · rcases hmem _ a with b | ⟨par, b⟩
        · exact Or.inr ⟨f, b⟩
        · simp at b
    intro c hc hpc
    rw [h.next] at hc; rw [h.par] at hpc
    exact hd.pre i hq' c hc hpc
  · intro i c hc hpc hs
    rw [h.next] at hc; rw [h.par] at hpc; rw [h.st] at hs
    rw [h.ef]
    by_cases hcj : c = j
    · subst hcj; simp [hpc]
    · simp only [hcj, if_false] at hs
      have := hd.rej i c hc hpc hs
      split
      · rfl
      · exact this
  · intro i _ he
    obtain ⟨hnpar, he0⟩ := hefF i he
    rw [h.wt]
    have : cntPend s' i = cntPend s i := by
      unfold cntPend
      rw [h.next]
      apply cntTo_congr
      intro c _
      unfold kidPend
      rw [h.par, h.st]
      by_cases hcj : c = j
      · subst hcj; simp [hnpar]
      · simp [hcj]
    rw [this]; exact hd.lb i (by simp) he0
  · intro i hi c hc hpc
    rw [h.next] at hc; rw [h.par] at hpc
    have hold : (s.jobs i).status = Status.resolved ∨ Ev.resolve i ∈ s.queue := by
      rcases hi with a | a
      · rw [h.st] at a
        by_cases hij : i = j
        · simp [hij] at a
        · simp only [hij, if_false] at a; exact Or.inl a
      · rcases hmem _ a with b | ⟨par, b⟩
        · exact Or.inr b
        · simp at b
    have := hd.rk i hold c hc hpc
    rw [h.st]
    by_cases hcj : c = j
    · subst hcj; unfold pend at hp; rw [hp] at this; simp at this
    · simp only [hcj, if_false]; exact this
  · obtain ⟨a, b⟩ := hd.chain
    refine ⟨by rw [h.par]; exact a, ?_⟩
    intro c h0 hc
    rw [h.next] at hc
    obtain ⟨par, p1, p2⟩ := b c h0 hc
    exact ⟨par, p1, by rw [h.par]; exact p2⟩


/-! ## part 7: the handlers in a dry run -/

theorem checkPending_nil (p : Prog) (s : S) (h : s.pendingLimits = []) : checkPending p s = s := by
  unfold checkPending
  rw [h]
  simp only [scanPending, List.map_nil, List.append_nil]
  cases s
  simp_all

theorem finalize_nil (p : Prog) (s : S) (j : JobId) (h : s.pendingJobs = []) : finalize p s j = s := by
  unfold finalize lookupPending
  rw [h]; simp

theorem lookupPending_nil (s : S) (k : Nat × Nat) (h : s.pendingJobs = []) : lookupPending s k = none := by
  unfold lookupPending; rw [h]; rfl

theorem fq_cached (s : S) (j : JobId) : Fq s (setJob s j fun js => { js with wasCached := true }) := by
  refine ⟨rfl, rfl, rfl, ?_, ?_, ?_, ?_⟩ <;>
  · intro i; simp only [setJob]; split <;> rfl

theorem cached_waiting (s : S) (j i : JobId) :
    ((setJob s j fun js => { js with wasCached := true }).jobs i).waiting = (s.jobs i).waiting := by
  simp only [setJob]; split <;> rfl

theorem dry_cachedExit (p : Prog) (s : S) (j : JobId) (ev : Ev) (hev : (∃ f, ev = Ev.done j f) ∨ ev = Ev.reject j)
    (hd : DryTok s none) (hpl : s.pendingLimits = []) (htk : tk s j = 0) (hp : pend s j) (hlt : j < s.next)
    (hnk : noKids s j) :
    DryTok (enqueue (checkPending p (setJob s j fun js => { js with wasCached := true })) ev) none := by
  have hpl1 : (setJob s j fun js => { js with wasCached := true }).pendingLimits = [] := hpl
  rw [checkPending_nil p _ hpl1]
  have fq := fq_cached s j
  have d1 := fq.dry (cached_waiting s j) hd
  have hnk1 : noKids (setJob s j fun js => { js with wasCached := true }) j := (fq.noKids j).mpr hnk
  refine dry_enqueue ev j d1 ?_ ?_ (by rw [fq.tk]; exact htk) ((fq.pendIff j).mpr hp) hlt
    (fun c hc hpc _ => absurd hpc (hnk1 c hc)) (fun _ => hnk1) (fun _ c hc hpc => absurd hpc (hnk1 c hc))
  · rcases hev with ⟨f, rfl⟩ | rfl <;> rfl
  · intro k; rcases hev with ⟨f, rfl⟩ | rfl <;> simp

/-- `_exec_job_main_thread` in a dry run -/
theorem execJob_dry (p : Prog) (hdr : p.dryrun = true) (s : S) (j : JobId) (hd : DryTok s none)
    (hpl : s.pendingLimits = []) (htk : tk s j = 0) (hp : pend s j) (hlt : j < s.next) (hnk : noKids s j) :
    DryTok (execJob p s j) none := by
  unfold execJob
  dsimp only
  have hnone : (if optedIn (spec p s j) = true then lookupPending s ((spec p s j).key, (spec p s j).ctx) else none) = none := by
    split
    · exact lookupPending_nil s _ hd.pj
    · rfl
  rw [hnone]
  dsimp only
  split
  · rename_i isErr _
    exact dry_cachedExit p s j _ (by cases isErr <;> simp) hd hpl htk hp hlt hnk
  · exact dry_cachedExit p s j _ (Or.inl ⟨true, rfl⟩) hd hpl htk hp hlt hnk
  · exact dry_cachedExit p s j _ (Or.inl ⟨false, rfl⟩) hd hpl htk hp hlt hnk
  · simp only [hdr, Bool.not_true, Bool.false_and, Bool.false_eq_true, if_false, if_true]
    split
    · exact dry_enqueue _ j hd rfl (by intro k; simp) htk hp hlt
        (fun c hc hpc _ => absurd hpc (hnk c hc)) (fun ⟨_, h⟩ => by simp at h) (fun h => by simp at h)
    · exact hd

/-- `_resolve_job_main_thread` in a dry run -/
theorem resolveJob_dry (p : Prog) (s : S) (j : JobId) (hd : DryTok s none) (htk : tk s j = 0) (hp : pend s j)
    (hlt : j < s.next)
    (hk : ∀ c, c < s.next → (s.jobs c).parent = some j → (s.jobs c).status = Status.resolved) :
    DryTok (resolveJob p s j) none := by
  unfold resolveJob
  dsimp only
  have f0 := fq_record p s j false
  have d0 := f0.dry (record_waiting p s j false) hd
  generalize record p s j false = s0 at f0 d0
  have eff := resEff s0 j
  generalize (notifyParentResolved (setJob s0 j fun js => { js with status := Status.resolved }) j) = s2 at eff
  have d2 := eff.dry d0 (by rw [f0.tk]; exact htk) ((f0.pendIff j).mpr hp) (by rw [f0.next]; exact hlt)
    (fun c hc hpc => by rw [f0.next] at hc; rw [f0.par] at hpc; rw [f0.st]; exact hk c hc hpc)
  rw [d2.tw j]
  simp only [List.foldl_nil]
  rw [finalize_nil p s2 j d2.pj]
  exact d2

/-- `_reject_job_main_thread` in a dry run -/
theorem rejectJob_dry (p : Prog) (s : S) (j : JobId) (hd : DryTok s none) (hholds : s.holds j = false)
    (htk : tk s j = 0) (hp : pend s j) (hlt : j < s.next)
    (hk : ∀ c, c < s.next → (s.jobs c).parent = some j → pend s c → (s.jobs j).evalFailed = true) :
    DryTok (rejectJob p s j) none := by
  rw [rejectJob_eq, releaseIf_dry p s j hholds]
  unfold rejectRest
  dsimp only
  have f0 := fq_record p s j true
  have d0 := f0.dry (record_waiting p s j true) hd
  generalize record p s j true = s0 at f0 d0
  have eff := rejEff s0 j
  generalize (notifyParentRejected (setJob s0 j fun js => { js with status := Status.rejected }) j) = s2 at eff
  have d2 := eff.dry d0 (by rw [f0.tk]; exact htk) ((f0.pendIff j).mpr hp) (by rw [f0.next]; exact hlt)
    (fun c hc hpc hpp => by
      rw [f0.next] at hc; rw [f0.par] at hpc; rw [f0.pendIff] at hpp; rw [f0.ef]; exact hk c hc hpc hpp)
  rw [d2.tw j]
  simp only [List.foldl_nil]
  rw [finalize_nil p s2 j d2.pj]
  exact d2


/-! ## part 8: every state of a dry run satisfies `DryTok` -/

theorem head_facts {s : S} (e : Ev) (rest : List Ev) (hq : s.queue = e :: rest) (hd : DryTok s none) :
    tk (tl s) (evJob e) = 0 ∧ pend s (evJob e) ∧ evJob e < s.next := by
  have hm : e ∈ s.queue := by rw [hq]; simp
  have h1 := tk_pos_of_mem hm
  obtain ⟨a, b, c⟩ := hd.tok (evJob e)
  have h2 := tk_tl s e rest hq (evJob e)
  simp only [if_true] at h2
  refine ⟨by omega, ?_, ?_⟩
  · by_cases hp : pend s (evJob e)
    · exact hp
    · have := b hp; omega
  · by_cases hlt : evJob e < s.next
    · exact hlt
    · have := c (Nat.le_of_not_lt hlt); omega

theorem pop_dryTok (p : Prog) (hdr : p.dryrun = true) (s : S) (hinv : Inv p s) (hd : DryTok s none) :
    DryTok (pop p s) none := by
  unfold pop
  split
  · exact hd
  · rename_i e rest hq
    rw [tl_eq s e rest hq]
    have dt := dry_tl s e rest hq hd
    obtain ⟨htk, hp, hlt⟩ := head_facts e rest hq hd
    obtain ⟨hpl, hholds⟩ := hinv.core.dry hdr
    cases e with
    | exec j =>
      have hnk := hd.pre j (Or.inl (by rw [hq]; simp))
      exact execJob_dry p hdr (tl s) j dt hpl htk hp hlt hnk
    | done j f =>
      have hnk := hd.pre j (Or.inr ⟨f, by rw [hq]; simp⟩)
      exact doneJob_dry p (tl s) j f dt (hholds j) htk hp hlt hnk
    | resolve j =>
      have hk := hd.rk j (Or.inr (by rw [hq]; simp))
      exact resolveJob_dry p (tl s) j dt htk hp hlt hk
    | reject j =>
      refine rejectJob_dry p (tl s) j dt (hholds j) htk hp hlt ?_
      intro c hc hpc hpp
      by_cases he : (s.jobs j).evalFailed = true
      · exact he
      · have := (hd.par j c hc hpc hpp (by simpa using he)).1
        have h1 := tk_pos_of_mem (s := s) (e := Ev.reject j) (by rw [hq]; simp)
        simp only [evJob] at h1
        omega

theorem dryTok_init : DryTok init none := by
  have hj : ∀ j, (init.jobs j).status = Status.pending ∧ (init.jobs j).twins = [] ∧ (init.jobs j).evalFailed = false ∧
      (init.jobs j).waiting = 0 ∧ (init.jobs j).parent = none := by
    intro j; simp only [init]; split <;> exact ⟨rfl, rfl, rfl, rfl, rfl⟩
  have htk : ∀ j, tk init j = if j = 0 then 1 else 0 := by
    intro j; unfold tk; simp only [init, List.countP_cons, List.countP_nil, evJob, beq_iff_eq]
    by_cases h : j = 0
    · subst h; simp
    · have : ¬ 0 = j := fun e => h e.symm
      simp [h, this]
  refine ⟨rfl, fun i => (hj i).2.1, ?_, ?_, ?_, ?_, ?_, ?_, ?_⟩
  · intro j
    rw [htk]
    refine ⟨by split <;> omega, fun h => absurd (hj j).1 h, fun h => ?_⟩
    have h1 : (1 : Nat) ≤ j := h
    have : j ≠ 0 := by intro e; rw [e] at h1; exact absurd h1 (by decide)
    simp [this]
  · intro j c _ hp; rw [(hj c).2.2.2.2] at hp; simp at hp
  · intro j _ c _ hp; rw [(hj c).2.2.2.2] at hp; simp at hp
  · intro j c _ hp; rw [(hj c).2.2.2.2] at hp; simp at hp
  · intro j _ _
    have : cntPend init j = 0 := by
      apply cntPend_zero_of_noKids
      intro c _ hp; rw [(hj c).2.2.2.2] at hp; simp at hp
    rw [this]; exact Nat.zero_le _
  · intro j _ c _ hp; rw [(hj c).2.2.2.2] at hp; simp at hp
  · refine ⟨(hj 0).2.2.2.2, ?_⟩
    intro c h0 hc
    have : c < 1 := hc
    omega

theorem reachable_dryTok (p : Prog) (hdr : p.dryrun = true) (s : S) (h : Reachable p s) : DryTok s none := by
  induction h with
  | init => exact dryTok_init
  | step hr hs ih =>
    cases hs with
    | pop _ _ => exact pop_dryTok p hdr _ (reachable_inv p _ hr) ih
    | complete j _ hi =>
      rw [(reachable_dry p hdr _ hr).infl j] at hi; exact absurd hi (by simp)


/-! ## part 9: a job that took the miss exit never resolves -/

/-- `m` is stuck: created, not resolved, and nothing can make it progress (a `reject` may be queued) -/
structure NR (s : S) (m : JobId) : Prop where
  lt : m < s.next
  st : (s.jobs m).status ≠ Status.resolved
  ev : ∀ e, e ∈ s.queue → evJob e = m → e = Ev.reject m
  nk : noKids s m

theorem nr_fq {s s' : S} {m : JobId} (h : Fq s s') (hn : NR s m) : NR s' m :=
  ⟨by rw [h.next]; exact hn.lt, by rw [h.st]; exact hn.st, by rw [h.queue]; exact hn.ev, (h.noKids m).mpr hn.nk⟩

theorem nr_tl {s : S} {m : JobId} (hn : NR s m) : NR (tl s) m :=
  ⟨hn.lt, hn.st, fun e he => hn.ev e (List.mem_of_mem_tail he), hn.nk⟩

theorem nr_enqueue {s : S} {m : JobId} (e : Ev) (hn : NR s m) (he : evJob e ≠ m ∨ e = Ev.reject m) :
    NR (enqueue s e) m := by
  refine ⟨hn.lt, hn.st, ?_, hn.nk⟩
  intro e' hm hj
  rcases List.mem_append.mp hm with a | a
  · exact hn.ev e' a hj
  · have : e' = e := List.mem_singleton.mp a
    subst this
    rcases he with b | b
    · exact absurd hj b
    · exact b

theorem nr_spawnOne {s : S} {m j : JobId} (c : SpecId) (hn : NR s m) (hjm : j ≠ m) : NR (spawnOne s j c) m := by
  have hmn : m ≠ s.next := Nat.ne_of_lt hn.lt
  refine ⟨Nat.lt_succ_of_lt hn.lt, by rw [spawnOne_jobs_ne s j c m hmn]; exact hn.st, ?_, ?_⟩
  · intro e hm hj
    rcases List.mem_append.mp hm with a | a
    · exact hn.ev e a hj
    · have : e = Ev.exec s.next := List.mem_singleton.mp a
      subst this
      exact absurd hj.symm hmn
  · intro c' hc' hp
    by_cases hcn : c' = s.next
    · subst hcn; rw [spawnOne_jobs_new] at hp; simp at hp; exact hjm hp
    · rw [spawnOne_jobs_ne s j c c' hcn] at hp
      have : c' < s.next + 1 := hc'
      exact hn.nk c' (by omega) hp

theorem nr_spawnFold {m j : JobId} (cs : List SpecId) (s : S) (hn : NR s m) (hjm : j ≠ m) :
    NR (cs.foldl (fun s c => spawnOne s j c) s) m := by
  induction cs generalizing s with
  | nil => exact hn
  | cons c cs ih => exact ih _ (nr_spawnOne c hn hjm)

theorem nr_resEff {s s' : S} {m j : JobId} (h : ResEff s s' j) (hn : NR s m) (hjm : j ≠ m) (hlt : j < s.next) :
    NR s' m := by
  refine ⟨by rw [h.next]; exact hn.lt, ?_, ?_, ?_⟩
  · rw [h.st]; have : m ≠ j := fun e => hjm e.symm
    simp only [this, if_false]; exact hn.st
  · intro e hm hj
    rcases h.queue with q | ⟨par, q1, _, _, q⟩
    · rw [q] at hm; exact hn.ev e hm hj
    · rw [q] at hm
      rcases List.mem_append.mp hm with a | a
      · exact hn.ev e a hj
      · have : e = Ev.resolve par := List.mem_singleton.mp a
        subst this
        exact absurd (hj ▸ q1) (hn.nk j hlt)
  · intro c hc hp
    rw [h.next] at hc; rw [h.par] at hp; exact hn.nk c hc hp

theorem nr_rejEff {s s' : S} {m j : JobId} (h : RejEff s s' j) (hn : NR s m) : NR s' m := by
  refine ⟨by rw [h.next]; exact hn.lt, ?_, ?_, ?_⟩
  · rw [h.st]; split
    · simp
    · exact hn.st
  · intro e hm hj
    rcases h.queue with q | ⟨par, _, _, q⟩
    · rw [q] at hm; exact hn.ev e hm hj
    · rw [q] at hm
      rcases List.mem_append.mp hm with a | a
      · exact hn.ev e a hj
      · have : e = Ev.reject par := List.mem_singleton.mp a
        subst this
        simp only [evJob] at hj; rw [hj]
  · intro c hc hp
    rw [h.next] at hc; rw [h.par] at hp; exact hn.nk c hc hp


/-! ## part 10: stuck jobs stay stuck -/

theorem nr_execJob (p : Prog) (hdr : p.dryrun = true) (s : S) (j m : JobId) (hd : DryTok s none)
    (hpl : s.pendingLimits = []) (hn : NR s m) (hjm : j ≠ m) : NR (execJob p s j) m := by
  unfold execJob
  dsimp only
  have hnone : (if optedIn (spec p s j) = true then lookupPending s ((spec p s j).key, (spec p s j).ctx) else none) = none := by
    split
    · exact lookupPending_nil s _ hd.pj
    · rfl
  rw [hnone]
  dsimp only
  have hpl1 : (setJob s j fun js => { js with wasCached := true }).pendingLimits = [] := hpl
  have hc : ∀ ev, evJob ev = j →
      NR (enqueue (checkPending p (setJob s j fun js => { js with wasCached := true })) ev) m := by
    intro ev hev
    rw [checkPending_nil p _ hpl1]
    exact nr_enqueue ev (nr_fq (fq_cached s j) hn) (Or.inl (by rw [hev]; exact hjm))
  split
  · rename_i isErr _
    exact hc _ (by cases isErr <;> rfl)
  · exact hc _ rfl
  · exact hc _ rfl
  · simp only [hdr, Bool.not_true, Bool.false_and, Bool.false_eq_true, if_false, if_true]
    split
    · exact nr_enqueue _ hn (Or.inl hjm)
    · exact hn

theorem nr_doneJob (p : Prog) (s : S) (j m : JobId) (f : Bool) (hholds : s.holds j = false) (hn : NR s m)
    (hjm : j ≠ m) : NR (doneJob p s j f) m := by
  rw [doneJob_eq, releaseIf_dry p s j hholds]
  unfold doneRest
  have f1 : Fq s (if (!(s.jobs j).wasCached && (spec p s j).prov) = true then
      { s with evalTable := (spec p s j).key :: s.evalTable } else s) := by
    split
    · exact fq_fields s s.cse _
    · exact Fq.refl s
  generalize (if (!(s.jobs j).wasCached && (spec p s j).prov) = true then
      { s with evalTable := (spec p s j).key :: s.evalTable } else s) = s2 at f1
  have n2 := nr_fq f1 hn
  dsimp only
  split
  · exact nr_enqueue _ n2 (Or.inl hjm)
  · unfold spawn
    dsimp only
    have n3 := nr_spawnFold (spec p s2 j).children s2 n2 hjm
    have n4 := nr_fq (fq_setWaiting _ j (spec p s2 j).children.length) n3
    split
    · exact nr_enqueue _ n4 (Or.inl hjm)
    · exact n4

theorem nr_resolveJob (p : Prog) (s : S) (j m : JobId) (hd : DryTok s none) (hn : NR s m) (hjm : j ≠ m)
    (hlt : j < s.next) : NR (resolveJob p s j) m := by
  unfold resolveJob
  dsimp only
  have f0 := fq_record p s j false
  generalize record p s j false = s0 at f0
  have eff := resEff s0 j
  generalize (notifyParentResolved (setJob s0 j fun js => { js with status := Status.resolved }) j) = s2 at eff
  have n2 := nr_resEff eff (nr_fq f0 hn) hjm (by rw [f0.next]; exact hlt)
  have htw : (s2.jobs j).twins = [] := by rw [eff.tw, f0.tw]; exact hd.tw j
  have hpj : s2.pendingJobs = [] := by rw [eff.pj, f0.pj]; exact hd.pj
  rw [htw]
  simp only [List.foldl_nil]
  rw [finalize_nil p s2 j hpj]
  exact n2

theorem nr_rejectJob (p : Prog) (s : S) (j m : JobId) (hd : DryTok s none) (hholds : s.holds j = false)
    (hn : NR s m) : NR (rejectJob p s j) m := by
  rw [rejectJob_eq, releaseIf_dry p s j hholds]
  unfold rejectRest
  dsimp only
  have f0 := fq_record p s j true
  generalize record p s j true = s0 at f0
  have eff := rejEff s0 j
  generalize (notifyParentRejected (setJob s0 j fun js => { js with status := Status.rejected }) j) = s2 at eff
  have n2 := nr_rejEff eff (nr_fq f0 hn)
  have htw : (s2.jobs j).twins = [] := by rw [eff.tw, f0.tw]; exact hd.tw j
  have hpj : s2.pendingJobs = [] := by rw [eff.pj, f0.pj]; exact hd.pj
  rw [htw]
  simp only [List.foldl_nil]
  rw [finalize_nil p s2 j hpj]
  exact n2

theorem nr_pop (p : Prog) (hdr : p.dryrun = true) (s : S) (hinv : Inv p s) (hd : DryTok s none) (m : JobId)
    (hn : NR s m) : NR (pop p s) m := by
  unfold pop
  split
  · exact hn
  · rename_i e rest hq
    rw [tl_eq s e rest hq]
    have dt := dry_tl s e rest hq hd
    have nt := nr_tl (s := s) hn
    obtain ⟨hpl, hholds⟩ := hinv.core.dry hdr
    have hm : e ∈ s.queue := by rw [hq]; simp
    cases e with
    | exec j =>
      have hjm : j ≠ m := by intro e; have := hn.ev _ hm e; simp at this
      exact nr_execJob p hdr (tl s) j m dt hpl nt hjm
    | done j f =>
      have hjm : j ≠ m := by intro e; have := hn.ev _ hm e; simp at this
      exact nr_doneJob p (tl s) j m f (hholds j) nt hjm
    | resolve j =>
      have hjm : j ≠ m := by intro e; have := hn.ev _ hm e; simp at this
      exact nr_resolveJob p (tl s) j m dt nt hjm (head_facts _ rest hq hd).2.2
    | reject j => exact nr_rejectJob p (tl s) j m dt (hholds j) nt


/-! ## part 11: a miss blocks the root -/

theorem miss_NR (p : Prog) (hdr : p.dryrun = true) (s : S) (hd : DryTok s none)
    (hmiss : missAtHead p s = true) : ∃ m, NR (pop p s) m := by
  unfold missAtHead at hmiss
  cases hq : s.queue with
  | nil => rw [hq] at hmiss; simp at hmiss
  | cons e rest =>
    rw [hq] at hmiss
    cases e with
    | done j f => simp at hmiss
    | reject j => simp at hmiss
    | resolve j => simp at hmiss
    | exec j =>
      simp only [Bool.and_eq_true, beq_iff_eq] at hmiss
      obtain ⟨h1, h2⟩ := hmiss
      refine ⟨j, ?_⟩
      have hf := head_facts _ rest hq hd
      simp only [evJob] at hf
      obtain ⟨htk, hp, hlt⟩ := hf
      have hnk := hd.pre j (Or.inl (by rw [hq]; simp))
      have nt : NR (tl s) j := by
        refine ⟨hlt, ?_, ?_, hnk⟩
        · unfold pend at hp; show (s.jobs j).status ≠ _; rw [hp]; simp
        · intro e he hj
          exact absurd he (not_mem_of_tk_zero htk hj)
      unfold pop
      rw [hq]
      dsimp only
      rw [tl_eq s _ rest hq]
      show NR (execJob p (tl s) j) j
      unfold execJob
      dsimp only
      have h1' : (if optedIn (spec p (tl s) j) = true then
          lookupPending (tl s) ((spec p (tl s) j).key, (spec p (tl s) j).ctx) else none) = none := by
        have : (if optedIn (spec p s j) = true then lookupPending s ((spec p s j).key, (spec p s j).ctx) else none) = none := by
          cases h : (if optedIn (spec p s j) = true then lookupPending s ((spec p s j).key, (spec p s j).ctx) else none) with
          | none => rfl
          | some t => rw [h] at h1; simp at h1
        exact this
      rw [h1']
      dsimp only
      have h2' : cacheLookup (tl s) (spec p (tl s) j) = Hit.miss := h2
      rw [h2']
      simp only [hdr, Bool.not_true, Bool.false_and, Bool.false_eq_true, if_false, if_true]
      split
      · exact nr_enqueue _ nt (Or.inr rfl)
      · exact nt

theorem nr_root_unresolved {s : S} (hd : DryTok s none) :
    ∀ m, m < s.next → (s.jobs m).status ≠ Status.resolved → (s.jobs 0).status ≠ Status.resolved := by
  intro m
  induction m using Nat.strongRecOn with
  | _ m ih =>
    intro hlt hst
    by_cases h0 : m = 0
    · subst h0; exact hst
    · obtain ⟨par, p1, p2⟩ := hd.chain.2 m (Nat.pos_of_ne_zero h0) hlt
      refine ih par p1 (Nat.lt_trans p1 hlt) ?_
      intro hr
      exact hst (hd.rk par (Or.inl hr) m hlt p2)

theorem popN_succ (p : Prog) (n : Nat) (s : S) : popN p (n + 1) s = pop p (popN p n s) := by
  induction n generalizing s with
  | zero => rfl
  | succ n ih => simp only [popN] at ih ⊢; rw [ih]

theorem reachable_popN (p : Prog) (n : Nat) (h : ∀ k, k < n → (popN p k init).finished = false) :
    Reachable p (popN p n init) := by
  induction n with
  | zero => exact Reachable.init
  | succ n ih =>
    have hr := ih (fun k hk => h k (Nat.lt_succ_of_lt hk))
    rw [popN_succ]
    by_cases hq : (popN p n init).queue = []
    · have : pop p (popN p n init) = popN p n init := by unfold pop; rw [hq]
      rw [this]; exact hr
    · exact Reachable.step hr (Step.pop _ (h n (Nat.lt_succ_self n)) hq)

/-- In a dry run that has not finished before event `n`: if the root is resolved after `n` events then no job
took the miss exit during these events. -/
theorem no_miss_of_root_resolved (p : Prog) (hdr : p.dryrun = true) (n : Nat)
    (hfin : ∀ k, k < n → (popN p k init).finished = false)
    (hres : ((popN p n init).jobs 0).status = Status.resolved) :
    ∀ k, k < n → missAtHead p (popN p k init) = false := by
  intro k hk
  by_cases hm : missAtHead p (popN p k init) = true
  · exfalso
    have hreach : ∀ i, i ≤ n → Reachable p (popN p i init) :=
      fun i hi => reachable_popN p i (fun k' hk' => hfin k' (Nat.lt_of_lt_of_le hk' hi))
    have hdry : ∀ i, i ≤ n → DryTok (popN p i init) none := fun i hi => reachable_dryTok p hdr _ (hreach i hi)
    obtain ⟨m, hn⟩ := miss_NR p hdr _ (hdry k (Nat.le_of_lt hk)) hm
    rw [← popN_succ] at hn
    -- the stuck job stays stuck up to event `n`
    have hstay : ∀ d, k + 1 + d ≤ n → NR (popN p (k + 1 + d) init) m := by
      intro d
      induction d with
      | zero => intro _; exact hn
      | succ d ih =>
        intro hle
        have h1 := ih (by omega)
        have : k + 1 + (d + 1) = (k + 1 + d) + 1 := by omega
        rw [this, popN_succ]
        exact nr_pop p hdr _ (reachable_inv p _ (hreach _ (by omega))) (hdry _ (by omega)) m h1
    have hfinal := hstay (n - (k + 1)) (by omega)
    have : k + 1 + (n - (k + 1)) = n := by omega
    rw [this] at hfinal
    exact nr_root_unresolved (hdry n (Nat.le_refl n)) m hfinal.lt hfinal.st hres
  · simpa using hm

end RedunModel.SchedCore
