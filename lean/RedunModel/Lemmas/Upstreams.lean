/-
Lemmas for the upstream-dataflow model (C21).
-/
import RedunModel.Model.Upstreams
namespace RedunModel.Upstreams
open List

mutual
  /-- structural equality test is sound (equal expression hashes = equal expressions, in the model) -/
  theorem beq_eq : ∀ (x y : Src), Src.beq x y = true → x = y
    | .lit a, .lit b, h => by simp only [Src.beq, beq_iff_eq] at h; rw [h]
    | .lit _, .cont _, h => by simp [Src.beq] at h
    | .lit _, .call .., h => by simp [Src.beq] at h
    | .lit _, .op _, h => by simp [Src.beq] at h
    | .lit _, .cond .., h => by simp [Src.beq] at h
    | .lit _, .catchE .., h => by simp [Src.beq] at h
    | .lit _, .tags _, h => by simp [Src.beq] at h
    | .cont _, .lit _, h => by simp [Src.beq] at h
    | .cont a, .cont b, h => by simp only [Src.beq] at h; rw [beqL_eq a b h]
    | .cont _, .call .., h => by simp [Src.beq] at h
    | .cont _, .op _, h => by simp [Src.beq] at h
    | .cont _, .cond .., h => by simp [Src.beq] at h
    | .cont _, .catchE .., h => by simp [Src.beq] at h
    | .cont _, .tags _, h => by simp [Src.beq] at h
    | .call .., .lit _, h => by simp [Src.beq] at h
    | .call .., .cont _, h => by simp [Src.beq] at h
    | .call k p a kn ka dn d, .call k' p' a' kn' ka' dn' d', h => by
      simp only [Src.beq, Bool.and_eq_true, beq_iff_eq] at h
      obtain ⟨⟨⟨⟨⟨⟨h1, h2⟩, h3⟩, h4⟩, h5⟩, h6⟩, h7⟩ := h
      rw [h1, h2, beqL_eq a a' h3, h4, beqL_eq ka ka' h5, h6, beqL_eq d d' h7]
    | .call .., .op _, h => by simp [Src.beq] at h
    | .call .., .cond .., h => by simp [Src.beq] at h
    | .call .., .catchE .., h => by simp [Src.beq] at h
    | .call .., .tags _, h => by simp [Src.beq] at h
    | .op _, .lit _, h => by simp [Src.beq] at h
    | .op _, .cont _, h => by simp [Src.beq] at h
    | .op _, .call .., h => by simp [Src.beq] at h
    | .op a, .op b, h => by simp only [Src.beq] at h; rw [beqL_eq a b h]
    | .op _, .cond .., h => by simp [Src.beq] at h
    | .op _, .catchE .., h => by simp [Src.beq] at h
    | .op _, .tags _, h => by simp [Src.beq] at h
    | .cond .., .lit _, h => by simp [Src.beq] at h
    | .cond .., .cont _, h => by simp [Src.beq] at h
    | .cond .., .call .., h => by simp [Src.beq] at h
    | .cond .., .op _, h => by simp [Src.beq] at h
    | .cond c t a b, .cond c' t' a' b', h => by
      simp only [Src.beq, Bool.and_eq_true, beq_iff_eq] at h
      obtain ⟨⟨⟨h1, h2⟩, h3⟩, h4⟩ := h
      rw [beq_eq c c' h1, h2, beq_eq a a' h3, beq_eq b b' h4]
    | .cond .., .catchE .., h => by simp [Src.beq] at h
    | .cond .., .tags _, h => by simp [Src.beq] at h
    | .catchE .., .lit _, h => by simp [Src.beq] at h
    | .catchE .., .cont _, h => by simp [Src.beq] at h
    | .catchE .., .call .., h => by simp [Src.beq] at h
    | .catchE .., .op _, h => by simp [Src.beq] at h
    | .catchE .., .cond .., h => by simp [Src.beq] at h
    | .catchE e f r, .catchE e' f' r', h => by
      simp only [Src.beq, Bool.and_eq_true, beq_iff_eq] at h
      obtain ⟨⟨h1, h2⟩, h3⟩ := h
      rw [beq_eq e e' h1, h2, h3]
    | .catchE .., .tags _, h => by simp [Src.beq] at h
    | .tags _, .lit _, h => by simp [Src.beq] at h
    | .tags _, .cont _, h => by simp [Src.beq] at h
    | .tags _, .call .., h => by simp [Src.beq] at h
    | .tags _, .op _, h => by simp [Src.beq] at h
    | .tags _, .cond .., h => by simp [Src.beq] at h
    | .tags _, .catchE .., h => by simp [Src.beq] at h
    | .tags v, .tags v', h => by simp only [Src.beq] at h; rw [beq_eq v v' h]
  theorem beqL_eq : ∀ (x y : List Src), Src.beqL x y = true → x = y
    | [], [], _ => rfl
    | [], _ :: _, h => by simp [Src.beqL] at h
    | _ :: _, [], h => by simp [Src.beqL] at h
    | x :: xs, y :: ys, h => by
      simp only [Src.beqL, Bool.and_eq_true] at h
      rw [beq_eq x y h.1, beqL_eq xs ys h.2]
end

/-- same set of upstream call nodes (`set(self._find_arg_upstreams(expr_arg))`) -/
def SetEq (a b : List Nat) : Prop := ∀ x, x ∈ a ↔ x ∈ b

theorem SetEq.refl (a : List Nat) : SetEq a a := fun _ => Iff.rfl
theorem SetEq.append {a b c d : List Nat} (h1 : SetEq a c) (h2 : SetEq b d) : SetEq (a ++ b) (c ++ d) := by
  intro x; simp only [mem_append]; rw [h1 x, h2 x]
theorem SetEq.nil_append {b d : List Nat} (h2 : SetEq b d) : SetEq ([] ++ b) d := by simpa using h2

mutual
  theorem findUps_unev : ∀ s : Src, findUps (unev s) = []
    | .lit _ => by simp [unev, findUps]
    | .cont items => by simp [unev, findUps, findUpsL_unevL items]
    | .call .. => by simp [unev, findUps]
    | .op args => by simp [unev, findUps, findUpsL_unevL args]
    | .cond c _ a b => by simp [unev, findUps, findUpsL, findUps_unev c, findUps_unev a, findUps_unev b]
    | .catchE e _ _ => by simp [unev, findUps, findUpsL, findUps_unev e]
    | .tags v => by simp [unev, findUps, findUpsL, findUps_unev v]
  theorem findUpsL_unevL : ∀ ss : List Src, findUpsL (unevL ss) = []
    | [] => by simp [unevL, findUpsL]
    | s :: ss => by simp [unevL, findUpsL, findUps_unev s, findUpsL_unevL ss]
end

/-- every registered object yields exactly the producers of the expression it was registered for -/
def Good (st : St) : Prop := ∀ s o, lookup st s = some o → SetEq (findUps o) (producers s)

theorem good_nil : Good [] := by intro s o h; simp [lookup] at h

theorem good_cons {st : St} {s : Src} {o : Obj} (g : Good st) (h : SetEq (findUps o) (producers s)) :
    Good ((s, o) :: st) := by
  intro s' o' hl
  simp only [lookup] at hl
  split at hl
  · rename_i hb
    injection hl with hl
    rw [← beq_eq s s' hb, ← hl]; exact h
  · exact g s' o' hl

/-- objects and expressions, element by element -/
def AllOK : List Obj → List Src → Prop
  | [], [] => True
  | o :: os, s :: ss => SetEq (findUps o) (producers s) ∧ AllOK os ss
  | _, _ => False

theorem allOK_findUpsL : ∀ {os : List Obj} {ss : List Src}, AllOK os ss → SetEq (findUpsL os) (producersL ss)
  | [], [], _ => by simp [findUpsL, producersL]; exact SetEq.refl []
  | o :: os, s :: ss, h => by
    simp only [findUpsL, producersL]
    exact SetEq.append h.1 (allOK_findUpsL h.2)
  | [], _ :: _, h => by simp [AllOK] at h
  | _ :: _, [], h => by simp [AllOK] at h

/-- a recorded row is right: some specified entry has the same call, slot and upstream set -/
def RowOK (specs : List (Nat × Slot × List Nat)) (r : Row) : Prop :=
  ∃ q ∈ specs, q.1 = r.call ∧ q.2.1 = r.slot ∧ SetEq r.ups q.2.2

def RowsOK (specs : List (Nat × Slot × List Nat)) (rows : List Row) : Prop := ∀ r ∈ rows, RowOK specs r

theorem RowsOK.mono {a b : List (Nat × Slot × List Nat)} {rows : List Row} (h : RowsOK a rows)
    (hs : ∀ q ∈ a, q ∈ b) : RowsOK b rows := by
  intro r hr
  obtain ⟨q, hq, h1⟩ := h r hr
  exact ⟨q, hs q hq, h1⟩

theorem RowsOK.append {a : List (Nat × Slot × List Nat)} {r1 r2 : List Row} (h1 : RowsOK a r1) (h2 : RowsOK a r2) :
    RowsOK a (r1 ++ r2) := by
  intro r hr
  rcases mem_append.1 hr with h | h
  · exact h1 r h
  · exact h2 r h

theorem rowsOK_nil (a : List (Nat × Slot × List Nat)) : RowsOK a [] := by intro r hr; simp at hr

theorem posRows_ok_aux (key : Nat) : ∀ (os : List Obj) (ss : List Src) (n : Nat), AllOK os ss →
    ∀ r ∈ (os.zipIdx n).map (fun p => ({ call := key, slot := .pos p.2, ups := findUps p.1 } : Row)),
      ∃ q ∈ (ss.zipIdx n).map (fun p => ((key, Slot.pos p.2, producers p.1) : Nat × Slot × List Nat)),
        q.1 = r.call ∧ q.2.1 = r.slot ∧ SetEq r.ups q.2.2
  | [], [], _, _, r, hr => by simp at hr
  | o :: os, s :: ss, n, h, r, hr => by
    simp only [zipIdx_cons, map_cons, mem_cons] at hr
    rcases hr with rfl | hr
    · exact ⟨(key, .pos n, producers s), by simp, rfl, rfl, h.1⟩
    · obtain ⟨q, hq, h1⟩ := posRows_ok_aux key os ss (n + 1) h.2 r hr
      exact ⟨q, by simp only [zipIdx_cons, map_cons, mem_cons]; exact .inr hq, h1⟩
  | [], _ :: _, _, h, _, _ => by simp [AllOK] at h
  | _ :: _, [], _, h, _, _ => by simp [AllOK] at h

theorem posRows_ok {key : Nat} {os : List Obj} {ss : List Src} (h : AllOK os ss) :
    RowsOK (posSpecs key ss) (posRows key os) := posRows_ok_aux key os ss 0 h

theorem keyRows_ok (key : Nat) : ∀ (names : List Nat) (os : List Obj) (ss : List Src), AllOK os ss →
    RowsOK (keySpecs key names ss) (keyRows key names os)
  | [], _, _, _ => by intro r hr; simp [keyRows] at hr
  | _ :: _, [], [], _ => by intro r hr; simp [keyRows] at hr
  | n :: ns, o :: os, s :: ss, h => by
    intro r hr
    simp only [keyRows, zip_cons_cons, map_cons, mem_cons] at hr
    rcases hr with rfl | hr
    · exact ⟨(key, .key n, producers s), by simp [keySpecs], rfl, rfl, h.1⟩
    · obtain ⟨q, hq, h1⟩ := keyRows_ok key ns os ss h.2 r hr
      exact ⟨q, by simp only [keySpecs, zip_cons_cons, map_cons, mem_cons]; exact .inr hq, h1⟩
  | _ :: _, [], _ :: _, h => by simp [AllOK] at h
  | _ :: _, _ :: _, [], h => by simp [AllOK] at h


theorem mem_append3 {α} {a b c d : List α} {x : α} : x ∈ a ++ b ++ c ++ d ↔ x ∈ a ∨ x ∈ b ∨ x ∈ c ∨ x ∈ d := by
  simp

mutual
  theorem evalE_ok : ∀ (s : Src) (st : St), Good st →
      Good (evalE false st s).1 ∧ SetEq (findUps (evalE false st s).2.1) (producers s) ∧
        RowsOK (argSpecs s) (evalE false st s).2.2
    | .lit _, st, g => by
      simp only [evalE, findUps, producers, argSpecs]
      exact ⟨g, SetEq.refl [], rowsOK_nil _⟩
    | .cont items, st, g => by
      obtain ⟨g1, a1, r1⟩ := evalL_ok items st g
      simp only [evalE, findUps, producers, argSpecs]
      exact ⟨g1, allOK_findUpsL a1, r1⟩
    | .call key prov args kwnames kwargs defnames defs, st, g => by
      simp only [evalE]
      split
      · rename_i o hl
        exact ⟨g, g _ o hl, rowsOK_nil _⟩
      · obtain ⟨g1, a1, r1⟩ := evalL_ok args st g
        obtain ⟨g2, a2, r2⟩ := evalL_ok kwargs _ g1
        obtain ⟨_, a3, r3⟩ := evalL_ok defs [] good_nil
        have ho : SetEq (findUps (Obj.task (if prov = true then some key else none)))
            (producers (.call key prov args kwnames kwargs defnames defs)) := by
          cases prov <;> simp [findUps, producers] <;> exact SetEq.refl _
        refine ⟨good_cons g2 ho, ho, ?_⟩
        simp only [argSpecs, Bool.false_eq_true, if_false]
        refine RowsOK.append (RowsOK.append (RowsOK.append ?_ ?_) ?_) ?_
        · exact r1.mono (fun q hq => mem_append3.2 (.inl hq))
        · exact r2.mono (fun q hq => mem_append3.2 (.inr (.inl hq)))
        · exact r3.mono (fun q hq => mem_append3.2 (.inr (.inr (.inl hq))))
        · cases prov
          · exact rowsOK_nil _
          · simp only [if_true]
            refine RowsOK.append (RowsOK.append ?_ ?_) ?_
            · exact (posRows_ok a1).mono (fun q hq => mem_append3.2 (.inr (.inr (.inr (by simp [hq])))))
            · exact (keyRows_ok key kwnames _ _ a2).mono (fun q hq => mem_append3.2 (.inr (.inr (.inr (by simp [hq])))))
            · exact (keyRows_ok key defnames _ _ a3).mono (fun q hq => mem_append3.2 (.inr (.inr (.inr (by simp [hq])))))
    | .op args, st, g => by
      simp only [evalE]
      split
      · rename_i o hl
        exact ⟨g, g _ o hl, rowsOK_nil _⟩
      · obtain ⟨g1, a1, r1⟩ := evalL_ok args st g
        have ho : SetEq (findUps (Obj.other (evalL false st args).2.1)) (producers (.op args)) := by
          simp only [findUps, producers]; exact allOK_findUpsL a1
        exact ⟨good_cons g1 ho, ho, by simpa [argSpecs] using r1⟩
    | .cond c taken a b, st, g => by
      simp only [evalE]
      split
      · rename_i o hl
        simp only [Bool.false_eq_true, if_false]
        exact ⟨g, g _ o hl, rowsOK_nil _⟩
      · obtain ⟨g1, u1, r1⟩ := evalE_ok c st g
        cases taken
        · obtain ⟨g2, u2, r2⟩ := evalE_ok b _ g1
          have ho : SetEq (findUps (Obj.other [(evalE false st c).2.1, unev a, (evalE false (evalE false st c).1 b).2.1]))
              (producers (.cond c false a b)) := by
            simp only [findUps, findUpsL, producers, findUps_unev, nil_append, append_nil, Bool.false_eq_true, if_false]
            exact SetEq.append u1 u2
          refine ⟨good_cons g2 ho, ho, ?_⟩
          simp only [argSpecs, Bool.false_eq_true, if_false]
          exact RowsOK.append (r1.mono (fun q hq => mem_append.2 (.inl hq))) (r2.mono (fun q hq => mem_append.2 (.inr hq)))
        · obtain ⟨g2, u2, r2⟩ := evalE_ok a _ g1
          have ho : SetEq (findUps (Obj.other [(evalE false st c).2.1, (evalE false (evalE false st c).1 a).2.1, unev b]))
              (producers (.cond c true a b)) := by
            simp only [findUps, findUpsL, producers, findUps_unev, append_nil, if_true]
            exact SetEq.append u1 u2
          refine ⟨good_cons g2 ho, ho, ?_⟩
          simp only [argSpecs, if_true]
          exact RowsOK.append (r1.mono (fun q hq => mem_append.2 (.inl hq))) (r2.mono (fun q hq => mem_append.2 (.inr hq)))
    | .catchE e failed recKey, st, g => by
      simp only [evalE]
      split
      · rename_i o hl
        simp only [Bool.false_eq_true, if_false]
        exact ⟨g, g _ o hl, rowsOK_nil _⟩
      · obtain ⟨g1, u1, r1⟩ := evalE_ok e st g
        cases failed
        · simp only [Bool.false_eq_true, if_false]
          have ho : SetEq (findUps (Obj.other [(evalE false st e).2.1])) (producers (.catchE e false recKey)) := by
            simp only [findUps, findUpsL, producers, append_nil, Bool.false_eq_true, if_false]; exact u1
          exact ⟨good_cons g1 ho, ho, by simpa [argSpecs] using r1⟩
        · simp only [if_true]
          have ho : SetEq (findUps (Obj.other [Obj.task (some recKey)])) (producers (.catchE e true recKey)) := by
            simp [findUps, findUpsL, producers]; exact SetEq.refl _
          refine ⟨good_cons g1 ho, ho, ?_⟩
          simp only [argSpecs, if_true]
          refine RowsOK.append (r1.mono (fun q hq => mem_append.2 (.inl hq))) ?_
          intro r hr
          simp only [mem_singleton] at hr
          subst hr
          refine ⟨(recKey, .pos 0, producers e), by simp, rfl, rfl, ?_⟩
          simp only [findUps, findUpsL, append_nil]; exact u1
    | .tags v, st, g => by
      simp only [evalE]
      split
      · rename_i o hl
        simp only [Bool.false_eq_true, if_false]
        exact ⟨g, g _ o hl, rowsOK_nil _⟩
      · obtain ⟨g1, u1, r1⟩ := evalE_ok v st g
        have ho : SetEq (findUps (Obj.other [(evalE false st v).2.1])) (producers (.tags v)) := by
          simp only [findUps, findUpsL, producers, append_nil]; exact u1
        exact ⟨good_cons g1 ho, ho, by simpa [argSpecs] using r1⟩
  theorem evalL_ok : ∀ (ss : List Src) (st : St), Good st →
      Good (evalL false st ss).1 ∧ AllOK (evalL false st ss).2.1 ss ∧ RowsOK (argSpecsL ss) (evalL false st ss).2.2
    | [], st, g => by
      simp only [evalL, AllOK, argSpecsL]
      exact ⟨g, trivial, rowsOK_nil _⟩
    | s :: ss, st, g => by
      obtain ⟨g1, u1, r1⟩ := evalE_ok s st g
      obtain ⟨g2, a2, r2⟩ := evalL_ok ss _ g1
      simp only [evalL, AllOK, argSpecsL]
      exact ⟨g2, ⟨u1, a2⟩, RowsOK.append (r1.mono (fun q hq => mem_append.2 (.inl hq))) (r2.mono (fun q hq => mem_append.2 (.inr hq)))⟩
end


/-- relational reading of `_find_arg_upstreams`: `Reach o k` — call node `k` is reachable from object `o`
through containers and through `_upstreams` of non-task expressions -/
inductive Reach : Obj → Nat → Prop
  | task (k : Nat) : Reach (.task (some k)) k
  | cont {items : List Obj} {o : Obj} {k : Nat} : o ∈ items → Reach o k → Reach (.cont items) k
  | other {ups : List Obj} {o : Obj} {k : Nat} : o ∈ ups → Reach o k → Reach (.other ups) k

mutual
  theorem findUps_sound : ∀ (o : Obj) (k : Nat), k ∈ findUps o → Reach o k
    | .val, k, h => by simp [findUps] at h
    | .cont items, k, h => by
      simp only [findUps] at h
      obtain ⟨o, ho, hr⟩ := findUpsL_sound items k h
      exact .cont ho hr
    | .task c, k, h => by
      cases c with
      | none => simp [findUps] at h
      | some c => simp [findUps] at h; subst h; exact .task _
    | .other ups, k, h => by
      simp only [findUps] at h
      obtain ⟨o, ho, hr⟩ := findUpsL_sound ups k h
      exact .other ho hr
  theorem findUpsL_sound : ∀ (os : List Obj) (k : Nat), k ∈ findUpsL os → ∃ o ∈ os, Reach o k
    | [], k, h => by simp [findUpsL] at h
    | o :: os, k, h => by
      simp only [findUpsL, mem_append] at h
      rcases h with h | h
      · exact ⟨o, by simp, findUps_sound o k h⟩
      · obtain ⟨o', ho', hr⟩ := findUpsL_sound os k h
        exact ⟨o', by simp [ho'], hr⟩
end

theorem mem_findUpsL {os : List Obj} {o : Obj} {k : Nat} (ho : o ∈ os) (hk : k ∈ findUps o) : k ∈ findUpsL os := by
  induction os with
  | nil => simp at ho
  | cons x xs ih =>
    simp only [findUpsL, mem_append]
    rcases mem_cons.1 ho with rfl | h
    · exact .inl hk
    · exact .inr (ih h)

theorem findUps_complete {o : Obj} {k : Nat} (h : Reach o k) : k ∈ findUps o := by
  induction h with
  | task k => simp [findUps]
  | cont ho _ ih => simp only [findUps]; exact mem_findUpsL ho ih
  | other ho _ ih => simp only [findUps]; exact mem_findUpsL ho ih

/-! the code before the repairs agrees with the repaired code on expressions without scheduler tasks -/
mutual
  theorem legacy_same : ∀ (s : Src) (st : St), schedFree s = true →
      (evalE true st s).1 = (evalE false st s).1 ∧ (evalE true st s).2.1 = (evalE false st s).2.1
    | .lit _, st, _ => by simp [evalE]
    | .cont items, st, h => by
      simp only [schedFree] at h
      have := legacy_sameL items st h
      simp only [evalE]; exact ⟨this.1, by rw [this.2]⟩
    | .call key prov args kwnames kwargs defnames defs, st, h => by
      simp only [schedFree, Bool.and_eq_true] at h
      have h1 := legacy_sameL args st h.1.1
      have h2 := legacy_sameL kwargs (evalL false st args).1 h.1.2
      simp only [evalE]
      split
      · exact ⟨rfl, rfl⟩
      · simp only [h1.1, h2.1]; exact ⟨trivial, trivial⟩
    | .op args, st, h => by
      simp only [schedFree] at h
      have h1 := legacy_sameL args st h
      simp only [evalE]
      split
      · exact ⟨rfl, rfl⟩
      · simp only [h1.1, h1.2]; exact ⟨trivial, trivial⟩
    | .cond .., _, h => by simp [schedFree] at h
    | .catchE .., _, h => by simp [schedFree] at h
    | .tags _, _, h => by simp [schedFree] at h
  theorem legacy_sameL : ∀ (ss : List Src) (st : St), schedFreeL ss = true →
      (evalL true st ss).1 = (evalL false st ss).1 ∧ (evalL true st ss).2.1 = (evalL false st ss).2.1
    | [], st, _ => by simp [evalL]
    | s :: ss, st, h => by
      simp only [schedFreeL, Bool.and_eq_true] at h
      have h1 := legacy_same s st h.1
      have h2 := legacy_sameL ss (evalE false st s).1 h.2
      simp only [evalL, h1.1, h1.2, h2.1, h2.2]; exact ⟨trivial, trivial⟩
end


/-! completeness of the rows of one call -/
theorem posRows_complete_aux (key : Nat) : ∀ (os : List Obj) (ss : List Src) (n : Nat), AllOK os ss →
    ∀ q ∈ (ss.zipIdx n).map (fun p => ((key, Slot.pos p.2, producers p.1) : Nat × Slot × List Nat)),
      ∃ r ∈ (os.zipIdx n).map (fun p => ({ call := key, slot := .pos p.2, ups := findUps p.1 } : Row)),
        r.call = q.1 ∧ r.slot = q.2.1 ∧ SetEq r.ups q.2.2
  | [], [], _, _, q, hq => by simp at hq
  | o :: os, s :: ss, n, h, q, hq => by
    simp only [zipIdx_cons, map_cons, mem_cons] at hq
    rcases hq with rfl | hq
    · exact ⟨{ call := key, slot := .pos n, ups := findUps o }, by simp, rfl, rfl, h.1⟩
    · obtain ⟨r, hr, h1⟩ := posRows_complete_aux key os ss (n + 1) h.2 q hq
      exact ⟨r, by simp only [zipIdx_cons, map_cons, mem_cons]; exact .inr hr, h1⟩
  | [], _ :: _, _, h, _, _ => by simp [AllOK] at h
  | _ :: _, [], _, h, _, _ => by simp [AllOK] at h

theorem keyRows_complete (key : Nat) : ∀ (names : List Nat) (os : List Obj) (ss : List Src), AllOK os ss →
    ∀ q ∈ keySpecs key names ss, ∃ r ∈ keyRows key names os, r.call = q.1 ∧ r.slot = q.2.1 ∧ SetEq r.ups q.2.2
  | [], _, _, _ => by intro q hq; simp [keySpecs] at hq
  | _ :: _, [], [], _ => by intro q hq; simp [keySpecs] at hq
  | n :: ns, o :: os, s :: ss, h => by
    intro q hq
    simp only [keySpecs, zip_cons_cons, map_cons, mem_cons] at hq
    rcases hq with rfl | hq
    · exact ⟨{ call := key, slot := .key n, ups := findUps o }, by simp [keyRows], rfl, rfl, h.1⟩
    · obtain ⟨r, hr, h1⟩ := keyRows_complete key ns os ss h.2 q hq
      exact ⟨r, by simp only [keyRows, zip_cons_cons, map_cons, mem_cons]; exact .inr hr, h1⟩
  | _ :: _, [], _ :: _, h => by simp [AllOK] at h
  | _ :: _, _ :: _, [], h => by simp [AllOK] at h

end RedunModel.Upstreams
