/-
Lemmas for the upstream-dataflow model (C21).
-/
import RedunModel.Model.Upstreams
namespace RedunModel.Upstreams
open List

mutual
  /-- structural equality test is sound (equal expression hashes = equal expressions, in the model) -/
  theorem beq_eq : ∀ (x y : Src), Src.beq x y = true → x = y
    | .lit a, .lit b, h => by simp only [Src.beq, beq_iff_eq] at h; rw [h]
    | .lit _, .cont _, h => by simp [Src.beq] at h
    | .lit _, .call .., h => by simp [Src.beq] at h
    | .lit _, .op _, h => by simp [Src.beq] at h
    | .lit _, .cond .., h => by simp [Src.beq] at h
    | .lit _, .catchE .., h => by simp [Src.beq] at h
    | .lit _, .tags _, h => by simp [Src.beq] at h
    | .cont _, .lit _, h => by simp [Src.beq] at h
    | .cont a, .cont b, h => by simp only [Src.beq] at h; rw [beqL_eq a b h]
    | .cont _, .call .., h => by simp [Src.beq] at h
    | .cont _, .op _, h => by simp [Src.beq] at h
    | .cont _, .cond .., h => by simp [Src.beq] at h
    | .cont _, .catchE .., h => by simp [Src.beq] at h
    | .cont _, .tags _, h => by simp [Src.beq] at h
    | .call .., .lit _, h => by simp [Src.beq] at h
    | .call .., .cont _, h => by simp [Src.beq] at h
    | .call k p a kn ka dn d, .call k' p' a' kn' ka' dn' d', h => by
      simp only [Src.beq, Bool.and_eq_true, beq_iff_eq] at h
      obtain ⟨⟨⟨⟨⟨⟨h1, h2⟩, h3⟩, h4⟩, h5⟩, h6⟩, h7⟩ := h
      rw [h1, h2, beqL_eq a a' h3, h4, beqL_eq ka ka' h5, h6, beqL_eq d d' h7]
    | .call .., .op _, h => by simp [Src.beq] at h
    | .call .., .cond .., h => by simp [Src.beq] at h
    | .call .., .catchE .., h => by simp [Src.beq] at h
    | .call .., .tags _, h => by simp [Src.beq] at h
    | .op _, .lit _, h => by simp [Src.beq] at h
    | .op _, .cont _, h => by simp [Src.beq] at h
    | .op _, .call .., h => by simp [Src.beq] at h
    | .op a, .op b, h => by simp only [Src.beq] at h; rw [beqL_eq a b h]
    | .op _, .cond .., h => by simp [Src.beq] at h
    | .op _, .catchE .., h => by simp [Src.beq] at h
    | .op _, .tags _, h => by simp [Src.beq] at h
    | .cond .., .lit _, h => by simp [Src.beq] at h
    | .cond .., .cont _, h => by simp [Src.beq] at h
    | .cond .., .call .., h => by simp [Src.beq] at h
    | .cond .., .op _, h => by simp [Src.beq] at h
    | .cond c t a b, .cond c' t' a' b', h => by
      simp only [Src.beq, Bool.and_eq_true, beq_iff_eq] at h
      obtain ⟨⟨⟨h1, h2⟩, h3⟩, h4⟩ := h
      rw [beq_eq c c' h1, h2, beq_eq a a' h3, beq_eq b b' h4]
    | .cond .., .catchE .., h => by simp [Src.beq] at h
    | .cond .., .tags _, h => by simp [Src.beq] at h
    | .catchE .., .lit _, h => by simp [Src.beq] at h
    | .catchE .., .cont _, h => by simp [Src.beq] at h
    | .catchE .., .call .., h => by simp [Src.beq] at h
    | .catchE .., .op _, h => by simp [Src.beq] at h
    | .catchE .., .cond .., h => by simp [Src.beq] at h
    | .catchE e f r, .catchE e' f' r', h => by
      simp only [Src.beq, Bool.and_eq_true, beq_iff_eq] at h
      obtain ⟨⟨h1, h2⟩, h3⟩ := h
      rw [beq_eq e e' h1, h2, h3]
    | .catchE .., .tags _, h => by simp [Src.beq] at h
    | .tags _, .lit _, h => by simp [Src.beq] at h
    | .tags _, .cont _, h => by simp [Src.beq] at h
    | .tags _, .call .., h => by simp [Src.beq] at h
    | .tags _, .op _, h => by simp [Src.beq] at h
    | .tags _, .cond .., h => by simp [Src.beq] at h
    | .tags _, .catchE .., h => by simp [Src.beq] at h
    | .tags v, .tags v', h => by simp only [Src.beq] at h; rw [beq_eq v v' h]
  theorem beqL_eq : ∀ (x y : List Src), Src.beqL x y = true → x = y
    | [], [], _ => rfl
    | [], _ :: _, h => by simp [Src.beqL] at h
    | _ :: _, [], h => by simp [Src.beqL] at h
    | x :: xs, y :: ys, h => by
      simp only [Src.beqL, Bool.and_eq_true] at h
      rw [beq_eq x y h.1, beqL_eq xs ys h.2]
end

/-- same set of upstream call nodes (`set(self._find_arg_upstreams(expr_arg))`) -/
def SetEq (a b : List Nat) : Prop := ∀ x, x ∈ a ↔ x ∈ b

theorem SetEq.refl (a : List Nat) : SetEq a a := fun _ => Iff.rfl
theorem SetEq.append {a b c d : List Nat} (h1 : SetEq a c) (h2 : SetEq b d) : SetEq (a ++ b) (c ++ d) := by
  intro x; simp only [mem_append]; rw [h1 x, h2 x]
theorem SetEq.nil_append {b d : List Nat} (h2 : SetEq b d) : SetEq ([] ++ b) d := by simpa using h2

mutual
  theorem findUps_unev : ∀ s : Src, findUps (unev s) = []
    | .lit _ => by simp [unev, findUps]
    | .cont items => by simp [unev, findUps, findUpsL_unevL items]
    | .call .. => by simp [unev, findUps]
    | .op args => by simp [unev, findUps, findUpsL_unevL args]
    | .cond c _ a b => by simp [unev, findUps, findUpsL, findUps_unev c, findUps_unev a, findUps_unev b]
    | .catchE e _ _ => by simp [unev, findUps, findUpsL, findUps_unev e]
    | .tags v => by simp [unev, findUps, findUpsL, findUps_unev v]
  theorem findUpsL_unevL : ∀ ss : List Src, findUpsL (unevL ss) = []
    | [] => by simp [unevL, findUpsL]
    | s :: ss => by simp [unevL, findUpsL, findUps_unev s, findUpsL_unevL ss]
end

/-- every registered object yields exactly the producers of the expression it was registered for -/
def Good (st : St) : Prop := ∀ s o, lookup st s = some o → SetEq (findUps o) (producers s)

theorem good_nil : Good [] := by intro s o h; simp [lookup] at h

theorem good_cons {st : St} {s : Src} {o : Obj} (g : Good st) (h : SetEq (findUps o) (producers s)) :
    Good ((s, o) :: st) := by
  intro s' o' hl
  simp only [lookup] at hl
  split at hl
  · rename_i hb
    injection hl with hl
    rw [← beq_eq s s' hb, ← hl]; exact h
  · exact g s' o' hl

/-- objects and expressions, element by element -/
def AllOK : List Obj → List Src → Prop
  | [], [] => True
  | o :: os, s :: ss => SetEq (findUps o) (producers s) ∧ AllOK os ss
  | _, _ => False

theorem allOK_findUpsL : ∀ {os : List Obj} {ss : List Src}, AllOK os ss → SetEq (findUpsL os) (producersL ss)
  | [], [], _ => by simp [findUpsL, producersL]; exact SetEq.refl []
  | o :: os, s :: ss, h => by
    simp only [findUpsL, producersL]
    exact SetEq.append h.1 (allOK_findUpsL h.2)
  | [], _ :: _, h => by simp [AllOK] at h
  | _ :: _, [], h => by simp [AllOK] at h

/-- a recorded row is right: some specified entry has the same call, slot and upstream set -/
def RowOK (specs : List (Nat × Slot × List Nat)) (r : Row) : Prop :=
  ∃ q ∈ specs, q.1 = r.call ∧ q.2.1 = r.slot ∧ SetEq r.ups q.2.2

def RowsOK (specs : List (Nat × Slot × List Nat)) (rows : List Row) : Prop := ∀ r ∈ rows, RowOK specs r

theorem RowsOK.mono {a b : List (Nat × Slot × List Nat)} {rows : List Row} (h : RowsOK a rows)
    (hs : ∀ q ∈ a, q ∈ b) : RowsOK b rows := by
  intro r hr
  obtain ⟨q, hq, h1⟩ := h r hr
  exact ⟨q, hs q hq, h1⟩

theorem RowsOK.append {a : List (Nat × Slot × List Nat)} {r1 r2 : List Row} (h1 : RowsOK a r1) (h2 : RowsOK a r2) :
    RowsOK a (r1 ++ r2) := by
  intro r hr
  rcases mem_append.1 hr with h | h
  · exact h1 r h
  · exact h2 r h

theorem rowsOK_nil (a : List (Nat × Slot × List Nat)) : RowsOK a [] := by intro r hr; simp at hr

theorem posRows_ok_aux (key : Nat) : ∀ (os : List Obj) (ss : List Src) (n : Nat), AllOK os ss →
    ∀ r ∈ (os.zipIdx n).map (fun p => ({ call := key, slot := .pos p.2, ups := findUps p.1 } : Row)),
      ∃ q ∈ (ss.zipIdx n).map (fun p => ((key, Slot.pos p.2, producers p.1) : Nat × Slot × List Nat)),
        q.1 = r.call ∧ q.2.1 = r.slot ∧ SetEq r.ups q.2.2
  | [], [], _, _, r, hr => by simp at hr
  | o :: os, s :: ss, n, h, r, hr => by
    simp only [zipIdx_cons, map_cons, mem_cons] at hr
    rcases hr with rfl | hr
    · exact ⟨(key, .pos n, producers s), by simp, rfl, rfl, h.1⟩
    · obtain ⟨q, hq, h1⟩ := posRows_ok_aux key os ss (n + 1) h.2 r hr
      exact ⟨q, by simp only [zipIdx_cons, map_cons, mem_cons]; exact .inr hq, h1⟩
  | [], _ :: _, _, h, _, _ => by simp [AllOK] at h
  | _ :: _, [], _, h, _, _ => by simp [AllOK] at h

theorem posRows_ok {key : Nat} {os : List Obj} {ss : List Src} (h : AllOK os ss) :
    RowsOK (posSpecs key ss) (posRows key os) := posRows_ok_aux key os ss 0 h

theorem keyRows_ok (key : Nat) : ∀ (names : List Nat) (os : List Obj) (ss : List Src), AllOK os ss →
    RowsOK (keySpecs key names ss) (keyRows key names os)
  | [], _, _, _ => by intro r hr; simp [keyRows] at hr
  | _ :: _, [], [], _ => by intro r hr; simp [keyRows] at hr
  | n :: ns, o :: os, s :: ss, h => by
    intro r hr
    simp only [keyRows, zip_cons_cons, map_cons, mem_cons] at hr
    rcases hr with rfl | hr
    · exact ⟨(key, .key n, producers s), by simp [keySpecs], rfl, rfl, h.1⟩
    · obtain ⟨q, hq, h1⟩ := keyRows_ok key ns os ss h.2 r hr
      exact ⟨q, by simp only [keySpecs, zip_cons_cons, map_cons, mem_cons]; exact .inr hq, h1⟩
  | _ :: _, [], _ :: _, h => by simp [AllOK] at h
  | _ :: _, _ :: _, [], h => by simp [AllOK] at h


end RedunModel.Upstreams
