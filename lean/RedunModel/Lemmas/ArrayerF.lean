import RedunModel.Lemmas.ArrayerB
namespace RedunModel.Arrayer

def prePop : MPc → Bool
  | .m127 | .p183 | .p184 => true
  | _ => false

def scanIter : MPc → Bool
  | .g175b | .g176 | .g174 | .g173b => true
  | _ => false

/-- keys the running comprehension has selected, holds, or has still to visit -/
def scanList (m : Mon) : List Nat :=
  match m.pc with
  | .g175b | .g176 | .g174 => m.acc ++ m.descr :: m.iterRest
  | _ => m.acc ++ m.iterRest

/-- the stale list handed from `get_stale_descrs` to the submit loop: distinct keys of `pending` -/
structure InvF (s : State) : Prop where
  stalesIn : ∀ d ∈ s.mon.stales, (dget s.pending d).isSome
  stalesNodup : s.mon.stales.Nodup
  curOk : prePop s.mon.pc = true → s.mon.descr ∉ s.mon.stales ∧ (dget s.pending s.mon.descr).isSome
  scanL : scanIter s.mon.pc = true → (scanList s.mon).Nodup ∧ ∀ d ∈ scanList s.mon, (dget s.pending d).isSome

theorem invF_init (jobs : List Job) : InvF (init jobs) := by
  unfold init; split <;> constructor <;> simp [prePop, scanIter]

set_option maxHeartbeats 2000000 in
theorem invF_stepS (c : Cfg) (p : Params) (s s' : State) (hA : InvA c s) (h : InvF s) (hs : stepS p s = some s') : InvF s' := by
  obtain ⟨pending, stamps, num, lock, clock, submitted, errors, added, started, ⟨apc, cur, todo⟩, mon⟩ := s
  obtain ⟨hS, hM, lS, lM, c1, c2, c3, sp⟩ := hA
  obtain ⟨si, sn, co, sl⟩ := h
  simp only at hS hM lS lM c1 c2 c3 sp si sn co sl
  cases apc <;> simp only [stepS] at hs <;> (try split at hs) <;> simp at hs <;> (try subst hs)
  all_goals (constructor <;> simp only [] at * )
  all_goals first
    | assumption
    | grind [dget_dset, prePop, scanIter, scanList, monAlive]

theorem dkeys_all_some {α : Type} (d : Dict α) : ∀ k ∈ dkeys d, (dget d k).isSome := by
  intro k hk; exact (dget_isSome_iff_mem d k).2 hk

set_option maxHeartbeats 4000000 in
theorem invF_stepM (c : Cfg) (p : Params) (s s' : State) (hB : InvB s) (h : InvF s)
    (hs : stepM c p s = some s') : InvF s' := by
  obtain ⟨pending, stamps, num, lock, clock, submitted, errors, added, started, ad, ⟨mpc, currtime, iterUsed, iterRest, descr, isStale, acc, stales, jobs', remainder, timestamp, loopJobs, job, decRead, err⟩⟩ := s
  obtain ⟨kn, st, a5⟩ := hB
  obtain ⟨si, sn, co, sl⟩ := h
  have hk := dkeys_all_some pending
  simp only at kn st a5 si sn co sl
  cases mpc <;> simp only [stepM, iterNext, afterScan, afterScanErr, decEntry] at hs <;> (try split at hs) <;> (try split at hs) <;> simp at hs <;> (try subst hs)
  all_goals (constructor <;> simp only [prePop, scanIter, scanList] at * )
  all_goals first
    | assumption
    | grind [dget_dset, dget_derase, List.nodup_append, List.nodup_cons]

/-! ### no monitor error when the scan runs under the lock -/
def errPc : MPc → Bool
  | .g173e | .gUnlockE | .p183xE | .m128 | .m132 | .mExit | .dead => true
  | _ => false

structure InvN (s : State) : Prop where
  noErrPc : errPc s.mon.pc = false
  noErrs : s.errors = []
  iterOk : scanIter s.mon.pc = true → s.pending.length = s.mon.iterUsed

theorem holdsM_of_scanIter (c : Cfg) (pc : MPc) (h : scanIter pc = true) : holdsM c pc = c.lockScan := by
  cases pc <;> simp_all [scanIter, holdsM]

theorem errPc_m122 : errPc .m122 = false := rfl
theorem scanIter_m122 : scanIter .m122 = false := rfl

theorem invN_init (jobs : List Job) : InvN (init jobs) := by
  unfold init; split <;> constructor <;> simp [errPc, scanIter]

set_option maxHeartbeats 2000000 in
theorem invN_stepS (c : Cfg) (hc : c.lockScan = true) (p : Params) (s s' : State) (hA : InvA c s) (h : InvN s)
    (hs : stepS p s = some s') : InvN s' := by
  obtain ⟨pending, stamps, num, lock, clock, submitted, errors, added, started, ⟨apc, cur, todo⟩, mon⟩ := s
  obtain ⟨hS, hM, lS, lM, c1, c2, c3, sp⟩ := hA
  obtain ⟨ne, nr, io⟩ := h
  simp only at hS hM lS lM c1 c2 c3 sp ne nr io
  cases apc <;> simp only [stepS] at hs <;> (try split at hs) <;> simp at hs <;> (try subst hs)
  all_goals (constructor <;> simp only [holdsS, errPc_m122, scanIter_m122] at * )
  all_goals first
    | assumption
    | grind [holdsM_of_scanIter, monAlive]

set_option maxHeartbeats 4000000 in
theorem invN_stepM (c : Cfg) (hc : c.lockScan = true) (p : Params) (s s' : State) (hA : InvA c s) (hB : InvB s)
    (hF : InvF s) (h : InvN s) (hs : stepM c p s = some s') : InvN s' := by
  obtain ⟨pending, stamps, num, lock, clock, submitted, errors, added, started, ⟨apc, cur, todo⟩, ⟨mpc, currtime, iterUsed, iterRest, descr, isStale, acc, stales, jobs', remainder, timestamp, loopJobs, job, decRead, err⟩⟩ := s
  obtain ⟨hS, hM, lS, lM, c1, c2, c3, sp⟩ := hA
  obtain ⟨kn, st, a5⟩ := hB
  obtain ⟨si, sn, co, sl⟩ := hF
  obtain ⟨ne, nr, io⟩ := h
  simp only at hS hM lS lM c1 c2 c3 sp kn st a5 si sn co sl ne nr io
  cases mpc <;> simp only [stepM, iterNext, afterScan, afterScanErr, decEntry] at hs <;> (try split at hs) <;> (try split at hs) <;> simp at hs <;> (try subst hs)
  all_goals (constructor <;> simp only [holdsM, prePop, scanIter, scanList, errPc] at * )
  all_goals first
    | assumption
    | grind [holdsS]
end RedunModel.Arrayer
