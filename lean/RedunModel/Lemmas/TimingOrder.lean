/-
A concrete total order on the call-hash pre-images of the timing model (C07), so that the hypothesis
`TotalOrder le` of the theorems is inhabited (`structuralOrder`), and the order the driver sorts with.
The real code sorts by hex digest; the theorems hold for every total order.
-/
import RedunModel.Model.Timing
namespace RedunModel.Timing

/-- what makes a three-way comparison a strict total order -/
structure LawfulCmp {α : Type} (cmp : α → α → Ordering) : Prop where
  eq : ∀ a b, cmp a b = .eq → a = b
  swap : ∀ a b, (cmp a b).swap = cmp b a
  lt_trans : ∀ a b c, cmp a b = .lt → cmp b c = .lt → cmp a c = .lt

theorem LawfulCmp.refl {α : Type} {cmp : α → α → Ordering} (h : LawfulCmp cmp) (a : α) : cmp a a = .eq := by
  have := h.swap a a
  cases hc : cmp a a <;> simp [hc] at this ⊢

theorem lawful_cmpList {α : Type} {cmp : α → α → Ordering} (h : LawfulCmp cmp) : LawfulCmp (cmpList cmp) where
  eq := by
    intro a
    induction a with
    | nil => intro b hb; cases b <;> simp [cmpList] at hb ⊢
    | cons x xs ih =>
      intro b hb
      cases b with
      | nil => simp [cmpList] at hb
      | cons y ys =>
        simp only [cmpList, Ordering.then_eq_eq] at hb
        rw [h.eq x y hb.1, ih ys hb.2]
  swap := by
    intro a
    induction a with
    | nil => intro b; cases b <;> rfl
    | cons x xs ih =>
      intro b
      cases b with
      | nil => rfl
      | cons y ys => simp only [cmpList, Ordering.swap_then, h.swap x y, ih ys]
  lt_trans := by
    intro a
    induction a with
    | nil =>
      intro b c h1 h2
      cases b with
      | nil => simp [cmpList] at h1
      | cons y ys => cases c <;> simp [cmpList] at h2 ⊢
    | cons x xs ih =>
      intro b c h1 h2
      cases b with
      | nil => simp [cmpList] at h1
      | cons y ys =>
        cases c with
        | nil => simp [cmpList] at h2
        | cons z zs =>
          simp only [cmpList, Ordering.then_eq_lt] at h1 h2 ⊢
          rcases h1 with h1 | ⟨h1, h1'⟩ <;> rcases h2 with h2 | ⟨h2, h2'⟩
          · exact .inl (h.lt_trans x y z h1 h2)
          · rw [← h.eq y z h2]; exact .inl h1
          · rw [h.eq x y h1]; exact .inl h2
          · rw [h.eq x y h1]; exact .inr ⟨h2, ih ys zs h1' h2'⟩

theorem lawful_cmpProd {α β : Type} {c1 : α → α → Ordering} {c2 : β → β → Ordering} (h1 : LawfulCmp c1)
    (h2 : LawfulCmp c2) : LawfulCmp (cmpProd c1 c2) where
  eq := by
    intro a b h
    simp only [cmpProd, Ordering.then_eq_eq] at h
    exact Prod.ext (h1.eq _ _ h.1) (h2.eq _ _ h.2)
  swap := by
    intro a b
    simp only [cmpProd, Ordering.swap_then, h1.swap, h2.swap]
  lt_trans := by
    intro a b c ha hb
    simp only [cmpProd, Ordering.then_eq_lt] at ha hb ⊢
    rcases ha with ha | ⟨ha, ha'⟩ <;> rcases hb with hb | ⟨hb, hb'⟩
    · exact .inl (h1.lt_trans _ _ _ ha hb)
    · rw [← h1.eq _ _ hb]; exact .inl ha
    · rw [h1.eq _ _ ha]; exact .inl hb
    · rw [h1.eq _ _ ha]; exact .inr ⟨hb, h2.lt_trans _ _ _ ha' hb'⟩

theorem lawful_nat : LawfulCmp (compare : Nat → Nat → Ordering) where
  eq := fun a b h => Nat.compare_eq_eq.1 h
  swap := by
    intro a b
    rcases Nat.lt_trichotomy a b with h | h | h
    · rw [Nat.compare_eq_lt.2 h, Nat.compare_eq_gt.2 h]; rfl
    · subst h; simp
    · rw [Nat.compare_eq_gt.2 h, Nat.compare_eq_lt.2 h]; rfl
  lt_trans := by
    intro a b c h1 h2
    rw [Nat.compare_eq_lt] at *
    omega

/-- order induced by an injective map into an ordered type -/
theorem lawful_of_inj {α β : Type} {cmp : β → β → Ordering} (h : LawfulCmp cmp) (f : α → β)
    (hf : ∀ a b, f a = f b → a = b) : LawfulCmp (fun a b => cmp (f a) (f b)) where
  eq := fun a b he => hf a b (h.eq _ _ he)
  swap := fun _ _ => h.swap _ _
  lt_trans := fun _ _ _ => h.lt_trans _ _ _

/-! ### value hashes as frame lists -/

theorem encInt_inj {a b : Int} (h : encInt a = encInt b) : a = b := by
  unfold encInt at h
  split at h <;> split at h <;> omega

theorem frames_ne_nil (v : HV) : frames v ≠ [] := by cases v <;> simp [frames]

theorem frames_inj : ∀ (a b : HV), frames a = frames b → a = b := by
  intro a
  induction a with
  | int z =>
    intro b h
    cases b with
    | int z' => simp only [frames, List.cons.injEq, Prod.mk.injEq, and_true, true_and] at h; rw [encInt_inj h]
    | hinit n k => simp [frames] at h
    | hfork n k p => simp only [frames, List.cons.injEq, Prod.mk.injEq] at h; omega
    | happly n t x z' => simp only [frames, List.cons.injEq, Prod.mk.injEq] at h; omega
  | hinit n k =>
    intro b h
    cases b with
    | int z' => simp [frames] at h
    | hinit n' k' => simp only [frames, List.cons.injEq, Prod.mk.injEq, and_true, true_and] at h; rw [h.1, h.2]
    | hfork n' k' p => simp only [frames, List.cons.injEq, Prod.mk.injEq] at h; omega
    | happly n' t x z' => simp only [frames, List.cons.injEq, Prod.mk.injEq] at h; omega
  | hfork n k p ih =>
    intro b h
    cases b with
    | int z' => simp only [frames, List.cons.injEq, Prod.mk.injEq] at h; omega
    | hinit n' k' => simp only [frames, List.cons.injEq, Prod.mk.injEq] at h; omega
    | hfork n' k' p' =>
      simp only [frames, List.cons.injEq, Prod.mk.injEq, and_true, true_and] at h
      rw [h.1.1, h.1.2, ih p' h.2]
    | happly n' t x z' => simp only [frames, List.cons.injEq, Prod.mk.injEq] at h; omega
  | happly n t x z ih =>
    intro b h
    cases b with
    | int z' => simp only [frames, List.cons.injEq, Prod.mk.injEq] at h; omega
    | hinit n' k' => simp only [frames, List.cons.injEq, Prod.mk.injEq] at h; omega
    | hfork n' k' p' => simp only [frames, List.cons.injEq, Prod.mk.injEq] at h; omega
    | happly n' t' x' z' =>
      simp only [frames, List.cons.injEq, Prod.mk.injEq, true_and] at h
      obtain ⟨⟨rfl, rfl, hz⟩, hx⟩ := h
      rw [encInt_inj hz, ih x' hx]

theorem lawful_cmpFrame : LawfulCmp cmpFrame :=
  lawful_cmpProd lawful_nat (lawful_cmpProd lawful_nat (lawful_cmpProd lawful_nat lawful_nat))

theorem lawful_cmpHV : LawfulCmp cmpHV := lawful_of_inj (lawful_cmpList lawful_cmpFrame) frames frames_inj

theorem lawful_cmpAtom : LawfulCmp cmpAtom :=
  lawful_cmpProd lawful_nat (lawful_cmpProd (lawful_cmpList lawful_cmpHV) lawful_cmpHV)

/-! ### the order on call hashes -/

mutual
  theorem H.cmp_eq : ∀ (a b : H), H.cmp a b = .eq → a = b
    | .call t a r k, .call t' a' r' k', h => by
      simp only [H.cmp, Ordering.then_eq_eq] at h
      have := lawful_cmpAtom.eq _ _ h.1
      simp only [Prod.mk.injEq] at this
      obtain ⟨rfl, rfl, rfl⟩ := this
      rw [H.cmpL_eq k k' h.2]
  theorem H.cmpL_eq : ∀ (a b : List H), H.cmpL a b = .eq → a = b
    | [], [], _ => rfl
    | [], _ :: _, h => by simp [H.cmpL] at h
    | _ :: _, [], h => by simp [H.cmpL] at h
    | x :: xs, y :: ys, h => by
      simp only [H.cmpL, Ordering.then_eq_eq] at h
      rw [H.cmp_eq x y h.1, H.cmpL_eq xs ys h.2]
end

mutual
  theorem H.cmp_swap : ∀ (a b : H), (H.cmp a b).swap = H.cmp b a
    | .call t a r k, .call t' a' r' k' => by
      simp only [H.cmp, Ordering.swap_then, lawful_cmpAtom.swap, H.cmpL_swap k k']
  theorem H.cmpL_swap : ∀ (a b : List H), (H.cmpL a b).swap = H.cmpL b a
    | [], [] => rfl
    | [], _ :: _ => rfl
    | _ :: _, [] => rfl
    | x :: xs, y :: ys => by simp only [H.cmpL, Ordering.swap_then, H.cmp_swap x y, H.cmpL_swap xs ys]
end

mutual
  theorem H.cmp_lt_trans : ∀ (a b c : H), H.cmp a b = .lt → H.cmp b c = .lt → H.cmp a c = .lt
    | .call t1 a1 r1 k1, .call t2 a2 r2 k2, .call t3 a3 r3 k3, h1, h2 => by
      simp only [H.cmp, Ordering.then_eq_lt] at h1 h2 ⊢
      rcases h1 with h1 | ⟨h1, h1'⟩ <;> rcases h2 with h2 | ⟨h2, h2'⟩
      · exact .inl (lawful_cmpAtom.lt_trans _ _ _ h1 h2)
      · rw [← lawful_cmpAtom.eq _ _ h2]; exact .inl h1
      · rw [lawful_cmpAtom.eq _ _ h1]; exact .inl h2
      · rw [lawful_cmpAtom.eq _ _ h1]; exact .inr ⟨h2, H.cmpL_lt_trans k1 k2 k3 h1' h2'⟩
  theorem H.cmpL_lt_trans : ∀ (a b c : List H), H.cmpL a b = .lt → H.cmpL b c = .lt → H.cmpL a c = .lt
    | [], [], _, h1, _ => by simp [H.cmpL] at h1
    | [], _ :: _, [], _, h2 => by simp [H.cmpL] at h2
    | [], _ :: _, _ :: _, _, _ => by simp [H.cmpL]
    | _ :: _, [], _, h1, _ => by simp [H.cmpL] at h1
    | _ :: _, _ :: _, [], _, h2 => by simp [H.cmpL] at h2
    | x :: xs, y :: ys, z :: zs, h1, h2 => by
      simp only [H.cmpL, Ordering.then_eq_lt] at h1 h2 ⊢
      rcases h1 with h1 | ⟨h1, h1'⟩ <;> rcases h2 with h2 | ⟨h2, h2'⟩
      · exact .inl (H.cmp_lt_trans x y z h1 h2)
      · rw [← H.cmp_eq y z h2]; exact .inl h1
      · rw [H.cmp_eq x y h1]; exact .inl h2
      · rw [H.cmp_eq x y h1]; exact .inr ⟨h2, H.cmpL_lt_trans xs ys zs h1' h2'⟩
end

theorem lawful_cmpH : LawfulCmp H.cmp := ⟨H.cmp_eq, H.cmp_swap, H.cmp_lt_trans⟩

theorem totalOrder_of_lawful {cmp : H → H → Ordering} (h : LawfulCmp cmp) : TotalOrder (fun a b => cmp a b != .gt) where
  total := by
    intro a b
    have := h.swap a b
    cases hc : cmp a b <;> simp [hc] at this ⊢ <;> simp [← this]
  antisymm := by
    intro a b h1 h2
    have := h.swap a b
    apply h.eq
    cases hc : cmp a b <;> simp [hc] at this h1 h2 ⊢
    simp [← this] at h2
  trans := by
    intro a b c h1 h2
    cases hab : cmp a b
    · cases hbc : cmp b c
      · simp [h.lt_trans a b c hab hbc]
      · rw [← h.eq b c hbc]; simp [hab]
      · simp [hbc] at h2
    · rw [h.eq a b hab]; exact h2
    · simp [hab] at h1

/-- the hypothesis of the C07 theorems is inhabited -/
theorem structuralOrder : TotalOrder H.le := totalOrder_of_lawful lawful_cmpH

end RedunModel.Timing
