/-
Lemmas about the `_pending_expr` model (Model/ExprMemo.lean).  Core Lean only.
-/
import RedunModel.Model.ExprMemo
namespace RedunModel.ExprMemo

abbrev Ent := (Nat × Nat) × Nat

def lk (es : List Ent) (k : Nat × Nat) : Option Nat := (es.find? (fun e => e.1 == k)).map (·.2)

theorem lookup_eq (t : Tables) (k : Nat × Nat) : lookup t k = lk t.entries k := rfl

theorem lk_cons (e : Ent) (es : List Ent) (k : Nat × Nat) :
    lk (e :: es) k = if e.1 = k then some e.2 else lk es k := by
  unfold lk
  by_cases h : e.1 = k
  · simp [List.find?_cons, h]
  · simp [List.find?_cons, h]

theorem lk_some_mem {es : List Ent} {k : Nat × Nat} {i : Nat} (h : lk es k = some i) : (k, i) ∈ es := by
  induction es with
  | nil => simp [lk] at h
  | cons e es ih =>
    rw [lk_cons] at h
    by_cases hk : e.1 = k
    · simp [hk] at h
      have : e = (k, i) := by cases e; simp_all
      simp [this]
    · simp [hk] at h
      exact List.mem_cons_of_mem _ (ih h)

theorem lk_none_not_mem {es : List Ent} {k : Nat × Nat} (h : lk es k = none) (i : Nat) : (k, i) ∉ es := by
  induction es with
  | nil => simp
  | cons e es ih =>
    rw [lk_cons] at h
    by_cases hk : e.1 = k
    · simp [hk] at h
    · simp [hk] at h
      intro hm
      rcases List.mem_cons.mp hm with h1 | h1
      · exact hk (by rw [← h1])
      · exact ih h h1

theorem lk_append_some {es l : List Ent} {k : Nat × Nat} {i : Nat} (h : lk es k = some i) : lk (es ++ l) k = some i := by
  induction es with
  | nil => simp [lk] at h
  | cons e es ih =>
    rw [List.cons_append, lk_cons]
    rw [lk_cons] at h
    by_cases hk : e.1 = k
    · simpa [hk] using h
    · simp [hk] at h ⊢
      exact ih h

theorem lk_append_none {es l : List Ent} {k : Nat × Nat} (h : lk es k = none) : lk (es ++ l) k = lk l k := by
  induction es with
  | nil => rfl
  | cons e es ih =>
    rw [List.cons_append, lk_cons]
    rw [lk_cons] at h
    by_cases hk : e.1 = k
    · simp [hk] at h
    · simp [hk] at h ⊢
      exact ih h

theorem lk_filter_ne (es : List Ent) (par : Nat) (k : Nat × Nat) (hk : k.1 ≠ par) :
    lk (es.filter (fun e => e.1.1 != par)) k = lk es k := by
  induction es with
  | nil => rfl
  | cons e es ih =>
    by_cases he : e.1.1 = par
    · have hne : e.1 ≠ k := by intro h; exact hk (by rw [← h]; exact he)
      simp [List.filter_cons, he, lk_cons, hne, ih]
    · simp [List.filter_cons, he, lk_cons, ih]

/-- the table invariant: ids are below `next` and determine their key -/
structure Inv (t : Tables) : Prop where
  lt : ∀ e ∈ t.entries, e.2 < t.next
  inj : ∀ e₁ ∈ t.entries, ∀ e₂ ∈ t.entries, e₁.2 = e₂.2 → e₁.1 = e₂.1

theorem inv_init : Inv {} := ⟨by intro e h; simp at h, by intro e h; simp at h⟩

theorem inv_step (t : Tables) (op : Op) (h : Inv t) : Inv (step t op).1 := by
  cases op with
  | eval par hh =>
    cases hl : lookup t (par, hh) with
    | some i => simp only [step, hl]; exact h
    | none =>
      simp only [step, hl]
      refine ⟨?_, ?_⟩
      · intro e he
        simp only [List.mem_append, List.mem_singleton] at he
        rcases he with he | he
        · exact Nat.lt_succ_of_lt (h.lt e he)
        · subst he; exact Nat.lt_succ_self _
      · intro e₁ h₁ e₂ h₂ heq
        simp only [List.mem_append, List.mem_singleton] at h₁ h₂
        rcases h₁ with h₁ | h₁ <;> rcases h₂ with h₂ | h₂
        · exact h.inj e₁ h₁ e₂ h₂ heq
        · subst h₂; have := h.lt e₁ h₁; simp at heq; omega
        · subst h₁; have := h.lt e₂ h₂; simp at heq; omega
        · subst h₁; subst h₂; rfl
  | finalize par =>
    refine ⟨?_, ?_⟩
    · intro e he
      exact h.lt e (List.mem_filter.mp he).1
    · intro e₁ h₁ e₂ h₂ heq
      exact h.inj e₁ (List.mem_filter.mp h₁).1 e₂ (List.mem_filter.mp h₂).1 heq

/-- a history in which nothing is evaluated under a parent after that parent's table was popped
(a finalized job evaluates nothing) -/
def Live : List Op → Prop
  | [] => True
  | .eval _ _ :: ops => Live ops
  | .finalize par :: ops => (∀ h, Op.eval par h ∉ ops) ∧ Live ops

theorem run_parent_mem {t : Tables} {ops : List Op} {b : Item} (hb : b ∈ run t ops) : Op.eval b.parent b.hash ∈ ops := by
  induction ops generalizing t with
  | nil => simp [run] at hb
  | cons op ops ih =>
    cases op with
    | eval par hh =>
      unfold run at hb
      cases hl : lookup t (par, hh) with
      | some i =>
        simp [step, hl] at hb
        rcases hb with hb | hb
        · subst hb; simp
        · exact List.mem_cons_of_mem _ (ih hb)
      | none =>
        simp [step, hl] at hb
        rcases hb with hb | hb
        · subst hb; simp
        · exact List.mem_cons_of_mem _ (ih hb)
    | finalize par =>
      unfold run at hb
      exact List.mem_cons_of_mem _ (ih hb)

/-- every later evaluation request is answered from the table as it is now, or gets a fresh id -/
theorem run_spec {t : Tables} {ops : List Op} (hl : Live ops) {b : Item} (hb : b ∈ run t ops) :
    (∀ i, lookup t (b.parent, b.hash) = some i → b.out.id = i ∧ b.out.started = false) ∧
    (lookup t (b.parent, b.hash) = none → t.next ≤ b.out.id) := by
  induction ops generalizing t with
  | nil => simp [run] at hb
  | cons op ops ih =>
    cases op with
    | eval par hh =>
      unfold run at hb
      cases hlk : lookup t (par, hh) with
      | some i0 =>
        simp [step, hlk] at hb
        rcases hb with hb | hb
        · subst hb
          simp [hlk]
        · exact ih hl hb
      | none =>
        simp [step, hlk] at hb
        rcases hb with hb | hb
        · subst hb
          simp [hlk]
        · have := ih (t := { entries := t.entries ++ [((par, hh), t.next)], next := t.next + 1 }) hl hb
          rw [lookup_eq] at this
          simp only at this
          constructor
          · intro i hi
            rw [lookup_eq] at hi
            exact this.1 i (lk_append_some hi)
          · intro hn
            rw [lookup_eq] at hn
            rw [lk_append_none hn, lk_cons] at this
            by_cases hk : (par, hh) = (b.parent, b.hash)
            · have := (this.1 t.next (by simp [hk])).1
              omega
            · have h2 := this.2 (by simp [hk, lk])
              omega
    | finalize par =>
      unfold run at hb
      have hne : b.parent ≠ par := by
        intro he
        have := run_parent_mem hb
        exact hl.1 b.hash (he ▸ this)
      have := ih (t := (step t (.finalize par)).1) hl.2 hb
      simp only [step, lookup_eq] at this
      rw [lk_filter_ne _ _ _ (by simpa using hne)] at this
      exact this

/-- how a later item `b` relates to an earlier item `a` of the log -/
def Rel (a b : Item) : Prop :=
  ((a.parent, a.hash) = (b.parent, b.hash) → b.out.id = a.out.id ∧ b.out.started = false) ∧
  ((a.parent, a.hash) ≠ (b.parent, b.hash) → b.out.id ≠ a.out.id)

theorem run_pairwise {t : Tables} (hi : Inv t) {ops : List Op} (hl : Live ops) : (run t ops).Pairwise Rel := by
  induction ops generalizing t with
  | nil => simp [run]
  | cons op ops ih =>
    cases op with
    | eval par hh =>
      unfold run
      cases hlk : lookup t (par, hh) with
      | some i0 =>
        simp only [step, hlk]
        have hl' : Live ops := hl
        refine List.Pairwise.cons ?_ (ih hi hl')
        intro b hb
        have sp := run_spec hl' hb
        have hm0 := lk_some_mem (by rw [← lookup_eq]; exact hlk)
        refine ⟨fun hk => ?_, fun hk => ?_⟩
        · simp only at hk
          exact sp.1 i0 (by rw [← hk]; exact hlk)
        · simp only at hk ⊢
          cases hlb : lookup t (b.parent, b.hash) with
          | some i' =>
            have h1 := (sp.1 i' hlb).1
            have hm1 := lk_some_mem (by rw [← lookup_eq]; exact hlb)
            intro he
            have := hi.inj _ hm0 _ hm1 (by simp; omega)
            exact hk this
          | none =>
            have h1 := sp.2 hlb
            have := hi.lt _ hm0
            simp at this
            omega
      | none =>
        simp only [step, hlk]
        have hi' : Inv { entries := t.entries ++ [((par, hh), t.next)], next := t.next + 1 } := by
          have := inv_step t (.eval par hh) hi
          simpa [step, hlk] using this
        have hl' : Live ops := hl
        refine List.Pairwise.cons ?_ (ih hi' hl')
        intro b hb
        have sp := run_spec hl' hb
        rw [lookup_eq] at sp hlk
        simp only at sp
        refine ⟨fun hk => ?_, fun hk => ?_⟩
        · simp only at hk ⊢
          rw [← hk, lk_append_none hlk, lk_cons] at sp
          exact sp.1 t.next (by simp)
        · simp only at hk ⊢
          cases hlb : lk t.entries (b.parent, b.hash) with
          | some i' =>
            have h1 := (sp.1 i' (lk_append_some hlb)).1
            have := hi.lt _ (lk_some_mem hlb)
            simp at this
            omega
          | none =>
            rw [lk_append_none hlb, lk_cons] at sp
            have := sp.2 (by simp [hk, lk])
            omega
    | finalize par =>
      unfold run
      exact ih (inv_step t (.finalize par) hi) hl.2

end RedunModel.ExprMemo
