import RedunModel.Lemmas.ArrayerB
namespace RedunModel.Arrayer

/-- jobs of the input stream that have not entered the arrayer yet -/
def notYet (a : Adder) : List Job :=
  match a.pc with
  | .a158 | .a159 | .a162 | .a163 | .a164 => a.cur :: a.todo
  | .done => []
  | _ => a.todo

/-- conservation: every job that entered the arrayer is in exactly one of `pending`, the monitor's
hands, `submitted` (as multisets: equal counts for every job) -/
structure InvC (p : Params) (jobs : List Job) (s : State) : Prop where
  cons : ∀ j, s.added.count j = (flat s.pending).count j + (inHand s.mon).count j + s.submitted.flatten.count j
  rem190 : s.mon.pc = .p190 → s.mon.remainder = s.mon.jobs.drop p.maxSize
  prog : ∀ j, jobs.count j = s.added.count j + (notYet s.ad).count j

theorem invC_init (p : Params) (jobs : List Job) : InvC p jobs (init jobs) := by
  unfold init; split <;> constructor <;> simp [flat, inHand, notYet]

theorem notYet_nextCall (a : Adder) (j : Job) (h : a.pc ≠ .a158 ∧ a.pc ≠ .a159 ∧ a.pc ≠ .a162 ∧ a.pc ≠ .a163 ∧ a.pc ≠ .a164 ∧ a.pc ≠ .done) :
    (notYet (nextCall a)).count j = (notYet a).count j := by
  obtain ⟨pc, cur, todo⟩ := a
  cases pc <;> cases todo <;> simp_all [notYet, nextCall]

set_option maxHeartbeats 2000000 in
theorem invC_stepS (c : Cfg) (p : Params) (jobs : List Job) (s s' : State) (hA : InvA c s) (h : InvC p jobs s)
    (hs : stepS p s = some s') : InvC p jobs s' := by
  obtain ⟨pending, stamps, num, lock, clock, submitted, errors, added, started, ⟨apc, cur, todo⟩, mon⟩ := s
  obtain ⟨hS, hM, lS, lM, c1, c2, c3, sp⟩ := hA
  obtain ⟨cons, r190, prog⟩ := h
  simp only at hS hM lS lM c1 c2 c3 sp cons r190 prog
  cases apc <;> simp only [stepS] at hs <;> (try split at hs) <;> simp at hs <;> (try subst hs)
  all_goals (constructor <;> simp only [holdsS] at * )
  all_goals first
    | exact cons
    | exact r190
    | exact prog
    | (intro j; have := cons j; have := prog j; simp only [notYet] at *; 
       simp only [count_flat_dset_append, List.count_append, List.flatten_append, List.flatten_cons, List.flatten_nil, List.append_nil]; grind [inHand, monAlive])
    | (intro j; have := prog j; rw [notYet_nextCall _ _ (by simp)]; simpa [notYet] using this)
    | grind [inHand, monAlive]

set_option maxHeartbeats 4000000 in
theorem invC_stepM (c : Cfg) (p : Params) (jobs : List Job) (s s' : State) (hA : InvA c s) (hB : InvB s) (h : InvC p jobs s)
    (hs : stepM c p s = some s') : InvC p jobs s' := by
  obtain ⟨pending, stamps, num, lock, clock, submitted, errors, added, started, ad, ⟨mpc, currtime, iterUsed, iterRest, descr, isStale, acc, stales, jobs', remainder, timestamp, loopJobs, job, decRead, err⟩⟩ := s
  obtain ⟨kn, st, a5⟩ := hB
  obtain ⟨cons, r190, prog⟩ := h
  simp only at kn st a5 cons r190 prog
  cases mpc <;> simp only [stepM, iterNext, afterScan, afterScanErr, decEntry] at hs <;> (try split at hs) <;> (try split at hs) <;> simp at hs <;> (try subst hs)
  all_goals (constructor <;> simp only [inHand] at * )
  all_goals first
    | exact cons
    | exact r190
    | exact prog
    | (intro j; have := cons j;
       simp only [count_flat_dset_append, List.count_append, List.flatten_append, List.flatten_cons, List.flatten_nil, List.append_nil] at *; grind)
    | (intro j; have := cons j; rename_i hg; have := count_flat_derase _ _ _ j kn hg; grind)
    | (intro j; have := cons j; have h := r190 trivial; subst h; simp only [List.take_append_drop]; grind)
    | grind
end RedunModel.Arrayer
