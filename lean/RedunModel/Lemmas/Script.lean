/-
Helper lemmas for `RedunModel.Model.Script` (C29): `split("\n")`/join laws, decimal digits, the pigeonhole
argument for `get_command_eof`, the here-document reader on `get_wrapped_command`'s template, nested values.
Core Lean only.
-/
import RedunModel.Model.Script
namespace RedunModel.Script


/-! ### splitNL / joinNL -/
theorem splitNL_ne_nil (s : Str) : splitNL s ≠ [] := by
  induction s with
  | nil => simp [splitNL]
  | cons c cs ih =>
    unfold splitNL
    split
    · simp
    · split <;> simp

theorem splitNL_cons_nl (s : Str) : splitNL ('\n' :: s) = [] :: splitNL s := by
  simp [splitNL]

theorem splitNL_cons_ne {c : Char} (h : c ≠ '\n') (s : Str) :
    ∃ l ls, splitNL s = l :: ls ∧ splitNL (c :: s) = (c :: l) :: ls := by
  cases hs : splitNL s with
  | nil => exact absurd hs (splitNL_ne_nil s)
  | cons l ls => exact ⟨l, ls, rfl, by simp [splitNL, h, hs]⟩

theorem splitNL_no_nl {a : Str} (h : '\n' ∉ a) : splitNL a = [a] := by
  induction a with
  | nil => simp [splitNL]
  | cons c cs ih =>
    have hc : c ≠ '\n' := by intro e; subst e; simp at h
    have hcs : '\n' ∉ cs := by intro e; exact h (List.mem_cons_of_mem _ e)
    simp [splitNL, hc, ih hcs]

theorem splitNL_append_nl (a b : Str) : splitNL (a ++ '\n' :: b) = splitNL a ++ splitNL b := by
  induction a with
  | nil => simp [splitNL]
  | cons c cs ih =>
    by_cases hc : c = '\n'
    · subst hc; simp [splitNL, ih]
    · obtain ⟨l, ls, h1, h2⟩ := splitNL_cons_ne hc cs
      obtain ⟨l', ls', h1', h2'⟩ := splitNL_cons_ne hc (cs ++ '\n' :: b)
      rw [List.cons_append, h2', h2]
      rw [ih, h1] at h1'
      simp at h1'
      simp [h1'.1, h1'.2]

theorem joinNL_cons_cons (l l2 : Str) (ls : List Str) : joinNL (l :: l2 :: ls) = l ++ '\n' :: joinNL (l2 :: ls) := rfl

theorem joinNL_splitNL (s : Str) : joinNL (splitNL s) = s := by
  induction s with
  | nil => simp [splitNL, joinNL]
  | cons c cs ih =>
    by_cases hc : c = '\n'
    · subst hc
      rw [splitNL_cons_nl]
      cases hs : splitNL cs with
      | nil => exact absurd hs (splitNL_ne_nil cs)
      | cons l ls => rw [joinNL_cons_cons, ← hs, ih]; rfl
    · obtain ⟨l, ls, h1, h2⟩ := splitNL_cons_ne hc cs
      rw [h2]
      rw [h1] at ih
      cases ls with
      | nil => simp [joinNL] at ih ⊢; exact ih
      | cons l2 ls => rw [joinNL_cons_cons] at ih ⊢; simp [← ih]

theorem mem_splitNL_no_nl {s l : Str} (h : l ∈ splitNL s) : '\n' ∉ l := by
  induction s generalizing l with
  | nil => simp [splitNL] at h; subst h; simp
  | cons c cs ih =>
    by_cases hc : c = '\n'
    · subst hc
      rw [splitNL_cons_nl] at h
      rcases List.mem_cons.1 h with h | h
      · subst h; simp
      · exact ih h
    · obtain ⟨l0, ls, h1, h2⟩ := splitNL_cons_ne hc cs
      rw [h2] at h
      rcases List.mem_cons.1 h with h | h
      · subst h
        have := ih (l := l0) (by rw [h1]; simp)
        intro hm
        rcases List.mem_cons.1 hm with e | e
        · exact hc e.symm
        · exact this e
      · exact ih (by rw [h1]; exact List.mem_cons_of_mem _ h)



/-! ### decimal digits -/
def digitVal (c : Char) : Nat := c.toNat - 48
def ofChars (ds : Str) : Nat := ds.foldl (fun acc d => acc * 10 + digitVal d) 0

theorem digitVal_digitChar : ∀ n, n < 10 → digitVal (digitChar n) = n := by decide

theorem ofChars_append (a : Str) (d : Char) : ofChars (a ++ [d]) = ofChars a * 10 + digitVal d := by
  simp [ofChars, List.foldl_append]

theorem natCharsAux_succ (fuel n : Nat) (h : n ≤ fuel) : natCharsAux (fuel + 1) n = natCharsAux fuel n := by
  induction fuel generalizing n with
  | zero =>
    have : n = 0 := by omega
    subst this; rfl
  | succ f ih =>
    rw [natCharsAux]
    conv => rhs; rw [natCharsAux]
    split
    · rfl
    · rw [ih (n / 10) (by omega)]

theorem natCharsAux_add (k fuel n : Nat) (h : n ≤ fuel) : natCharsAux (fuel + k) n = natCharsAux fuel n := by
  induction k with
  | zero => rfl
  | succ k ih => rw [← Nat.add_assoc, natCharsAux_succ _ _ (by omega), ih]

/-- the defining equation of `str(n)` -/
theorem natChars_eq (n : Nat) :
    natChars n = if n < 10 then [digitChar n] else natChars (n / 10) ++ [digitChar (n % 10)] := by
  unfold natChars
  cases n with
  | zero => rfl
  | succ m =>
    rw [natCharsAux]
    split
    · rfl
    · rename_i h
      have := natCharsAux_add (m - (m + 1) / 10) ((m + 1) / 10) ((m + 1) / 10) (Nat.le_refl _)
      rw [show (m + 1) / 10 + (m - (m + 1) / 10) = m by omega] at this
      rw [this]

theorem ofChars_natChars (n : Nat) : ofChars (natChars n) = n := by
  induction n using Nat.strongRecOn with
  | _ n ih =>
    rw [natChars_eq]
    split
    · rename_i h; simp [ofChars, digitVal_digitChar n h]
    · rename_i h
      rw [ofChars_append, ih (n / 10) (by omega), digitVal_digitChar _ (by omega)]
      omega

theorem natChars_inj {a b : Nat} (h : natChars a = natChars b) : a = b := by
  have := congrArg ofChars h
  simpa [ofChars_natChars] using this

theorem natChars_ne_nil (n : Nat) : natChars n ≠ [] := by
  rw [natChars_eq]; split <;> simp

theorem digitChar_ne_nl : ∀ n, n < 10 → digitChar n ≠ '\n' := by decide

theorem natChars_no_nl (n : Nat) : '\n' ∉ natChars n := by
  induction n using Nat.strongRecOn with
  | _ n ih =>
    rw [natChars_eq]
    split
    · rename_i h
      simp only [List.mem_singleton]
      exact fun e => digitChar_ne_nl n h e.symm
    · rename_i h
      intro hm
      rcases List.mem_append.1 hm with h' | h'
      · exact ih (n / 10) (by omega) h'
      · simp only [List.mem_singleton] at h'
        exact digitChar_ne_nl (n % 10) (by omega) h'.symm

theorem eofCand_inj (pfx : Str) {i j : Nat} (h : eofCand pfx i = eofCand pfx j) : i = j := by
  unfold eofCand at h
  by_cases hi : i = 0 <;> by_cases hj : j = 0 <;> simp [hi, hj] at h
  · omega
  · exact absurd h (natChars_ne_nil j)
  · exact absurd h (natChars_ne_nil i)
  · exact natChars_inj h

/-! ### pigeonhole -/
theorem nodup_subset_length {α : Type} [DecidableEq α] (cs L : List α) (hn : cs.Nodup) (hs : ∀ c ∈ cs, c ∈ L) :
    cs.length ≤ L.length := by
  induction cs generalizing L with
  | nil => simp
  | cons c cs ih =>
    have hc : c ∈ L := hs c (by simp)
    rw [List.nodup_cons] at hn
    have := ih (L.erase c) hn.2 (fun x hx => by
      have hne : x ≠ c := by intro e; subst e; exact hn.1 hx
      exact (List.mem_erase_of_ne hne).2 (hs x (List.mem_cons_of_mem _ hx)))
    rw [List.length_erase_of_mem hc] at this
    have : 0 < L.length := List.length_pos_of_mem hc
    simp; omega

theorem cands_nodup (pfx : Str) (n : Nat) : ((List.range n).map (eofCand pfx)).Nodup := by
  rw [List.nodup_iff_pairwise_ne, List.pairwise_map]
  exact (List.pairwise_lt_range (n := n)).imp (fun {a b} hab h => by
    have := eofCand_inj pfx h; omega)

theorem cands_bound (pfx : Str) (L : List Str) (i : Nat) (h : ∀ j, j < i → eofCand pfx j ∈ L) : i ≤ L.length := by
  have := nodup_subset_length ((List.range i).map (eofCand pfx)) L (cands_nodup pfx i) (by
    intro c hc
    rw [List.mem_map] at hc
    obtain ⟨j, hj, rfl⟩ := hc
    exact h j (List.mem_range.1 hj))
  simpa using this

theorem eofLoop_spec (L : List Str) (pfx : Str) (fuel i : Nat) (hinv : ∀ j, j < i → eofCand pfx j ∈ L)
    (hf : L.length < i + fuel) :
    ∃ k, eofLoop L pfx fuel i = some (eofCand pfx k) ∧ eofCand pfx k ∉ L ∧ ∀ j, j < k → eofCand pfx j ∈ L := by
  induction fuel generalizing i with
  | zero =>
    have := cands_bound pfx L i hinv
    omega
  | succ f ih =>
    unfold eofLoop
    by_cases hm : eofCand pfx i ∈ L
    · simp only [hm, if_true]
      apply ih (i + 1)
      · intro j hj
        by_cases e : j = i
        · subst e; exact hm
        · exact hinv j (by omega)
      · omega
    · simp only [hm, if_false]
      exact ⟨i, rfl, hm, hinv⟩

theorem commandEof_spec (cmd pfx : Str) :
    ∃ k, commandEof cmd pfx = some (eofCand pfx k) ∧ eofCand pfx k ∉ splitNL cmd ∧
      ∀ j, j < k → eofCand pfx j ∈ splitNL cmd := by
  unfold commandEof
  exact eofLoop_spec (splitNL cmd) pfx _ 0 (by intro j hj; omega) (by omega)


/-! ### here-document reader on the wrapper template -/
theorem unlines_eq_joinNL (ls : List Str) (h : ls ≠ []) : unlines ls = joinNL ls ++ ['\n'] := by
  induction ls with
  | nil => exact absurd rfl h
  | cons l ls ih =>
    cases ls with
    | nil => simp [unlines, joinNL]
    | cons l2 ls => rw [joinNL_cons_cons, unlines, ih (by simp)]; simp

theorem unlines_splitNL (s : Str) : unlines (splitNL s) = s ++ ['\n'] := by
  rw [unlines_eq_joinNL _ (splitNL_ne_nil s), joinNL_splitNL]

theorem heredocBody_found (delim : Str) (body rest : List Str) (h : delim ∉ body) :
    heredocBody delim (body ++ delim :: rest) = some body := by
  induction body with
  | nil => simp [heredocBody]
  | cons l ls ih =>
    have hl : l ≠ delim := by intro e; subst e; simp at h
    have hls : delim ∉ ls := by intro e; exact h (List.mem_cons_of_mem _ e)
    simp [heredocBody, hl, ih hls]

theorem parseDelim_catLine (eof : Str) : parseDelim (catPrefix ++ eof ++ ['"']) = some eof := by
  unfold parseDelim
  have h1 : catPrefix.isPrefixOf (catPrefix ++ eof ++ ['"']) = true := by
    rw [List.isPrefixOf_iff_prefix, List.append_assoc]; exact List.prefix_append _ _
  simp [List.append_assoc]

theorem splitNL_wrapHead : splitNL wrapHead =
    ["(".toList, "# Save command to temp file.".toList, "COMMAND_FILE=\"$(mktemp)\"".toList] := by
  decide

theorem heredoc_wrapWith (cmd eof : Str) (he : eof ∉ splitNL cmd) (hnl : '\n' ∉ eof) :
    tempFileOf (wrapWith cmd eof) = some (cmd ++ ['\n']) := by
  have hcat : '\n' ∉ catPrefix ++ eof ++ ['"'] := by
    simp only [List.mem_append, not_or]
    exact ⟨⟨by decide, hnl⟩, by decide⟩
  unfold tempFileOf wrapWith
  rw [splitNL_append_nl, splitNL_append_nl, splitNL_append_nl, splitNL_append_nl, splitNL_wrapHead,
    splitNL_no_nl hcat, splitNL_no_nl hnl]
  simp only [List.cons_append, List.nil_append, findHeredoc]
  have p1 : parseDelim "(".toList = none := by decide
  have p2 : parseDelim "# Save command to temp file.".toList = none := by decide
  have p3 : parseDelim "COMMAND_FILE=\"$(mktemp)\"".toList = none := by decide
  rw [p1, p2, p3]
  simp only [parseDelim_catLine]
  have : splitNL cmd ++ [eof] ++ splitNL wrapFoot = splitNL cmd ++ eof :: splitNL wrapFoot := by simp
  rw [this, heredocBody_found eof (splitNL cmd) _ he]
  simp [unlines_splitNL]


/-! ### nested values, `mapExcept`, `scriptCall` -/


mutual
  theorem shape_mapNV {α β : Type} (f : α → β) : ∀ v : NV α, shape (mapNV f v) = shape v
    | .leaf a => by simp [mapNV, shape]
    | .node k cs => by simp [mapNV, shape, shapes_mapNVs f cs]
  theorem shapes_mapNVs {α β : Type} (f : α → β) : ∀ cs : List (NV α), shapes (mapNVs f cs) = shapes cs
    | [] => by simp [mapNVs, shapes]
    | c :: cs => by simp [mapNVs, shapes, shape_mapNV f c, shapes_mapNVs f cs]
end

mutual
  theorem mapNV_comp {α β γ : Type} (f : α → β) (g : β → γ) : ∀ v : NV α, mapNV g (mapNV f v) = mapNV (fun a => g (f a)) v
    | .leaf a => by simp [mapNV]
    | .node k cs => by simp [mapNV, mapNVs_comp f g cs]
  theorem mapNVs_comp {α β γ : Type} (f : α → β) (g : β → γ) : ∀ cs : List (NV α), mapNVs g (mapNVs f cs) = mapNVs (fun a => g (f a)) cs
    | [] => by simp [mapNVs]
    | c :: cs => by simp [mapNVs, mapNV_comp f g c, mapNVs_comp f g cs]
end

mutual
  theorem iterNV_mapNV {α β : Type} (f : α → β) : ∀ v : NV α, iterNV (mapNV f v) = (iterNV v).map f
    | .leaf a => by simp [mapNV, iterNV]
    | .node k cs => by simp [mapNV, iterNV, iterNVs_mapNVs f cs]
  theorem iterNVs_mapNVs {α β : Type} (f : α → β) : ∀ cs : List (NV α), iterNVs (mapNVs f cs) = (iterNVs cs).map f
    | [] => by simp [mapNVs, iterNVs]
    | c :: cs => by simp [mapNVs, iterNVs, iterNV_mapNV f c, iterNVs_mapNVs f cs]
end

inductive All2 {α β : Type} (R : α → β → Prop) : List α → List β → Prop
  | nil : All2 R [] []
  | cons {a b as bs} : R a b → All2 R as bs → All2 R (a :: as) (b :: bs)

theorem mapExcept_ok {α β ε : Type} (f : α → Except ε β) : ∀ (as : List α) (bs : List β),
    mapExcept f as = .ok bs → All2 (fun a b => f a = .ok b) as bs
  | [], bs, h => by simp [mapExcept] at h; subst h; exact .nil
  | a :: as, bs, h => by
    unfold mapExcept at h
    split at h
    · simp at h
    · rename_i b hb
      split at h
      · simp at h
      · rename_i bs' hbs
        simp at h; subst h
        exact .cons hb (mapExcept_ok f as bs' hbs)

theorem all2_mem_left {α β : Type} {R : α → β → Prop} {as : List α} {bs : List β} (h : All2 R as bs) :
    ∀ a ∈ as, ∃ b ∈ bs, R a b := by
  induction h with
  | nil => simp
  | cons hab _ ih =>
    intro a ha
    rcases List.mem_cons.1 ha with e | e
    · subst e; exact ⟨_, by simp, hab⟩
    · obtain ⟨b, hb, hr⟩ := ih a e; exact ⟨b, List.mem_cons_of_mem _ hb, hr⟩

theorem all2_mem_right {α β : Type} {R : α → β → Prop} {as : List α} {bs : List β} (h : All2 R as bs) :
    ∀ b ∈ bs, ∃ a ∈ as, R a b := by
  induction h with
  | nil => simp
  | cons hab _ ih =>
    intro b hb
    rcases List.mem_cons.1 hb with e | e
    · subst e; exact ⟨_, by simp, hab⟩
    · obtain ⟨a, ha, hr⟩ := ih b e; exact ⟨a, List.mem_cons_of_mem _ ha, hr⟩


theorem scriptCall_ok {cmd : Str} {ins outs : NV Leaf} {t : Option Str} {r : ScriptCall}
    (h : scriptCall cmd ins outs t = .ok r) :
    ∃ stages w, mapExcept renderStage (iterNV ins) = .ok stages ∧ wrap (prepare cmd) "EOF".toList = some w ∧
      r.parts = cdPart t ++ stages ++ [w] ++ (iterNV (mapNV preprocessOutput outs)).filterMap renderUnstage ∧
      r.full = joinNL r.parts ∧ r.inputArgs = mapNV inputArg ins ∧ r.outputs = mapNV preprocessOutput outs := by
  unfold scriptCall at h
  split at h
  · simp at h
  · rename_i stages hs
    split at h
    · simp at h
    · rename_i w hw
      simp only [Except.ok.injEq] at h
      subst h
      exact ⟨stages, w, hs, hw, rfl, rfl, rfl, rfl⟩


end RedunModel.Script
