/-
Helper lemmas for `RedunModel.Model.Arrayer`: dictionary laws and the inductive invariants of the
two-thread transition system (lock discipline, timestamp consistency, conservation of jobs, batch
shapes, stale lists, absence of monitor errors under the repaired locking, pending count).
Core Lean only.
-/
import RedunModel.Model.Arrayer
namespace RedunModel.Arrayer
variable {α : Type}

@[simp] theorem dget_nil (k : Nat) : dget ([] : Dict α) k = none := rfl

theorem dget_dset (d : Dict α) (k k' : Nat) (v : α) :
    dget (dset d k v) k' = if k' = k then some v else dget d k' := by
  induction d with
  | nil => simp [dset, dget]; split <;> simp_all [eq_comm]
  | cons e r ih =>
    obtain ⟨k0, v0⟩ := e
    simp only [dset]
    split
    · simp only [dget]; split <;> split <;> simp_all
    · simp only [dget, ih]; split <;> split <;> simp_all

theorem dget_derase (d : Dict α) (k k' : Nat) :
    dget (derase d k) k' = if k' = k then none else dget d k' := by
  induction d with
  | nil => simp [derase]
  | cons e r ih =>
    obtain ⟨k0, v0⟩ := e
    simp only [derase]
    split
    · rename_i h; subst h; rw [ih]; simp only [dget]; split <;> simp_all [eq_comm]
    · simp only [dget, ih]; split <;> split <;> simp_all

theorem dkeys_dset (d : Dict α) (k : Nat) (v : α) :
    dkeys (dset d k v) = if (dget d k).isSome then dkeys d else dkeys d ++ [k] := by
  induction d with
  | nil => simp [dset, dkeys]
  | cons e r ih =>
    obtain ⟨k0, v0⟩ := e
    simp only [dset, dget]
    split
    · simp [dkeys]
    · simp only [dkeys, List.map_cons] at ih ⊢; rw [ih]; split <;> simp

theorem dget_isSome_iff_mem (d : Dict α) (k : Nat) : (dget d k).isSome ↔ k ∈ dkeys d := by
  induction d with
  | nil => simp [dkeys]
  | cons e r ih =>
    obtain ⟨k0, v0⟩ := e
    simp only [dget, dkeys, List.map_cons, List.mem_cons] at ih ⊢
    split
    · simp_all
    · rw [ih]; constructor
      · intro h; exact Or.inr h
      · intro h; rcases h with h | h
        · simp_all
        · exact h

theorem nodup_dkeys_dset (d : Dict α) (k : Nat) (v : α) (h : (dkeys d).Nodup) : (dkeys (dset d k v)).Nodup := by
  rw [dkeys_dset]; split
  · exact h
  · rename_i hn
    rw [List.nodup_append]; refine ⟨h, by simp, ?_⟩
    intro a ha b hb; simp at hb; subst hb
    intro hab; subst hab
    exact hn ((dget_isSome_iff_mem d a).2 ha)

theorem dkeys_derase_sublist (d : Dict α) (k : Nat) : (dkeys (derase d k)).Sublist (dkeys d) := by
  induction d with
  | nil => simp [derase, dkeys]
  | cons e r ih =>
    obtain ⟨k0, v0⟩ := e
    simp only [derase]
    split
    · exact List.Sublist.cons _ ih
    · simp only [dkeys, List.map_cons] at ih ⊢; exact List.Sublist.cons_cons _ ih

theorem nodup_dkeys_derase (d : Dict α) (k : Nat) (h : (dkeys d).Nodup) : (dkeys (derase d k)).Nodup :=
  List.Nodup.sublist (dkeys_derase_sublist d k) h

theorem derase_of_not_mem (d : Dict α) (k : Nat) (h : k ∉ dkeys d) : derase d k = d := by
  induction d with
  | nil => rfl
  | cons e r ih =>
    obtain ⟨k0, v0⟩ := e
    simp only [dkeys, List.map_cons, List.mem_cons, not_or] at h
    simp only [derase]
    split
    · exact absurd (by assumption : k0 = k).symm h.1
    · rw [ih h.2]

theorem count_flat_dset_append (d : Dict (List Job)) (k : Nat) (extra : List Job) (j : Job) :
    (flat (dset d k ((dget d k).getD [] ++ extra))).count j = (flat d).count j + extra.count j := by
  induction d with
  | nil => simp [dset, flat, dget]
  | cons e r ih =>
    obtain ⟨k0, v0⟩ := e
    simp only [dset, dget]
    split
    · simp [flat, List.count_append]; omega
    · simp only [flat, List.map_cons, List.flatten_cons, List.count_append] at ih ⊢; rw [ih]; omega

theorem count_flat_derase (d : Dict (List Job)) (k : Nat) (js : List Job) (j : Job)
    (hn : (dkeys d).Nodup) (hg : dget d k = some js) :
    (flat d).count j = js.count j + (flat (derase d k)).count j := by
  induction d with
  | nil => simp at hg
  | cons e r ih =>
    obtain ⟨k0, v0⟩ := e
    simp only [dget] at hg
    simp only [dkeys, List.map_cons, List.nodup_cons] at hn
    simp only [derase]
    split
    · rename_i h; subst h; simp at hg; subst hg
      rw [derase_of_not_mem r k0 hn.1]; simp [flat, List.count_append]
    · rename_i h; simp [h] at hg
      have := ih hn.2 hg
      simp only [flat, List.map_cons, List.flatten_cons, List.count_append] at this ⊢; omega

/-! ### lock discipline -/
def holdsS : APc → Bool
  | .a164 | .a165 | .a166 | .a163x => true
  | _ => false

def holdsM (c : Cfg) : MPc → Bool
  | .g175a | .g173a | .g175b | .g176 | .g174 | .g173b | .g173e | .gUnlock | .gUnlockE => c.lockScan
  | .p184 | .p185 | .p183x | .p183xE | .p194 | .p195 | .p193x => true
  | .p203 | .pdUnlock => c.lockDec
  | _ => false

structure InvA (c : Cfg) (s : State) : Prop where
  hS : holdsS s.ad.pc = true → s.lock = some .S
  hM : holdsM c s.mon.pc = true → s.lock = some .M
  lS : s.lock = some .S → holdsS s.ad.pc = true
  lM : s.lock = some .M → holdsM c s.mon.pc = true
  cfgScan : (s.mon.pc = .gLock ∨ s.mon.pc = .gUnlock ∨ s.mon.pc = .gUnlockE) → c.lockScan = true
  cfgDec : (s.mon.pc = .pdLock ∨ s.mon.pc = .pdUnlock) → c.lockDec = true
  cfgDecW : s.mon.pc = .p203w → c.lockDec = false
  startPc : (s.ad.pc = .s144 ∨ s.ad.pc = .s145 ∨ s.ad.pc = .s146) → monAlive s.mon = false

theorem nextCall_pc (a : Adder) : (nextCall a).pc = .a158 ∨ (nextCall a).pc = .done := by
  unfold nextCall; split <;> simp

theorem invA_init (c : Cfg) (jobs : List Job) : InvA c (init jobs) := by
  unfold init; split <;> constructor <;> simp [holdsS, holdsM, monAlive]

set_option maxHeartbeats 2000000 in
theorem invA_stepS (c : Cfg) (p : Params) (s s' : State) (h : InvA c s) (hs : stepS p s = some s') : InvA c s' := by
  obtain ⟨pending, stamps, num, lock, clock, submitted, errors, added, started, ⟨apc, cur, todo⟩, mon⟩ := s
  obtain ⟨hS, hM, lS, lM, c1, c2, c3, sp⟩ := h
  have hn := nextCall_pc ⟨apc, cur, todo⟩
  simp only at hS hM lS lM c1 c2 c3 sp
  cases apc <;> simp only [stepS] at hs <;> (try split at hs) <;> simp at hs <;> (try subst hs)
  all_goals (constructor <;> simp only [holdsS] at * <;> grind [holdsM, monAlive])

set_option maxHeartbeats 4000000 in
theorem invA_stepM (c : Cfg) (p : Params) (s s' : State) (h : InvA c s) (hs : stepM c p s = some s') : InvA c s' := by
  obtain ⟨pending, stamps, num, lock, clock, submitted, errors, added, started, ad, ⟨mpc, currtime, iterUsed, iterRest, descr, isStale, acc, stales, jobs, remainder, timestamp, loopJobs, job, decRead, err⟩⟩ := s
  obtain ⟨hS, hM, lS, lM, c1, c2, c3, sp⟩ := h
  simp only at hS hM lS lM c1 c2 c3 sp
  cases mpc <;> simp only [stepM, iterNext, afterScan, afterScanErr, decEntry] at hs <;> (try split at hs) <;> (try split at hs) <;> simp at hs <;> (try subst hs)
  all_goals (constructor <;> simp only [holdsM] at * <;> grind [holdsS, monAlive])

theorem invA_step (c : Cfg) (p : Params) (s s' : State) (e : Ev) (h : InvA c s) (hs : step c p s e = some s') : InvA c s' := by
  cases e with
  | thr t => cases t with
    | S => exact invA_stepS c p s s' h hs
    | M => exact invA_stepM c p s s' h hs
  | tick n =>
    simp only [step, Option.some.injEq] at hs; subst hs
    obtain ⟨hS, hM, lS, lM, c1, c2, c3, sp⟩ := h
    exact ⟨hS, hM, lS, lM, c1, c2, c3, sp⟩

/-! ### deadlock freedom -/
theorem stepS_none (p : Params) (s : State) (h : stepS p s = none) :
    s.ad.pc = .done ∨ (s.ad.pc = .a163 ∧ s.lock ≠ none) := by
  obtain ⟨pending, stamps, num, lock, clock, submitted, errors, added, started, ⟨apc, cur, todo⟩, mon⟩ := s
  cases apc <;> simp only [stepS] at h <;> (try split at h) <;> simp_all

def acquirePc : MPc → Bool
  | .gLock | .p183 | .p193 | .pdLock => true
  | _ => false

theorem stepM_none (c : Cfg) (p : Params) (s : State) (h : stepM c p s = none) :
    s.mon.pc = .none ∨ s.mon.pc = .dead ∨ (acquirePc s.mon.pc = true ∧ s.lock ≠ none) := by
  obtain ⟨pending, stamps, num, lock, clock, submitted, errors, added, started, ad, ⟨mpc, currtime, iterUsed, iterRest, descr, isStale, acc, stales, jobs, remainder, timestamp, loopJobs, job, decRead, err⟩⟩ := s
  cases mpc <;> simp only [stepM] at h <;> (try split at h) <;> (try split at h) <;> simp_all [acquirePc]

/-- No interleaving deadlocks: some thread can always take a step unless the adder has finished and no
monitor thread is running. -/
theorem no_deadlock_of_invA (c : Cfg) (p : Params) (s : State) (hA : InvA c s) :
    stepS p s ≠ none ∨ stepM c p s ≠ none ∨ (s.ad.pc = .done ∧ monAlive s.mon = false) := by
  by_cases h1 : stepS p s = none
  · by_cases h2 : stepM c p s = none
    · right; right
      have a := stepS_none p s h1
      have b := stepM_none c p s h2
      obtain ⟨hS, hM, lS, lM, _, _, _, _⟩ := hA
      have key : ∀ t, s.lock = some t → False ∨ (holdsS s.ad.pc = true ∨ holdsM c s.mon.pc = true) := by
        intro t ht; cases t with
        | S => exact Or.inr (Or.inl (lS ht))
        | M => exact Or.inr (Or.inr (lM ht))
      rcases a with ha | ⟨ha, hl⟩
      · rcases b with hb | hb | ⟨hb, hl⟩
        · exact ⟨ha, by simp [monAlive, hb]⟩
        · exact ⟨ha, by simp [monAlive, hb]⟩
        · exfalso
          cases hlk : s.lock with
          | none => exact hl hlk
          | some t =>
            rcases key t hlk with hf | hh | hh
            · exact hf
            · rw [ha] at hh; simp [holdsS] at hh
            · revert hb hh; cases s.mon.pc <;> simp [acquirePc, holdsM]
      · exfalso
        cases hlk : s.lock with
        | none => exact hl hlk
        | some t =>
          rcases key t hlk with hf | hh | hh
          · exact hf
          · rw [ha] at hh; simp [holdsS] at hh
          · rcases b with hb | hb | ⟨hb, _⟩
            · rw [hb] at hh; simp [holdsM] at hh
            · rw [hb] at hh; simp [holdsM] at hh
            · revert hb hh; cases s.mon.pc <;> simp [acquirePc, holdsM]
    · exact Or.inr (Or.inl h2)
  · exact Or.inl h1
end RedunModel.Arrayer
