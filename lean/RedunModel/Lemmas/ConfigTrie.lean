/-
Helper lemmas for the configuration model (C35), second part: `_parse_sections` builds a nested dict whose leaf
paths are exactly the (prefix-free) section names; `convert_to_dict` rebuilds the names from it; the conversion
succeeds whenever every option interpolates.
-/
import RedunModel.Lemmas.Config
namespace RedunModel.Config

/-! ### split / join -/

theorem splitOn_ne_nil (sep : Char) (s : Str) : splitOn sep s ≠ [] := by
  cases s with
  | nil => simp [splitOn]
  | cons c t =>
    simp only [splitOn]
    split
    · simp
    · split <;> simp

theorem joinWith_cons_cons (sep : Char) (p q : Str) (r : List Str) :
    joinWith sep (p :: q :: r) = p ++ sep :: joinWith sep (q :: r) := rfl

theorem join_split (sep : Char) (s : Str) : joinWith sep (splitOn sep s) = s := by
  induction s with
  | nil => rfl
  | cons c t ih =>
    simp only [splitOn]
    split
    · next h =>
      subst h
      cases hs : splitOn c t with
      | nil => exact absurd hs (splitOn_ne_nil _ _)
      | cons h r => rw [joinWith_cons_cons, ← hs, ih]; rfl
    · cases hs : splitOn sep t with
      | nil => exact absurd hs (splitOn_ne_nil _ _)
      | cons h r =>
        rw [hs] at ih
        cases r with
        | nil => simp only [joinWith] at ih ⊢; rw [ih]
        | cons q r' =>
          rw [joinWith_cons_cons] at ih ⊢
          simp [← ih]

/-! ### the leaves of the nested sections as component paths -/

mutual
def pathsNode : Node → List (List Str × Str)
  | .leaf f => [([], f)]
  | .node kids => pathsKids kids
def pathsKids : List (Str × Node) → List (List Str × Str)
  | [] => []
  | (k, n) :: t => (pathsNode n).map (fun pf => (k :: pf.1, pf.2)) ++ pathsKids t
end

/-- `".a.b"` for `["a", "b"]` -/
def dotted : List Str → Str
  | [] => []
  | a :: r => '.' :: a ++ dotted r

theorem joinWith_cons (k : Str) (r : List Str) : joinWith '.' (k :: r) = k ++ dotted r := by
  induction r generalizing k with
  | nil => simp [joinWith, dotted]
  | cons a r ih => rw [joinWith_cons_cons, ih a]; simp [dotted]

mutual
theorem flattenNode_paths (path : Str) (n : Node) :
    flattenNode path n = (pathsNode n).map fun pf => (path ++ dotted pf.1, pf.2) := by
  cases n with
  | leaf f => simp [flattenNode, pathsNode, dotted]
  | node kids => simp only [flattenNode, pathsNode]; exact flattenKids_some_paths path kids
theorem flattenKids_some_paths (path : Str) (kids : List (Str × Node)) :
    flattenKids (some path) kids = (pathsKids kids).map fun pf => (path ++ dotted pf.1, pf.2) := by
  cases kids with
  | nil => simp [flattenKids, pathsKids]
  | cons kn t =>
    obtain ⟨k, n⟩ := kn
    simp only [flattenKids, pathsKids, List.map_append, List.map_map]
    rw [flattenNode_paths (path ++ '.' :: k) n, flattenKids_some_paths path t]
    congr 1
    apply List.map_congr_left
    intro pf _
    simp [dotted]
end

theorem flattenKids_none_paths (kids : List (Str × Node)) :
    flattenKids none kids = (pathsKids kids).map fun pf => (joinWith '.' pf.1, pf.2) := by
  induction kids with
  | nil => simp [flattenKids, pathsKids]
  | cons kn t ih =>
    obtain ⟨k, n⟩ := kn
    simp only [flattenKids, pathsKids, List.map_append, List.map_map]
    rw [flattenNode_paths k n, ih]
    congr 1
    apply List.map_congr_left
    intro pf _
    simp [joinWith_cons]


/-! ### inserting a section name -/

/-- `parts` neither extends nor is extended by (nor equals) a path already present -/
def Compat (P : List (List Str × Str)) (parts : List Str) : Prop :=
  ∀ q ∈ P, ¬ q.1 <+: parts ∧ ¬ parts <+: q.1

theorem lookup_none_not_mem {α : Type} (l : List (Str × α)) (k : Str) (h : l.lookup k = none) :
    k ∉ l.map (·.1) := by
  induction l with
  | nil => simp
  | cons q t ih =>
    obtain ⟨qk, qv⟩ := q
    by_cases e : k = qk
    · subst e; simp [List.lookup] at h
    · have e' : (k == qk) = false := by simp [e]
      simp only [List.lookup, e'] at h
      simp [e, ih h]

/-- replacing the value of the first entry with key `p` replaces that entry's block of paths -/
theorem setKey_paths_found (kids : List (Str × Node)) (p : Str) (n x : Node) (h : kids.lookup p = some n) :
    ∃ A B, pathsKids kids = A ++ (pathsNode n).map (fun pf => (p :: pf.1, pf.2)) ++ B ∧
           pathsKids (setKey kids p x) = A ++ (pathsNode x).map (fun pf => (p :: pf.1, pf.2)) ++ B := by
  induction kids with
  | nil => simp at h
  | cons q t ih =>
    obtain ⟨qk, qv⟩ := q
    by_cases e : p = qk
    · subst e
      simp only [List.lookup, beq_self_eq_true, Option.some.injEq] at h
      subst h
      exact ⟨[], pathsKids t, by simp [pathsKids], by simp [setKey, pathsKids]⟩
    · have e' : (p == qk) = false := by simp [e]
      simp only [List.lookup, e'] at h
      obtain ⟨A, B, h1, h2⟩ := ih h
      refine ⟨(pathsNode qv).map (fun pf => (qk :: pf.1, pf.2)) ++ A, B, ?_, ?_⟩
      · simp [pathsKids, h1]
      · simp [setKey, Ne.symm e, pathsKids, h2]

theorem setKey_paths_fresh (kids : List (Str × Node)) (p : Str) (x : Node) (h : kids.lookup p = none) :
    pathsKids (setKey kids p x) = pathsKids kids ++ (pathsNode x).map (fun pf => (p :: pf.1, pf.2)) := by
  rw [setKey_not_mem kids p x (lookup_none_not_mem kids p h)]
  induction kids with
  | nil => simp [pathsKids]
  | cons q t ih =>
    obtain ⟨qk, qv⟩ := q
    have : t.lookup p = none := by
      by_cases e : p = qk
      · subst e; simp [List.lookup] at h
      · have e' : (p == qk) = false := by simp [e]
        simpa [List.lookup, e'] using h
    simp [pathsKids, ih this]

theorem insertPath_spec (full : Str) (parts : List Str) (hne : parts ≠ []) :
    ∀ kids : List (Str × Node), Compat (pathsKids kids) parts →
      ∃ kids', insertPath kids parts full = .ok kids' ∧
        (pathsKids kids').Perm ((parts, full) :: pathsKids kids) := by
  induction parts with
  | nil => exact absurd rfl hne
  | cons p rest ih =>
    intro kids hc
    cases rest with
    | nil =>
      refine ⟨setKey kids p (.leaf full), rfl, ?_⟩
      cases hl : kids.lookup p with
      | none =>
        rw [setKey_paths_fresh kids p _ hl]
        simp only [pathsNode, List.map_cons, List.map_nil]
        exact List.perm_append_comm
      | some n =>
        obtain ⟨A, B, h1, h2⟩ := setKey_paths_found kids p n (.leaf full) hl
        have hN : (pathsNode n).map (fun pf => (p :: pf.1, pf.2)) = [] := by
          cases hn : pathsNode n with
          | nil => rfl
          | cons r rs =>
            exfalso
            have hm : (p :: r.1, r.2) ∈ pathsKids kids := by rw [h1, hn]; simp
            exact (hc _ hm).2 (by simp [List.cons_prefix_cons])
        rw [h2, h1, hN]
        simp only [pathsNode, List.map_cons, List.map_nil, List.append_nil, List.append_assoc, List.cons_append,
          List.nil_append]
        exact List.perm_middle
    | cons q ps =>
      have ih' := ih (by simp)
      cases hl : kids.lookup p with
      | none =>
        obtain ⟨sub, hs1, hs2⟩ := ih' [] (by intro x hx; simp [pathsKids] at hx)
        refine ⟨setKey kids p (.node sub), by simp [insertPath, hl, hs1], ?_⟩
        rw [setKey_paths_fresh kids p _ hl]
        simp only [pathsNode]
        have : ((pathsKids sub).map fun pf => (p :: pf.1, pf.2)).Perm [(p :: q :: ps, full)] := by
          have := hs2.map (fun pf => (p :: pf.1, pf.2))
          simpa [pathsKids] using this
        exact (List.Perm.append_left _ this).trans List.perm_append_comm
      | some n =>
        cases n with
        | leaf f =>
          exfalso
          obtain ⟨A, B, h1, _⟩ := setKey_paths_found kids p (.leaf f) (.leaf f) hl
          have hm : ([p], f) ∈ pathsKids kids := by rw [h1]; simp [pathsNode]
          exact (hc _ hm).1 (by simp [List.cons_prefix_cons])
        | node sub =>
          obtain ⟨A, B, h1, _⟩ := setKey_paths_found kids p (.node sub) (.node sub) hl
          have hcs : Compat (pathsKids sub) (q :: ps) := by
            intro r hr
            have hm : (p :: r.1, r.2) ∈ pathsKids kids := by
              rw [h1]; simp only [pathsNode, List.mem_append, List.mem_map]
              exact Or.inl (Or.inr ⟨r, hr, rfl⟩)
            have := hc _ hm
            simp only [List.cons_prefix_cons, true_and] at this
            exact this
          obtain ⟨sub', hs1, hs2⟩ := ih' sub hcs
          refine ⟨setKey kids p (.node sub'), by simp [insertPath, hl, hs1], ?_⟩
          obtain ⟨A, B, h1, h2⟩ := setKey_paths_found kids p (.node sub) (.node sub') hl
          rw [h2, h1]
          simp only [pathsNode]
          have hm := hs2.map (fun pf : List Str × Str => (p :: pf.1, pf.2))
          simp only [List.map_cons] at hm
          have := (List.Perm.append_left A hm).append_right B
          refine this.trans ?_
          simp only [List.append_assoc, List.cons_append]
          exact List.perm_middle


/-! ### all section names -/

/-- section names, as dotted paths, are pairwise not prefixes of each other (in particular distinct) -/
def PrefixFree (names : List Str) : Prop :=
  (names.map (splitOn '.')).Pairwise fun a b => ¬ a <+: b ∧ ¬ b <+: a

theorem parseSections_spec (names : List Str) :
    ∀ acc : List (Str × Node), PrefixFree names → (∀ n ∈ names, Compat (pathsKids acc) (splitOn '.' n)) →
      ∃ t, parseSections names acc = .ok t ∧
        (pathsKids t).Perm (pathsKids acc ++ names.map fun n => (splitOn '.' n, n)) := by
  induction names with
  | nil => intro acc _ _; exact ⟨acc, rfl, by simp⟩
  | cons n rest ih =>
    intro acc hpf hc
    have hpf' : (∀ a ∈ rest.map (splitOn '.'), ¬ splitOn '.' n <+: a ∧ ¬ a <+: splitOn '.' n) ∧
        PrefixFree rest := by
      unfold PrefixFree at hpf ⊢
      rw [List.map_cons] at hpf
      exact List.pairwise_cons.mp hpf
    obtain ⟨acc', h1, h2⟩ := insertPath_spec n (splitOn '.' n) (splitOn_ne_nil _ _) acc (hc n (by simp))
    have hc' : ∀ m ∈ rest, Compat (pathsKids acc') (splitOn '.' m) := by
      intro m hm q hq
      rcases List.mem_cons.mp (h2.mem_iff.mp hq) with e | hq'
      · subst e
        exact hpf'.1 _ (List.mem_map_of_mem hm)
      · exact hc m (List.mem_cons_of_mem _ hm) q hq'
    obtain ⟨t, ht1, ht2⟩ := ih acc' hpf'.2 hc'
    refine ⟨t, by simp [parseSections, h1, ht1], ?_⟩
    refine ht2.trans ?_
    refine (List.Perm.append_right _ h2).trans ?_
    simp only [List.map_cons, List.cons_append]
    exact List.perm_middle.symm

theorem nodup_of_prefixFree (names : List Str) (h : PrefixFree names) : names.Nodup := by
  unfold PrefixFree at h
  rw [List.pairwise_map] at h
  exact h.imp (fun {a b} hab (e : a = b) => hab.1 (by rw [e]; exact List.prefix_refl _))

theorem prefixFree_perm {a b : List Str} (hp : a.Perm b) (h : PrefixFree b) : PrefixFree a := by
  unfold PrefixFree at *
  exact ((hp.map (splitOn '.')).pairwise_iff (fun {x y} hxy => ⟨hxy.2, hxy.1⟩)).mpr h

/-- For distinct prefix-free section names (none `""` or `DEFAULT`) the nested sections exist, the walk of
`get_config_dict` rebuilds exactly the section names (in depth-first order), and they nest again. -/
theorem goodPaths_of_prefixFree (names : List Str) (hpf : PrefixFree names) (h1 : [] ∉ names)
    (h2 : defaultSect ∉ names) :
    ∃ trie, parseSections names [] = .ok trie ∧ GoodPaths (flattenKids none trie) ∧
      (flattenKids none trie).Perm (names.map fun n => (n, n)) := by
  obtain ⟨trie, ht1, ht2⟩ := parseSections_spec names [] hpf (by intro n _ q hq; simp [pathsKids] at hq)
  have hflat : (flattenKids none trie).Perm (names.map fun n => (n, n)) := by
    rw [flattenKids_none_paths]
    have := ht2.map (fun pf : List Str × Str => (joinWith '.' pf.1, pf.2))
    simp only [pathsKids, List.nil_append, List.map_map] at this
    refine this.trans (List.Perm.of_eq ?_)
    apply List.map_congr_left
    intro n _
    simp [Function.comp, join_split]
  have hnames : ((flattenKids none trie).map (·.1)).Perm names := by
    have := hflat.map (·.1)
    rw [List.map_map] at this
    refine this.trans (List.Perm.of_eq ?_)
    conv => rhs; rw [← List.map_id names]
    apply List.map_congr_left
    intro n _; rfl
  refine ⟨trie, ht1, ⟨?_, ?_, ?_, ?_⟩, hflat⟩
  · exact hnames.nodup_iff.mpr (nodup_of_prefixFree names hpf)
  · exact fun h => h1 (hnames.mem_iff.mp h)
  · exact fun h => h2 (hnames.mem_iff.mp h)
  · obtain ⟨t', ht', _⟩ := parseSections_spec _ [] (prefixFree_perm hnames hpf)
      (by intro n _ q hq; simp [pathsKids] at hq)
    exact ⟨t', ht'⟩

/-- Round trip for distinct prefix-free section names. -/
theorem getConfigDict_roundtrip_names (cfg : Cfg) (env env' : Opts) (localDir : Str) (D' : List (Str × Opts))
    (hwf : CfgWF cfg) (hpf : PrefixFree (cfg.sections.map (·.1))) (h1 : [] ∉ cfg.sections.map (·.1))
    (h2 : defaultSect ∉ cfg.sections.map (·.1))
    (hd : getConfigDict cfg env localDir none = .ok D') :
    ∃ cfg', readDict D' = .ok cfg' ∧ cfg'.defaults = [] ∧
      (cfg'.sections.map (·.1)).Perm (cfg.sections.map (·.1)) ∧
      ∀ n ∈ cfg.sections.map (·.1), sectionItems cfg' env' n = sectionItems cfg env n := by
  obtain ⟨trie, ht, hg, hperm⟩ := goodPaths_of_prefixFree _ hpf h1 h2
  obtain ⟨cfg', hr, hd0, hs, hi⟩ := getConfigDict_roundtrip cfg env env' localDir trie D' hwf ht hg hd
  refine ⟨cfg', hr, hd0, ?_, ?_⟩
  · rw [hs]
    have := hperm.map (·.1)
    rw [List.map_map] at this
    refine this.trans (List.Perm.of_eq ?_)
    conv => rhs; rw [← List.map_id (cfg.sections.map (·.1))]
    apply List.map_congr_left
    intro n _; rfl
  · intro n hn
    have : (n, n) ∈ flattenKids none trie := hperm.mem_iff.mpr (List.mem_map.mpr ⟨n, hn, rfl⟩)
    exact hi (n, n) this


/-- The nesting (the set of leaf paths of the nested dict) does not depend on the order of the section names. -/
theorem nesting_perm (a b : List Str) (hp : a.Perm b) (hpf : PrefixFree b) :
    ∃ ta tb, parseSections a [] = .ok ta ∧ parseSections b [] = .ok tb ∧ (pathsKids ta).Perm (pathsKids tb) := by
  obtain ⟨ta, ha1, ha2⟩ := parseSections_spec a [] (prefixFree_perm hp hpf) (by intro n _ q hq; simp [pathsKids] at hq)
  obtain ⟨tb, hb1, hb2⟩ := parseSections_spec b [] hpf (by intro n _ q hq; simp [pathsKids] at hq)
  refine ⟨ta, tb, ha1, hb1, ?_⟩
  simp only [pathsKids, List.nil_append] at ha2 hb2
  exact ha2.trans ((hp.map _).trans hb2.symm)


/-! ### the conversion succeeds whenever every option interpolates -/

theorem mapMExcept_ok_mem {α β : Type} (f : α → Except Err β) (l : List α) (r : List β)
    (h : mapMExcept f l = .ok r) : ∀ a ∈ l, ∃ b, f a = .ok b := by
  induction l generalizing r with
  | nil => intro a ha; simp at ha
  | cons x t ih =>
    intro a ha
    simp only [mapMExcept] at h
    cases hx : f x with
    | error e => simp [hx] at h
    | ok b =>
      simp only [hx] at h
      cases hm : mapMExcept f t with
      | error e => simp [hm] at h
      | ok r' =>
        rcases List.mem_cons.mp ha with e | ha'
        · subst e; exact ⟨b, hx⟩
        · exact ih r' hm a ha'

theorem effective_ok_sections (cfg : Cfg) (env : Opts) (E : List (Str × Opts)) (h : effective cfg env = .ok E) :
    ∀ n ∈ cfg.sections.map (·.1), ∃ it, sectionItems cfg env n = .ok it := by
  intro n hn
  obtain ⟨s, hs, e⟩ := List.mem_map.mp hn
  obtain ⟨b, hb⟩ := mapMExcept_ok_mem _ _ _ h s hs
  subst e
  cases hi : sectionItems cfg env s.1 with
  | ok it => exact ⟨it, rfl⟩
  | error e => simp [hi] at hb

theorem foldl_dictStep_success (cfg : Cfg) (env : Opts) (flat : List (Str × Str))
    (h : ∀ pf ∈ flat, ∃ it, sectionItems cfg env pf.2 = .ok it) :
    ∀ res, ∃ D', flat.foldl (dictStep cfg env) (.ok res) = .ok D' := by
  induction flat with
  | nil => intro res; exact ⟨res, rfl⟩
  | cons pf t ih =>
    intro res
    obtain ⟨it, hit⟩ := h pf (by simp)
    simp only [List.foldl_cons, dictStep, hit]
    exact ih (fun q hq => h q (List.mem_cons_of_mem _ hq)) _

theorem getConfigDict_ok (cfg : Cfg) (env : Opts) (localDir : Str) (E : List (Str × Opts))
    (hpf : PrefixFree (cfg.sections.map (·.1))) (h1 : [] ∉ cfg.sections.map (·.1))
    (h2 : defaultSect ∉ cfg.sections.map (·.1)) (he : effective cfg env = .ok E) :
    ∃ D', getConfigDict cfg env localDir none = .ok D' := by
  obtain ⟨trie, ht, _, hperm⟩ := goodPaths_of_prefixFree _ hpf h1 h2
  have hall : ∀ pf ∈ flattenKids none trie, ∃ it, sectionItems cfg env pf.2 = .ok it := by
    intro pf hpf'
    obtain ⟨n, hn, e⟩ := List.mem_map.mp (hperm.mem_iff.mp hpf')
    subst e
    exact effective_ok_sections cfg env E he n hn
  obtain ⟨D', hD⟩ := foldl_dictStep_success cfg env _ hall []
  refine ⟨D', ?_⟩
  unfold getConfigDict
  simp only [ht]
  exact hD

end RedunModel.Config
