/-
CSE bookkeeping invariant of `SchedCore` (C06, C05) and dry-run lemmas (C28).
Main results: `reachable_cse`, `reachable_dry`, `dry_real_lockstep`.
-/
import RedunModel.Lemmas.SchedCore
namespace RedunModel.SchedCore

/-! ## part 1 -/

/-! # CSE bookkeeping: each opted-in call is submitted at most once (C06) -/

def keyOf (p : Prog) (s : S) (j : JobId) : Nat × Nat := ((spec p s j).key, (spec p s j).ctx)

/-- number of executor submissions of opted-in jobs with cache key `k` -/
def nSub (p : Prog) (s : S) (k : Nat × Nat) : Nat :=
  (s.submits.filter fun j => optedIn (spec p s j) && keyOf p s j == k).length

/-- the evaluated cache_scope is NONE whenever provenance is off (scheduler.py `options_then`) -/
def ProvScope (p : Prog) : Prop := ∀ i, (p.specAt i).prov = false → (p.specAt i).scope = Scope.none

def HasEntry (s : S) (k : Nat × Nat) : Prop := ∃ e ∈ s.cse, e.key = k.1 ∧ e.ctx = k.2

structure CseInv (p : Prog) (s : S) : Prop where
  reg_ok : ∀ k j, (k, j) ∈ s.pendingJobs → keyOf p s j = k ∧ (spec p s j).prov = true ∧ j < s.next
  sub_lt : ∀ j, j ∈ s.submits → j < s.next
  once : ∀ k, nSub p s k ≤ 1 ∧ (nSub p s k = 1 → (lookupPending s k).isSome = true ∨ HasEntry s k)

/-- the CSE-relevant part of the state is unchanged -/
structure Same (s s' : S) : Prop where
  next : s'.next = s.next
  specOf : s'.specOf = s.specOf
  pj : s'.pendingJobs = s.pendingJobs
  cse : s'.cse = s.cse
  sub : s'.submits = s.submits
  infl : s'.inflight = s.inflight

theorem Same.refl (s : S) : Same s s := ⟨rfl, rfl, rfl, rfl, rfl, rfl⟩
theorem Same.trans {a b c : S} (h1 : Same a b) (h2 : Same b c) : Same a c :=
  ⟨h2.next.trans h1.next, h2.specOf.trans h1.specOf, h2.pj.trans h1.pj, h2.cse.trans h1.cse, h2.sub.trans h1.sub, h2.infl.trans h1.infl⟩

theorem same_spec {p : Prog} {s s' : S} (h : s'.specOf = s.specOf) (j : JobId) : spec p s' j = spec p s j := by
  unfold spec; rw [h]

theorem Same.inv {p : Prog} {s s' : S} (h : Same s s') (hi : CseInv p s) : CseInv p s' := by
  have hk : ∀ j, keyOf p s' j = keyOf p s j := fun j => by unfold keyOf; rw [same_spec h.specOf]
  have hn : ∀ k, nSub p s' k = nSub p s k := by
    intro k; unfold nSub; rw [h.sub]
    congr 1; apply List.filter_congr; intro j _; rw [same_spec h.specOf, hk]
  have hl : ∀ k, lookupPending s' k = lookupPending s k := fun k => by unfold lookupPending; rw [h.pj]
  refine ⟨?_, ?_, ?_⟩
  · intro k j hm; rw [h.pj] at hm; rw [hk, same_spec h.specOf, h.next]; exact hi.reg_ok k j hm
  · intro j hm; rw [h.sub] at hm; rw [h.next]; exact hi.sub_lt j hm
  · intro k; rw [hn, hl]
    refine ⟨(hi.once k).1, fun h1 => ?_⟩
    rcases (hi.once k).2 h1 with a | ⟨e, he, a⟩
    · exact Or.inl a
    · exact Or.inr ⟨e, by rw [h.cse]; exact he, a⟩

theorem same_setJob (s : S) (j : JobId) (f : JobSt → JobSt) : Same s (setJob s j f) := ⟨rfl, rfl, rfl, rfl, rfl, rfl⟩
theorem same_enqueue (s : S) (e : Ev) : Same s (enqueue s e) := ⟨rfl, rfl, rfl, rfl, rfl, rfl⟩
theorem same_checkPending (p : Prog) (s : S) : Same s (checkPending p s) := ⟨rfl, rfl, rfl, rfl, rfl, rfl⟩
theorem same_consume (p : Prog) (s : S) (j : JobId) : Same s (consume p s j) := ⟨rfl, rfl, rfl, rfl, rfl, rfl⟩
theorem same_release (p : Prog) (s : S) (j : JobId) : Same s (release p s j) := ⟨rfl, rfl, rfl, rfl, rfl, rfl⟩

theorem same_releaseIf (p : Prog) (s : S) (j : JobId) : Same s (releaseIf p s j) := by
  unfold releaseIf; split
  · exact (same_release p s j).trans (same_checkPending p _)
  · exact Same.refl s

theorem same_notifyParentResolved (s : S) (j : JobId) : Same s (notifyParentResolved s j) := by
  unfold notifyParentResolved; split
  · exact ⟨rfl, rfl, rfl, rfl, rfl, rfl⟩
  · dsimp only; split
    · exact (same_setJob _ _ _).trans (same_enqueue _ _)
    · exact same_setJob _ _ _

theorem same_notifyParentRejected (s : S) (j : JobId) : Same s (notifyParentRejected s j) := by
  unfold notifyParentRejected; split
  · exact ⟨rfl, rfl, rfl, rfl, rfl, rfl⟩
  · split
    · exact Same.refl s
    · exact (same_setJob _ _ _).trans (same_enqueue _ _)

theorem same_foldl {α : Type} (f : S → α → S) (h : ∀ s a, Same s (f s a)) (l : List α) (s : S) :
    Same s (l.foldl f s) := by
  induction l generalizing s with
  | nil => exact Same.refl s
  | cons a l ih => exact (h s a).trans (ih (f s a))

/-! ### record and finalize -/
theorem record_frame (p : Prog) (s : S) (j : JobId) (b : Bool) :
    (record p s j b).next = s.next ∧ (record p s j b).specOf = s.specOf ∧
    (record p s j b).pendingJobs = s.pendingJobs ∧ (record p s j b).submits = s.submits ∧
    (∀ e, e ∈ s.cse → e ∈ (record p s j b).cse) ∧
    ((spec p s j).prov = true → HasEntry (record p s j b) (keyOf p s j)) := by
  unfold record; dsimp only
  split
  · refine ⟨rfl, rfl, rfl, rfl, fun e he => List.mem_append_left _ he, fun _ => ?_⟩
    exact ⟨_, List.mem_append_right _ (List.mem_singleton.mpr rfl), rfl, rfl⟩
  · rename_i h
    exact ⟨rfl, rfl, rfl, rfl, fun e he => he, fun h' => absurd h' h⟩

/-- the state only gained CSE entries -/
structure Grow (s s' : S) : Prop where
  next : s'.next = s.next
  specOf : s'.specOf = s.specOf
  pj : s'.pendingJobs = s.pendingJobs
  sub : s'.submits = s.submits
  cse : ∀ e, e ∈ s.cse → e ∈ s'.cse

theorem Grow.ofSame {s s' : S} (h : Same s s') : Grow s s' := ⟨h.next, h.specOf, h.pj, h.sub, fun e he => by rw [h.cse]; exact he⟩
theorem Grow.trans {a b c : S} (h1 : Grow a b) (h2 : Grow b c) : Grow a c :=
  ⟨h2.next.trans h1.next, h2.specOf.trans h1.specOf, h2.pj.trans h1.pj, h2.sub.trans h1.sub, fun e he => h2.cse e (h1.cse e he)⟩

theorem Grow.inv {p : Prog} {s s' : S} (h : Grow s s') (hi : CseInv p s) : CseInv p s' := by
  have hk : ∀ j, keyOf p s' j = keyOf p s j := fun j => by unfold keyOf; rw [same_spec h.specOf]
  have hn : ∀ k, nSub p s' k = nSub p s k := by
    intro k; unfold nSub; rw [h.sub]
    congr 1; apply List.filter_congr; intro j _; rw [same_spec h.specOf, hk]
  have hl : ∀ k, lookupPending s' k = lookupPending s k := fun k => by unfold lookupPending; rw [h.pj]
  refine ⟨?_, ?_, ?_⟩
  · intro k j hm; rw [h.pj] at hm; rw [hk, same_spec h.specOf, h.next]; exact hi.reg_ok k j hm
  · intro j hm; rw [h.sub] at hm; rw [h.next]; exact hi.sub_lt j hm
  · intro k; rw [hn, hl]
    refine ⟨(hi.once k).1, fun h1 => ?_⟩
    rcases (hi.once k).2 h1 with a | ⟨e, he, a⟩
    · exact Or.inl a
    · exact Or.inr ⟨e, h.cse e he, a⟩

theorem Grow.hasEntry {s s' : S} (h : Grow s s') {k : Nat × Nat} (he : HasEntry s k) : HasEntry s' k := by
  obtain ⟨e, hm, a⟩ := he; exact ⟨e, h.cse e hm, a⟩

theorem grow_record (p : Prog) (s : S) (j : JobId) (b : Bool) : Grow s (record p s j b) := by
  obtain ⟨a, b', c, d, e, _⟩ := record_frame p s j b
  exact ⟨a, b', c, d, e⟩

theorem lookup_filter_ne (l : List ((Nat × Nat) × JobId)) (k k' : Nat × Nat) (h : k' ≠ k) :
    ((l.filter fun e => e.1 != k).find? fun e => e.1 == k') = l.find? fun e => e.1 == k' := by
  induction l with
  | nil => rfl
  | cons a l ih =>
    by_cases ha : a.1 = k
    · have h1 : (a.1 != k) = false := by simp [ha]
      have h2 : (a.1 == k') = false := by simp [ha]; exact fun e => h e.symm
      simp only [List.filter_cons, h1, Bool.false_eq_true, if_false, List.find?_cons, h2, ih]
    · have h1 : (a.1 != k) = true := by simp [ha]
      simp only [List.filter_cons, h1, if_true, List.find?_cons, ih]

theorem lookup_filter_eq (l : List ((Nat × Nat) × JobId)) (k : Nat × Nat) :
    ((l.filter fun e => e.1 != k).find? fun e => e.1 == k) = none := by
  rw [List.find?_eq_none]
  intro e he
  have := (List.mem_filter.mp he).2
  simp at this ⊢
  exact this

/-- `_finalize_job`: a job that recorded its CSE entry may drop its own registration -/
theorem finalize_inv (p : Prog) (s : S) (j : JobId) (hi : CseInv p s)
    (hent : (spec p s j).prov = true → HasEntry s (keyOf p s j)) : CseInv p (finalize p s j) := by
  unfold finalize; dsimp only
  split
  · rename_i hreg
    have hmem : (keyOf p s j, j) ∈ s.pendingJobs := by
      unfold lookupPending at hreg
      cases hf : s.pendingJobs.find? (fun e => e.1 == ((spec p s j).key, (spec p s j).ctx)) with
      | none => rw [hf] at hreg; simp at hreg
      | some e =>
        rw [hf] at hreg; simp at hreg
        have h1 := List.mem_of_find?_eq_some hf
        have h2 := List.find?_some hf
        simp at h2
        have : e = (keyOf p s j, j) := by
          cases e with
          | mk a b =>
            simp at hreg h2
            subst hreg
            unfold keyOf; rw [h2]
        rw [← this]; exact h1
    have hprov := (hi.reg_ok _ _ hmem).2.1
    have hentry := hent hprov
    refine ⟨?_, ?_, ?_⟩
    · intro k j' hm
      exact hi.reg_ok k j' (List.mem_filter.mp hm).1
    · exact hi.sub_lt
    · intro k
      refine ⟨(hi.once k).1, fun h1 => ?_⟩
      by_cases hk : k = keyOf p s j
      · right; rw [hk]; exact hentry
      · rcases (hi.once k).2 h1 with a | a
        · left
          unfold lookupPending at a ⊢
          have := lookup_filter_ne s.pendingJobs (keyOf p s j) k hk
          unfold keyOf at this
          rw [this]; exact a
        · right; exact a
  · exact hi

/-! ## part 2 -/

theorem grow_keyOf {p : Prog} {s s' : S} (h : Grow s s') (j : JobId) : keyOf p s' j = keyOf p s j := by
  unfold keyOf; rw [same_spec h.specOf]

/-- `record j; (steps that only add CSE entries); finalize j` -/
theorem record_then_finalize (p : Prog) (s s' : S) (j : JobId) (b : Bool) (hi : CseInv p s)
    (hg : Grow (record p s j b) s') : CseInv p (finalize p s' j) := by
  have g0 := grow_record p s j b
  have g := g0.trans hg
  apply finalize_inv p s' j (g.inv hi)
  intro hp
  rw [same_spec g.specOf] at hp
  rw [grow_keyOf g]
  exact hg.hasEntry ((record_frame p s j b).2.2.2.2.2 hp)

theorem rejectTwin_grow (p : Prog) (s : S) (t : JobId) (hi : CseInv p s) :
    CseInv p (rejectTwin p s t) ∧ (rejectTwin p s t).next = s.next ∧ (rejectTwin p s t).specOf = s.specOf ∧
      (rejectTwin p s t).submits = s.submits ∧ (∀ e, e ∈ s.cse → e ∈ (rejectTwin p s t).cse) := by
  unfold rejectTwin
  have e1 := same_setJob s t (fun js => { js with wasCached := true })
  have i1 := e1.inv hi
  generalize hs1 : setJob s t (fun js => { js with wasCached := true }) = s1 at e1 i1
  have g2 : Grow (record p s1 t true) (notifyParentRejected (setJob (record p s1 t true) t fun js => { js with status := .rejected }) t) :=
    Grow.ofSame ((same_setJob _ _ _).trans (same_notifyParentRejected _ _))
  refine ⟨record_then_finalize p s1 _ t true i1 g2, ?_, ?_, ?_, ?_⟩
  all_goals
    have gg := (Grow.ofSame e1).trans ((grow_record p s1 t true).trans g2)
  · unfold finalize; dsimp only; split <;> exact gg.next
  · unfold finalize; dsimp only; split <;> exact gg.specOf
  · unfold finalize; dsimp only; split <;> exact gg.sub
  · intro e he; unfold finalize; dsimp only; split <;> exact gg.cse e he

/-- folding `rejectTwin`: invariant kept, CSE entries only grow, `pendingJobs` may shrink -/
theorem rejectTwins_fold (p : Prog) (l : List JobId) (s : S) (hi : CseInv p s) :
    CseInv p (l.foldl (rejectTwin p) s) ∧ (l.foldl (rejectTwin p) s).next = s.next ∧
      (l.foldl (rejectTwin p) s).specOf = s.specOf ∧ (l.foldl (rejectTwin p) s).submits = s.submits ∧
      (∀ e, e ∈ s.cse → e ∈ (l.foldl (rejectTwin p) s).cse) := by
  induction l generalizing s with
  | nil => exact ⟨hi, rfl, rfl, rfl, fun _ h => h⟩
  | cons t l ih =>
    obtain ⟨a, b, c, d, e⟩ := rejectTwin_grow p s t hi
    obtain ⟨a', b', c', d', e'⟩ := ih (rejectTwin p s t) a
    exact ⟨a', b'.trans b, c'.trans c, d'.trans d, fun x hx => e' x (e x hx)⟩

theorem resolveJob_cse (p : Prog) (s : S) (j : JobId) (hi : CseInv p s) : CseInv p (resolveJob p s j) := by
  unfold resolveJob
  apply record_then_finalize p s _ j false hi
  have e1 := same_setJob (record p s j false) j (fun js => { js with status := .resolved })
  have e2 := e1.trans (same_notifyParentResolved _ j)
  exact Grow.ofSame (e2.trans (same_foldl _ (fun s t => (same_setJob _ _ _).trans (same_enqueue _ _)) _ _))

theorem rejectRest_cse (p : Prog) (s : S) (j : JobId) (hi : CseInv p s) : CseInv p (rejectRest p s j) := by
  unfold rejectRest
  dsimp only
  generalize hs3 : notifyParentRejected (setJob (record p s j true) j fun js => { js with status := .rejected }) j = s3
  have g3 : Grow (record p s j true) s3 := by
    rw [← hs3]; exact Grow.ofSame ((same_setJob _ _ _).trans (same_notifyParentRejected _ _))
  have i3 : CseInv p s3 := ((grow_record p s j true).trans g3).inv hi
  obtain ⟨a, b, c, d, e⟩ := rejectTwins_fold p (s3.jobs j).twins s3 i3
  -- finalize j: its entry was recorded at the start and entries only grow
  apply finalize_inv p _ j a
  intro hp
  have hspec : spec p (List.foldl (rejectTwin p) s3 (s3.jobs j).twins) j = spec p s j := by
    rw [same_spec c, same_spec g3.specOf, same_spec (grow_record p s j true).specOf]
  rw [hspec] at hp
  have hk : keyOf p (List.foldl (rejectTwin p) s3 (s3.jobs j).twins) j = keyOf p s j := by unfold keyOf; rw [hspec]
  rw [hk]
  obtain ⟨en, hm, hkey⟩ := (record_frame p s j true).2.2.2.2.2 hp
  exact ⟨en, e en (g3.cse en hm), hkey⟩

theorem rejectJob_cse (p : Prog) (s : S) (j : JobId) (hi : CseInv p s) : CseInv p (rejectJob p s j) := by
  rw [rejectJob_eq]; exact rejectRest_cse p _ j ((same_releaseIf p s j).inv hi)

/-! ### spawn -/
theorem spawnOne_cse (p : Prog) (s : S) (j : JobId) (c : SpecId) (hi : CseInv p s) : CseInv p (spawnOne s j c) := by
  have hspec : ∀ i, i < s.next → spec p (spawnOne s j c) i = spec p s i := by
    intro i hlt; unfold spec spawnOne
    have : i ≠ s.next := Nat.ne_of_lt hlt
    simp [this]
  have hk : ∀ i, i < s.next → keyOf p (spawnOne s j c) i = keyOf p s i := fun i hlt => by unfold keyOf; rw [hspec i hlt]
  have hn : ∀ k, nSub p (spawnOne s j c) k = nSub p s k := by
    intro k; unfold nSub
    show (List.filter _ s.submits).length = _
    congr 1; apply List.filter_congr; intro i hm
    rw [hspec i (hi.sub_lt i hm), hk i (hi.sub_lt i hm)]
  refine ⟨?_, ?_, ?_⟩
  · intro k i hm
    obtain ⟨a, b, d⟩ := hi.reg_ok k i hm
    exact ⟨by rw [hk i d]; exact a, by rw [hspec i d]; exact b, Nat.lt_succ_of_lt d⟩
  · intro i hm; exact Nat.lt_succ_of_lt (hi.sub_lt i hm)
  · intro k; rw [hn]; exact hi.once k

theorem spawn_cse (p : Prog) (s : S) (j : JobId) (cs : List SpecId) (hi : CseInv p s) : CseInv p (spawn s j cs) := by
  unfold spawn
  have : CseInv p (cs.foldl (fun s c => spawnOne s j c) s) := by
    induction cs generalizing s with
    | nil => exact hi
    | cons c cs ih => exact ih (spawnOne s j c) (spawnOne_cse p s j c hi)
  dsimp only
  split
  · exact ((same_setJob _ _ _).trans (same_enqueue _ _)).inv this
  · exact (same_setJob _ _ _).inv this

theorem doneJob_cse (p : Prog) (s : S) (j : JobId) (f : Bool) (hi : CseInv p s) : CseInv p (doneJob p s j f) := by
  rw [doneJob_eq]
  have i1 := (same_releaseIf p s j).inv hi
  generalize releaseIf p s j = s1 at i1
  unfold doneRest
  have e1 : Same s1 (if (!(s1.jobs j).wasCached && (spec p s1 j).prov) = true then
      { s1 with evalTable := (spec p s1 j).key :: s1.evalTable } else s1) := by
    split
    · exact ⟨rfl, rfl, rfl, rfl, rfl, rfl⟩
    · exact Same.refl s1
  have i2 := e1.inv i1
  dsimp only
  split
  · exact (same_enqueue _ _).inv i2
  · exact spawn_cse p _ j _ i2

theorem complete_cse (p : Prog) (s : S) (j : JobId) (hi : CseInv p s) : CseInv p (complete p s j) := by
  unfold complete
  have g1 : Grow s { s with inflight := fun i => if i = j then false else s.inflight i } := ⟨rfl, rfl, rfl, rfl, fun _ h => h⟩
  exact (same_enqueue _ _).inv (g1.inv hi)

/-! ## part 3 -/

theorem optedIn_prov (p : Prog) (hps : ProvScope p) (s : S) (j : JobId) (h : optedIn (spec p s j) = true) :
    (spec p s j).prov = true := by
  by_cases hp : (spec p s j).prov = true
  · exact hp
  · have hp' : (spec p s j).prov = false := by simpa using hp
    have := hps (s.specOf j) hp'
    unfold optedIn at h
    unfold spec at h
    rw [this] at h
    simp at h

theorem cseLookup_none_no_entry (s : S) (sp : Spec) (h : cseLookup s sp = none) :
    ¬ HasEntry s (sp.key, sp.ctx) := by
  intro ⟨e, hm, hk, hc⟩
  unfold cseLookup at h
  rw [List.find?_eq_none] at h
  have := h e (List.mem_reverse.mpr hm)
  simp at this
  have h2 := this hk
  exact h2.2 hc

theorem lookupPending_append (s : S) (k k' : Nat × Nat) (j : JobId) :
    (lookupPending s k').isSome = true →
    (lookupPending { s with pendingJobs := s.pendingJobs ++ [(k, j)] } k').isSome = true := by
  unfold lookupPending
  intro h
  simp only [List.find?_append]
  cases hf : s.pendingJobs.find? (fun e => e.1 == k') with
  | none => rw [hf] at h; simp at h
  | some e => simp

theorem lookupPending_append_self (s : S) (k : Nat × Nat) (j : JobId) :
    (lookupPending { s with pendingJobs := s.pendingJobs ++ [(k, j)] } k).isSome = true := by
  unfold lookupPending
  simp only [List.find?_append]
  cases hf : s.pendingJobs.find? (fun e => e.1 == k) with
  | none => simp
  | some e => simp

theorem execJob_cse (p : Prog) (hps : ProvScope p) (s : S) (j : JobId) (hi : CseInv p s) (hlt : j < s.next) :
    CseInv p (execJob p s j) := by
  unfold execJob
  dsimp only
  split
  · exact ((same_setJob _ _ _).trans (same_checkPending p _)).inv hi
  · rename_i hnotpending
    split
    · exact (((same_setJob _ _ _).trans (same_checkPending p _)).trans (same_enqueue _ _)).inv hi
    · exact (((same_setJob _ _ _).trans (same_checkPending p _)).trans (same_enqueue _ _)).inv hi
    · exact (((same_setJob _ _ _).trans (same_checkPending p _)).trans (same_enqueue _ _)).inv hi
    · rename_i hmiss
      split
      · exact (Same.mk rfl rfl rfl rfl rfl rfl : Same s { s with pendingLimits := s.pendingLimits ++ [j] }).inv hi
      · have e0 : Same s (if p.dryrun = true then s else consume p s j) := by
          split
          · exact Same.refl s
          · exact same_consume p s j
        generalize hs1 : (if p.dryrun = true then s else consume p s j) = s1 at e0
        have i1 := e0.inv hi
        have hspec1 : spec p s1 j = spec p s j := same_spec e0.specOf j
        split
        · exact (same_enqueue _ _).inv i1
        · split
          · exact i1
          · -- submit
            have hlp : lookupPending s1 ((spec p s j).key, (spec p s j).ctx) =
                lookupPending s ((spec p s j).key, (spec p s j).ctx) := by
              unfold lookupPending; rw [e0.pj]
            by_cases hopt : optedIn (spec p s j) = true
            · -- an opted-in job reaches submission only if nothing is registered and nothing recorded
              have hprov := optedIn_prov p hps s j hopt
              have hnone : lookupPending s ((spec p s j).key, (spec p s j).ctx) = none := by
                simpa [hopt] using hnotpending
              have hnoentry : ¬ HasEntry s (keyOf p s j) := by
                apply cseLookup_none_no_entry
                unfold cacheLookup at hmiss
                unfold optedIn at hopt
                simp only [Bool.and_eq_true, bne_iff_ne, ne_eq] at hopt
                have h1 : ((spec p s j).scope == Scope.none) = false := by simpa using hopt.1
                simp only [h1, Bool.false_eq_true, if_false, hopt.2, if_true] at hmiss
                cases hl : cseLookup s (spec p s j) with
                | none => rfl
                | some e => rw [hl] at hmiss; simp at hmiss
              have hzero : nSub p s (keyOf p s j) = 0 := by
                have := hi.once (keyOf p s j)
                by_cases h1 : nSub p s (keyOf p s j) = 1
                · rcases this.2 h1 with a | a
                  · unfold keyOf at a; rw [hnone] at a; simp at a
                  · exact absurd a hnoentry
                · omega
              simp only [hprov, Bool.not_true, Bool.false_or, hlp, hnone, Option.isSome_none, Bool.false_eq_true, if_false]
              -- registered and submitted
              have hk1 : ∀ i, keyOf p s1 i = keyOf p s i := fun i => by unfold keyOf; rw [same_spec e0.specOf]
              refine ⟨?_, ?_, ?_⟩
              · intro k i hm
                show keyOf p s1 i = k ∧ (spec p s1 i).prov = true ∧ i < s1.next
                rcases List.mem_append.mp hm with a | a
                · exact i1.reg_ok k i a
                · simp at a
                  rw [a.1, a.2]
                  exact ⟨by rw [hk1]; rfl, by rw [hspec1]; exact hprov, by rw [e0.next]; exact hlt⟩
              · intro i hm
                show i < s1.next
                rcases List.mem_append.mp hm with a | a
                · exact i1.sub_lt i a
                · simp at a; subst a; rw [e0.next]; exact hlt
              · intro k
                have hn : nSub p { s1 with pendingJobs := s1.pendingJobs ++ [(((spec p s j).key, (spec p s j).ctx), j)],
                                            inflight := fun i => if i = j then true else s1.inflight i,
                                            submits := s1.submits ++ [j] } k
                    = nSub p s k + (if keyOf p s j = k then 1 else 0) := by
                  unfold nSub
                  show (List.filter (fun i => optedIn (spec p s1 i) && keyOf p s1 i == k) (s1.submits ++ [j])).length = _
                  rw [List.filter_append, List.length_append, e0.sub]
                  have : (List.filter (fun i => optedIn (spec p s1 i) && keyOf p s1 i == k) s.submits) =
                      (List.filter (fun i => optedIn (spec p s i) && keyOf p s i == k) s.submits) := by
                    apply List.filter_congr; intro i _; rw [same_spec e0.specOf, hk1]
                  rw [this]
                  congr 1
                  simp only [List.filter_cons, List.filter_nil, hspec1, hopt, hk1, Bool.true_and]
                  by_cases hk : keyOf p s j = k
                  · simp [hk]
                  · simp [hk]
                rw [hn]
                by_cases hk : keyOf p s j = k
                · subst hk
                  simp only [if_true, hzero]
                  refine ⟨Nat.le_refl _, fun _ => Or.inl ?_⟩
                  exact lookupPending_append_self s1 _ j
                · simp only [hk, if_false, Nat.add_zero]
                  refine ⟨(hi.once k).1, fun h1 => ?_⟩
                  rcases (hi.once k).2 h1 with a | ⟨e, he, a⟩
                  · left
                    have : (lookupPending s1 k).isSome = true := by unfold lookupPending; rw [e0.pj]; exact a
                    exact lookupPending_append s1 _ k j this
                  · right; exact ⟨e, by show e ∈ s1.cse; rw [e0.cse]; exact he, a⟩
            · -- an opted-out job: its submission is not counted
              have hk1 : ∀ i, keyOf p s1 i = keyOf p s i := fun i => by unfold keyOf; rw [same_spec e0.specOf]
              generalize hs2 : (if (!(spec p s j).prov || (lookupPending s1 ((spec p s j).key, (spec p s j).ctx)).isSome) = true
                  then s1 else { s1 with pendingJobs := s1.pendingJobs ++ [(((spec p s j).key, (spec p s j).ctx), j)] }) = s2
              have hs2f : s2.next = s1.next ∧ s2.specOf = s1.specOf ∧ s2.cse = s1.cse ∧ s2.submits = s1.submits := by
                rw [← hs2]; split <;> exact ⟨rfl, rfl, rfl, rfl⟩
              have hreg2 : ∀ k i, (k, i) ∈ s2.pendingJobs → keyOf p s1 i = k ∧ (spec p s1 i).prov = true ∧ i < s1.next := by
                intro k i hm
                rw [← hs2] at hm
                split at hm
                · exact i1.reg_ok k i hm
                · rename_i hcond
                  rcases List.mem_append.mp hm with a | a
                  · exact i1.reg_ok k i a
                  · simp at a
                    have hprov : (spec p s j).prov = true := by
                      by_cases hp : (spec p s j).prov = true
                      · exact hp
                      · simp [hp] at hcond
                    rw [a.1, a.2]
                    exact ⟨by rw [hk1]; rfl, by rw [hspec1]; exact hprov, by rw [e0.next]; exact hlt⟩
              have hlk2 : ∀ k, (lookupPending s1 k).isSome = true → (lookupPending s2 k).isSome = true := by
                intro k h; rw [← hs2]; split
                · exact h
                · exact lookupPending_append s1 _ k j h
              obtain ⟨f1, f2, f3, f4⟩ := hs2f
              refine ⟨?_, ?_, ?_⟩
              · intro k i hm
                show keyOf p s2 i = k ∧ (spec p s2 i).prov = true ∧ i < s2.next
                have := hreg2 k i hm
                unfold keyOf spec at this ⊢
                rw [f2, f1]; exact this
              · intro i hm
                show i < s2.next
                rw [f1]
                have hm' : i ∈ s2.submits ++ [j] := hm
                rcases List.mem_append.mp hm' with a | a
                · rw [f4] at a; exact i1.sub_lt i a
                · simp at a; subst a; rw [e0.next]; exact hlt
              · intro k
                have hn : nSub p { s2 with inflight := fun i => if i = j then true else s2.inflight i,
                                            submits := s2.submits ++ [j] } k = nSub p s k := by
                  unfold nSub
                  show (List.filter (fun i => optedIn (spec p s2 i) && keyOf p s2 i == k) (s2.submits ++ [j])).length = _
                  have hsp2 : ∀ i, spec p s2 i = spec p s i := fun i => by unfold spec; rw [f2, e0.specOf]
                  have hk2 : ∀ i, keyOf p s2 i = keyOf p s i := fun i => by unfold keyOf; rw [hsp2]
                  rw [List.filter_append, List.length_append, f4, e0.sub]
                  have : (List.filter (fun i => optedIn (spec p s2 i) && keyOf p s2 i == k) s.submits) =
                      (List.filter (fun i => optedIn (spec p s i) && keyOf p s i == k) s.submits) := by
                    apply List.filter_congr; intro i _; rw [hsp2, hk2]
                  rw [this]
                  have hopt' : optedIn (spec p s j) = false := by simpa using hopt
                  simp [List.filter_cons, hsp2, hopt']
                rw [hn]
                refine ⟨(hi.once k).1, fun h1 => ?_⟩
                rcases (hi.once k).2 h1 with a | ⟨e, he, a⟩
                · left
                  have : (lookupPending s1 k).isSome = true := by unfold lookupPending; rw [e0.pj]; exact a
                  exact hlk2 k this
                · right; exact ⟨e, by show e ∈ s2.cse; rw [f3, e0.cse]; exact he, a⟩

/-! ## part 4 -/

theorem same_tl (s : S) : Same s (tl s) := ⟨rfl, rfl, rfl, rfl, rfl, rfl⟩

theorem pop_cse (p : Prog) (hps : ProvScope p) (s : S) (hinv : Inv p s) (hi : CseInv p s) : CseInv p (pop p s) := by
  unfold pop
  split
  · exact hi
  · rename_i e rest hq
    rw [tl_eq s e rest hq]
    have it := (same_tl s).inv hi
    cases e with
    | exec j =>
      have hlt := (exec_head_facts p s j rest hq hinv.core).1.2.2
      exact execJob_cse p hps (tl s) j it hlt
    | resolve j => exact resolveJob_cse p (tl s) j it
    | done j f => exact doneJob_cse p (tl s) j f it
    | reject j => exact rejectJob_cse p (tl s) j it

theorem cse_init (p : Prog) : CseInv p init := by
  refine ⟨?_, ?_, ?_⟩
  · intro k j h; simp [init] at h
  · intro j h; simp [init] at h
  · intro k; simp [nSub, init]

theorem reachable_cse (p : Prog) (hps : ProvScope p) (s : S) (h : Reachable p s) : CseInv p s := by
  induction h with
  | init => exact cse_init p
  | step hr hs ih =>
    cases hs with
    | pop _ _ => exact pop_cse p hps _ (reachable_inv p _ hr) ih
    | complete j _ _ => exact complete_cse p _ j ih

/-! ## part 5 -/

/-! # Dry runs submit nothing (C28) -/

structure Keep (s s' : S) : Prop where
  sub : s'.submits = s.submits
  infl : s'.inflight = s.inflight

theorem Keep.refl (s : S) : Keep s s := ⟨rfl, rfl⟩
theorem Keep.trans {a b c : S} (h1 : Keep a b) (h2 : Keep b c) : Keep a c := ⟨h2.sub.trans h1.sub, h2.infl.trans h1.infl⟩
theorem Keep.ofSame {s s' : S} (h : Same s s') : Keep s s' := ⟨h.sub, h.infl⟩

theorem keep_record (p : Prog) (s : S) (j : JobId) (b : Bool) : Keep s (record p s j b) := by
  unfold record; dsimp only; split <;> exact ⟨rfl, rfl⟩
theorem keep_finalize (p : Prog) (s : S) (j : JobId) : Keep s (finalize p s j) := by
  unfold finalize; dsimp only; split <;> exact ⟨rfl, rfl⟩

theorem keep_foldl {α : Type} (f : S → α → S) (h : ∀ s a, Keep s (f s a)) (l : List α) (s : S) :
    Keep s (l.foldl f s) := by
  induction l generalizing s with
  | nil => exact Keep.refl s
  | cons a l ih => exact (h s a).trans (ih (f s a))

theorem keep_rejectTwin (p : Prog) (s : S) (t : JobId) : Keep s (rejectTwin p s t) := by
  unfold rejectTwin
  exact ((((Keep.ofSame (same_setJob _ _ _)).trans (keep_record p _ t true)).trans (Keep.ofSame (same_setJob _ _ _))).trans
    (Keep.ofSame (same_notifyParentRejected _ _))).trans (keep_finalize p _ t)

theorem keep_twinsDone (l : List JobId) (s : S) :
    Keep s (l.foldl (fun s t => enqueue (setJob s t fun js => { js with wasCached := true }) (Ev.done t true)) s) :=
  keep_foldl _ (fun s t => Keep.ofSame ((same_setJob s t _).trans (same_enqueue _ _))) l s

theorem keep_resolveJob (p : Prog) (s : S) (j : JobId) : Keep s (resolveJob p s j) := by
  unfold resolveJob
  have e1 := (keep_record p s j false).trans (Keep.ofSame (same_setJob _ j (fun js => { js with status := .resolved })))
  have e2 := e1.trans (Keep.ofSame (same_notifyParentResolved _ j))
  exact (e2.trans (keep_twinsDone _ _)).trans (keep_finalize p _ j)

theorem keep_rejectJob (p : Prog) (s : S) (j : JobId) : Keep s (rejectJob p s j) := by
  rw [rejectJob_eq]
  unfold rejectRest
  have e0 := Keep.ofSame (same_releaseIf p s j)
  have e1 := (e0.trans (keep_record p _ j true)).trans (Keep.ofSame (same_setJob _ j (fun js => { js with status := .rejected })))
  have e2 := e1.trans (Keep.ofSame (same_notifyParentRejected _ j))
  exact (e2.trans (keep_foldl (rejectTwin p) (keep_rejectTwin p) _ _)).trans (keep_finalize p _ j)

theorem keep_spawnOne (s : S) (j : JobId) (c : SpecId) : Keep s (spawnOne s j c) := ⟨rfl, rfl⟩

theorem keep_spawn (s : S) (j : JobId) (cs : List SpecId) : Keep s (spawn s j cs) := by
  unfold spawn
  have e1 := keep_foldl (fun s c => spawnOne s j c) (fun s c => keep_spawnOne s j c) cs s
  dsimp only
  split
  · exact (e1.trans (Keep.ofSame (same_setJob _ _ _))).trans (Keep.ofSame (same_enqueue _ _))
  · exact e1.trans (Keep.ofSame (same_setJob _ _ _))

theorem keep_doneJob (p : Prog) (s : S) (j : JobId) (f : Bool) : Keep s (doneJob p s j f) := by
  rw [doneJob_eq]
  have e0 := Keep.ofSame (same_releaseIf p s j)
  generalize releaseIf p s j = s1 at e0
  unfold doneRest
  have e1 : Keep s1 (if (!(s1.jobs j).wasCached && (spec p s1 j).prov) = true then
      { s1 with evalTable := (spec p s1 j).key :: s1.evalTable } else s1) := by
    split
    · exact ⟨rfl, rfl⟩
    · exact Keep.refl s1
  dsimp only
  split
  · exact (e0.trans e1).trans (Keep.ofSame (same_enqueue _ _))
  · exact (e0.trans e1).trans (keep_spawn _ j _)

/-- in a dry run `_exec_job_main_thread` never reaches `executor.submit` -/
theorem keep_execJob_dry (p : Prog) (hd : p.dryrun = true) (s : S) (j : JobId) : Keep s (execJob p s j) := by
  unfold execJob
  dsimp only
  split
  · exact Keep.ofSame ((same_setJob _ _ _).trans (same_checkPending p _))
  · split
    · exact Keep.ofSame (((same_setJob _ _ _).trans (same_checkPending p _)).trans (same_enqueue _ _))
    · exact Keep.ofSame (((same_setJob _ _ _).trans (same_checkPending p _)).trans (same_enqueue _ _))
    · exact Keep.ofSame (((same_setJob _ _ _).trans (same_checkPending p _)).trans (same_enqueue _ _))
    · simp only [hd, Bool.not_true, Bool.false_and, Bool.false_eq_true, if_false, if_true]
      split
      · exact Keep.ofSame (same_enqueue _ _)
      · exact Keep.refl s

structure DryInv (s : S) : Prop where
  sub : s.submits = []
  infl : ∀ j, s.inflight j = false

theorem Keep.dry {s s' : S} (h : Keep s s') (hi : DryInv s) : DryInv s' :=
  ⟨by rw [h.sub]; exact hi.sub, fun j => by rw [h.infl]; exact hi.infl j⟩

theorem pop_dry (p : Prog) (hd : p.dryrun = true) (s : S) (ih : DryInv s) : DryInv (pop p s) := by
  unfold pop
  split
  · exact ih
  · rename_i e rest hq
    have k0 : Keep s { s with queue := rest } := ⟨rfl, rfl⟩
    cases e with
    | exec j => exact (k0.trans (keep_execJob_dry p hd _ j)).dry ih
    | resolve j => exact (k0.trans (keep_resolveJob p _ j)).dry ih
    | done j f => exact (k0.trans (keep_doneJob p _ j f)).dry ih
    | reject j => exact (k0.trans (keep_rejectJob p _ j)).dry ih

theorem reachable_dry (p : Prog) (hd : p.dryrun = true) (s : S) (h : Reachable p s) : DryInv s := by
  induction h with
  | init => exact ⟨rfl, fun _ => rfl⟩
  | step hr hs ih =>
    cases hs with
    | pop _ _ => exact pop_dry p hd _ ih
    | complete j _ hi => rw [ih.infl j] at hi; exact absurd hi (by simp)

/-! ## part 6 -/

/-! # dry run vs real run: identical steps while every job hits the cache -/

def asDry (p : Prog) : Prog := { p with dryrun := true }

theorem spec_asDry (p : Prog) (s : S) (j : JobId) : spec (asDry p) s j = spec p s j := rfl
theorem release_asDry (p : Prog) (s : S) (j : JobId) : release (asDry p) s j = release p s j := rfl
theorem record_asDry (p : Prog) (s : S) (j : JobId) (b : Bool) : record (asDry p) s j b = record p s j b := rfl
theorem finalize_asDry (p : Prog) (s : S) (j : JobId) : finalize (asDry p) s j = finalize p s j := rfl
theorem rejectTwin_asDry (p : Prog) : rejectTwin (asDry p) = rejectTwin p := rfl

theorem scanPending_asDry (p : Prog) (sp : JobId → SpecId) (used : Res → Int) (l : List JobId) (keys : List Res)
    (acc : Res → Nat) : scanPending (asDry p) sp used l keys acc = scanPending p sp used l keys acc := by
  induction l generalizing keys acc with
  | nil => rfl
  | cons a l ih =>
    simp only [scanPending]
    have hw : ∀ k f, within (asDry p) used k f = within p used k f := fun _ _ => rfl
    have hs : ∀ i, (asDry p).specAt i = p.specAt i := fun _ => rfl
    simp only [hw, hs, ih]

theorem checkPending_asDry (p : Prog) (s : S) : checkPending (asDry p) s = checkPending p s := by
  unfold checkPending; rw [scanPending_asDry]

theorem doneJob_asDry (p : Prog) (s : S) (j : JobId) (f : Bool) : doneJob (asDry p) s j f = doneJob p s j f := by
  unfold doneJob
  simp only [release_asDry, checkPending_asDry, spec_asDry]

theorem rejectJob_asDry (p : Prog) (s : S) (j : JobId) : rejectJob (asDry p) s j = rejectJob p s j := by
  unfold rejectJob
  simp only [release_asDry, checkPending_asDry, record_asDry, finalize_asDry, rejectTwin_asDry]

theorem resolveJob_asDry (p : Prog) (s : S) (j : JobId) : resolveJob (asDry p) s j = resolveJob p s j := rfl

/-- the head of the queue is an execution that misses both the pending-twin table and the cache -/
def missAtHead (p : Prog) (s : S) : Bool :=
  match s.queue with
  | Ev.exec j :: _ =>
    let sp := spec p s j
    (if optedIn sp then lookupPending s (sp.key, sp.ctx) else none).isNone &&
      (cacheLookup s sp == Hit.miss)
  | _ => false

theorem execJob_asDry (p : Prog) (s : S) (j : JobId)
    (h : ((if optedIn (spec p s j) then lookupPending s ((spec p s j).key, (spec p s j).ctx) else none).isNone &&
      (cacheLookup s (spec p s j) == Hit.miss)) = false) :
    execJob (asDry p) s j = execJob p s j := by
  unfold execJob
  have hs : spec (asDry p) s j = spec p s j := rfl
  rw [hs]
  dsimp only
  cases h1 : (if optedIn (spec p s j) = true then lookupPending s ((spec p s j).key, (spec p s j).ctx) else none) with
  | some t => simp only [checkPending_asDry]
  | none =>
    rw [h1] at h
    simp only [Option.isNone_none, Bool.true_and, beq_eq_false_iff_ne, ne_eq] at h
    dsimp only
    cases h2 : cacheLookup s (spec p s j) with
    | miss => exact absurd h2 h
    | cse e => simp only [checkPending_asDry]
    | ultimate => simp only [checkPending_asDry]
    | single => simp only [checkPending_asDry]

theorem pop_asDry (p : Prog) (s : S) (h : missAtHead p s = false) : pop (asDry p) s = pop p s := by
  unfold pop
  cases hq : s.queue with
  | nil => rfl
  | cons e rest =>
    dsimp only
    cases e with
    | exec j =>
      unfold missAtHead at h
      rw [hq] at h
      have hspec : ∀ s' : S, s'.specOf = s.specOf → spec p s' j = spec p s j := fun s' e => by unfold spec; rw [e]
      exact execJob_asDry p { s with queue := rest } j h
    | done j f => exact doneJob_asDry p _ j f
    | reject j => exact rejectJob_asDry p _ j
    | resolve j => rfl

def popN (p : Prog) : Nat → S → S
  | 0, s => s
  | n + 1, s => popN p n (pop p s)

/-- If in the first `n` events of the dry run no job misses the cache, the real run processes the same
`n` events through exactly the same states. -/
theorem dry_real_lockstep (p : Prog) (n : Nat) (s : S)
    (h : ∀ k, k < n → missAtHead p (popN (asDry p) k s) = false) :
    popN p n s = popN (asDry p) n s := by
  induction n generalizing s with
  | zero => rfl
  | succ n ih =>
    have h0 := h 0 (Nat.zero_lt_succ n)
    simp only [popN] at h0 ⊢
    rw [pop_asDry p s h0]
    apply ih
    intro k hk
    have := h (k + 1) (Nat.succ_lt_succ hk)
    simp only [popN] at this
    rw [pop_asDry p s h0] at this
    exact this

end RedunModel.SchedCore
