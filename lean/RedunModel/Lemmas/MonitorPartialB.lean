/-
`InvP` (see MonitorPartialA) is preserved by every step of a monitor thread: threads past
`is_running = False` (`invP_stepOld`), the thread `self._thread` refers to on its exit path
(`invP_stepLast_post`) and in its loop (`invP_stepLast_main`).
-/
import RedunModel.Lemmas.MonitorPartialA
namespace RedunModel.Monitor
set_option linter.unusedSimpArgs false

theorem invP_stepOld (V : Variant) (s s'' : State) (k : Nat) (m m' : Mon) (h : InvP V s) (hk : s.old[k]? = some m)
    (hs : stepMon V s false m = some (s'', m')) : InvP V { s'' with old := s''.old.set k m' } := by
  have hm := h.oldOk m (List.mem_of_getElem? hk)
  obtain ⟨e, hm'⟩ := stepMon_harmless V s s'' false m m' hm hs
  subst e
  obtain ⟨a, b, c, d, e, f, g, i, j, k', l, mm, n, o, na⟩ := h
  constructor <;> simp only [lph, liter, lcur] at * <;> (try assumption)
  intro x hx
  rcases List.mem_or_eq_of_mem_set hx with hx | hx
  · exact b x hx
  · subst hx; exact hm'

set_option maxHeartbeats 16000000 in
theorem invP_stepLast_post (V : Variant) (hW : WF V) (s s'' : State) (m m' : Mon) (h : InvP V s) (hmon : s.mon = some m)
    (r : List (Lbl × PostOp)) (hph : m.ph = .post r)
    (hN : s.pending.Nodup) (hs : stepMon V s true m = some (s'', m')) : InvP V { s'' with mon := some m' } := by
  have hpo := postOk_not_after V.testThread
  have hmono := afterOk_mono
  have hne := postOk_ne_nil V.testThread
  have hWp := hW.post
  obtain ⟨flag, pending, queue, arrAlive, reported, crashes, submitted, hit, sph, cur, todo, old, mon, oldSubs, sub, armed, faulted, dropped, pre, gone⟩ := s
  simp only at hmon; subst hmon
  obtain ⟨mph, iter, mcur, idx⟩ := m
  simp only at hph
  obtain ⟨a, b, c, d, e, f, g, i, j, k, l, mm, n, o, na⟩ := h
  simp only [lph, liter, lcur] at a b c d e f g i j k l mm n o
  simp only at hN
  have c1 := mNops_pre_class
  have c2 := mNops_bodyPre_class
  have c3 := mNops_snapPost_class
  have c4 := mNops_procPre_class
  have c5 := mNops_procPost_class
  have c6 := mNops_sleep_class
  have c7 := mPost_class
  have hsf := sFlagged_cases sph
  subst hph
  cases r with
  | nil => simp [stepMon] at hs
  | cons x r' =>
    obtain ⟨lb, op⟩ := x
    have hcl := c7 r'
    cases op <;> simp only [stepMon, lastMonAlive_mk] at hs <;> (try split at hs) <;> simp at hs
    all_goals (obtain ⟨h1, h2⟩ := hs; subst h1; subst h2)
    all_goals (constructor <;> simp only [lph, liter, lcur] at * <;> (try assumption))
    all_goals (first | (grind [postOk, afterOk, harmless, preExit, iterPh, curPh, sFlagged, sStarting]) | skip)

set_option maxHeartbeats 16000000 in
theorem invP_stepLast_main (V : Variant) (hW : WF V) (s s'' : State) (m m' : Mon) (h : InvP V s) (hmon : s.mon = some m)
    (hph : ∀ r, m.ph ≠ .post r)
    (hN : s.pending.Nodup) (hs : stepMon V s true m = some (s'', m')) : InvP V { s'' with mon := some m' } := by
  have hpo := postOk_not_after V.testThread
  have hmono := afterOk_mono
  have hne := postOk_ne_nil V.testThread
  have hWp := hW.post
  obtain ⟨flag, pending, queue, arrAlive, reported, crashes, submitted, hit, sph, cur, todo, old, mon, oldSubs, sub, armed, faulted, dropped, pre, gone⟩ := s
  simp only at hmon; subst hmon
  obtain ⟨mph, iter, mcur, idx⟩ := m
  simp only at hph
  obtain ⟨a, b, c, d, e, f, g, i, j, k, l, mm, n, o, na⟩ := h
  simp only [lph, liter, lcur] at a b c d e f g i j k l mm n o
  simp only at hN
  have c1 := mNops_pre_class
  have c2 := mNops_bodyPre_class
  have c3 := mNops_snapPost_class
  have c4 := mNops_procPre_class
  have c5 := mNops_procPost_class
  have c6 := mNops_sleep_class
  have c7 := mPost_class
  have hsf := sFlagged_cases sph
  cases mph
  case unstarted => simp [stepMon] at hs
  case dead => simp [stepMon] at hs
  case exc r => exact absurd rfl (j r)
  case post r => exact absurd rfl (hph r)
  all_goals (simp only [stepMon] at hs; (repeat' split at hs) <;> simp at hs)
  all_goals (obtain ⟨h1, h2⟩ := hs; subst h1; subst h2)
  all_goals (constructor <;> simp only [lph, liter, lcur] at * <;> (try assumption))
  all_goals (first | (grind [preExit, iterPh, curPh]) | skip)


theorem invP_stepLast (V : Variant) (hW : WF V) (s s'' : State) (m m' : Mon) (h : InvP V s) (hmon : s.mon = some m)
    (hN : s.pending.Nodup) (hs : stepMon V s true m = some (s'', m')) : InvP V { s'' with mon := some m' } := by
  by_cases hp : ∃ r, m.ph = .post r
  · obtain ⟨r, hr⟩ := hp
    exact invP_stepLast_post V hW s s'' m m' h hmon r hr hN hs
  · exact invP_stepLast_main V hW s s'' m m' h hmon (fun r hr => hp ⟨r, hr⟩) hN hs
end RedunModel.Monitor
