/-
Lemmas for the timing model (C07): sorting by any total order is permutation invariant, hence so are call
hashes and recorded rows; the evaluation relation `Ev` (children listed in an arbitrary order) determines the
value, the children's call hashes and the recorded rows up to order; handle fork keys.
-/
import RedunModel.Model.Timing
namespace RedunModel.Timing
open List

/-! ### sorting -/

theorem sortH_perm {le : H → H → Bool} (hle : TotalOrder le) {l1 l2 : List H} (h : l1.Perm l2) :
    sortH le l1 = sortH le l2 := by
  unfold sortH
  apply List.Perm.eq_of_pairwise (le := fun a b => le a b = true)
  · intro a b _ _ h1 h2; exact hle.antisymm a b h1 h2
  · exact pairwise_mergeSort (le := le) (fun a b c => hle.trans a b c) (fun a b => hle.total a b) l1
  · exact pairwise_mergeSort (le := le) (fun a b c => hle.trans a b c) (fun a b => hle.total a b) l2
  · exact (mergeSort_perm l1 le).trans (h.trans (mergeSort_perm l2 le).symm)

theorem sortH_perm_self (le : H → H → Bool) (l : List H) : (sortH le l).Perm l := mergeSort_perm l le

theorem hashCallNode_perm {le : H → H → Bool} (hle : TotalOrder le) {t : Nat} {a : List HV} {r : HV}
    {k1 k2 : List H} (h : k1.Perm k2) : hashCallNode le t a r k1 = hashCallNode le t a r k2 := by
  unfold hashCallNode; rw [sortH_perm hle h]

/-- pre-image injectivity: equal call hashes have equal task, arguments, result and the same children up to order -/
theorem hashCallNode_inj {le : H → H → Bool} {t t' : Nat} {a a' : List HV} {r r' : HV} {k k' : List H}
    (h : hashCallNode le t a r k = hashCallNode le t' a' r' k') : t = t' ∧ a = a' ∧ r = r' ∧ k.Perm k' := by
  unfold hashCallNode at h
  injection h with h1 h2 h3 h4
  exact ⟨h1, h2, h3, (sortH_perm_self le k).symm.trans (h4 ▸ sortH_perm_self le k')⟩

/-! ### kid hashes and rows as flatMaps -/

def kh (le : H → H → Bool) (k : JT) : List H := if k.seen then [callHash le k] else []
def kr (le : H → H → Bool) (k : JT) : List Row := if k.seen then rows le k else []

theorem kidHashes_eq (le : H → H → Bool) (ks : List JT) : kidHashes le ks = ks.flatMap (kh le) := by
  induction ks with
  | nil => simp [kidHashes]
  | cons k ks ih => simp [kidHashes, kh, ih]

theorem rowsL_eq (le : H → H → Bool) (ks : List JT) : rowsL le ks = ks.flatMap (kr le) := by
  induction ks with
  | nil => simp [rowsL]
  | cons k ks ih => simp [rowsL, kr, ih]

theorem kidHashes_append (le : H → H → Bool) (a b : List JT) : kidHashes le (a ++ b) = kidHashes le a ++ kidHashes le b := by
  simp [kidHashes_eq]

theorem rowsL_append (le : H → H → Bool) (a b : List JT) : rowsL le (a ++ b) = rowsL le a ++ rowsL le b := by
  simp [rowsL_eq]

theorem kidHashes_perm {le : H → H → Bool} {a b : List JT} (h : a.Perm b) : (kidHashes le a).Perm (kidHashes le b) := by
  rw [kidHashes_eq, kidHashes_eq]; exact h.flatMap_right _

theorem rowsL_perm {le : H → H → Bool} {a b : List JT} (h : a.Perm b) : (rowsL le a).Perm (rowsL le b) := by
  rw [rowsL_eq, rowsL_eq]; exact h.flatMap_right _

theorem callHash_node (le : H → H → Bool) (t : Nat) (a ea : List HV) (r : HV) (s : Bool) (kids : List JT) :
    callHash le (.node t a ea r s kids) = hashCallNode le t a r (kidHashes le kids) := by simp [callHash]

theorem rows_node (le : H → H → Bool) (t : Nat) (a ea : List HV) (r : HV) (s : Bool) (kids : List JT) :
    rows le (.node t a ea r s kids) = ownRows le t a ea r (kidHashes le kids) ++ rowsL le kids := by simp [rows]

/-- what two listings of the children of one parent have in common when they differ only by timing: the same
child call hashes and the same recorded rows, up to order -/
def Same (le : H → H → Bool) (ks ks' : List JT) : Prop :=
  (kidHashes le ks).Perm (kidHashes le ks') ∧ (rowsL le ks).Perm (rowsL le ks')

theorem Same.refl (le : H → H → Bool) (ks : List JT) : Same le ks ks := ⟨.refl _, .refl _⟩

theorem Same.of_perm {le : H → H → Bool} {a b : List JT} (h : a.Perm b) : Same le a b :=
  ⟨kidHashes_perm h, rowsL_perm h⟩

theorem Same.trans {le : H → H → Bool} {a b c : List JT} (h1 : Same le a b) (h2 : Same le b c) : Same le a c :=
  ⟨h1.1.trans h2.1, h1.2.trans h2.2⟩

theorem Same.symm {le : H → H → Bool} {a b : List JT} (h : Same le a b) : Same le b a := ⟨h.1.symm, h.2.symm⟩

theorem Same.append {le : H → H → Bool} {a a' b b' : List JT} (h1 : Same le a a') (h2 : Same le b b') :
    Same le (a ++ b) (a' ++ b') := by
  unfold Same
  rw [kidHashes_append, kidHashes_append, rowsL_append, rowsL_append]
  exact ⟨h1.1.append h2.1, h1.2.append h2.2⟩

theorem ownRows_perm {le : H → H → Bool} (hle : TotalOrder le) (t : Nat) (a ea : List HV) (r : HV) {k1 k2 : List H}
    (h : k1.Perm k2) : (ownRows le t a ea r k1).Perm (ownRows le t a ea r k2) := by
  unfold ownRows
  rw [hashCallNode_perm hle h]
  exact .cons _ (.append_left _ (h.map _))

/-- a job whose children were listed in two orders: same call hash, same rows -/
theorem Same.node {le : H → H → Bool} (hle : TotalOrder le) (t : Nat) (a ea : List HV) (r : HV) (s : Bool)
    {kids kids' : List JT} (h : Same le kids kids') :
    callHash le (.node t a ea r s kids) = callHash le (.node t a ea r s kids') ∧
    (rows le (.node t a ea r s kids)).Perm (rows le (.node t a ea r s kids')) := by
  rw [callHash_node, callHash_node, rows_node, rows_node]
  exact ⟨hashCallNode_perm hle h.1, (ownRows_perm hle t a ea r h.1).append h.2⟩

theorem Same.cons_node {le : H → H → Bool} (hle : TotalOrder le) (t : Nat) (a ea : List HV) (r : HV) (s : Bool)
    {kids kids' ks ks' : List JT} (h : Same le kids kids') (h2 : Same le ks ks') :
    Same le (.node t a ea r s kids :: ks) (.node t a ea r s kids' :: ks') := by
  obtain ⟨e1, e2⟩ := Same.node hle t a ea r s h
  unfold Same
  simp only [kidHashes, rowsL, JT.seen]
  rw [e1]
  constructor
  · exact .append_left _ h2.1
  · cases s
    · simpa using h2.2
    · simpa using e2.append h2.2

/-! ### the value and the recorded graph do not depend on the order in which children were created -/

theorem ev_det {le : H → H → Bool} (hle : TotalOrder le) {P : Prog} {e : Expr} {v : HV} {ks : List JT}
    (h : Ev P e v ks) : ∀ {v' : HV} {ks' : List JT}, Ev P e v' ks' → v = v' ∧ Same le ks ks' := by
  induction h with
  | lit v => intro v' ks' h'; cases h'; exact ⟨rfl, Same.refl le []⟩
  | add ha hb hp iha ihb =>
    intro v' ks' h'
    cases h' with
    | add ha' hb' hp' =>
      obtain ⟨rfl, sa⟩ := iha ha'
      obtain ⟨rfl, sb⟩ := ihb hb'
      exact ⟨rfl, (Same.of_perm hp).trans ((sa.append sb).trans (Same.of_perm hp').symm)⟩
  | call ha hb hp iha ihb =>
    intro v' ks' h'
    cases h' with
    | call ha' hb' hp' =>
      obtain ⟨rfl, sa⟩ := iha ha'
      obtain ⟨rfl, sb⟩ := ihb hb'
      exact ⟨rfl, (Same.of_perm hp).trans ((Same.cons_node hle _ _ _ _ _ sb sa).trans (Same.of_perm hp').symm)⟩
  | condT hc ht ha hp ihc iha =>
    intro v' ks' h'
    cases h' with
    | condT hc' ht' ha' hp' =>
      obtain ⟨rfl, sc⟩ := ihc hc'
      obtain ⟨rfl, sa⟩ := iha ha'
      exact ⟨rfl, (Same.of_perm hp).trans ((sc.append sa).trans (Same.of_perm hp').symm)⟩
    | condF hc' ht' hb' hp' =>
      obtain ⟨rfl, _⟩ := ihc hc'
      rw [ht] at ht'; cases ht'
  | condF hc ht hb hp ihc ihb =>
    intro v' ks' h'
    cases h' with
    | condT hc' ht' ha' hp' =>
      obtain ⟨rfl, _⟩ := ihc hc'
      rw [ht] at ht'; cases ht'
    | condF hc' ht' hb' hp' =>
      obtain ⟨rfl, sc⟩ := ihc hc'
      obtain ⟨rfl, sb⟩ := ihb hb'
      exact ⟨rfl, (Same.of_perm hp).trans ((sc.append sb).trans (Same.of_perm hp').symm)⟩

/-- the depth-first order the driver prints is one of the admissible orders -/
theorem evalC_ev {P : Prog} : ∀ (n : Nat) {e : Expr} {v : HV} {ks : List JT}, evalC P n e = some (v, ks) → Ev P e v ks := by
  intro n
  induction n with
  | zero => intro e v ks h; simp [evalC] at h
  | succ n ih =>
    intro e v ks h
    cases e with
    | lit x =>
      simp only [evalC, Option.some.injEq, Prod.mk.injEq] at h
      obtain ⟨rfl, rfl⟩ := h
      exact .lit _
    | add a b =>
      simp only [evalC] at h
      split at h
      · next va ka vb kb ha hb =>
        simp only [Option.some.injEq, Prod.mk.injEq] at h
        obtain ⟨rfl, rfl⟩ := h
        exact .add (ih ha) (ih hb) (.refl _)
      · cases h
    | call t a =>
      simp only [evalC] at h
      split at h
      · next va ka ha =>
        split at h
        · next r kids hb =>
          simp only [Option.some.injEq, Prod.mk.injEq] at h
          obtain ⟨rfl, rfl⟩ := h
          exact .call (ih ha) (ih hb) (.refl _)
        · cases h
      · cases h
    | cond c a b =>
      simp only [evalC] at h
      split at h
      · next vc kc hc =>
        split at h
        · next v2 k2 hb =>
          simp only [Option.some.injEq, Prod.mk.injEq] at h
          obtain ⟨rfl, rfl⟩ := h
          cases ht : truthy vc
          · rw [ht] at hb; exact .condF (ih hc) ht (ih hb) (.refl _)
          · rw [ht] at hb; exact .condT (ih hc) ht (ih hb) (.refl _)
        · cases h
      · cases h

/-! ### handle fork keys -/

theorem getKey_setKey (k : List (Nat × Nat)) (s n s' : Nat) :
    getKey (setKey k s n) s' = if s' = s then some n else getKey k s' := by
  induction k with
  | nil => simp only [setKey, getKey]; split <;> simp_all [eq_comm]
  | cons p r ih =>
    obtain ⟨s0, m⟩ := p
    simp only [setKey]
    split
    · next h => subst h; simp only [getKey]; split <;> simp_all [eq_comm]
    · next h =>
      simp only [getKey, ih]
      split
      · next h2 => subst h2; simp [h]
      · rfl

theorem getCount_setCount (c : List (HV × Nat)) (h : HV) (n : Nat) (h' : HV) :
    getCount (setCount c h n) h' = if h' = h then n else getCount c h' := by
  induction c with
  | nil =>
    simp only [setCount, getCount]
    by_cases hh : h' = h
    · subst hh; simp
    · have : ¬ h = h' := fun e => hh e.symm
      simp [hh, this]
  | cons p r ih =>
    obtain ⟨h0, m⟩ := p
    simp only [setCount]
    split
    · next hh =>
      subst hh
      simp only [getCount]
      by_cases h2 : h' = h0
      · subst h2; simp
      · have : ¬ h0 = h' := fun e => h2 e.symm
        simp [h2, this]
    · next hh =>
      simp only [getCount, ih]
      split
      · next h2 => subst h2; simp [hh]
      · rfl

/-- after the repair, an entry of a sibling that already has its key changes nothing -/
theorem enter_keyed {f : Forks} {e : Entry} (h : (getKey f.key e.sib).isSome = true) : enter false f e = f := by
  simp [enter, h]

theorem foldl_firstFrom (f : Forks) (seen : List Nat) (es : List Entry)
    (hs : ∀ s, s ∈ seen ↔ (getKey f.key s).isSome = true) :
    es.foldl (enter false) f = (firstFrom seen es).foldl (enter false) f := by
  induction es generalizing f seen with
  | nil => rfl
  | cons e r ih =>
    simp only [firstFrom]
    split
    · next hm =>
      rw [List.foldl_cons, enter_keyed ((hs _).1 hm)]
      exact ih f seen hs
    · next hm =>
      rw [List.foldl_cons, List.foldl_cons]
      apply ih
      intro s
      have hnk : (getKey f.key e.sib).isSome = false := by
        cases hk : (getKey f.key e.sib).isSome
        · rfl
        · exact absurd ((hs _).2 hk) hm
      simp only [enter, hnk, Bool.not_false, Bool.and_false, Bool.false_eq_true, if_false, getKey_setKey,
        List.mem_cons]
      by_cases hse : s = e.sib
      · simp [hse]
      · simp [hse, hs s]

/-- **after the repair the fork keys depend only on the order of the siblings' first entries**: re-entries of jobs
that waited for a resource limit (any number, anywhere) change nothing -/
theorem reentry_invariant (es : List Entry) : enterAll false es = enterAll false (firstEntries es) := by
  unfold enterAll firstEntries
  exact foldl_firstFrom {} [] es (by intro s; simp [getKey])

/-- siblings that all pass different handles, each entering once (no two entries share a sibling or a handle) -/
def Linear (es : List Entry) : Prop := es.Pairwise fun a b => a.sib ≠ b.sib ∧ a.h ≠ b.h

theorem foldl_linear (recount : Bool) (es : List Entry) (hl : Linear es) (f : Forks)
    (h1 : ∀ s n, getKey f.key s = some n → n = 1)
    (h2 : ∀ e ∈ es, getCount f.count e.h = 0) (h3 : ∀ e ∈ es, getKey f.key e.sib = none) (s : Nat) :
    getKey (es.foldl (enter recount) f).key s =
      if ∃ e ∈ es, e.sib = s then some 1 else getKey f.key s := by
  induction es generalizing f with
  | nil => simp
  | cons e r ih =>
    have hpw := List.pairwise_cons.1 hl
    have hk : getKey f.key e.sib = none := h3 e List.mem_cons_self
    have hc : getCount f.count e.h = 0 := h2 e List.mem_cons_self
    have hent : enter recount f e = { count := setCount f.count e.h 1, key := setKey f.key e.sib 1 } := by
      simp [enter, hk, hc]
    rw [List.foldl_cons, hent, ih hpw.2]
    · simp only [getKey_setKey, List.mem_cons, exists_eq_or_imp]
      by_cases hs : s = e.sib
      · subst hs
        by_cases hex : ∃ a, a ∈ r ∧ a.sib = e.sib
        · simp [hex]
        · simp [hex]
      · have : ¬ e.sib = s := fun h => hs h.symm
        by_cases hex : ∃ a, a ∈ r ∧ a.sib = s
        · simp [hex]
        · simp [hex, hs, this]
    · intro s' n hn
      simp only [getKey_setKey] at hn
      split at hn
      · cases hn; rfl
      · exact h1 s' n hn
    · intro e' hm
      simp only [getCount_setCount]
      rw [if_neg (fun h => (hpw.1 e' hm).2 h.symm)]
      exact h2 e' (List.mem_cons_of_mem _ hm)
    · intro e' hm
      simp only [getKey_setKey]
      rw [if_neg (fun h => (hpw.1 e' hm).1 h.symm)]
      exact h3 e' (List.mem_cons_of_mem _ hm)

/-- every sibling of a linear entry list gets counter value 1, whatever the order -/
theorem callOrder_linear (recount : Bool) (es : List Entry) (hl : Linear es) (s : Nat) :
    callOrder recount es s = if ∃ e ∈ es, e.sib = s then some 1 else none := by
  unfold callOrder enterAll
  rw [foldl_linear recount es hl {} (by simp [getKey]) (by simp [getCount]) (by simp [getKey]) s]
  simp [getKey]

theorem Linear.perm {es es' : List Entry} (hp : es.Perm es') (hl : Linear es) : Linear es' := by
  unfold Linear at *
  exact (hp.pairwise_iff (fun {a b} h => ⟨fun e => h.1 e.symm, fun e => h.2 e.symm⟩)).1 hl

/-- handles used linearly (no handle passed to two siblings): the fork keys do not depend on the entry order -/
theorem callOrder_linear_perm (recount : Bool) {es es' : List Entry} (hp : es.Perm es') (hl : Linear es) (s : Nat) :
    callOrder recount es s = callOrder recount es' s := by
  rw [callOrder_linear recount es hl, callOrder_linear recount es' (hl.perm hp)]
  have : (∃ e ∈ es, e.sib = s) ↔ (∃ e ∈ es', e.sib = s) :=
    ⟨fun ⟨e, hm, he⟩ => ⟨e, hp.mem_iff.1 hm, he⟩, fun ⟨e, hm, he⟩ => ⟨e, hp.mem_iff.2 hm, he⟩⟩
  simp only [this]

/-- a handle that already carries a key (an explicit `h.fork("k")`) is forked under that key, whatever the counter -/
theorem forkArg_prekeyed {h : HV} (hk : h.key ≠ 0) (n m : Nat) : forkArg h n = forkArg h m := by
  simp [forkArg, hk]

/-- ... otherwise the counter value is part of the argument's hash pre-image -/
theorem forkArg_inj {h : HV} (hk : h.key = 0) {n m : Nat} (he : forkArg h n = forkArg h m) : n = m := by
  simpa [forkArg, hk] using he

/-- the driver's replay of an observed entry order is `enterAll` on the entries it went through -/
theorem replay_eq (recount : Bool) (lanes : List Lane) (js : List Nat) (f : Forks) (acc : List Entry) :
    replay recount lanes js f acc =
      ((replayEntries recount lanes js f).foldl (enter recount) f, acc.reverse ++ replayEntries recount lanes js f) := by
  induction js generalizing f acc with
  | nil => simp [replay, replayEntries]
  | cons j r ih => simp [replay, replayEntries, ih]

theorem replay_enterAll (recount : Bool) (lanes : List Lane) (js : List Nat) :
    (replay recount lanes js {} []).1 = enterAll recount (replayEntries recount lanes js {}) ∧
    (replayEntries recount lanes js {}).map (·.sib) = js := by
  constructor
  · rw [replay_eq]; rfl
  · generalize ({} : Forks) = f
    induction js generalizing f with
    | nil => rfl
    | cons j r ih => simp [replayEntries, ih]

/-! ### `fork_thread`: a child that has no call hash yet is not listed -/

theorem kidHashes_length_unseen (le : H → H → Bool) (pre post : List JT) (k : JT) :
    (kidHashes le (pre ++ k.setSeen true :: post)).length = (kidHashes le (pre ++ k.setSeen false :: post)).length + 1 := by
  cases k with
  | node t a ea r s kids =>
    simp only [kidHashes_append, kidHashes, JT.setSeen, JT.seen, List.length_append]
    simp
    omega

theorem callHash_unseen_ne (le : H → H → Bool) (t : Nat) (a ea : List HV) (r : HV) (s : Bool) (pre post : List JT) (k : JT) :
    callHash le (.node t a ea r s (pre ++ k.setSeen true :: post)) ≠
    callHash le (.node t a ea r s (pre ++ k.setSeen false :: post)) := by
  rw [callHash_node, callHash_node]
  intro h
  have hp := (hashCallNode_inj h).2.2.2
  have := hp.length_eq
  rw [kidHashes_length_unseen] at this
  omega

end RedunModel.Timing
