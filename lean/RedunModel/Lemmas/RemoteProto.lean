/-
Helper lemmas for `RedunModel.Model.RemoteProto` (C32): the job-name scanner, the `-array` suffix, scratch
paths, array index files, and the invariants of `gather_inflight_jobs`.  Core Lean only.
-/
import RedunModel.Model.RemoteProto
import RedunModel.Lemmas.Script
namespace RedunModel.RemoteProto
open RedunModel.Script (Str splitNL joinNL)


/-- non-empty lowercase hex text: eval hashes (`hash_struct`) and array ids (`uuid4().hex`) -/
def IsHex (h : Str) : Prop := h ≠ [] ∧ ∀ c ∈ h, c ∈ "0123456789abcdef".toList

theorem hex_ne_dash {h : Str} (hh : IsHex h) : '-' ∉ h := fun hm => by have := hh.2 _ hm; revert this; decide
theorem hex_ne_nl {h : Str} (hh : IsHex h) : '\n' ∉ h := fun hm => by have := hh.2 _ hm; revert this; decide
theorem hex_ne_slash {h : Str} (hh : IsHex h) : '/' ∉ h := fun hm => by have := hh.2 _ hm; revert this; decide
theorem hex_ne_y {h : Str} (hh : IsHex h) : 'y' ∉ h := fun hm => by have := hh.2 _ hm; revert this; decide

/-! ### scanHash -/

theorem takeWhile_all {p : Char → Bool} {l : Str} (h : ∀ c ∈ l, p c = true) : l.takeWhile p = l := by
  induction l with
  | nil => rfl
  | cons c cs ih =>
    have hc : p c = true := h c (by simp)
    simp [List.takeWhile, hc]
    exact ih (fun x hx => h x (List.mem_cons_of_mem _ hx))

/-- scanning text without `-` and newline leaves the candidate unchanged -/
theorem scanHash_plain (s : Str) (best : Option Str) (h1 : '-' ∉ s) (h2 : '\n' ∉ s) : scanHash s best = best := by
  induction s with
  | nil => rfl
  | cons c cs ih =>
    have hc1 : c ≠ '-' := by intro e; subst e; simp at h1
    have hc2 : c ≠ '\n' := by intro e; subst e; simp at h2
    unfold scanHash
    simp only [hc1, hc2, if_false]
    exact ih (fun e => h1 (List.mem_cons_of_mem _ e)) (fun e => h2 (List.mem_cons_of_mem _ e))

theorem scanHash_dash_seg (h : Str) (best : Option Str) (hne : h ≠ []) (h1 : '-' ∉ h) (h2 : '\n' ∉ h) :
    scanHash ('-' :: h) best = some h := by
  cases h with
  | nil => exact absurd rfl hne
  | cons c cs =>
    have hc1 : c ≠ '-' := by intro e; subst e; simp at h1
    unfold scanHash
    simp only [show ('-' : Char) ≠ '\n' by decide, if_false, if_true, hc1]
    rw [scanHash_plain _ _ h1 h2]
    congr 1
    apply takeWhile_all
    intro x hx
    simp only [ne_eq, decide_not, Bool.not_eq_eq_eq_not, Bool.not_true, decide_eq_false_iff_not]
    intro e; subst e; exact h1 hx

theorem scanHash_prefix (p h : Str) (best : Option Str) (hp : '\n' ∉ p) (hne : h ≠ []) (h1 : '-' ∉ h) (h2 : '\n' ∉ h) :
    scanHash (p ++ '-' :: h) best = some h := by
  induction p generalizing best with
  | nil => exact scanHash_dash_seg h best hne h1 h2
  | cons c cs ih =>
    have hc2 : c ≠ '\n' := by intro e; subst e; simp at hp
    have hcs : '\n' ∉ cs := fun e => hp (List.mem_cons_of_mem _ e)
    rw [List.cons_append]
    unfold scanHash
    simp only [hc2, if_false]
    split
    · -- c = '-'
      split
      · rename_i heq
        -- rest = [] impossible
        exfalso
        have : (cs ++ '-' :: h).length = 0 := by rw [heq]; rfl
        simp at this
      · split
        · exact ih _ hcs
        · exact ih _ hcs
    · exact ih _ hcs

/-! ### array suffix -/

theorem isSuffix_arraySuffix_append (x : Str) : arraySuffix.isSuffixOf (x ++ arraySuffix) = true := by
  rw [List.isSuffixOf_iff_suffix]; exact List.suffix_append _ _

theorem not_isSuffix_of_hex (p h : Str) (hh : IsHex h) : arraySuffix.isSuffixOf (p ++ '-' :: h) = false := by
  cases hs : arraySuffix.isSuffixOf (p ++ '-' :: h) with
  | false => rfl
  | true =>
    exfalso
    rw [List.isSuffixOf_iff_suffix] at hs
    obtain ⟨u, hu⟩ := hs
    have h1 : (u ++ arraySuffix).getLast? = some 'y' := by
      rw [show arraySuffix = "-arra".toList ++ ['y'] by decide, ← List.append_assoc, List.getLast?_concat]
    rw [hu] at h1
    have hne := hh.1
    obtain ⟨c, hc⟩ : ∃ c, h.getLast? = some c := by
      cases hg : h.getLast? with
      | none => exact absurd (List.getLast?_eq_none_iff.1 hg) hne
      | some c => exact ⟨c, rfl⟩
    have h2 : (p ++ '-' :: h).getLast? = some c := by
      rw [show p ++ '-' :: h = (p ++ ['-']) ++ h by simp, List.getLast?_append, hc]; rfl
    rw [h2] at h1
    cases h1
    exact hex_ne_y hh (List.mem_of_getLast? hc)

theorem stripArraySuffix_array (x : Str) : stripArraySuffix (x ++ arraySuffix) = x := by
  unfold stripArraySuffix
  rw [isSuffix_arraySuffix_append]
  simp



/-! ### what `scanHash` can return -/

/-- `h` is a non-empty `-`-free run of `s` that directly follows a `-` and is followed by `-` or the end -/
def IsSegment (s h : Str) : Prop :=
  h ≠ [] ∧ '-' ∉ h ∧ ∃ a b, s = a ++ '-' :: h ++ b ∧ (b = [] ∨ ∃ b', b = '-' :: b')

theorem takeWhile_split (p : Char → Bool) (l : Str) :
    ∃ b, l = l.takeWhile p ++ b ∧ (b = [] ∨ ∃ x b', b = x :: b' ∧ p x = false) ∧ ∀ c ∈ l.takeWhile p, p c = true := by
  induction l with
  | nil => exact ⟨[], rfl, Or.inl rfl, by simp⟩
  | cons c cs ih =>
    cases hc : p c with
    | false => exact ⟨c :: cs, by simp [List.takeWhile, hc], Or.inr ⟨c, cs, rfl, hc⟩, by simp [List.takeWhile, hc]⟩
    | true =>
      obtain ⟨b, h1, h2, h3⟩ := ih
      refine ⟨b, ?_, h2, ?_⟩
      · simp only [List.takeWhile, hc, List.cons_append]; rw [← h1]
      · intro x hx
        simp only [List.takeWhile, hc] at hx
        rcases List.mem_cons.1 hx with e | e
        · rw [e]; exact hc
        · exact h3 x e

theorem takeWhile_segment (c : Char) (rest : Str) (hc : c ≠ '-') :
    ∃ b, c :: rest = (c :: rest).takeWhile (· ≠ '-') ++ b ∧ (b = [] ∨ ∃ b', b = '-' :: b') ∧
      (c :: rest).takeWhile (· ≠ '-') ≠ [] ∧ '-' ∉ (c :: rest).takeWhile (· ≠ '-') := by
  obtain ⟨b, h1, h2, h3⟩ := takeWhile_split (· ≠ '-') (c :: rest)
  refine ⟨b, h1, ?_, ?_, ?_⟩
  · rcases h2 with e | ⟨x, b', e, hx⟩
    · exact Or.inl e
    · right; simp at hx; subst hx; exact ⟨b', e⟩
  · simp [List.takeWhile, hc]
  · intro hm; have := h3 _ hm; simp at this

theorem scanHash_some (s : Str) (best : Option Str) (pre : Str) (h : Str)
    (hb : ∀ x, best = some x → IsSegment (pre ++ s) x) (hr : scanHash s best = some h) : IsSegment (pre ++ s) h := by
  induction s generalizing best pre with
  | nil => exact hb h hr
  | cons c cs ih =>
    have hshift : pre ++ c :: cs = (pre ++ [c]) ++ cs := by simp
    unfold scanHash at hr
    split at hr
    · exact hb h hr
    · split at hr
      · rename_i hc
        subst hc
        split at hr
        · exact hb h hr
        · rename_i c' rest'
          split at hr
          · rw [hshift]; exact ih best (pre ++ ['-']) (by intro x hx; rw [← hshift]; exact hb x hx) hr
          · rename_i hc'
            rw [hshift]
            refine ih _ (pre ++ ['-']) ?_ hr
            intro x hx
            cases hx
            obtain ⟨b, hsplit, hb', hne, hnd⟩ := takeWhile_segment c' rest' hc'
            refine ⟨hne, hnd, pre, b, ?_, hb'⟩
            simp only [List.append_assoc, List.cons_append, List.nil_append]
            rw [← hsplit]
      · rw [hshift]; exact ih best (pre ++ [c]) (by intro x hx; rw [← hshift]; exact hb x hx) hr

theorem scanHash_no_dash (s : Str) (h : '-' ∉ s) : scanHash s none = none := by
  induction s with
  | nil => rfl
  | cons c cs ih =>
    have hc : c ≠ '-' := by intro e; subst e; simp at h
    unfold scanHash
    split
    · rfl
    · first
      | exact ih (fun e => h (List.mem_cons_of_mem _ e))
      | (rw [if_neg hc]; exact ih (fun e => h (List.mem_cons_of_mem _ e)))

/-! ### scratch paths -/

theorem pathJoin_plain (a b : Str) (ha : a ≠ []) (hl : a.getLast? ≠ some '/') (hb : ∀ t, b ≠ '/' :: t) :
    pathJoin a b = a ++ '/' :: b := by
  unfold pathJoin
  split
  · rename_i t; exact absurd rfl (hb t)
  · simp [ha, hl]

theorem getLast?_append_cons (a : Str) (c : Char) (b : Str) : (a ++ c :: b).getLast? = (c :: b).getLast? := by
  rw [List.getLast?_append]
  cases h : (c :: b).getLast? with
  | none => simp at h
  | some x => rfl

theorem getLast?_mem_ne {h : Str} (_hne : h ≠ []) (hs : '/' ∉ h) : h.getLast? ≠ some '/' := by
  intro e; exact hs (List.mem_of_getLast? e)

/-- the closed form of `get_job_scratch_file` for a `/`-free non-empty hash and file name -/
theorem jobFile_eq (s h n : Str) (hh : h ≠ []) (hs : '/' ∉ h) (hn : ∀ t, n ≠ '/' :: t) :
    jobFile s h n = pathJoin s "jobs".toList ++ '/' :: h ++ '/' :: n := by
  unfold jobFile
  have hX : ∃ x, pathJoin s "jobs".toList = x ++ "jobs".toList := by
    unfold pathJoin
    split
    · rename_i t heq; exact absurd heq (by simp)
    · split
      · exact ⟨s, rfl⟩
      · exact ⟨s ++ ['/'], by simp⟩
  obtain ⟨x, hx⟩ := hX
  have hXne : pathJoin s "jobs".toList ≠ [] := by rw [hx]; simp
  have hXl : (pathJoin s "jobs".toList).getLast? ≠ some '/' := by
    rw [hx, show "jobs".toList = ['j', 'o', 'b'] ++ ['s'] by decide, ← List.append_assoc, List.getLast?_concat]; decide
  have hh0 : ∀ t, h ≠ '/' :: t := by intro t e; subst e; simp at hs
  rw [pathJoin_plain _ h hXne hXl hh0]
  rw [pathJoin_plain _ n (by simp) (by rw [getLast?_append_cons]; cases h with
    | nil => exact absurd rfl hh
    | cons c cs => rw [List.getLast?_cons_cons]; exact getLast?_mem_ne (by simp) hs) hn]

/-- `os.path.join(s, seg)` for a segment that does not start with `/`: a prefix depending only on `s`, then `seg` -/
def joinBase (s : Str) : Str := if s = [] ∨ s.getLast? = some '/' then s else s ++ ['/']

theorem pathJoin_base (s seg : Str) (h : ∀ t, seg ≠ '/' :: t) : pathJoin s seg = joinBase s ++ seg := by
  unfold pathJoin joinBase
  split
  · rename_i t; exact absurd rfl (h t)
  · split <;> simp

/-- the closed form of `get_array_scratch_file` -/
theorem arrayFile_eq (s a n : Str) (ha : a ≠ []) (hs : '/' ∉ a) (hn : ∀ t, n ≠ '/' :: t) :
    arrayFile s a n = joinBase s ++ "array_jobs".toList ++ '/' :: a ++ '/' :: n := by
  unfold arrayFile
  have hseg : ∀ t, "array_jobs".toList ≠ '/' :: t := by intro t; simp
  rw [pathJoin_base s _ hseg]
  have hXne : joinBase s ++ "array_jobs".toList ≠ [] := by simp
  have hXl : (joinBase s ++ "array_jobs".toList).getLast? ≠ some '/' := by
    rw [show "array_jobs".toList = "array_job".toList ++ ['s'] by decide, ← List.append_assoc, List.getLast?_concat]; decide
  have ha0 : ∀ t, a ≠ '/' :: t := by intro t e; subst e; simp at hs
  rw [pathJoin_plain _ a hXne hXl ha0]
  rw [pathJoin_plain _ n (by simp) (by rw [getLast?_append_cons]; cases a with
    | nil => exact absurd rfl ha
    | cons c cs => rw [List.getLast?_cons_cons]; exact getLast?_mem_ne (by simp) hs) hn]

theorem jobFile_eq' (s h n : Str) (hh : h ≠ []) (hs : '/' ∉ h) (hn : ∀ t, n ≠ '/' :: t) :
    jobFile s h n = joinBase s ++ "jobs".toList ++ '/' :: h ++ '/' :: n := by
  rw [jobFile_eq s h n hh hs hn, pathJoin_base s _ (by intro t; simp)]

theorem jobFile_ne_arrayFile (s h a n m : Str) (hh : h ≠ []) (hs : '/' ∉ h) (ha : a ≠ []) (has : '/' ∉ a)
    (hn : ∀ t, n ≠ '/' :: t) (hm : ∀ t, m ≠ '/' :: t) : jobFile s h n ≠ arrayFile s a m := by
  rw [jobFile_eq' s h n hh hs hn, arrayFile_eq s a m ha has hm]
  intro e
  simp only [List.append_assoc] at e
  have := List.append_cancel_left e
  revert this
  simp

theorem split_at_slash (a1 a2 b1 b2 : Str) (h1 : '/' ∉ a1) (h2 : '/' ∉ a2) (h : a1 ++ '/' :: b1 = a2 ++ '/' :: b2) :
    a1 = a2 ∧ b1 = b2 := by
  induction a1 generalizing a2 with
  | nil =>
    cases a2 with
    | nil => simp at h; exact ⟨rfl, h⟩
    | cons c cs => simp at h; exact absurd (h.1 ▸ (by simp : c ∈ c :: cs)) h2
  | cons c cs ih =>
    cases a2 with
    | nil => simp at h; exact absurd (h.1 ▸ (by simp : c ∈ c :: cs)) h1
    | cons d ds =>
      simp at h
      obtain ⟨e, r⟩ := ih ds (fun m => h1 (List.mem_cons_of_mem _ m)) (fun m => h2 (List.mem_cons_of_mem _ m)) h.2
      exact ⟨by rw [h.1, e], r⟩

/-! ### array files -/

theorem idx_map {γ δ : Type} (f : γ → δ) (l : List γ) (i : Nat) (h : i < l.length) : idx (l.map f) i = .ok (f l[i]) := by
  simp [idx, List.getElem?_map, List.getElem?_eq_getElem h]

theorem idx_oob {γ : Type} (l : List γ) (i : Nat) (h : l.length ≤ i) : idx l i = .error .indexError := by
  simp [idx, List.getElem?_eq_none h]

/-! ### `splitNL ∘ joinNL` -/
theorem splitNL_joinNL (ls : List Str) (hne : ls ≠ []) (h : ∀ l ∈ ls, '\n' ∉ l) : splitNL (joinNL ls) = ls := by
  induction ls with
  | nil => exact absurd rfl hne
  | cons l ls ih =>
    cases ls with
    | nil => simp [joinNL, Script.splitNL_no_nl (h l (by simp))]
    | cons l2 ls =>
      rw [Script.joinNL_cons_cons, Script.splitNL_append_nl, Script.splitNL_no_nl (h l (by simp)),
        ih (by simp) (fun x hx => h x (List.mem_cons_of_mem _ hx))]
      rfl



/-! ### job reuniting -/

/-- the binding `h ↦ id` comes from a non-array job whose name carries `h` -/
def BoundSingle (jobs : List Inflight) (h id : Str) : Prop :=
  ∃ j ∈ jobs, isArrayJobName j.name = false ∧ hashFromJobName j.name = some h ∧ id = j.jobId

/-- the binding `h ↦ id` comes from child `i` of an array job whose eval-hash file has `h` on line `i` -/
def BoundChild (ef : Str → Option (List Str)) (jobs : List Inflight) (h id : Str) : Prop :=
  ∃ j ∈ jobs, isArrayJobName j.name = true ∧ ∃ parent hs i, hashFromJobName j.name = some parent ∧
    ef parent = some hs ∧ (id, i) ∈ j.children ∧ hs[i]? = some h

def Bound (ef : Str → Option (List Str)) (jobs : List Inflight) (h id : Str) : Prop :=
  BoundSingle jobs h id ∨ BoundChild ef jobs h id

theorem set_inv {P : Str → Str → Prop} (m : Pre) (k v : Str) (hm : ∀ kv ∈ m, P kv.1 kv.2) (hk : P k v) :
    ∀ kv ∈ m.set k v, P kv.1 kv.2 := by
  intro kv hkv
  unfold Pre.set at hkv
  rcases List.mem_cons.1 hkv with e | e
  · subst e; exact hk
  · exact hm kv (List.mem_filter.1 e).1

theorem get_mem (m : Pre) (k v : Str) (h : m.get k = some v) : (k, v) ∈ m := by
  unfold Pre.get at h
  cases hf : m.find? (fun p => p.1 = k) with
  | none => simp [hf] at h
  | some kv =>
    simp [hf] at h
    have h1 := List.mem_of_find?_eq_some hf
    have h2 := List.find?_some hf
    simp at h2
    have : kv = (k, v) := by cases kv; simp_all
    rw [← this]; exact h1

def ArrInv (all : List Inflight) (arrs : List (Str × List (Str × Nat))) : Prop :=
  ∀ e ∈ arrs, ∃ j ∈ all, j.name = e.1 ∧ isArrayJobName j.name = true ∧ e.2 = j.children

theorem setArray_inv (all : List Inflight) (arrs) (j : Inflight) (hj : j ∈ all) (ha : isArrayJobName j.name = true)
    (h : ArrInv all arrs) : ArrInv all (setArray arrs j.name j.children) := by
  unfold setArray
  split
  · intro e he
    obtain ⟨e0, he0, rfl⟩ := List.mem_map.1 he
    split
    · exact ⟨j, hj, rfl, ha, rfl⟩
    · exact h e0 he0
  · intro e he
    rcases List.mem_append.1 he with h' | h'
    · exact h e h'
    · simp at h'; subst h'; exact ⟨j, hj, rfl, ha, rfl⟩

theorem gatherFirst_inv (all js : List Inflight) (pre : Pre) (arrs) (hsub : ∀ j ∈ js, j ∈ all)
    (hp : ∀ kv ∈ pre, BoundSingle all kv.1 kv.2) (ha : ArrInv all arrs) :
    (∀ kv ∈ (gatherFirst js pre arrs).1, BoundSingle all kv.1 kv.2) ∧ ArrInv all (gatherFirst js pre arrs).2 := by
  induction js generalizing pre arrs with
  | nil => exact ⟨hp, ha⟩
  | cons j js ih =>
    have hj : j ∈ all := hsub j (by simp)
    have hsub' : ∀ x ∈ js, x ∈ all := fun x hx => hsub x (List.mem_cons_of_mem _ hx)
    unfold gatherFirst
    split
    · rename_i harr
      exact ih pre _ hsub' hp (setArray_inv all arrs j hj harr ha)
    · rename_i harr
      split
      · rename_i h hh
        exact ih _ arrs hsub' (set_inv pre h j.jobId hp ⟨j, hj, by simpa using harr, hh, rfl⟩) ha
      · exact ih pre arrs hsub' hp ha

theorem bindChildren_inv (ef) (all : List Inflight) (j : Inflight) (hj : j ∈ all) (harr : isArrayJobName j.name = true)
    (parent : Str) (hs : List Str) (hpar : hashFromJobName j.name = some parent) (hef : ef parent = some hs)
    (ch : List (Str × Nat)) (hch : ∀ c ∈ ch, c ∈ j.children) (pre pre' : Pre)
    (hp : ∀ kv ∈ pre, Bound ef all kv.1 kv.2) (hr : bindChildren hs ch pre = .ok pre') :
    ∀ kv ∈ pre', Bound ef all kv.1 kv.2 := by
  induction ch generalizing pre with
  | nil => simp [bindChildren] at hr; subst hr; exact hp
  | cons c cs ih =>
    obtain ⟨cid, i⟩ := c
    unfold bindChildren at hr
    split at hr
    · rename_i h hh
      refine ih (fun x hx => hch x (List.mem_cons_of_mem _ hx)) _ (set_inv pre h cid hp ?_) hr
      exact Or.inr ⟨j, hj, harr, parent, hs, i, hpar, hef, hch (cid, i) (by simp), hh⟩
    · simp at hr

theorem gatherSecond_inv (ef) (all : List Inflight) (arrs) (ha : ArrInv all arrs) (pre pre' : Pre)
    (hp : ∀ kv ∈ pre, Bound ef all kv.1 kv.2) (hr : gatherSecond ef arrs pre = .ok pre') :
    ∀ kv ∈ pre', Bound ef all kv.1 kv.2 := by
  induction arrs generalizing pre with
  | nil => simp [gatherSecond] at hr; subst hr; exact hp
  | cons e es ih =>
    obtain ⟨name, ch⟩ := e
    have ha' : ArrInv all es := fun x hx => ha x (List.mem_cons_of_mem _ hx)
    obtain ⟨j, hj, hname, harr, hchildren⟩ := ha (name, ch) (by simp)
    simp only at hname hchildren
    unfold gatherSecond at hr
    split at hr
    · exact ih ha' pre hp hr
    · rename_i parent hpar
      split at hr
      · exact ih ha' pre hp hr
      · rename_i hs hef
        split at hr
        · simp at hr
        · rename_i pre1 hb
          refine ih ha' pre1 ?_ hr
          exact bindChildren_inv ef all j hj harr parent hs (by rw [hname]; exact hpar) hef ch
            (by intro c hc; rw [← hchildren]; exact hc) pre pre1 hp hb

theorem gather_bound (ef) (jobs : List Inflight) (pre : Pre) (h : gather ef jobs = .ok pre) :
    ∀ kv ∈ pre, Bound ef jobs kv.1 kv.2 := by
  unfold gather at h
  have h1 := gatherFirst_inv jobs jobs [] [] (fun _ hj => hj) (by simp) (by intro e he; simp at he)
  revert h
  generalize gatherFirst jobs [] [] = r at h1
  obtain ⟨p0, a0⟩ := r
  intro h
  exact gatherSecond_inv ef jobs a0 h1.2 p0 pre (fun kv hkv => Or.inl (h1.1 kv hkv)) h


end RedunModel.RemoteProto
