/-
Fault accounting for `RedunModel.Model.Monitor` (property C10): a job that a failing status-processing
step has removed from the pending map is always covered by a scheduler-level error — one already raised
(`crashes`, i.e. `reject_job(None, error)`) or one a monitor thread on its `except` path is about to raise.
-/
import RedunModel.Lemmas.Monitor
namespace RedunModel.Monitor

def excOf (m : Mon) : Nat :=
  match m.ph with
  | .exc _ => 1
  | _ => 0

def excCountL (l : List Mon) : Nat := (l.map excOf).sum
def excCount (s : State) : Nat := excCountL s.old + excCountL s.mon.toList

structure InvQ (s : State) : Prop where
  q : s.dropped.length ≤ s.crashes + excCount s

theorem invQ_init (jobs : List Job) : InvQ (init jobs) := by
  unfold init; split <;> constructor <;> simp [excCount, excCountL]

theorem excCountL_append (a b : List Mon) : excCountL (a ++ b) = excCountL a + excCountL b := by
  simp [excCountL]

theorem excCountL_set (l : List Mon) (k : Nat) (m m' : Mon) (h : l[k]? = some m) :
    excCountL (l.set k m') + excOf m = excCountL l + excOf m' := by
  induction l generalizing k with
  | nil => simp at h
  | cons x r ih =>
    cases k with
    | zero => simp at h; subst h; simp [excCountL]; omega
    | succ k =>
      simp at h
      have := ih k h
      simp only [excCountL, List.set_cons_succ, List.map_cons, List.sum_cons] at this ⊢
      omega

theorem excOf_mNops_exc (r : List Lbl) (next : MPh) (h : r ≠ []) : excOf { ph := mNops r .exc next } = 1 := by
  cases r with
  | nil => exact absurd rfl h
  | cons x r => rfl

theorem excOf_mPost (r : List (Lbl × PostOp)) (it : List Job) (c : Job) (i : Nat) :
    excOf { ph := mPost r, iter := it, cur := c, idx := i } = 0 := by
  cases r <;> rfl

/-- one monitor step never lets a dropped job go uncovered -/
theorem stepMon_q (V : Variant) (hE : V.mExc ≠ []) (s s' : State) (b : Bool) (m m' : Mon)
    (hs : stepMon V s b m = some (s', m')) :
    s'.dropped.length + s.crashes + excOf m ≤ s.dropped.length + s'.crashes + excOf m' := by
  obtain ⟨ph, iter, cur, idx⟩ := m
  have hx : ∀ (it : List Job) (c : Job) (i : Nat),
      excOf { ph := mNops V.mExc .exc (mPost V.post), iter := it, cur := c, idx := i } = 1 := by
    intro it c i
    cases hm : V.mExc with
    | nil => exact absurd hm hE
    | cons x r => rfl
  cases ph <;> simp only [stepMon] at hs
  case post r =>
    cases r with
    | nil => simp at hs
    | cons x r' =>
      obtain ⟨l, op⟩ := x
      cases op <;> simp only at hs <;> (try split at hs) <;> simp at hs <;> obtain ⟨h1, h2⟩ := hs <;> subst h1 <;> subst h2 <;>
        simp [excOf]
  case exc r =>
    split at hs
    · simp at hs; obtain ⟨h1, h2⟩ := hs; subst h1; subst h2
      rw [excOf_mPost]; simp only [excOf]; omega
    · simp at hs; obtain ⟨h1, h2⟩ := hs; subst h1; subst h2
      simp [excOf]
  case proc =>
    split at hs
    · split at hs
      · simp at hs; obtain ⟨h1, h2⟩ := hs; subst h1; subst h2
        rw [hx]; simp only [List.length_append, List.length_cons, List.length_nil, excOf]; omega
      · simp at hs; obtain ⟨h1, h2⟩ := hs; subst h1; subst h2
        rw [hx]; simp only [excOf]; omega
    · split at hs
      · simp at hs; obtain ⟨h1, h2⟩ := hs; subst h1; subst h2; simp [excOf]
      · simp at hs; obtain ⟨h1, h2⟩ := hs; subst h1; subst h2; simp [excOf]
  all_goals ((repeat' split at hs) <;> simp at hs <;> (try (obtain ⟨h1, h2⟩ := hs; subst h1; subst h2; simp [excOf])))

theorem invQ_stepM (V : Variant) (hE : V.mExc ≠ []) (s s' : State) (k : Nat) (h : InvQ s) (hs : stepM V s k = some s') :
    InvQ s' := by
  have hq := h.q
  simp only [stepM] at hs
  split at hs
  · rename_i m hk
    split at hs
    · simp at hs
    · rename_i s'' m' hm
      simp at hs; subst hs
      obtain ⟨_, _, _, _, _, _, _, e8, e9, _⟩ := stepMon_effect V s s'' false m m' hm
      have h1 := stepMon_q V hE s s'' false m m' hm
      have h2 := excCountL_set s.old k m m' hk
      constructor
      simp only [excCount] at hq ⊢
      rw [e8, e9]; omega
  · split at hs
    · split at hs
      · simp at hs
      · rename_i m hmon
        split at hs
        · simp at hs
        · rename_i s'' m' hm
          simp at hs; subst hs
          obtain ⟨_, _, _, _, _, _, _, e8, e9, _⟩ := stepMon_effect V s s'' true m m' hm
          have h1 := stepMon_q V hE s s'' true m m' hm
          constructor
          simp only [excCount, hmon, Option.toList, excCountL, List.map_cons, List.map_nil, List.sum_cons, List.sum_nil] at hq ⊢
          rw [e8]; omega
    · simp at hs

theorem finishS_q (s : State) : (finishS s).dropped = s.dropped ∧ (finishS s).crashes = s.crashes ∧
    (finishS s).old = s.old ∧ (finishS s).mon = s.mon := by
  unfold finishS; split <;> simp

theorem excCountL_toList_map (o : Option Mon) (f : Mon → Mon) (hf : ∀ m, excOf (f m) = excOf m) :
    excCountL (o.map f).toList = excCountL o.toList := by
  cases o <;> simp [excCountL, hf]

theorem invQ_stepS (V : Variant) (s s' : State) (h : InvQ s) (hs : stepS V s = some s') : InvQ s' := by
  have hq := h.q
  have hstart : ∀ m : Mon, excOf (if m.ph = .unstarted then { m with ph := mNops V.mPre .pre .loop } else m) = excOf m := by
    intro m; split
    · rename_i hm; simp only [excOf, hm]; cases V.mPre <;> rfl
    · rfl
  cases hsph : s.sph <;> simp only [stepS, hsph] at hs
  case done => simp at hs
  all_goals ((repeat' split at hs) <;> (try (simp only [Option.some.injEq] at hs; subst hs)))
  all_goals (constructor; (try (obtain ⟨f1, f2, f3, f4⟩ := finishS_q _; rw [f1, f2]; simp only [excCount, f3, f4])))
  all_goals (simp only [excCount, excCountL_append, excCountL_toList_map _ _ hstart] at *)
  all_goals (first | exact hq | (simp [excCountL, excOf] at hq ⊢; omega))

theorem stepSub_q (V : Variant) (s s' : State) (u u' : Sub) (hs : stepSub V s u = some (s', u')) :
    s'.dropped = s.dropped ∧ s'.crashes = s.crashes ∧ s'.old = s.old ∧ s'.mon = s.mon := by
  obtain ⟨ph, cur⟩ := u
  cases ph <;> simp only [stepSub] at hs
  all_goals ((repeat' split at hs) <;> simp at hs <;> (try (obtain ⟨h1, h2⟩ := hs; subst h1; simp)))

theorem invQ_step (V : Variant) (hE : V.mExc ≠ []) (s s' : State) (e : Ev) (h : InvQ s) (hs : step V s e = some s') :
    InvQ s' := by
  cases e with
  | S => exact invQ_stepS V s s' h hs
  | M k => exact invQ_stepM V hE s s' k h hs
  | U k =>
    have hq := h.q
    simp only [step, stepU] at hs
    split at hs
    · rename_i u hk
      split at hs
      · simp at hs
      · rename_i s'' u' hu
        simp at hs; subst hs
        obtain ⟨_, _, e3, _⟩ := stepSub_effect V s s'' u u' hu
        have := stepSub_q V s s'' u u' hu
        constructor; simp only [excCount] at hq ⊢; rw [this.1, this.2.1, this.2.2.1, this.2.2.2]; exact hq
    · split at hs
      · split at hs
        · simp at hs
        · rename_i u hsub
          split at hs
          · simp at hs
          · rename_i s'' u' hu
            simp at hs; subst hs
            have := stepSub_q V s s'' u u' hu
            constructor; simp only [excCount] at hq ⊢; rw [this.1, this.2.1, this.2.2.1, this.2.2.2]; exact hq
      · simp at hs
  | A =>
    simp only [step, stepA] at hs
    split at hs
    · simp at hs; subst hs; exact ⟨h.q⟩
    · simp at hs
  | F =>
    simp only [step] at hs
    split at hs
    · simp at hs
    · simp only [Option.some.injEq] at hs; subst hs; exact ⟨h.q⟩
  | L j =>
    simp only [step] at hs
    split at hs
    · simp only [Option.some.injEq] at hs; subst hs; exact ⟨h.q⟩
    · simp at hs
  | O j g =>
    simp only [step, Option.some.injEq] at hs; subst hs; exact ⟨h.q⟩

theorem reachable_invQ {V : Variant} (hE : V.mExc ≠ []) {jobs : List Job} {s : State} (h : Reachable V jobs s) : InvQ s := by
  induction h with
  | init => exact invQ_init jobs
  | step e _ hs ih => exact invQ_step V hE _ _ e ih hs

end RedunModel.Monitor
