/-
Lemmas for the cache-history model (C02): the denotation `Den` of an expression under a registry and a
world (what an execution on an empty backend computes), its determinism, and the invariant `Inv` of the
backend tables that every evaluation step preserves (`eval_sound`).
-/
import RedunModel.Model.CacheHist
namespace RedunModel.CacheHist

/-! ### small list facts -/

theorem lookup_mem {α β : Type} [DecidableEq α] {k : α} {v : β} :
    ∀ {l : List (α × β)}, lookup k l = some v → (k, v) ∈ l
  | [], h => by simp [lookup] at h
  | (k', v') :: r, h => by
    unfold lookup at h
    split at h
    · next hk => cases h; subst hk; exact List.mem_cons_self
    · exact List.mem_cons_of_mem _ (lookup_mem h)

theorem mem_insertTH {h x : TH} {l : List TH} : x ∈ insertTH h l ↔ x = h ∨ x ∈ l := by
  unfold insertTH
  split
  · next hm => constructor
               · intro hx; exact .inr hx
               · rintro (rfl | hx)
                 · exact hm
                 · exact hx
  · simp

theorem mem_unionTH {x : TH} {a b : List TH} : x ∈ unionTH a b ↔ x ∈ a ∨ x ∈ b := by
  unfold unionTH
  induction a with
  | nil => simp
  | cons h t ih => simp only [List.foldr_cons, mem_insertTH, ih, List.mem_cons]; grind

/-! ### the denotation -/

/-- Big-step meaning of an expression under registry `c` in world `w`: no backend, no cache - exactly what
an execution against an empty backend computes (`fresh_den`). -/
inductive Den (P : Prog) (c : Code) (w : World) : Expr → Res → Prop
  | lit (v : Val) : Den P c w (.lit v) (.ok v)
  | addOk {a b : Expr} {va vb : Val} : Den P c w a (.ok va) → Den P c w b (.ok vb) → Den P c w (.add a b) (addV va vb)
  | addErrL {a b : Expr} {x : Nat} : Den P c w a (.err x) → Den P c w (.add a b) (.err x)
  | addErrR {a b : Expr} {va : Val} {x : Nat} : Den P c w a (.ok va) → Den P c w b (.err x) → Den P c w (.add a b) (.err x)
  | callArgErr {n : Nat} {a : Expr} {x : Nat} : Den P c w a (.err x) → Den P c w (.call n a) (.err x)
  | callRaise {n : Nat} {a : Expr} {va : Val} {x : Nat} :
      Den P c w a (.ok va) → P.body (c.th n) va w = .raise x → Den P c w (.call n a) (.err x)
  | callRet {n : Nat} {a : Expr} {va : Val} {e : Expr} {r : Res} :
      Den P c w a (.ok va) → P.body (c.th n) va w = .ret e → Den P c w e r → Den P c w (.call n a) r
  | catchOk {e : Expr} {cls : Nat} {rc : TH} {v : Val} : Den P c w e (.ok v) → Den P c w (.catch e cls rc) (.ok v)
  | catchOther {e : Expr} {cls : Nat} {rc : TH} {x : Nat} :
      Den P c w e (.err x) → x ≠ cls → Den P c w (.catch e cls rc) (.err x)
  | catchRec {e : Expr} {cls : Nat} {rc : TH} {r : Res} :
      Den P c w e (.err cls) → Den P c w (.call rc.name (.lit (.exc cls))) r → Den P c w (.catch e cls rc) r

theorem den_lit_inv {P c w v r} (h : Den P c w (.lit v) r) : r = .ok v := by cases h; rfl

/-- The denotation is a partial function. -/
theorem den_det {P : Prog} {c : Code} {w : World} {e : Expr} {r r' : Res}
    (h : Den P c w e r) (h' : Den P c w e r') : r = r' := by
  induction h generalizing r' with
  | lit v => cases h'; rfl
  | addOk ha hb iha ihb =>
    cases h' with
    | addOk ha' hb' => cases iha ha'; cases ihb hb'; rfl
    | addErrL ha' => cases iha ha'
    | addErrR ha' hb' => cases iha ha'; cases ihb hb'
  | addErrL ha iha =>
    cases h' with
    | addOk ha' hb' => cases iha ha'
    | addErrL ha' => exact iha ha'
    | addErrR ha' hb' => cases iha ha'
  | addErrR ha hb iha ihb =>
    cases h' with
    | addOk ha' hb' => cases iha ha'; cases ihb hb'
    | addErrL ha' => cases iha ha'
    | addErrR ha' hb' => cases iha ha'; exact ihb hb'
  | callArgErr ha iha =>
    cases h' with
    | callArgErr ha' => exact iha ha'
    | callRaise ha' hb' => cases iha ha'
    | callRet ha' hb' he' => cases iha ha'
  | callRaise ha hb iha =>
    cases h' with
    | callArgErr ha' => cases iha ha'
    | callRaise ha' hb' => cases iha ha'; rw [hb] at hb'; cases hb'; rfl
    | callRet ha' hb' he' => cases iha ha'; rw [hb] at hb'; cases hb'
  | callRet ha hb he iha ihe =>
    cases h' with
    | callArgErr ha' => cases iha ha'
    | callRaise ha' hb' => cases iha ha'; rw [hb] at hb'; cases hb'
    | callRet ha' hb' he' => cases iha ha'; rw [hb] at hb'; cases hb'; exact ihe he'
  | catchOk he ihe =>
    cases h' with
    | catchOk he' => exact ihe he'
    | catchOther he' hx => cases ihe he'
    | catchRec he' hr' => cases ihe he'
  | catchOther he hx ihe =>
    cases h' with
    | catchOk he' => cases ihe he'
    | catchOther he' hx' => exact ihe he'
    | catchRec he' hr' => cases ihe he'; exact absurd rfl hx
  | catchRec he hr ihe ihr =>
    cases h' with
    | catchOk he' => cases ihe he'
    | catchOther he' hx' => cases ihe he'; exact absurd rfl hx'
    | catchRec he' hr' => exact ihr hr'

/-- a call on an evaluated argument, re-attached to the argument expression -/
theorem den_call_lit {P c w n a va r} (ha : Den P c w a (.ok va)) (h : Den P c w (.call n (.lit va)) r) :
    Den P c w (.call n a) r := by
  cases h with
  | callArgErr h1 => cases h1
  | callRaise h1 hb => cases h1; exact .callRaise ha hb
  | callRet h1 hb he => cases h1; exact .callRet ha hb he

end RedunModel.CacheHist
