/-
Lemmas for the cache-history model (C02): the denotation `Den` of an expression under a registry and a
world (what an execution on an empty backend computes), its determinism, and the invariant `Inv` of the
backend tables that every evaluation step preserves (`eval_sound`).
-/
import RedunModel.Model.CacheHist
namespace RedunModel.CacheHist

/-! ### small list facts -/

theorem lookup_mem {α β : Type} [DecidableEq α] {k : α} {v : β} :
    ∀ {l : List (α × β)}, lookup k l = some v → (k, v) ∈ l
  | [], h => by simp [lookup] at h
  | (k', v') :: r, h => by
    unfold lookup at h
    split at h
    · next hk => cases h; subst hk; exact List.mem_cons_self
    · exact List.mem_cons_of_mem _ (lookup_mem h)

theorem mem_insertTH {h x : TH} {l : List TH} : x ∈ insertTH h l ↔ x = h ∨ x ∈ l := by
  unfold insertTH
  split
  · next hm => constructor
               · intro hx; exact .inr hx
               · rintro (rfl | hx)
                 · exact hm
                 · exact hx
  · simp

theorem mem_unionTH {x : TH} {a b : List TH} : x ∈ unionTH a b ↔ x ∈ a ∨ x ∈ b := by
  unfold unionTH
  induction a with
  | nil => simp
  | cons h t ih => simp only [List.foldr_cons, mem_insertTH, ih, List.mem_cons]; grind

/-! ### the denotation -/

/-- Big-step meaning of an expression under registry `c` in world `w`: no backend, no cache - exactly what
an execution against an empty backend computes (`fresh_den`). -/
inductive Den (P : Prog) (c : Code) (w : World) : Expr → Res → Prop
  | lit (v : Val) : Den P c w (.lit v) (.ok v)
  | addOk {a b : Expr} {va vb : Val} : Den P c w a (.ok va) → Den P c w b (.ok vb) → Den P c w (.add a b) (addV va vb)
  | addErrL {a b : Expr} {x : Nat} : Den P c w a (.err x) → Den P c w (.add a b) (.err x)
  | addErrR {a b : Expr} {va : Val} {x : Nat} : Den P c w a (.ok va) → Den P c w b (.err x) → Den P c w (.add a b) (.err x)
  | callArgErr {n : Nat} {a : Expr} {x : Nat} : Den P c w a (.err x) → Den P c w (.call n a) (.err x)
  | callRaise {n : Nat} {a : Expr} {va : Val} {x : Nat} :
      Den P c w a (.ok va) → P.body (c.th n) va w = .raise x → Den P c w (.call n a) (.err x)
  | callRet {n : Nat} {a : Expr} {va : Val} {e : Expr} {r : Res} :
      Den P c w a (.ok va) → P.body (c.th n) va w = .ret e → Den P c w e r → Den P c w (.call n a) r
  | catchOk {e : Expr} {cls : Nat} {rc : TH} {v : Val} : Den P c w e (.ok v) → Den P c w (.catch e cls rc) (.ok v)
  | catchOther {e : Expr} {cls : Nat} {rc : TH} {x : Nat} :
      Den P c w e (.err x) → x ≠ cls → Den P c w (.catch e cls rc) (.err x)
  | catchRec {e : Expr} {cls : Nat} {rc : TH} {r : Res} :
      Den P c w e (.err cls) → Den P c w (.call rc.name (.lit (.exc cls))) r → Den P c w (.catch e cls rc) r

theorem den_lit_inv {P c w v r} (h : Den P c w (.lit v) r) : r = .ok v := by cases h; rfl

/-- The denotation is a partial function. -/
theorem den_det {P : Prog} {c : Code} {w : World} {e : Expr} {r r' : Res}
    (h : Den P c w e r) (h' : Den P c w e r') : r = r' := by
  induction h generalizing r' with
  | lit v => cases h'; rfl
  | addOk ha hb iha ihb =>
    cases h' with
    | addOk ha' hb' => cases iha ha'; cases ihb hb'; rfl
    | addErrL ha' => cases iha ha'
    | addErrR ha' hb' => cases iha ha'; cases ihb hb'
  | addErrL ha iha =>
    cases h' with
    | addOk ha' hb' => cases iha ha'
    | addErrL ha' => exact iha ha'
    | addErrR ha' hb' => cases iha ha'
  | addErrR ha hb iha ihb =>
    cases h' with
    | addOk ha' hb' => cases iha ha'; cases ihb hb'
    | addErrL ha' => cases iha ha'
    | addErrR ha' hb' => cases iha ha'; exact ihb hb'
  | callArgErr ha iha =>
    cases h' with
    | callArgErr ha' => exact iha ha'
    | callRaise ha' hb' => cases iha ha'
    | callRet ha' hb' he' => cases iha ha'
  | callRaise ha hb iha =>
    cases h' with
    | callArgErr ha' => cases iha ha'
    | callRaise ha' hb' => cases iha ha'; rw [hb] at hb'; cases hb'; rfl
    | callRet ha' hb' he' => cases iha ha'; rw [hb] at hb'; cases hb'
  | callRet ha hb he iha ihe =>
    cases h' with
    | callArgErr ha' => cases iha ha'
    | callRaise ha' hb' => cases iha ha'; rw [hb] at hb'; cases hb'
    | callRet ha' hb' he' => cases iha ha'; rw [hb] at hb'; cases hb'; exact ihe he'
  | catchOk he ihe =>
    cases h' with
    | catchOk he' => exact ihe he'
    | catchOther he' hx => cases ihe he'
    | catchRec he' hr' => cases ihe he'
  | catchOther he hx ihe =>
    cases h' with
    | catchOk he' => cases ihe he'
    | catchOther he' hx' => exact ihe he'
    | catchRec he' hr' => cases ihe he'; exact absurd rfl hx
  | catchRec he hr ihe ihr =>
    cases h' with
    | catchOk he' => cases ihe he'
    | catchOther he' hx' => cases ihe he'; exact absurd rfl hx'
    | catchRec he' hr' => exact ihr hr'

/-- a call on an evaluated argument, re-attached to the argument expression -/
theorem den_call_lit {P c w n a va r} (ha : Den P c w a (.ok va)) (h : Den P c w (.call n (.lit va)) r) :
    Den P c w (.call n a) r := by
  cases h with
  | callArgErr h1 => cases h1
  | callRaise h1 hb => cases h1; exact .callRaise ha hb
  | callRet h1 hb he => cases h1; exact .callRet ha hb he

/-! ### hypotheses on programs, and the invariant -/

/-- registry `c` holds every task hash of `u` -/
def Agree (c : Code) (u : List TH) : Prop := ∀ h ∈ u, c.ver h.name = h.ver

theorem current_iff {c : Code} {s : List TH} : c.current s = true ↔ Agree c s := by
  simp [Code.current, Agree, List.all_eq_true]

def CatchFree : Expr → Prop
  | .lit _ => True
  | .add a b => CatchFree a ∧ CatchFree b
  | .call _ a => CatchFree a
  | .catch _ _ _ => False

/-- task functions that observe nothing but their argument (no `File(path)` stat, no task object) -/
def WorldFree (P : Prog) : Prop := ∀ h a w w', P.body h a w = P.body h a w'

/-- whatever a task function observed of the world is visible to `is_valid` in what it returned: if the
returned expression is still valid in another world, the function returns the same there -/
def BodyOk (V : Variant) (P : Prog) : Prop :=
  ∀ h a w w' e, P.body h a w = .ret e → validE V w' e = true → P.body h a w' = .ret e

/-- `catch` caches privately only in programs without `catch` -/
def CF (V : Variant) (e : Expr) : Prop := V.noCatchCache = true ∨ CatchFree e
def CFP (V : Variant) (P : Prog) : Prop := V.noCatchCache = true ∨ ∀ h a w e, P.body h a w = .ret e → CatchFree e

/-- the recorded subtree task set `u` is complete: under *any* registry holding those task hashes the
expression means the same (only claimed for programs that do not observe the world) -/
def UClaim (P : Prog) (e : Expr) (r : Res) (u : List TH) : Prop :=
  WorldFree P → ∀ c' w', Agree c' u → Den P c' w' e r

/-- `CacheSound`: what every table of the backend promises.
* Evaluation: the entry keyed by (task hash, argument) is what the body with that hash returns on that
  argument in every world in which the entry is still valid;
* CallNode + CallSubtreeTask: a successful node's result is the meaning of the call under every registry
  that holds the node's subtree tasks;
* the CSE view of the running execution: results of calls under the current registry. -/
structure Inv (V : Variant) (P : Prog) (c : Code) (w : World) (st : St) : Prop where
  evals : ∀ k e, (k, e) ∈ st.evals → ∀ w', validE V w' e = true → P.body k.1 k.2 w' = .ret e
  nodes : ∀ nd ∈ st.nodes, ∀ v, nd.res = .ok v → UClaim P (.call nd.key.1.name (.lit nd.key.2)) (.ok v) nd.sub
  cse : ∀ k r sub, (k, r, sub) ∈ st.cse →
    k.1 = c.th k.1.name ∧ Den P c w (.call k.1.name (.lit k.2)) r ∧ UClaim P (.call k.1.name (.lit k.2)) r sub

theorem inv_empty (V P c w) : Inv V P c w {} := ⟨by simp, by simp, by simp⟩

theorem inv_newExec {V P c w c' w' st} (er : List Key) (h : Inv V P c w st) : Inv V P c' w' (st.newExec er) :=
  ⟨h.evals, h.nodes, by simp [St.newExec]⟩

/-- what one evaluation step has to deliver -/
def EvOk (V : Variant) (P : Prog) (c : Code) (w : World) (ev : St → Expr → R) : Prop :=
  ∀ st e st' r u, Inv V P c w st → CF V e → ev st e = some (st', r, u) →
    Inv V P c w st' ∧ Den P c w e r ∧ UClaim P e r u

theorem th_eq_of_agree {c' : Code} {h : TH} {n : Nat} (hn : h.name = n) (ha : c'.ver h.name = h.ver) : c'.th n = h := by
  cases h; simp_all [Code.th]

theorem uclaim_call {P : Prog} {w : World} {n : Nat} {va : Val} {e : Expr} {r : Res} {ue : List TH} {h : TH}
    (hb : P.body h va w = .ret e) (hn : h.name = n) (hU : UClaim P e r ue) :
    UClaim P (.call n (.lit va)) r (insertTH h ue) := by
  intro hW c' w' hA
  have hth : c'.th n = h := th_eq_of_agree hn (hA h (mem_insertTH.2 (.inl rfl)))
  refine .callRet (.lit va) ?_ (hU hW c' w' fun x hx => hA x (mem_insertTH.2 (.inr hx)))
  rw [hth, hW h va w' w]; exact hb

theorem uclaim_raise {P : Prog} {w : World} {n : Nat} {va : Val} {x : Nat} {h : TH}
    (hb : P.body h va w = .raise x) (hn : h.name = n) :
    UClaim P (.call n (.lit va)) (.err x) (insertTH h []) := by
  intro hW c' w' hA
  have hth : c'.th n = h := th_eq_of_agree hn (hA h (mem_insertTH.2 (.inl rfl)))
  refine .callRaise (.lit va) ?_
  rw [hth, hW h va w' w]; exact hb

theorem inv_addNode {V P c w st nd} (hI : Inv V P c w st)
    (hn : ∀ v, nd.res = .ok v → UClaim P (.call nd.key.1.name (.lit nd.key.2)) (.ok v) nd.sub) :
    Inv V P c w (addNode st nd) := by
  unfold addNode
  split
  · exact hI
  · refine ⟨hI.evals, ?_, hI.cse⟩
    intro nd' hm
    rcases List.mem_cons.1 hm with rfl | hm
    · exact hn
    · exact hI.nodes nd' hm

/-- end of a job: the node and the CSE entry it leaves are sound -/
theorem finishJob_sound {V : Variant} {P c w st} {k : Key} {r : Res} {ue : List TH} (hC : V.cseSubtreeFromDb = true)
    (hI : Inv V P c w st) (hk : k.1 = c.th k.1.name) (hD : Den P c w (.call k.1.name (.lit k.2)) r)
    (hU : UClaim P (.call k.1.name (.lit k.2)) r (insertTH k.1 ue)) :
    Inv V P c w (finishJob V st k r ue).1 := by
  unfold finishJob
  have h1 : Inv V P c w (if recorded st k r then addNode st ⟨k, r, insertTH k.1 ue⟩ else st) := by
    split
    · exact inv_addNode hI (by intro v hv; simp only at hv; subst hv; exact hU)
    · exact hI
  refine ⟨h1.evals, h1.nodes, ?_⟩
  intro k' r' sub hm
  rcases List.mem_cons.1 hm with heq | hm
  · simp only [cseSub, hC, if_true, Prod.mk.injEq] at heq
    obtain ⟨rfl, rfl, rfl⟩ := heq
    exact ⟨hk, hD, hU⟩
  · exact h1.cse k' r' sub hm

theorem finishJob_eq {V : Variant} {st : St} {k : Key} {r : Res} {ue : List TH} {st' r' u'}
    (h : finishJob V st k r ue = (st', r', u')) :
    st' = (finishJob V st k r ue).1 ∧ r' = r ∧ u' = insertTH k.1 ue := by
  refine ⟨by rw [h], ?_, ?_⟩
  · have := congrArg (fun x => x.2.1) h; simpa [finishJob] using this.symm
  · have := congrArg (fun x => x.2.2) h; simpa [finishJob] using this.symm

theorem cf_of_body {V : Variant} {P : Prog} (hK : CFP V P) {h a w e} (hb : P.body h a w = .ret e) : CF V e := by
  rcases hK with hK | hK
  · exact .inl hK
  · exact .inr (hK h a w e hb)

theorem th_name (c : Code) (n : Nat) : (c.th n).name = n := rfl

/-- cache miss: the task function runs -/
theorem runBody_sound {V : Variant} {P c w ev st} {nm : Nat} {va : Val} {st' r u}
    (hC : V.cseSubtreeFromDb = true) (hB : BodyOk V P) (hK : CFP V P) (hev : EvOk V P c w ev)
    (hI : Inv V P c w st) (h : runBody V P w ev st (c.th nm, va) = some (st', r, u)) :
    Inv V P c w st' ∧ Den P c w (.call nm (.lit va)) r ∧ UClaim P (.call nm (.lit va)) r u := by
  unfold runBody at h
  dsimp only at h
  have hI0 : Inv V P c w { st with log := st.log ++ [(c.th nm, va)] } := ⟨hI.evals, hI.nodes, hI.cse⟩
  split at h
  · next cl hb =>
    simp only [Option.some.injEq] at h
    have hD : Den P c w (.call nm (.lit va)) (.err cl) := .callRaise (.lit va) hb
    have hU : UClaim P (.call nm (.lit va)) (.err cl) (insertTH (c.th nm) []) := uclaim_raise hb rfl
    have := finishJob_sound (V := V) (k := (c.th nm, va)) (ue := []) hC hI0 rfl hD hU
    obtain ⟨rfl, rfl, rfl⟩ := finishJob_eq h
    exact ⟨this, hD, hU⟩
  · next e hb =>
    split at h
    · cases h
    · next st2 r2 ue hev2 =>
      simp only [Option.some.injEq] at h
      have hI1 : Inv V P c w { st with log := st.log ++ [(c.th nm, va)], evals := ((c.th nm, va), e) :: st.evals } := by
        refine ⟨?_, hI.nodes, hI.cse⟩
        intro k e' hm w' hv
        rcases List.mem_cons.1 hm with heq | hm
        · cases heq; exact hB _ _ _ _ _ hb hv
        · exact hI.evals k e' hm w' hv
      obtain ⟨hI2, hD2, hU2⟩ := hev _ _ _ _ _ hI1 (cf_of_body hK hb) hev2
      have hD : Den P c w (.call nm (.lit va)) r2 := .callRet (.lit va) hb hD2
      have hU : UClaim P (.call nm (.lit va)) r2 (insertTH (c.th nm) ue) := uclaim_call hb rfl hU2
      have := finishJob_sound (V := V) (k := (c.th nm, va)) (ue := ue) hC hI2 rfl hD hU
      obtain ⟨rfl, rfl, rfl⟩ := finishJob_eq h
      exact ⟨this, hD, hU⟩

theorem findNode_some {c : Code} {k : Key} {nodes : List Node} {nd : Node} (h : findNode c k nodes = some nd) :
    nd ∈ nodes ∧ nd.key = k ∧ Agree c nd.sub := by
  unfold findNode at h
  have h1 := List.mem_of_find?_eq_some h
  have h2 := List.find?_some h
  simp only [Bool.and_eq_true, decide_eq_true_eq] at h2
  exact ⟨h1, h2.1, current_iff.1 h2.2⟩

/-- one job, from the cache lookup to its end -/
theorem jobStep_sound {V : Variant} {P c w ev st} {nm : Nat} {va : Val} {st' r u}
    (hC : V.cseSubtreeFromDb = true) (hB : BodyOk V P) (hK : CFP V P)
    (hF : WorldFree P ∨ ∀ n, c.shallow n = false) (hev : EvOk V P c w ev)
    (hI : Inv V P c w st) (h : jobStep V P c w ev st nm va = some (st', r, u)) :
    Inv V P c w st' ∧ Den P c w (.call nm (.lit va)) r ∧ UClaim P (.call nm (.lit va)) r u := by
  unfold jobStep at h
  simp only at h
  split at h
  · -- CSE hit
    next r0 sub hl =>
    obtain ⟨hk, hD, hU⟩ := hI.cse _ _ _ (lookup_mem hl)
    split at h
    · simp only [Option.some.injEq, Prod.mk.injEq] at h
      obtain ⟨rfl, rfl, rfl⟩ := h
      exact ⟨hI, hD, hU⟩
    · simp only [Option.some.injEq, Prod.mk.injEq] at h
      obtain ⟨rfl, rfl, rfl⟩ := h
      refine ⟨?_, hD, hU⟩
      split
      · exact inv_addNode hI (by intro v hv; simp at hv)
      · exact hI
  · split at h
    · -- a current call node was found (only looked for when the task is shallow)
      next nd hf =>
      split at hf
      · next hsh =>
        have hW : WorldFree P := by
          rcases hF with hF | hF
          · exact hF
          · rw [hF nm] at hsh; cases hsh
        obtain ⟨hm, hkey, hag⟩ := findNode_some hf
        split at h
        · next v hres =>
          split at h
          · simp only [Option.some.injEq, Prod.mk.injEq] at h
            obtain ⟨rfl, rfl, rfl⟩ := h
            have hU := hI.nodes nd hm v hres
            rw [hkey] at hU
            have hD : Den P c w (.call nm (.lit va)) (.ok v) := hU hW c w hag
            refine ⟨⟨hI.evals, hI.nodes, ?_⟩, hD, hU⟩
            intro k' r' sub' hm'
            rcases List.mem_cons.1 hm' with heq | hm'
            · simp only [Prod.mk.injEq] at heq
              obtain ⟨rfl, rfl, rfl⟩ := heq
              exact ⟨rfl, hD, hU⟩
            · exact hI.cse k' r' sub' hm'
          · exact runBody_sound hC hB hK hev hI h
        · exact runBody_sound hC hB hK hev hI h
      · cases hf
    · -- no call node: single reduction
      split at h
      · next e hl =>
        split at h
        · next hv =>
          have hb : P.body (c.th nm) va w = .ret e := hI.evals _ _ (lookup_mem hl) w hv
          split at h
          · cases h
          · next st2 r2 ue hev2 =>
            simp only [Option.some.injEq] at h
            obtain ⟨hI2, hD2, hU2⟩ := hev _ _ _ _ _ hI (cf_of_body hK hb) hev2
            have hD : Den P c w (.call nm (.lit va)) r2 := .callRet (.lit va) hb hD2
            have hU : UClaim P (.call nm (.lit va)) r2 (insertTH (c.th nm) ue) := uclaim_call hb rfl hU2
            have := finishJob_sound (V := V) (k := (c.th nm, va)) (ue := ue) hC hI2 rfl hD hU
            obtain ⟨rfl, rfl, rfl⟩ := finishJob_eq h
            exact ⟨this, hD, hU⟩
        · exact runBody_sound hC hB hK hev hI h
      · exact runBody_sound hC hB hK hev hI h

theorem agree_union {c : Code} {a b : List TH} (h : Agree c (unionTH a b)) : Agree c a ∧ Agree c b :=
  ⟨fun x hx => h x (mem_unionTH.2 (.inl hx)), fun x hx => h x (mem_unionTH.2 (.inr hx))⟩

theorem cf_add {V a b} (h : CF V (.add a b)) : CF V a ∧ CF V b := by
  rcases h with h | h
  · exact ⟨.inl h, .inl h⟩
  · exact ⟨.inr h.1, .inr h.2⟩

theorem cf_call {V n a} (h : CF V (.call n a)) : CF V a := by
  rcases h with h | h
  · exact .inl h
  · exact .inr h

theorem cf_catch {V e cls rc} (h : CF V (.catch e cls rc)) : V.noCatchCache = true := by
  rcases h with h | h
  · exact h
  · exact h.elim

/-- **Every evaluation step preserves `CacheSound` and computes the denotation** (for the repaired variant;
`catch` either without its private cache or absent from the program). -/
theorem eval_sound {V : Variant} {P : Prog} {c : Code} {w : World}
    (hC : V.cseSubtreeFromDb = true) (hB : BodyOk V P) (hK : CFP V P)
    (hF : WorldFree P ∨ ∀ n, c.shallow n = false) : ∀ n, EvOk V P c w (eval V P c w n) := by
  intro n
  induction n with
  | zero => intro st e st' r u _ _ h; simp [eval] at h
  | succ n ih =>
    intro st e st' r u hI hcf h
    cases e with
    | lit v =>
      simp only [eval, Option.some.injEq, Prod.mk.injEq] at h
      obtain ⟨rfl, rfl, rfl⟩ := h
      exact ⟨hI, .lit v, fun _ _ _ _ => .lit v⟩
    | add a b =>
      obtain ⟨hca, hcb⟩ := cf_add hcf
      simp only [eval] at h
      split at h
      · cases h
      · next st1 x u1 ha =>
        simp only [Option.some.injEq, Prod.mk.injEq] at h
        obtain ⟨rfl, rfl, rfl⟩ := h
        obtain ⟨hI1, hD1, hU1⟩ := ih _ _ _ _ _ hI hca ha
        exact ⟨hI1, .addErrL hD1, fun hW c' w' hA => .addErrL (hU1 hW c' w' hA)⟩
      · next st1 va u1 ha =>
        obtain ⟨hI1, hD1, hU1⟩ := ih _ _ _ _ _ hI hca ha
        split at h
        · cases h
        · next st2 x u2 hb =>
          simp only [Option.some.injEq, Prod.mk.injEq] at h
          obtain ⟨rfl, rfl, rfl⟩ := h
          obtain ⟨hI2, hD2, hU2⟩ := ih _ _ _ _ _ hI1 hcb hb
          exact ⟨hI2, .addErrR hD1 hD2, fun hW c' w' hA =>
            .addErrR (hU1 hW c' w' (agree_union hA).1) (hU2 hW c' w' (agree_union hA).2)⟩
        · next st2 vb u2 hb =>
          simp only [Option.some.injEq, Prod.mk.injEq] at h
          obtain ⟨rfl, rfl, rfl⟩ := h
          obtain ⟨hI2, hD2, hU2⟩ := ih _ _ _ _ _ hI1 hcb hb
          exact ⟨hI2, .addOk hD1 hD2, fun hW c' w' hA =>
            .addOk (hU1 hW c' w' (agree_union hA).1) (hU2 hW c' w' (agree_union hA).2)⟩
    | call nm a =>
      have hca := cf_call hcf
      simp only [eval] at h
      split at h
      · cases h
      · next st1 x u1 ha =>
        simp only [Option.some.injEq, Prod.mk.injEq] at h
        obtain ⟨rfl, rfl, rfl⟩ := h
        obtain ⟨hI1, hD1, hU1⟩ := ih _ _ _ _ _ hI hca ha
        exact ⟨hI1, .callArgErr hD1, fun hW c' w' hA => .callArgErr (hU1 hW c' w' hA)⟩
      · next st1 va u1 ha =>
        obtain ⟨hI1, hD1, hU1⟩ := ih _ _ _ _ _ hI hca ha
        split at h
        · cases h
        · next st2 r2 u2 hj =>
          simp only [Option.some.injEq, Prod.mk.injEq] at h
          obtain ⟨rfl, rfl, rfl⟩ := h
          obtain ⟨hI2, hD2, hU2⟩ := jobStep_sound hC hB hK hF ih hI1 hj
          exact ⟨hI2, den_call_lit hD1 hD2, fun hW c' w' hA =>
            den_call_lit (hU1 hW c' w' (agree_union hA).1) (hU2 hW c' w' (agree_union hA).2)⟩
    | «catch» e cls rc =>
      have hN := cf_catch hcf
      have hce : CF V e := .inl hN
      have hcr : CF V (.call rc.name (.lit (.exc cls))) := .inl hN
      simp only [eval, hN, if_true] at h
      split at h
      · cases h
      · next st1 v u1 he =>
        simp only [Option.some.injEq, Prod.mk.injEq] at h
        obtain ⟨rfl, rfl, rfl⟩ := h
        obtain ⟨hI1, hD1, hU1⟩ := ih _ _ _ _ _ hI hce he
        exact ⟨⟨hI1.evals, hI1.nodes, hI1.cse⟩, .catchOk hD1, fun hW c' w' hA => .catchOk (hU1 hW c' w' hA)⟩
      · next st1 x u1 he =>
        obtain ⟨hI1, hD1, hU1⟩ := ih _ _ _ _ _ hI hce he
        split at h
        · next hx =>
          subst hx
          split at h
          · cases h
          · next st2 v u2 hr =>
            simp only [Option.some.injEq, Prod.mk.injEq] at h
            obtain ⟨rfl, rfl, rfl⟩ := h
            obtain ⟨hI2, hD2, hU2⟩ := ih _ _ _ _ _ hI1 hcr hr
            exact ⟨⟨hI2.evals, hI2.nodes, hI2.cse⟩, .catchRec hD1 hD2, fun hW c' w' hA =>
              .catchRec (hU1 hW c' w' (agree_union hA).1) (hU2 hW c' w' (agree_union hA).2)⟩
          · next st2 y u2 hr =>
            simp only [Option.some.injEq, Prod.mk.injEq] at h
            obtain ⟨rfl, rfl, rfl⟩ := h
            obtain ⟨hI2, hD2, hU2⟩ := ih _ _ _ _ _ hI1 hcr hr
            exact ⟨hI2, .catchRec hD1 hD2, fun hW c' w' hA =>
              .catchRec (hU1 hW c' w' (agree_union hA).1) (hU2 hW c' w' (agree_union hA).2)⟩
        · next hx =>
          simp only [Option.some.injEq, Prod.mk.injEq] at h
          obtain ⟨rfl, rfl, rfl⟩ := h
          exact ⟨hI1, .catchOther hD1 hx, fun hW c' w' hA => .catchOther (hU1 hW c' w' hA) hx⟩

/-! ### the template programs satisfy the hypotheses -/

/-- an int literal produced by a template does not depend on the world -/
theorem inst_int {a : Val} {w w' : World} : ∀ {t : Tm} {x : Int}, inst a w t = .lit (.int x) → inst a w' t = .lit (.int x)
  | .arg, _, h => h
  | .numarg, _, h => h
  | .kindarg, _, h => h
  | .lit _, _, h => h
  | .file _, _, h => by simp [inst] at h
  | .call _ _, _, h => by simp [inst] at h
  | .catch _ _ _, _, h => by simp [inst] at h
  | .add s t, x, h => by
    simp only [inst] at h ⊢
    split at h
    · next x1 y1 hs ht => rw [inst_int hs, inst_int ht]; exact h
    · cases h

def TmCatchFree : Tm → Prop
  | .add a b => TmCatchFree a ∧ TmCatchFree b
  | .call _ t => TmCatchFree t
  | .catch _ _ _ => False
  | _ => True

def SpecOk (p : Tm → Prop) : Spec → Prop
  | .ret t => p t
  | .raise _ => True

theorem inst_valid {V : Variant} (hS : V.simpleExprValid = true) {a : Val} {w w' : World} :
    ∀ {t : Tm}, TmCatchFree t → validE V w' (inst a w t) = true → inst a w' t = inst a w t
  | .arg, _, _ => rfl
  | .numarg, _, _ => rfl
  | .kindarg, _, _ => rfl
  | .lit _, _, _ => rfl
  | .file p, _, h => by
    simp only [inst, validE, validV, beq_iff_eq] at h ⊢
    rw [h]
  | .call n t, hc, h => by
    simp only [inst, validE] at h ⊢
    rw [inst_valid hS (t := t) hc h]
  | .catch _ _ _, hc, _ => hc.elim
  | .add s t, hc, h => by
    simp only [inst] at h ⊢
    split at h
    · next x y hs ht => rw [inst_int hs, inst_int ht]
    · next hne =>
      simp only [validE, hS, if_true, Bool.and_eq_true] at h
      rw [inst_valid hS hc.1 h.1, inst_valid hS hc.2 h.2]
      split
      · next x y hs ht => exact (hne x y hs ht).elim
      · rfl

/-- catch-free template programs: what a body observed of the world (file stamps) is visible to `is_valid` -/
theorem tableProg_bodyOk {V : Variant} (hS : V.simpleExprValid = true) (tbl : List (TH × Spec))
    (hcf : ∀ x ∈ tbl, SpecOk TmCatchFree x.2) : BodyOk V (tableProg tbl) := by
  intro h a w w' e hb hv
  simp only [tableProg] at hb ⊢
  split at hb
  · next t hl =>
    simp only [Out.ret.injEq] at hb
    subst hb
    rw [inst_valid hS (hcf _ (lookup_mem hl)) hv]
  · cases hb
  · cases hb

def TmFileFree : Tm → Prop
  | .add a b => TmFileFree a ∧ TmFileFree b
  | .call _ t => TmFileFree t
  | .catch _ _ _ => False
  | .file _ => False
  | _ => True

theorem inst_catchFree {a : Val} {w : World} : ∀ {t : Tm}, TmCatchFree t → CatchFree (inst a w t)
  | .arg, _ => trivial
  | .numarg, _ => trivial
  | .kindarg, _ => trivial
  | .lit _, _ => trivial
  | .file _, _ => trivial
  | .call _ t, h => inst_catchFree (t := t) h
  | .catch _ _ _, h => h.elim
  | .add s t, h => by
    simp only [inst]
    split
    · trivial
    · exact ⟨inst_catchFree h.1, inst_catchFree h.2⟩

theorem inst_worldFree {a : Val} {w w' : World} : ∀ {t : Tm}, TmFileFree t → inst a w t = inst a w' t
  | .arg, _ => rfl
  | .numarg, _ => rfl
  | .kindarg, _ => rfl
  | .lit _, _ => rfl
  | .file _, h => h.elim
  | .call n t, h => by simp only [inst]; rw [inst_worldFree (t := t) h]
  | .catch _ _ _, h => h.elim
  | .add s t, h => by simp only [inst]; rw [inst_worldFree h.1, inst_worldFree h.2]

theorem tableProg_cfp (V : Variant) (tbl : List (TH × Spec)) (h : ∀ x ∈ tbl, SpecOk TmCatchFree x.2) :
    CFP V (tableProg tbl) := by
  refine .inr ?_
  intro th a w e hb
  simp only [tableProg] at hb
  split at hb
  · next t hl =>
    simp only [Out.ret.injEq] at hb
    subst hb
    exact inst_catchFree (h _ (lookup_mem hl))
  · cases hb
  · cases hb

theorem tableProg_worldFree (tbl : List (TH × Spec)) (h : ∀ x ∈ tbl, SpecOk TmFileFree x.2) :
    WorldFree (tableProg tbl) := by
  intro th a w w'
  simp only [tableProg]
  split
  · next t hl => rw [inst_worldFree (h _ (lookup_mem hl))]
  · rfl
  · rfl

end RedunModel.CacheHist
