/-
Helper lemmas for C36: the cell-wise preservation relation `Pres`, its preservation by every effect,
operation, revision and by `migrate`.
-/
import RedunModel.Model.Migrate
namespace RedunModel.Migrate
open RedunModel.MigrateOps RedunModel.Generated.Migrations

/-- Every cell of every row of every table of `db` is still there in `db'`, related by `R table column`. -/
def Pres (R : String → String → Val → Val → Prop) (db db' : Db) : Prop :=
  ∀ tn i c v, cell db tn i c = some v → ∃ v', cell db' tn i c = some v' ∧ R tn c v v'

theorem pres_refl (R : String → String → Val → Val → Prop) (hr : ∀ tn c v, R tn c v v) (db : Db) : Pres R db db :=
  fun _ _ _ v h => ⟨v, h, hr _ _ _⟩

theorem pres_trans (R : String → String → Val → Val → Prop)
    (ht : ∀ tn c a b d, R tn c a b → R tn c b d → R tn c a d) {db db' db'' : Db}
    (h1 : Pres R db db') (h2 : Pres R db' db'') : Pres R db db'' := by
  intro tn i c v h
  obtain ⟨v', h', r1⟩ := h1 tn i c v h
  obtain ⟨v'', h'', r2⟩ := h2 tn i c v' h'
  exact ⟨v'', h'', ht _ _ _ _ _ r1 r2⟩

/-! ### lookups -/

theorem findTable_modify_same (tn : String) (f : Table → Table) (hf : ∀ t, (f t).name = t.name) (db : Db) :
    findTable tn (modifyTable tn f db) = (findTable tn db).map f := by
  induction db with
  | nil => rfl
  | cons t rest ih =>
    by_cases h : t.name = tn
    · simp [modifyTable, findTable, h, hf]
    · simp [modifyTable, findTable, h, ih]

theorem findTable_modify_ne (tn tn' : String) (hne : tn' ≠ tn) (f : Table → Table) (hf : ∀ t, (f t).name = t.name) (db : Db) :
    findTable tn' (modifyTable tn f db) = findTable tn' db := by
  induction db with
  | nil => rfl
  | cons t rest ih =>
    by_cases h : t.name = tn
    · subst h
      have h2 : ¬ t.name = tn' := fun e => hne e.symm
      simp [modifyTable, findTable, hf, h2]
    · by_cases h2 : t.name = tn'
      · subst h2; simp [modifyTable, findTable, h]
      · simp [modifyTable, findTable, h, h2, ih]

theorem findTable_append (tn : String) (db : Db) (t : Table) (t0 : Table) (h : findTable tn db = some t0) :
    findTable tn (db ++ [t]) = some t0 := by
  induction db with
  | nil => simp [findTable] at h
  | cons x rest ih =>
    by_cases hx : x.name = tn
    · simp only [findTable, hx, if_true, List.cons_append] at h ⊢; exact h
    · simp only [findTable, hx, if_false, List.cons_append] at h ⊢; exact ih h

theorem getCol_append (c : String) (r : Row) (x : String × Val) (v : Val) (h : getCol c r = some v) :
    getCol c (r ++ [x]) = some v := by
  induction r with
  | nil => simp [getCol] at h
  | cons p rest ih =>
    obtain ⟨k, w⟩ := p
    by_cases hk : k = c
    · simp only [getCol, hk, if_true, List.cons_append] at h ⊢; exact h
    · simp only [getCol, hk, if_false, List.cons_append] at h ⊢; exact ih h

theorem getCol_map (c c' : String) (g : Val → Val) (r : Row) :
    getCol c' (r.map fun p => if p.1 = c then (p.1, g p.2) else p) =
      if c' = c then (getCol c' r).map g else getCol c' r := by
  induction r with
  | nil => by_cases h : c' = c <;> simp [getCol, h]
  | cons p rest ih =>
    obtain ⟨k, w⟩ := p
    by_cases hk : k = c
    · by_cases hc : c' = c
      · subst hk; subst hc; simp [getCol]
      · subst hk
        have : ¬ k = c' := fun e => hc e.symm
        simp [getCol, this, ih, hc]
    · by_cases hk' : k = c'
      · subst hk'
        have hc : ¬ k = c := hk
        simp [getCol, hc]
      · simp only [List.map_cons, hk, if_false, getCol, hk', ih]

theorem getCol_setCol (c c' : String) (g : Row → Val → Val) (r : Row) :
    getCol c' (setCol c g r) = if c' = c then (getCol c' r).map (g r) else getCol c' r := by
  unfold setCol
  exact getCol_map c c' (g r) r

/-! ### effects -/

/-- what an effect may do to existing cells, relative to `R` -/
def EffectOK (R : String → String → Val → Val → Prop) : Effect → Prop
  | .mapCol tn c g => ∀ r v, R tn c v (g r v)
  | _ => True

theorem cell_unfold (db : Db) (tn : String) (i : Nat) (c : String) (v : Val) :
    cell db tn i c = some v ↔ ∃ t r, findTable tn db = some t ∧ t.rows[i]? = some r ∧ getCol c r = some v := by
  unfold cell
  cases hf : findTable tn db with
  | none => simp
  | some t =>
    cases hr : t.rows[i]? with
    | none => simp [hr]
    | some r => simp [hr]

theorem modify_pres (R : String → String → Val → Val → Prop) (hr : ∀ tn c v, R tn c v v)
    (tn : String) (f : Table → Table) (hf : ∀ t, (f t).name = t.name) (db : Db)
    (hrow : ∀ (t : Table) (i : Nat) (c : String) (r : Row) (v : Val), t.rows[i]? = some r → getCol c r = some v →
      ∃ r' v', (f t).rows[i]? = some r' ∧ getCol c r' = some v' ∧ R tn c v v') :
    Pres R db (modifyTable tn f db) := by
  intro tn' i c v h
  rw [cell_unfold] at h
  obtain ⟨t, r, h1, h2, h3⟩ := h
  by_cases e : tn' = tn
  · subst e
    obtain ⟨r', v', g1, g2, g3⟩ := hrow t i c r v h2 h3
    refine ⟨v', ?_, g3⟩
    rw [cell_unfold]
    have hft : findTable tn' (modifyTable tn' f db) = some (f t) := by
      rw [findTable_modify_same _ _ hf, h1]; rfl
    exact ⟨f t, r', hft, g1, g2⟩
  · refine ⟨v, ?_, hr _ _ _⟩
    rw [cell_unfold]
    exact ⟨t, r, by rw [findTable_modify_ne _ _ e _ hf, h1], h2, h3⟩

theorem applyEffect_pres (R : String → String → Val → Val → Prop) (hr : ∀ tn c v, R tn c v v)
    (db db' : Db) (e : Effect) (hok : EffectOK R e) (h : applyEffect db e = .ok db') : Pres R db db' := by
  cases e with
  | ident => simp [applyEffect] at h; subst h; exact pres_refl R hr db
  | addTable t =>
    simp only [applyEffect] at h
    split at h
    · simp at h
    · simp only [Except.ok.injEq] at h; subst h
      intro tn i c v hc
      rw [cell_unfold] at hc
      obtain ⟨t0, r, h1, h2, h3⟩ := hc
      refine ⟨v, ?_, hr _ _ _⟩
      rw [cell_unfold]
      exact ⟨t0, r, findTable_append _ _ _ _ h1, h2, h3⟩
  | addCol tn c =>
    simp only [applyEffect] at h
    split at h
    · simp at h
    · split at h
      · simp at h
      · simp only [Except.ok.injEq] at h; subst h
        refine modify_pres R hr tn _ ?_ db ?_
        · intro t; rfl
        intro t i c' r v h2 h3
        refine ⟨r ++ [(c, .null)], v, ?_, getCol_append _ _ _ _ h3, hr _ _ _⟩
        simp [List.getElem?_map, h2]
  | appendRows tn rows =>
    simp only [applyEffect] at h
    split at h
    · simp at h
    · simp only [Except.ok.injEq] at h; subst h
      refine modify_pres R hr tn _ ?_ db ?_
      · intro t; rfl
      intro t i c' r v h2 h3
      refine ⟨r, v, ?_, h3, hr _ _ _⟩
      have hi : i < t.rows.length := by
        rcases List.getElem?_eq_some_iff.mp h2 with ⟨hi, _⟩; exact hi
      simp only []
      rw [List.getElem?_append_left hi]; exact h2
  | mapCol tn c g =>
    simp only [applyEffect] at h
    split at h
    · simp at h
    · simp only [Except.ok.injEq] at h; subst h
      refine modify_pres R hr tn _ ?_ db ?_
      · intro t; rfl
      intro t i c' r v h2 h3
      by_cases hc : c' = c
      · subst hc
        refine ⟨setCol c' g r, g r v, by simp [List.getElem?_map, h2], ?_, hok r v⟩
        rw [getCol_setCol]; simp [h3]
      · refine ⟨setCol c g r, v, by simp [List.getElem?_map, h2], ?_, hr _ _ _⟩
        rw [getCol_setCol]; simp [hc, h3]
  | requireNotNull tn c =>
    simp only [applyEffect] at h
    split at h
    · simp at h
    · split at h
      · simp at h
      · simp only [Except.ok.injEq] at h; subst h; exact pres_refl R hr db

theorem applyEffects_pres (R : String → String → Val → Val → Prop) (hr : ∀ tn c v, R tn c v v)
    (ht : ∀ tn c a b d, R tn c a b → R tn c b d → R tn c a d) (es : List Effect) :
    ∀ db db', (∀ e ∈ es, EffectOK R e) → applyEffects db es = .ok db' → Pres R db db' := by
  induction es with
  | nil => intro db db' _ h; simp [applyEffects] at h; subst h; exact pres_refl R hr db
  | cons e rest ih =>
    intro db db' hok h
    simp only [applyEffects] at h
    cases he : applyEffect db e with
    | error x => simp [he] at h
    | ok d1 =>
      simp only [he] at h
      exact pres_trans R ht (applyEffect_pres R hr db d1 e (hok e (by simp)) he)
        (ih d1 db' (fun e' h' => hok e' (by simp [h'])) h)

/-! ### operations -/

/-- equality of every cell -/
def REq : String → String → Val → Val → Prop := fun _ _ v v' => v' = v

/-- what the current chain guarantees: equality, except that `job.start_time` / `job.end_time` may have
gone through `dtUtc` (fractional seconds dropped) and `job.execution_id` is recomputed. -/
def RPartial : String → String → Val → Val → Prop := fun tn c v v' =>
  if tn = "job" ∧ (c = "start_time" ∨ c = "end_time") then v' = v ∨ v' = dtUtc v
  else if tn = "job" ∧ c = "execution_id" then True
  else v' = v

theorem dtUtc_idem (v : Val) : dtUtc (dtUtc v) = dtUtc v := by
  cases v <;> simp [dtUtc, roundsUp, first4]

theorem rpartial_refl (tn c : String) (v : Val) : RPartial tn c v v := by
  unfold RPartial; split
  · exact Or.inl rfl
  · split <;> simp

theorem rpartial_trans (tn c : String) (a b d : Val) (h1 : RPartial tn c a b) (h2 : RPartial tn c b d) :
    RPartial tn c a d := by
  unfold RPartial at *
  split
  · rename_i h
    simp only [h] at h1 h2
    rcases h1 with h1 | h1 <;> rcases h2 with h2 | h2 <;> subst h1 <;> subst h2
    · exact Or.inl rfl
    · exact Or.inr rfl
    · exact Or.inr rfl
    · exact Or.inr (dtUtc_idem a)
  · rename_i h
    simp only [h, if_false] at h1 h2
    split
    · trivial
    · rename_i h'
      simp only [h', if_false] at h1 h2
      rw [h2, h1]

/-- structural operations only produce effects that leave every existing cell alone -/
theorem structural_effects_ok (R : String → String → Val → Val → Prop) (db : Db) (op : Op) (hs : isStructural op = true)
    (es : List Effect) (h : effectsOf db op = .ok es) : ∀ e ∈ es, EffectOK R e := by
  cases op with
  | createTable t cols pk fks => simp [effectsOf] at h; subst h; intro e he; simp at he; subst he; trivial
  | createIndex n t cols u p => simp [effectsOf] at h; subst h; intro e he; simp at he; subst he; trivial
  | addColumn t c =>
    simp [effectsOf] at h; subst h; intro e he
    split at he <;> simp at he
    · subst he; trivial
    · rcases he with he | he <;> subst he <;> trivial
  | alterColumn t col ty nl =>
    simp [effectsOf] at h; subst h; intro e he
    split at he <;> simp at he <;> subst he <;> trivial
  | createFK n t r cs rcs => simp [effectsOf] at h; subst h; intro e he; simp at he; subst he; trivial
  | execSql s => simp [isStructural] at hs
  | pyData s => simp [isStructural] at hs

theorem dataSem_ok (op : Op) (f : Db → List Effect) (h : dataSem op = .effects f) (db : Db) :
    ∀ e ∈ f db, EffectOK RPartial e := by
  unfold dataSem at h
  split at h
  all_goals first
    | (simp at h; done)
    | (simp only [DataSem.effects.injEq] at h; subst h; intro e he; simp at he
       first
         | (subst he; trivial)
         | (subst he; intro r v; simp [RPartial])
         | (rcases he with he | he <;> subst he <;> intro r v <;> simp [RPartial]))

/-- every operation (structural or data) only produces effects allowed by `RPartial` -/
theorem all_effects_ok (db : Db) (op : Op) (es : List Effect) (h : effectsOf db op = .ok es) :
    ∀ e ∈ es, EffectOK RPartial e := by
  by_cases hs : isStructural op = true
  · exact structural_effects_ok RPartial db op hs es h
  · cases op with
    | createTable t cols pk fks => simp [isStructural] at hs
    | createIndex n t cols u p => simp [isStructural] at hs
    | addColumn t c => simp [isStructural] at hs
    | alterColumn t col ty nl => simp [isStructural] at hs
    | createFK n t r cs rcs => simp [isStructural] at hs
    | execSql s =>
      simp only [effectsOf] at h
      cases hd : dataSem (.execSql s) with
      | unknown => simp [hd] at h
      | effects f => simp only [hd, Except.ok.injEq] at h; subst h; exact dataSem_ok _ f hd db
    | pyData s =>
      simp only [effectsOf] at h
      cases hd : dataSem (.pyData s) with
      | unknown => simp [hd] at h
      | effects f => simp only [hd, Except.ok.injEq] at h; subst h; exact dataSem_ok _ f hd db

theorem applyOp_pres_partial (db db' : Db) (op : Op) (h : applyOp db op = .ok db') : Pres RPartial db db' := by
  unfold applyOp at h
  cases he : effectsOf db op with
  | error x => simp [he] at h
  | ok es =>
    simp only [he] at h
    exact applyEffects_pres RPartial rpartial_refl rpartial_trans es db db' (all_effects_ok db op es he) h

theorem applyOp_pres_structural (db db' : Db) (op : Op) (hs : isStructural op = true) (h : applyOp db op = .ok db') :
    Pres REq db db' := by
  unfold applyOp at h
  cases he : effectsOf db op with
  | error x => simp [he] at h
  | ok es =>
    simp only [he] at h
    exact applyEffects_pres REq (fun _ _ _ => rfl) (fun _ _ a b d h1 h2 => by simp only [REq] at *; rw [h2, h1]) es db db'
      (structural_effects_ok REq db op hs es he) h

theorem applyOps_pres_partial (ops : List GOp) : ∀ db db', applyOps db ops = .ok db' → Pres RPartial db db' := by
  induction ops with
  | nil => intro db db' h; simp [applyOps] at h; subst h; exact pres_refl _ rpartial_refl db
  | cons g rest ih =>
    intro db db' h
    simp only [applyOps] at h
    split at h
    · cases ho : applyOp db g.op with
      | error x => simp [ho] at h
      | ok d1 =>
        simp only [ho] at h
        exact pres_trans _ rpartial_trans (applyOp_pres_partial db d1 g.op ho) (ih d1 db' h)
    · exact ih db db' h

theorem applyRevs_pres_partial (revs : List Rev) : ∀ db db', applyRevs db revs = .ok db' → Pres RPartial db db' := by
  induction revs with
  | nil => intro db db' h; simp [applyRevs] at h; subst h; exact pres_refl _ rpartial_refl db
  | cons r rest ih =>
    intro db db' h
    simp only [applyRevs] at h
    cases ho : applyOps db r.ops with
    | error x => simp [ho] at h
    | ok d1 =>
      simp only [ho] at h
      exact pres_trans _ rpartial_trans (applyOps_pres_partial r.ops db d1 ho) (ih d1 db' h)

theorem migrate_pres_partial (start : String) (db db' : Db) (h : migrate start db = .ok db') : Pres RPartial db db' := by
  unfold migrate at h
  simp only [] at h
  cases hr : applyRevs db (chainFrom revisions revisions.length start) with
  | error x => simp [hr] at h
  | ok d1 =>
    simp only [hr] at h
    have p1 := applyRevs_pres_partial _ db d1 hr
    split at h
    · simp only [Except.ok.injEq] at h; subst h; exact p1
    · exact pres_trans _ rpartial_trans p1
        (applyEffect_pres RPartial rpartial_refl d1 db' (.appendRows "redun_version" _) trivial h)

end RedunModel.Migrate
