"""Task family of the C21 check (group gM).  `main(spec)` builds, inside its own job, the redun expression
described by `spec` (so all expression objects of one case live in one evaluation scope) and returns it.

spec ::= ("lit", n) | ("cont", [spec…]) | ("call", task, tag, prov, [spec…], [(kwname, spec)…]) | ("op", name, [spec…])
       | ("cond", c, a, b) | ("catch", e) | ("catch", e, "rb")  (recover task that raises) | ("tags", v)
Every value is an int or a (nested) list of ints; `value_of` below is the reference evaluation the harness uses
to know which `cond` branch is taken."""
import redun
from redun import task
from redun.scheduler import apply_tags, catch, cond

redun.namespace("gm21")


def flat(x):
    if isinstance(x, (list, tuple)):
        return sum(flat(y) for y in x)
    if isinstance(x, dict):
        return sum(flat(y) for y in x.values())
    return int(x)


def tval(tag, args, kw):
    return (tag * 7 + flat(list(args)) + flat(kw)) % 5


@task()
def t(tag, *args, **kw):
    return tval(tag, args, kw)


@task()
def lst(tag, *args):
    v = tval(tag, args, {})
    return [v, v + 1]


@task()
def boom(tag, *args):
    raise ValueError("b%d" % tag)


@task()
def rec(err):
    return 0


@task()
def rec_boom(err):
    """a recover task that itself fails (handled by an enclosing catch)"""
    raise ValueError("b%d" % (3000 + int(str(err)[1:])))


@task()
def src0(tag):
    return tag % 5


# default expressions (module level, shared by all calls – as in real workflows)
@task()
def d1(tag, x, y=src0(900)):
    return tval(tag, (x, y), {})


@task()
def d2(tag, x=lst(901)[0], y=7):
    return tval(tag, (x, y), {})


@task()
def d3(tag, x, y=[src0(902), 5], z=src0(900) + 1):
    return tval(tag, (x, y, z), {})


TASKS = {"t": t, "lst": lst, "boom": boom, "d1": d1, "d2": d2, "d3": d3, "src0": src0}
# parameter names after `tag`, and the default of each as a spec (None = no default)
PARAMS = {
    "d1": [("x", None), ("y", ("call", "src0", 900, True, [], []))],
    "d2": [("x", ("op", "getitem0", [("call", "lst", 901, True, [], [])])), ("y", ("lit", 7))],
    "d3": [("x", None), ("y", ("cont", [("call", "src0", 902, True, [], []), ("lit", 5)])),
           ("z", ("op", "add", [("call", "src0", 900, True, [], []), ("lit", 1)]))],
}


def build(spec):
    k = spec[0]
    if k == "lit":
        return spec[1]
    if k == "cont":
        return [build(s) for s in spec[1]]
    if k == "call":
        _, name, tag, prov, args, kwargs = spec
        f = TASKS[name]
        if not prov:
            f = f.options(prov=False)
        return f(tag, *[build(a) for a in args], **{n: build(a) for n, a in kwargs})
    if k == "op":
        _, name, args = spec
        a = [build(s) for s in args]
        if name == "add":
            return a[0] + a[1]
        if name == "radd":          # int + expression  (reverse operator)
            return a[0] + a[1]
        if name == "getitem0":
            return a[0][0]
        if name == "getitem1":
            return a[0][1]
        raise AssertionError(name)
    if k == "cond":
        return cond(build(spec[1]), build(spec[2]), build(spec[3]))
    if k == "catch":
        return catch(build(spec[1]), ValueError, rec_boom if len(spec) > 2 and spec[2] == "rb" else rec)
    if k == "tags":
        return apply_tags(build(spec[1]), tags=[("k21", 1)])
    raise AssertionError(k)


class Boom(Exception):
    pass


def value_of(spec):
    """reference value (raises Boom where the real evaluation raises ValueError)"""
    k = spec[0]
    if k == "lit":
        return spec[1]
    if k == "cont":
        return [value_of(s) for s in spec[1]]
    if k == "call":
        _, name, tag, prov, args, kwargs = spec
        a = [value_of(s) for s in args]
        kw = {n: value_of(s) for n, s in kwargs}
        if name == "boom":
            raise Boom(tag)
        if name == "src0":
            return tag % 5
        if name == "t":
            return tval(tag, a, kw)
        if name == "lst":
            v = tval(tag, a, {})
            return [v, v + 1]
        # tasks with defaults: bind positionals then keywords then defaults
        names = [n for n, _ in PARAMS[name]]
        bound = dict(zip(names, a))
        bound.update(kw)
        for n, d in PARAMS[name]:
            if n not in bound:
                bound[n] = value_of(d)
        return tval(tag, tuple(bound[n] for n in names), {})
    if k == "op":
        _, name, args = spec
        a = [value_of(s) for s in args]
        if name in ("add", "radd"):
            return a[0] + a[1]
        return a[0][0] if name == "getitem0" else a[0][1]
    if k == "cond":
        return value_of(spec[2]) if value_of(spec[1]) else value_of(spec[3])
    if k == "catch":
        try:
            return value_of(spec[1])
        except Boom as b:
            if len(spec) > 2 and spec[2] == "rb":
                raise Boom(3000 + b.args[0])       # the recover task raises in turn
            return 0
    if k == "tags":
        return value_of(spec[1])
    raise AssertionError(k)


@task()
def main(spec):
    return build(spec)


redun.namespace("")
