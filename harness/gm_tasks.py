"""Task family of the C20 check (group gM): every task interprets a *spec* given as data, so arbitrary call trees
(failures, duplicates, prov=False subtrees, tags, catch) are produced by a handful of real redun tasks.

spec  ::= (kind, label, calls)            kind in leaf | fail | par | comb | catch | tags | tags2 | then
call  ::= (variant, opt, spec)            variant in A | B | S | N | T | U ; opt in "" | "np" (prov=False at the call) | "tg" (tags at the call)
"""
import redun
from redun import task
from redun.scheduler import apply_tags, catch

redun.namespace("gm")


def call(c):
    variant, opt, spec = c
    t = TASKS[variant]
    if opt == "np":
        t = t.options(prov=False)
    elif opt == "tg":
        t = t.options(tags=[("ct", 7)])
    return t(spec)


def interp(spec):
    kind, label, calls = spec
    if kind == "leaf":
        return label
    if kind == "fail":
        raise ValueError("gm%d" % label)
    if kind == "par":
        return [call(c) for c in calls]
    if kind == "comb":
        return comb(*[call(c) for c in calls])
    if kind == "catch":
        return catch(call(calls[0]), ValueError, rec)
    if kind == "tags":
        inner = call(calls[0]) if calls else label
        return apply_tags(inner, tags=[("vk", label)], job_tags=[("jk", label)], execution_tags=[("ek", label)])
    if kind == "tags2":
        # one job tags two values (the results of two child calls, possibly EQUAL values) with different tag lists
        return [apply_tags(call(calls[0]), tags=[("vk", label)]),
                apply_tags(call(calls[1]), tags=[("vk2", label), ("vk3", label + 1)], job_tags=[("jk2", label)])]
    if kind == "then":
        return after(call(calls[0]), calls[1:])
    raise AssertionError(kind)


@task()
def tA(spec):
    return interp(spec)


@task()
def tB(spec):
    return interp(spec)


@task(check_valid="shallow")
def tS(spec):
    return interp(spec)


@task(cache=False)
def tN(spec):
    return interp(spec)


@task(tags=[("team", "gm")])
def tT(spec):
    return interp(spec)


@task(check_valid="shallow", tags=[("team", "gmS")])
def tU(spec):
    return interp(spec)


@task()
def comb(*xs):
    return ["c", list(xs)]


@task()
def rec(err):
    return -1


@task()
def after(x, calls):
    return [x] + [call(c) for c in calls]


TASKS = {"A": tA, "B": tB, "S": tS, "N": tN, "T": tT, "U": tU}
TASK_TAGS = {"gm.tT": [("team", "gm")], "gm.tU": [("team", "gmS")]}        # definition-level tags
redun.namespace("")
