"""
ctl_db -- control of redun's sqlite backend for the C03 / C22 / C23 checks (group gC owns this file).

Nothing here edits /repo; everything works through public SQLAlchemy events and by wrapping methods of one
backend *instance* from the outside.

* `new_scheduler(path)`     Scheduler on a sqlite FILE backend, retry back-off 0, tasks run inline on the scheduler
                            thread (`InlineExecutor`) so that the order of backend operations is a function of the
                            program only
* `CommitTap`               `after_commit` snapshots (canonical dumps and/or file copies) of the sqlite file: every
                            durable state a process death can leave behind is one of them; `crash_at=k` raises `Crash`
                            just before the k-th writing commit
* `FaultTap`                single-shot `OperationalError` at the k-th writing commit / k-th statement
* `OpTap`                   logs the top-level backend operations of a real run as request lines for the Lean model
                            (`lean/RedunModel/Model/DbProto.lean`) together with what the real code answered
* `dump_db` / `canon_model_dump`   canonical table dumps (hashes interned to small ints, timestamps to ranks)
* `Program` / `gen_program` generated task programs whose tasks can be "edited" (version bump = new code hash)
"""
from __future__ import annotations

import os
import shutil
import sqlite3

from sqlalchemy import event
from sqlalchemy.exc import OperationalError

MODEL_TABLES = ["values", "tasks", "files", "subvalues", "nodes", "edges", "args", "argres", "subtree", "evals",
                "jobs", "execs", "tags", "tagedits"]
# tables the recording model writes (tags are only modelled for record transfer)
REC_TABLES = ["values", "tasks", "files", "subvalues", "nodes", "edges", "args", "argres", "subtree", "evals",
              "jobs", "execs"]
GRAPH_TABLES = ["nodes", "edges", "subtree"]


class Crash(BaseException):
    """Simulated process death (BaseException: passes through redun's `except Exception` handlers)."""


class Interner:
    """real hash / uuid / key string -> small int, first occurrence order"""

    def __init__(self):
        self.ids: dict = {}
        self.names: list = []

    def id(self, s) -> int:
        if s not in self.ids:
            self.ids[s] = len(self.names)
            self.names.append(s)
        return self.ids[s]

    def opt(self, s):
        return None if s is None else self.id(s)


# ---------------------------------------------------------------------------------------------- scheduler
def _inline_executor_class():
    from redun.executors.base import Executor

    class InlineExecutor(Executor):
        """Runs a task body synchronously inside `submit` (on the scheduler thread) and reports the result
        through the normal `done_job` / `reject_job` entry points."""

        def submit(self, job):
            args, kwargs = job.args
            try:
                result = job.task.func(*args, **kwargs)
            except Exception as error:  # noqa: BLE001
                self._scheduler.reject_job(job, error)
            else:
                self._scheduler.done_job(job, result)

    return InlineExecutor


def new_scheduler(db_path: str, extra_backend_cfg: dict | None = None, inline: bool = True):
    from redun import Scheduler
    from redun.config import Config

    cfg = {"db_uri": "sqlite:///" + db_path, "db_retries_backoff": "0", "db_retries_backoff_max": "0"}
    cfg.update(extra_backend_cfg or {})
    s = Scheduler(config=Config({"backend": cfg}))
    s.load()
    if inline:
        s.add_executor(_inline_executor_class()("default"))
    return s


def close_scheduler(s) -> None:
    try:
        if s.backend.session is not None:
            s.backend.session.close()
        if s.backend.engine is not None:
            s.backend.engine.dispose()
    except Exception:  # noqa: BLE001
        pass


def quiet():
    import logging
    logging.getLogger("redun").setLevel(logging.CRITICAL)
    logging.disable(logging.CRITICAL)


# ---------------------------------------------------------------------------------------------- dumps
def _value_kind(type_name: str) -> str:
    if type_name == "redun.Task":
        return "task"
    if type_name in ("redun.File", "redun.Dir", "redun.ShardedS3Dataset", "redun.ContentFile", "redun.ContentDir",
                     "redun.StagingFile", "redun.StagingDir"):
        return "file"
    return "plain"


def ts_micros(raw) -> int:
    """sqlite DateTime text -> microseconds (a natural number the model can order)"""
    import datetime
    if raw is None:
        return 0
    t = datetime.datetime.fromisoformat(str(raw))
    return int((t - datetime.datetime(2020, 1, 1)).total_seconds() * 1000000)


def dump_db(db_path: str, I: Interner, keep_ts: bool = False) -> dict:
    """Canonical content of the modelled tables.  Every table is a sorted list of tuples of interned ids."""
    con = sqlite3.connect(db_path)
    try:
        q = lambda sql: [tuple(r) for r in con.execute(sql)]  # noqa: E731
        d = {}
        d["values"] = sorted((I.id(h), _value_kind(t)) for h, t in q("select value_hash, type from value"))
        d["tasks"] = sorted(I.id(h) for (h,) in q("select hash from task"))
        d["files"] = sorted(I.id(h) for (h,) in q("select value_hash from file"))
        d["subvalues"] = sorted((I.id(c), I.id(p)) for c, p in q("select value_hash, parent_value_hash from subvalue"))
        nodes = q("select call_hash, task_hash, args_hash, value_hash, timestamp from call_node")
        d["nodes"] = sorted((I.id(c), I.id(t), I.id(a), I.id(v), ts_micros(ts)) for c, t, a, v, ts in nodes)
        d["edges"] = sorted((I.id(p), I.id(c), o) for p, c, o in q("select parent_id, child_id, call_order from call_edge"))
        args = q("select arg_hash, call_hash, value_hash, arg_position, arg_key from argument")
        slot = {}
        rows = []
        for ah, c, v, pos, key in args:
            s = pos if pos is not None else 1000 + I.id("key:" + str(key))
            slot[ah] = (I.id(c), s)
            rows.append((I.id(c), s, I.id(v)))
        d["args"] = sorted(rows)
        d["argres"] = sorted(slot.get(ah, (-1, -1)) + (I.id(r),)
                             for ah, r in q("select arg_hash, result_call_hash from argument_result"))
        d["subtree"] = sorted((I.id(c), I.id(t)) for c, t in q("select call_hash, task_hash from call_subtree_task"))
        d["evals"] = sorted((I.id(e), I.id(t), I.id(a), I.id(v))
                            for e, t, a, v in q("select eval_hash, task_hash, args_hash, value_hash from evaluation"))
        d["jobs"] = sorted((I.id(i), I.id(t), I.opt(p), I.id(e), I.opt(c), bool(ca), en is not None)
                           for i, t, p, e, c, ca, en in
                           q("select id, task_hash, parent_id, execution_id, call_hash, cached, end_time from job"))
        d["execs"] = sorted((I.id(i), I.id(j)) for i, j in q("select id, job_id from execution"))
        d["tags"] = sorted((I.id(t), I.id("etype:" + str(et)), I.id(en), I.id("key:" + str(k)), I.id("val:" + str(v)),
                            bool(cur))
                           for t, et, en, k, v, cur in
                           q("select tag_hash, entity_type, entity_id, key, value, is_current from tag"))
        d["tagedits"] = sorted((I.id(p), I.id(c)) for p, c in q("select parent_id, child_id from tag_edit"))
        if keep_ts:
            d["_ts"] = {I.id(c): ts for c, _, _, _, ts in nodes}
        return d
    finally:
        con.close()


def canon_model_dump(parsed) -> dict:
    """`unsx` of the model's `sDb` text -> the same canonical form as `dump_db`."""
    d = {}
    for tab in parsed:
        name = str(tab[0])
        rows = tab[1:]
        if name in ("tasks", "files"):
            d[name] = sorted(rows)
        elif name == "values":
            d[name] = sorted((r[0], str(r[1])) for r in rows)
        else:
            d[name] = sorted(tuple(r) for r in rows)
    d["nodes"] = sorted(tuple(n) for n in d.get("nodes", []))
    return d


def restrict(d: dict, tables, edge_order: bool = True) -> dict:
    out = {t: d[t] for t in tables}
    if not edge_order and "edges" in out:
        out["edges"] = sorted((e[0], e[1]) for e in out["edges"])
    return out


def diff_dumps(a: dict, b: dict, tables) -> str | None:
    for t in tables:
        if a[t] != b[t]:
            ea = [r for r in a[t] if r not in b[t]]
            eb = [r for r in b[t] if r not in a[t]]
            return f"table {t}: only-left={ea[:4]} only-right={eb[:4]}"
    return None


def dump_to_sx(d: dict) -> str:
    """canonical dump -> the `load` argument of the model protocol"""
    from core import Raw, sx

    def row(name, r):
        if name in ("tasks", "files"):
            return sx(r)
        if name == "values":
            return "(" + sx(r[0]) + " " + r[1] + ")"
        return sx(list(r))
    return "(" + " ".join("(" + " ".join([t] + [row(t, r) for r in d[t]]) + ")" for t in MODEL_TABLES) + ")"


def fk_violations(db_path: str) -> list:
    con = sqlite3.connect(db_path)
    try:
        return [tuple(r) for r in con.execute("PRAGMA foreign_key_check")]
    finally:
        con.close()


# ---------------------------------------------------------------------------------------------- taps
class CommitTap:
    """Counts the commits of the backend's session that wrote something; after each of them takes a canonical
    dump (`dumps`) and/or a copy of the sqlite file (`snaps`).  `crash_at=k` (1-based): raise `Crash` instead of
    performing the k-th writing commit."""

    def __init__(self, backend, I: Interner | None = None, snap_dir: str | None = None,
                 crash_at: int | None = None, on_commit=None, crash_after: int | None = None):
        self.backend = backend
        self.session = backend.session
        self.I = I
        self.snap_dir = snap_dir
        self.crash_at = crash_at
        self.crash_after = crash_after      # die right AFTER the k-th writing commit (before the next statement)
        self.on_commit = on_commit
        self.n = 0
        self.snaps: list[str] = []
        self.dumps: list[dict] = []
        self._dirty = False
        self.db_path = backend.db_uri[len("sqlite:///"):]
        event.listen(self.session, "before_commit", self._before_commit)
        event.listen(self.session, "after_commit", self._after_commit)
        event.listen(self.session, "after_rollback", self._after_rollback)
        event.listen(backend.engine, "before_cursor_execute", self._cursor)

    def _cursor(self, conn, cursor, statement, parameters, context, executemany):
        if statement.lstrip()[:6].upper() in ("INSERT", "UPDATE", "DELETE"):
            self._dirty = True

    def _before_commit(self, session):
        if session.new or session.dirty or session.deleted:
            self._dirty = True
        if self._dirty and self.crash_at is not None and self.n + 1 == self.crash_at:
            self.crash_at = None
            raise Crash(f"crash before writing commit {self.n + 1}")

    def _after_commit(self, session):
        if not self._dirty:
            return
        self._dirty = False
        self.n += 1
        if self.snap_dir is not None:
            p = os.path.join(self.snap_dir, f"snap{self.n:04d}.db")
            shutil.copyfile(self.db_path, p)
            self.snaps.append(p)
        if self.I is not None:
            self.dumps.append(dump_db(self.db_path, self.I))
        if self.on_commit is not None:
            self.on_commit(self.n)
        if self.crash_after is not None and self.n == self.crash_after:
            self.crash_after = None
            raise Crash(f"crash right after writing commit {self.n}")

    def _after_rollback(self, session):
        self._dirty = False

    def remove(self):
        for tgt, name, fn in ((self.session, "before_commit", self._before_commit),
                              (self.session, "after_commit", self._after_commit),
                              (self.session, "after_rollback", self._after_rollback),
                              (self.backend.engine, "before_cursor_execute", self._cursor)):
            try:
                event.remove(tgt, name, fn)
            except Exception:  # noqa: BLE001
                pass


class FaultTap:
    """Single-shot transient failure: `OperationalError` instead of the k-th (1-based) writing commit
    (mode="commit") or before the k-th non-PRAGMA statement (mode="stmt")."""

    def __init__(self, backend, k: int, mode: str = "commit"):
        self.backend = backend
        self.session = backend.session
        self.k = k
        self.mode = mode
        self.n = 0
        self.wc = 0                 # writing commits completed so far
        self.wc_fired = None        # ... when the fault fired
        self.fired_at: str | None = None
        self._dirty = False
        event.listen(self.session, "before_commit", self._before_commit)
        event.listen(self.session, "after_commit", self._after_commit)
        event.listen(self.session, "after_rollback", self._after_rollback)
        event.listen(backend.engine, "before_cursor_execute", self._cursor)

    def _fire(self, where: str):
        self.fired_at = where
        self.wc_fired = self.wc
        raise OperationalError("injected transient failure", None, Exception("injected"))

    def _cursor(self, conn, cursor, statement, parameters, context, executemany):
        head = statement.lstrip()[:6].upper()
        if head in ("INSERT", "UPDATE", "DELETE"):
            self._dirty = True
        if self.mode == "stmt" and head != "PRAGMA":
            self.n += 1
            if self.n == self.k and self.fired_at is None:
                self._fire(f"stmt#{self.k}:{head}")

    def _before_commit(self, session):
        if session.new or session.dirty or session.deleted:
            self._dirty = True
        if self.mode == "commit" and self._dirty:
            self.n += 1
            if self.n == self.k and self.fired_at is None:
                self._fire(f"commit#{self.k}")

    def _after_commit(self, session):
        if self._dirty:
            self.wc += 1
        self._dirty = False

    def _after_rollback(self, session):
        self._dirty = False

    def remove(self):
        for tgt, name, fn in ((self.session, "before_commit", self._before_commit),
                              (self.session, "after_commit", self._after_commit),
                              (self.session, "after_rollback", self._after_rollback),
                              (self.backend.engine, "before_cursor_execute", self._cursor)):
            try:
                event.remove(tgt, name, fn)
            except Exception:  # noqa: BLE001
                pass


# ---------------------------------------------------------------------------------------------- op tap
def _sxv(x):
    from core import sx
    return sx(x)


class OpTap:
    """Wraps the recording / cache methods of ONE backend instance.  Every top-level call (calls made from inside
    another wrapped call are not logged) becomes a model request line; `expect` holds what the real code did:
    for writes the canonical dumps of the durable states the call added (from the CommitTap), for reads the answer.
    `events` = list of dict(req=<line>, kind=..., expect=...)."""

    WRITES = ("record_value", "set_eval_cache", "record_job_start", "record_job_end", "record_call_node")

    def __init__(self, scheduler, I: Interner, repo: int = 0, tap: CommitTap | None = None):
        from redun.file import File
        from redun.task import Task
        self.File, self.Task = File, Task
        self.s = scheduler
        self.b = scheduler.backend
        self.I = I
        self.repo = repo
        self.tap = tap or CommitTap(self.b, I)
        self.depth = 0
        self.fault = None          # a FaultTap attached to the same backend (set by the caller)
        self.events: list[dict] = []
        self.clock = 0
        self.resolves: list[dict] = []
        self._orig = {}
        for name in ("record_value", "set_eval_cache", "record_job_start", "record_job_end", "record_call_node",
                     "check_cache", "get_subtree_tasks", "record_execution"):
            self._orig[name] = getattr(self.b, name)
            setattr(self.b, name, self._wrap(name))
        # the scheduler's subtree-task bookkeeping: what `_resolve_job_main_thread` makes of the finished children
        self._orig_resolve = scheduler._resolve_job_main_thread
        scheduler._resolve_job_main_thread = self._resolve
        self._orig_reject = scheduler._reject_job_main_thread
        scheduler._reject_job_main_thread = self._reject

    def _reject(self, job, error, *a, **kw):
        """a failed job: executed -> calc_subtree_tasks over its children; error served by CSE -> the subtree tasks the
        backend recorded for its call node"""
        I, r = self.I, self.repo
        pre = None
        if job is not None:
            try:
                cached = bool(job.call_hash) and bool(job.was_cached)
                children = [(c.call_hash, sorted(I.id(t.hash) for t in c.subtree_tasks)) for c in job.child_jobs]
                reg = sorted(I.id(h) for h in self.s.task_registry.task_hashes)
                pre = dict(task=job.task.hash, call=job.call_hash, cached=cached)
            except Exception as e:  # noqa: BLE001
                self.events.append(dict(req=None, kind="harness-error", expect=repr(e), name="reject"))
        out = self._orig_reject(job, error, *a, **kw)
        if pre is not None:
            try:
                post = sorted({I.id(t.hash) for t in job.subtree_tasks})
                if pre["cached"]:
                    req = f"(cachedsub i{r} {_sxv(reg)} i{I.id(pre['task'])} F i{I.id(pre['call'])})"
                    sig = "C03-cse-served-error-loses-subtree"
                else:
                    ch = " ".join(f"({_sxv(I.opt(c))} {_sxv(sub)})" for c, sub in children)
                    req = f"(execsub i{I.id(pre['task'])} ({ch}))"
                    sig = None
                self.events.append(dict(req=req, kind="read", name="subtree_tasks", expect=post, dumps=[], err=None,
                                        repo=r, mismatch_sig=sig))
            except Exception as e:  # noqa: BLE001
                self.events.append(dict(req=None, kind="harness-error", expect=repr(e), name="reject"))
        return out

    def _resolve(self, job, result):
        I, r = self.I, self.repo
        try:
            cached = bool(job.call_hash)
            cv = job.get_option("check_valid", "full")
            shallow = str(getattr(cv, "name", cv)).upper() == "SHALLOW"
            children = [(c.call_hash, sorted(I.id(t.hash) for t in c.subtree_tasks)) for c in job.child_jobs]
            reg = sorted(I.id(h) for h in self.s.task_registry.task_hashes)
            pre = dict(task=job.task.hash, call=job.call_hash)
        except Exception as e:  # noqa: BLE001
            pre = None
            self.events.append(dict(req=None, kind="harness-error", expect=repr(e), name="resolve"))
        out = self._orig_resolve(job, result)
        if pre is not None:
            try:
                post = sorted({I.id(t.hash) for t in job.subtree_tasks})
                if cached:
                    req = (f"(cachedsub i{r} {_sxv(reg)} i{I.id(pre['task'])} {'T' if shallow else 'F'} "
                           f"i{I.id(pre['call'])})")
                else:
                    ch = " ".join(f"({_sxv(I.opt(c))} {_sxv(sub)})" for c, sub in children)
                    req = f"(execsub i{I.id(pre['task'])} ({ch}))"
                self.events.append(dict(req=req, kind="read", name="subtree_tasks", expect=post, dumps=[], err=None,
                                        repo=r))
            except Exception as e:  # noqa: BLE001
                self.events.append(dict(req=None, kind="harness-error", expect=repr(e), name="resolve"))
        return out

    def remove(self):
        for name, f in self._orig.items():
            try:
                delattr(self.b, name)
            except AttributeError:
                pass
        for nm in ("_resolve_job_main_thread", "_reject_job_main_thread"):
            try:
                delattr(self.s, nm)
            except AttributeError:
                pass
        self.tap.remove()

    # -- helpers
    def _node_ts(self, call_hash) -> int:
        """the timestamp sqlite stored for this call node (0 if it is not durable)"""
        con = sqlite3.connect(self.tap.db_path)
        try:
            row = con.execute("select timestamp from call_node where call_hash = ?", (call_hash,)).fetchone()
            return ts_micros(row[0]) if row else 0
        finally:
            con.close()

    def kind_of(self, value) -> str:
        if isinstance(value, self.Task):
            return "task"
        if isinstance(value, self.File):
            return "file"
        return "plain"

    def vhash(self, value) -> str:
        return self.b.type_registry.get_hash(value)

    def vspec(self, value, h=None) -> str:
        """`(hash kind (subhash subkind)*)`: the value and its flattened subvalues as `record_value` sees them"""
        I = self.I
        h = h if h is not None else self.vhash(value)
        subs = list(self.b.type_registry.get_value(value).iter_subvalues())
        parts = [f"i{I.id(h)}", self.kind_of(value)]
        for sv in subs:
            parts.append(f"(i{I.id(self.vhash(sv))} {self.kind_of(sv)})")
        return "(" + " ".join(parts) + ")"

    def _wrap(self, name):
        orig = self._orig[name]

        def wrapper(*a, **kw):
            if self.depth > 0:
                return orig(*a, **kw)
            self.depth += 1
            n0 = len(self.tap.dumps)
            c0 = self.tap.n
            fired_before = self.fault is not None and self.fault.fired_at is not None
            err = None
            out = None
            crashed = False
            try:
                out = orig(*a, **kw)
            except Crash:
                crashed = True
                raise
            except Exception as e:  # noqa: BLE001
                err = e
            finally:
                self.depth -= 1
                try:
                    self._log(name, a, kw, out, err, self.tap.dumps[n0:])
                    ev = self.events[-1]
                    ev["repo"] = self.repo
                    if crashed:
                        ev["crashed"] = True
                    ft = self.fault
                    if ft is not None and ft.fired_at is not None and not fired_before:
                        # writing commits this operation completed before the injected failure
                        ev["fault_j"] = ft.wc_fired - c0
                except Exception as e:  # noqa: BLE001
                    self.events.append(dict(req=None, kind="harness-error", expect=repr(e), name=name))
            if err is not None:
                raise err
            return out
        return wrapper

    def _log(self, name, a, kw, out, err, new_dumps):
        I, r = self.I, self.repo
        ev = dict(kind="write" if name in self.WRITES else "read", name=name, dumps=new_dumps,
                  err=("!" + type(err).__name__) if err is not None else None)
        if name == "record_execution":
            ev.update(req=f"(execs i{r} (i{I.id(a[0])}))", kind="ack")
        elif name == "record_value":
            value = a[0]
            h = out if out is not None else self.vhash(value)
            ev.update(req=f"(value i{r} {self.vspec(value, h)})")
        elif name == "set_eval_cache":
            eval_hash, task_hash, args_hash, value = a[0], a[1], a[2], a[3]
            ev.update(req=f"(eval i{r} i{I.id(eval_hash)} i{I.id(task_hash)} i{I.id(args_hash)} {self.vspec(value)})")
        elif name == "record_job_start":
            job = a[0]
            parent = job.parent_job.id if job.parent_job else None
            ev.update(req=f"(jstart i{r} i{I.id(job.id)} i{I.id(job.task.hash)} {_sxv(I.opt(parent))} "
                          f"i{I.id(job.execution.id)} {'F' if job.parent_job else 'T'})")
        elif name == "record_job_end":
            job = a[0]
            ev.update(req=f"(jend i{r} i{I.id(job.id)} {_sxv(I.opt(job.call_hash))} {'T' if job.was_cached else 'F'})")
        elif name == "record_call_node":
            k = dict(zip(("task_name", "task_hash", "args_hash", "expr_args", "eval_args", "result_hash",
                          "child_call_hashes", "subtree_tasks"), a))
            k.update(kw)
            from redun.hashing import hash_struct  # noqa: F401
            from redun.backends.db import hash_call_node
            call = out if out is not None else hash_call_node(k["task_hash"], k["args_hash"], k["result_hash"],
                                                              k["child_call_hashes"])
            ts = self._node_ts(call)
            expr_pos, expr_kw = k["expr_args"]
            eval_pos, eval_kw = k["eval_args"]
            specs = []
            for i, (ea, va) in enumerate(zip(expr_pos, eval_pos)):
                specs.append((i, va, ea))
            for key in sorted(set(eval_kw) & set(expr_kw)):
                specs.append((1000 + I.id("key:" + key), eval_kw[key], expr_kw[key]))
            for key in eval_kw:
                if key not in expr_kw:
                    specs.append((1000 + I.id("key:" + key), eval_kw[key], eval_kw[key]))
            args_sx = []
            for slot, va, ea in specs:
                ups = sorted({I.id(u) for u in self.b._find_arg_upstreams(ea)})
                args_sx.append(f"(i{slot} {self.vspec(va)} {_sxv(ups)})")
            # in the iteration order of the set the real code iterates (the order of the Task-value commits)
            sub = [I.id(t.hash) for t in k["subtree_tasks"]]
            node = f"(i{I.id(call)} i{I.id(k['task_hash'])} i{I.id(k['args_hash'])} i{I.id(k['result_hash'])} i{ts})"
            ev.update(req=f"(cnode i{r} {node} {_sxv([I.id(c) for c in k['child_call_hashes']])} "
                          f"({' '.join(args_sx)}) {_sxv(sub)})",
                      call=I.id(call), sub=sub, children=[I.id(c) for c in k["child_call_hashes"]])
        elif name == "check_cache":
            names = ("task_hash", "args_hash", "eval_hash", "execution_id", "scheduler_task_hashes", "cache_scope",
                     "check_valid", "context_hash", "allowed_cache_results")
            k = dict(zip(names, a))
            k.update(kw)
            from redun.backends.base import CacheResult
            allowed = k.get("allowed_cache_results")
            if allowed is None:
                allowed = set(CacheResult)
            reg = sorted(I.id(h) for h in k["scheduler_task_hashes"])
            scope = str(getattr(k["cache_scope"], "name", k["cache_scope"]))
            shallow = str(getattr(k["check_valid"], "name", k["check_valid"])).upper() == "SHALLOW"
            b = lambda x: "T" if x else "F"  # noqa: E731
            ev.update(req=f"(check i{r} i{I.id(k['task_hash'])} i{I.id(k['args_hash'])} i{I.id(k['eval_hash'])} "
                          f"i{I.id(k['execution_id'])} {_sxv(reg)} {scope} {b(shallow)} "
                          f"{b(CacheResult.CSE in allowed)} {b(CacheResult.ULTIMATE in allowed)} "
                          f"{b(CacheResult.SINGLE in allowed)})",
                      context=k.get("context_hash"))
            if err is None:
                result, call_hash, ctype = out
                vh = None if ctype.name == "MISS" else I.id(self.vhash(result))
                ev["expect"] = [vh, I.opt(call_hash), ctype.name]
        elif name == "get_subtree_tasks":
            ev.update(req=f"(subq i{r} i{I.id(a[0])})")
            if err is None:
                ev["expect"] = sorted(I.id(h) for h in out)
        self.events.append(ev)


def compare_events(ctx, events, replies, case, tables=REC_TABLES, what="recording operation", edge_order=True):
    """Compare the model's replies with what the real code did, event by event.  Returns number of mismatches."""
    from core import unsx
    bad = 0
    for ev, rep in zip(events, replies):
        if ev.get("req") is None:
            continue
        if rep.startswith("bad-"):
            ctx.mismatch(f"model rejected request {ev['req'][:80]}", case, rep, ev.get("name"))
            bad += 1
            continue
        if ev["kind"] == "ack":
            continue
        if ev["kind"] == "write":
            if ev["err"] is not None:
                if rep != ev["err"]:
                    ctx.mismatch(f"{what} {ev['name']}: real code raised, model did not", case, rep[:200], ev["err"])
                    bad += 1
                continue
            if rep.startswith("!"):
                ctx.mismatch(f"{what} {ev['name']}: model raised, real code did not", case, rep, "ok")
                bad += 1
                continue
            msnaps = [restrict(canon_model_dump(x), tables, edge_order) for x in unsx(rep)[0]]
            rsnaps = [restrict(d, tables, edge_order) for d in ev["dumps"]]
            # commits that only touched unmodelled tables (tags) show up as repeated dumps on the real side
            dedup = []
            for d in rsnaps:
                if not dedup or dedup[-1] != d:
                    dedup.append(d)
            prev = ev.get("before")
            if prev is not None and dedup and dedup[0] == restrict(prev, tables):
                dedup = dedup[1:]
            if len(msnaps) != len(dedup):
                ctx.mismatch(f"{what} {ev['name']}: number of durable states differs", dict(case=case, req=ev["req"][:300]),
                             len(msnaps), len(dedup))
                bad += 1
                continue
            for i, (m, d) in enumerate(zip(msnaps, dedup)):
                df = diff_dumps(m, d, tables)
                if df:
                    ctx.mismatch(f"{what} {ev['name']}: durable state after commit {i + 1} differs (left=model)",
                                 dict(case=case, req=ev["req"][:300]), df, "see left/right")
                    bad += 1
                    break
        else:
            if ev.get("expect") is None:
                continue
            got = unsx(rep)[0]
            if ev["name"] == "check_cache":
                m = [got[0], got[1], str(got[2])]
                if m != ev["expect"]:
                    ctx.mismatch("check_cache answer differs", dict(case=case, req=ev["req"][:300]), m, ev["expect"])
                    bad += 1
            elif ev["name"] == "subtree_tasks":
                if sorted(set(got)) != ev["expect"]:
                    ctx.mismatch("Job.subtree_tasks after _resolve/_reject_job_main_thread differs from the model's "
                                 "calc_subtree_tasks / _get_subtree_tasks", dict(case=case, req=ev["req"][:300]),
                                 sorted(set(got)), ev["expect"], **({"signature": ev["mismatch_sig"]} if ev.get("mismatch_sig") else {}))
                    bad += 1
            else:
                if sorted(got) != ev["expect"]:
                    ctx.mismatch("get_subtree_tasks answer differs", dict(case=case, req=ev["req"][:300]), sorted(got),
                                 ev["expect"])
                    bad += 1
    return bad


# ---------------------------------------------------------------------------------------------- programs
class Program:
    """A family of pure tasks `t0..t(n-1)`; `ti(x)` returns `[const_i, x, tj(x + k), ...]` for its calls
    `(j, k)` or `(j, k, via)` with `j, via > i` (with `via` the argument is computed from another task's result).  `versions[i]` is part of the task hash (an edit = version bump + new constant).
    `shallow[i]` = `check_valid="shallow"`.  The root expression is `main()` = `[ti(x), ...]` for `roots`."""

    def __init__(self, n, calls, shallow, roots, ns="gc"):
        self.n = n
        self.calls = calls          # list of list of (j, k)
        self.shallow = shallow
        self.roots = roots          # list of (i, x)
        self.versions = [1] * n
        self.ns = ns
        self.main_version = 1

    def describe(self):
        return dict(n=self.n, calls=self.calls, shallow=self.shallow, roots=self.roots, versions=list(self.versions))

    def const(self, i):
        return 1000 * (i + 1) + self.versions[i]

    def expected(self, i, x):
        return [self.const(i), x] + [self.expected(c[0], x + c[1]) for c in self.calls[i]]

    def expected_main(self):
        return [self.expected(i, x) for (i, x) in self.roots]

    def edit(self, i):
        self.versions[i] += 1

    def set_roots(self, roots):
        self.roots = roots
        self.main_version += 1

    def define(self):
        """(Re)register the tasks with the current versions; returns the `main` task."""
        from redun import task
        tasks: dict = {}
        prog = self

        def make(i):
            c = prog.const(i)
            calls = list(prog.calls[i])

            def arg(x, call):
                # `(j, k)`: plain argument x + k;  `(j, k, via)`: the same value taken out of the result of another
                # task call (`tasks[via](x + k)[1]`), so that the Argument row has an upstream CallNode
                if len(call) > 2 and call[2] is not None:
                    return tasks[call[2]](x + call[1])[1]
                return x + call[1]

            def body(x):
                return [c, x] + [tasks[call[0]](arg(x, call)) for call in calls]
            body.__name__ = f"t{i}"
            opts = dict(name=f"t{i}", namespace=prog.ns, version=str(prog.versions[i]))
            if prog.shallow[i]:
                opts["check_valid"] = "shallow"
            return task(**opts)(body)
        for i in reversed(range(self.n)):
            tasks[i] = make(i)
        roots = list(self.roots)

        def main():
            return [tasks[i](x) for (i, x) in roots]
        main_task = task(name="main", namespace=self.ns, version=str(self.main_version))(main)
        self.tasks = tasks
        return main_task

    def task_hash(self, i):
        return self.tasks[i].hash


class TwinProgram:
    """A(shallow) -> f -> g and B(shallow) -> f where B is evaluated after A finished (B depends on w(A(..))), so
    that B's child f(x) is served by CSE from the backend.  `mode` = "f": main is f(1) only; "twin": [A(1), B(1, w(a))].
    Task indices for `edit`: 0 = g, 1 = f."""

    def __init__(self, ns="gctw"):
        self.ns = ns
        self.versions = [1, 1]
        self.mode = "twin"
        self.n = 2

    def describe(self):
        return dict(program="A(shallow)->f->g; B(shallow)->f after A (CSE)", mode=self.mode, versions=list(self.versions))

    def edit(self, i):
        self.versions[i] += 1

    def _g(self, x):
        return x + 100 * self.versions[0]

    def expected_main(self):
        r = self._g(1) + 1000 * self.versions[1]
        return r if self.mode == "f" else [r, r]

    def define(self):
        from redun import task
        vg, vf, ns = self.versions[0], self.versions[1], self.ns

        @task(name="g", namespace=ns, version=str(vg))
        def g(x):
            return x + 100 * vg

        @task(name="plus", namespace=ns, version="1")
        def plus(x, k):
            return x + k

        @task(name="f", namespace=ns, version=str(vf))
        def f(x):
            return plus(g(x), 1000 * vf)

        @task(name="w", namespace=ns, version="1")
        def w(x):
            return 0

        @task(name="A", namespace=ns, version="1", check_valid="shallow")
        def A(x):
            return f(x)

        @task(name="B", namespace=ns, version="1", check_valid="shallow")
        def B(x, dep):
            return f(x)

        @task(name="main_f", namespace=ns, version="1")
        def main_f():
            return f(1)

        @task(name="main_twin", namespace=ns, version="1")
        def main_twin():
            a = A(1)
            return [a, B(1, w(a))]
        self.tasks = {0: g, 1: f}
        return main_f if self.mode == "f" else main_twin

    def task_hash(self, i):
        return self.tasks[i].hash


class NoProvMidProgram:
    """report(shallow, records provenance) -> stage (records NO provenance) -> fetch; only `fetch` is edited.
    `kind`: "option" = @task(prov=False) stage; "call" = stage.options(prov=False)(x); "no_prov" = report is the
    library's `redun.functools.no_prov(stage(x))` (a shallow task above the prov=False helper).
    Task indices for `edit`: 0 = fetch, 1 = stage."""

    def __init__(self, kind="option", ns="gcnpm"):
        self.kind, self.ns = kind, ns + kind
        self.versions = [1, 1]
        self.n = 2

    def describe(self):
        return dict(program="report(shallow) -> stage(prov=False: %s) -> fetch" % self.kind, versions=list(self.versions))

    def edit(self, i):
        self.versions[i] += 1

    def expected_main(self):
        return [2 + 100 * self.versions[0], self.versions[1]]

    def define(self):
        from redun import task
        from redun.functools import no_prov
        ns, vf, vs, kind = self.ns, self.versions[0], self.versions[1], self.kind

        @task(name="fetch", namespace=ns, version=str(vf))
        def fetch(x):
            return x + 100 * vf

        opts = dict(name="stage", namespace=ns, version=str(vs))
        if kind == "option":
            opts["prov"] = False

        def stage_body(x):
            return [fetch(x), vs]
        stage_body.__name__ = "stage"
        stage = task(**opts)(stage_body)

        @task(name="report", namespace=ns, version="1", check_valid="shallow")
        def report(x):
            if kind == "call":
                return stage.options(prov=False)(x)
            return stage(x)

        @task(name="main_npm", namespace=ns, version="1")
        def main_npm():
            if kind == "no_prov":
                return no_prov(stage(2))
            return report(2)
        self.tasks = {0: fetch, 1: stage}
        return main_npm

    def task_hash(self, i):
        return self.tasks[i].hash


class MultiArgProgram:
    """main -> [one(1), comb(1, 7001 + v, 7002 + v, k=7003 + v)]: `comb` has one argument value that is already
    recorded and several NEW ones, so that `_record_args` makes several nested `record_value` calls that commit while
    the CallNode of `comb` is still pending.  Task indices for `edit`: 0 = comb, 1 = one."""

    def __init__(self, ns="gcma"):
        self.ns = ns
        self.versions = [1, 1]
        self.n = 2

    def describe(self):
        return dict(program="main -> [one(1), comb(1, new, new, k=new)]", versions=list(self.versions))

    def edit(self, i):
        self.versions[i] += 1

    def expected_main(self):
        v = self.versions[0]
        return [1 + self.versions[1], 1 + (7001 + v) + (7002 + v) + (7003 + v)]

    def define(self):
        from redun import task
        ns, vc, vo = self.ns, self.versions[0], self.versions[1]

        @task(name="one", namespace=ns, version=str(vo))
        def one(x):
            return x + vo

        @task(name="comb", namespace=ns, version=str(vc))
        def comb(a, b, c, k=0):
            return a + b + c + k

        @task(name="main_ma", namespace=ns, version="1")
        def main_ma():
            return [one(1), comb(1, 7001 + vc, 7002 + vc, k=7003 + vc)]
        self.tasks = {0: comb, 1: one}
        return main_ma

    def task_hash(self, i):
        return self.tasks[i].hash


class TagProgram:
    """jobs that carry tags: `leaf` has the task option tags=[("kind","leaf")]; `mid` (shallow) wraps its result in
    apply_tags(value tags, job_tags, execution_tags); the execution itself is started with run(tags=...).
    Task indices for `edit`: 0 = leaf, 1 = mid."""

    def __init__(self, ns="gctag", run_tags=(("run", "r1"),)):
        self.ns = ns
        self.versions = [1, 1]
        self.n = 2
        self.run_tags = list(run_tags)

    def describe(self):
        return dict(program="main -> mid(shallow, task tags; apply_tags value/job/execution tags) -> leaf(task tags)",
                    versions=list(self.versions), run_tags=self.run_tags)

    def edit(self, i):
        self.versions[i] += 1

    def expected_main(self):
        return 1 + 10 * self.versions[0]

    def define(self):
        from redun import apply_tags, task
        ns, vl, vm = self.ns, self.versions[0], self.versions[1]

        @task(name="leaf", namespace=ns, version=str(vl), tags=[("kind", "leaf")])
        def leaf(x):
            return x + 10 * vl

        @task(name="mid", namespace=ns, version=str(vm), check_valid="shallow", tags=[("kind", "mid")])
        def mid(x):
            return apply_tags(leaf(x), tags=[("val", "tagged")], job_tags=[("jt", 1)], execution_tags=[("et", "e")])

        @task(name="main_tag", namespace=ns, version="1")
        def main_tag():
            return mid(1)
        self.tasks = {0: leaf, 1: mid}
        return main_tag

    def task_hash(self, i):
        return self.tasks[i].hash


class BigProgram:
    """t0(x) -> t1(x); both return strings of a few hundred bytes (>= value_store_min_size of the test backend), so
    that their Value rows are placeholders and the data lives in the value store.  `runs` counts task executions."""

    def __init__(self, ns="gcbig"):
        self.ns = ns
        self.versions = [1, 1]
        self.n = 2
        self.runs = []

    def describe(self):
        return dict(program="t0 -> t1, string results of ~600 bytes kept in the value store", versions=list(self.versions))

    def edit(self, i):
        self.versions[i] += 1

    def expected_main(self):
        return ["t0v%d" % self.versions[0] + "a" * 600, "t1v%d" % self.versions[1] + "b" * 600 + "1"]

    def define(self):
        from redun import task
        ns, v0, v1, runs = self.ns, self.versions[0], self.versions[1], self.runs

        @task(name="t1", namespace=ns, version=str(v1))
        def t1(x):
            runs.append("t1")
            return "t1v%d" % v1 + "b" * 600 + str(x)

        @task(name="t0", namespace=ns, version=str(v0))
        def t0(x):
            runs.append("t0")
            return ["t0v%d" % v0 + "a" * 600, t1(x)]

        @task(name="main_big", namespace=ns, version="1")
        def main_big():
            runs.append("main")
            return t0(1)
        self.tasks = {0: t0, 1: t1}
        return main_big

    def task_hash(self, i):
        return self.tasks[i].hash


class FailProgram:
    """S(shallow)(x) = catch_all([stage(x)], ValueError, recover); stage -> fetch; fetch raises ValueError while its
    version is odd and returns x * 10 once it is even.  mode "single": main = S(3); mode "twin": main =
    second(3, first(3)) where `first` (not shallow) runs the same catch_all before `second` (shallow), so that in
    `second` the failed `stage(3)` is served by CSE.  Task indices for `edit`: 0 = fetch, 1 = stage."""

    def __init__(self, mode="single", ns="gcfail"):
        self.ns, self.mode = ns, mode
        self.versions = [1, 1]
        self.n = 2

    def describe(self):
        return dict(program="shallow S -> catch_all([stage]) ; stage -> fetch (fetch fails while its version is odd)",
                    mode=self.mode, versions=list(self.versions))

    def edit(self, i):
        self.versions[i] += 1

    def expected_main(self):
        return ["fallback"] if self.versions[0] % 2 == 1 else [30]

    def define(self):
        from redun import task
        from redun.scheduler import catch_all
        ns, vf, vs = self.ns, self.versions[0], self.versions[1]

        @task(name="fetch", namespace=ns, version=str(vf))
        def fetch(x):
            if vf % 2 == 1:
                raise ValueError("boom")
            return x * 10

        @task(name="stage", namespace=ns, version=str(vs))
        def stage(x):
            return fetch(x)

        @task(name="recover", namespace=ns, version="1")
        def recover(error):
            return ["fallback"]

        @task(name="first", namespace=ns, version="1")
        def first(x):
            return catch_all([stage(x)], ValueError, recover)

        @task(name="second", namespace=ns, version="1", check_valid="shallow")
        def second(x, dep):
            return catch_all([stage(x)], ValueError, recover)

        @task(name="S", namespace=ns, version="1", check_valid="shallow")
        def S(x):
            return catch_all([stage(x)], ValueError, recover)

        @task(name="main_single", namespace=ns, version="1")
        def main_single():
            return S(3)

        @task(name="wait", namespace=ns, version="1")
        def wait(x):
            return 0

        @task(name="main_twin", namespace=ns, version="1")
        def main_twin():
            return second(3, wait(first(3)))
        self.tasks = {0: fetch, 1: stage}
        return main_single if self.mode == "single" else main_twin

    def task_hash(self, i):
        return self.tasks[i].hash


class NoProvProgram:
    """P(shallow) calls `kids` leaf tasks with prov=False: the children leave no Job / CallNode / Task rows, so
    `record_call_node(P)` takes the branch that records the Task value of every subtree task itself
    (`recorded_child_hashes < set(child_call_hashes)`).  Task indices: 0 = P, 1.. = children."""

    def __init__(self, kids=2, ns="gcnp"):
        self.ns = ns
        self.kids = kids
        self.n = kids + 1
        self.versions = [1] * self.n

    def describe(self):
        return dict(program=f"P(shallow) -> {self.kids} leaf tasks called with prov=False", versions=list(self.versions))

    def edit(self, i):
        self.versions[i] += 1

    def expected_main(self):
        return [1000 + self.versions[0]] + [1000 * (i + 1) + self.versions[i] + (1 + i) for i in range(1, self.n)]

    def define(self):
        from redun import task
        ns, vs, n = self.ns, list(self.versions), self.n
        tasks = {}

        def leaf(i):
            c = 1000 * (i + 1) + vs[i]

            def body(x):
                return c + x
            body.__name__ = f"c{i}"
            return task(name=f"c{i}", namespace=ns, version=str(vs[i]))(body)
        for i in range(1, n):
            tasks[i] = leaf(i)
        cp = 1000 + vs[0]

        @task(name="P", namespace=ns, version=str(vs[0]), check_valid="shallow")
        def P(x):
            return [cp] + [tasks[i].options(prov=False)(x + i) for i in range(1, n)]
        tasks[0] = P

        @task(name="main_np", namespace=ns, version="1")
        def main_np():
            return P(1)
        self.tasks = tasks
        return main_np

    def task_hash(self, i):
        return self.tasks[i].hash


def gen_program(rng, n=None, ns="gc"):
    n = n or rng.choice([2, 3, 3, 4, 4, 5])
    calls = []
    for i in range(n):
        later = list(range(i + 1, n))
        cs = []
        if later:
            for _ in range(rng.choice([0, 1, 1, 2, 2])):
                call = (rng.choice(later), rng.choice([0, 0, 1]))
                if rng.random() < 0.3:
                    call = call + (rng.choice(later),)
                cs.append(call)
        calls.append(cs)
    shallow = [rng.random() < 0.5 for _ in range(n)]
    if not any(shallow):
        shallow[0] = True
    roots = [(rng.choice(range(max(1, n - 1))), rng.choice([0, 1]))
             for _ in range(rng.choice([1, 1, 2]))]
    if not any(i == 0 for i, _ in roots):
        roots[0] = (0, roots[0][1])
    return Program(n, calls, shallow, roots, ns=ns)


def run_program(sched, prog: Program):
    """Run `main()`; returns the result or '!ErrName'."""
    main = prog.define()
    kw = {}
    if getattr(prog, "run_tags", None):
        kw["tags"] = list(prog.run_tags)
    try:
        return sched.run(main(), **kw)
    except Crash:
        raise
    except Exception as e:  # noqa: BLE001
        return "!" + type(e).__name__


# ---------------------------------------------------------------------------------------------- real-code oracles
def subtree_gaps(db_path: str) -> list:
    """Call nodes whose recorded CallSubtreeTask set misses a task recorded at or beneath them
    (the property's own observable: 'CallSubtreeTask rows per CallNode').  Returns (call, missing task hashes)."""
    con = sqlite3.connect(db_path)
    try:
        task_of = {c: t for c, t in con.execute("select call_hash, task_hash from call_node")}
        kids: dict = {}
        for p, c in con.execute("select parent_id, child_id from call_edge"):
            kids.setdefault(p, []).append(c)
        rows: dict = {}
        for c, t in con.execute("select call_hash, task_hash from call_subtree_task"):
            rows.setdefault(c, set()).add(t)
        out = []
        for c in task_of:
            seen, stack, need = set(), [c], set()
            while stack:
                x = stack.pop()
                if x in seen or x not in task_of:
                    continue
                seen.add(x)
                need.add(task_of[x])
                stack.extend(kids.get(x, []))
            miss = need - rows.get(c, set())
            if miss:
                out.append((c, sorted(miss), len(rows.get(c, set()))))
        return out
    finally:
        con.close()


# ---------------------------------------------------------------------------------------------- histories
def guarded(ctx, label, fn, default=None):
    """run one scenario; an exception of the real code in a scenario that must work is a violation, not an
    infrastructure error"""
    try:
        return fn()
    except Crash:
        raise
    except Exception as e:  # noqa: BLE001
        import traceback
        ctx.violation(f"{ctx.pid}-scenario-raises", "the real code raised in a scenario that must work",
                      dict(scenario=label, error=repr(e)[:300], where=traceback.format_exc()[-700:]),
                      expected="no exception", actual=repr(e)[:200])
        return default


FLAG_NAMES = ["atomicValue", "atomicCallNode", "healSubtree", "emptyNotCurrent", "cseSubtreeFromDb", "execKeep"]

# ------------------------------------------------------------------------------------------------- environment
class Env:
    """temp directory with a migrated template database (copying it is much cheaper than migrating a new one)"""

    def __init__(self, ctx, base):
        self.ctx = ctx
        self.base = base
        self.n = 0
        self.template = os.path.join(base, "template.db")
        s = new_scheduler(self.template)
        close_scheduler(s)

    def new_db(self) -> str:
        self.n += 1
        p = os.path.join(self.base, f"repo{self.n}.db")
        shutil.copyfile(self.template, p)
        return p


class Case:
    """One history on the real code (several repositories, several scheduler processes one after the other),
    logged as model requests.  `on_result(case, repo, result, crash_at, fault_k, fired)` is the property oracle."""

    def __init__(self, env: Env, prog, flags, label, on_result=None):
        self.env, self.prog, self.flags, self.label = env, prog, flags, label
        self.on_result = on_result
        self.I = Interner()
        self.events = []
        self.repos = {}
        self.disturb = []
        self.steps = []
        self.clock = 0
        self.transferred = False
        self.snap_dir = None          # set to a directory to keep a file copy of every durable state of the next run
        self.last_snaps = []
        self.backend_cfg = None       # extra [backend] configuration (e.g. value_store_path)
        self.sig_override = None      # (signature, what) the oracle reports for a wrong result of this case

    def describe(self):
        return dict(label=self.label, program=self.prog.describe() if self.prog is not None else None, steps=self.steps)

    def repo(self, r):
        if r not in self.repos:
            self.repos[r] = self.env.new_db()
            self.events.append(dict(req=f"(new i{r})", kind="ack", name="new"))
        return self.repos[r]

    def run(self, r, crash_at=None, fault_k=None, fault_mode="commit", crash_after=None):
        """one scheduler process running `prog.main()` on repository `r`;
        returns (result | '!Err' | 'CRASH', where the fault fired, number of writing commits)"""
        path = self.repo(r)
        s = new_scheduler(path, self.backend_cfg)
        tap = CommitTap(s.backend, self.I, snap_dir=self.snap_dir, crash_at=crash_at, crash_after=crash_after)
        op = OpTap(s, self.I, repo=r, tap=tap)
        op.clock = self.clock
        ft = FaultTap(s.backend, fault_k, fault_mode) if fault_k else None
        op.fault = ft
        crashed = False
        try:
            try:
                res = run_program(s, self.prog)
            except Crash:
                crashed = True
                res = "CRASH"
        finally:
            self.clock = op.clock
            op.remove()
            if ft is not None:
                ft.remove()
            close_scheduler(s)
        evs = op.events
        self.events.extend(evs)
        self.last_snaps = list(tap.snaps)
        if crashed:
            last = evs[-1] if evs and evs[-1].get("crashed") else None
            dump = dump_db(path, self.I)
            if last is not None:
                self.events.append(dict(req=f"(crash i{r} i{len(last['dumps'])})", kind="crashdump", name="crash",
                                        expect=dump))
            else:
                # died outside a modelled operation (nothing of the modelled tables was pending)
                self.events.append(dict(req=f"(dump i{r})", kind="crashdump", name="crash-outside", expect=dump))
        fired = ft.fired_at if ft else None
        self.last_fault_n = ft.n if ft else None
        self.steps.append(("run", r, crash_at if crash_at is not None else (f"after{crash_after}" if crash_after else None),
                           fault_k, res if isinstance(res, str) else "ok", fired))
        if self.on_result is not None:
            self.on_result(self, r, res, crash_at, fault_k, fired)
        return res, fired, tap.n

    def branch(self, r_from, r_new):
        """continue on a copy of repository `r_from` as repository `r_new` (the model gets the same state)"""
        path = self.env.new_db()
        shutil.copyfile(self.repos[r_from], path)
        self.adopt(r_new, path)
        return path

    def adopt(self, r, path):
        """continue on a copy of a durable snapshot: the model is told to go back to that state with `load`"""
        self.repos[r] = path
        d = dump_db(path, self.I)
        self.events.append(dict(req=f"(load i{r} {dump_to_sx(d)})", kind="ack", name="load"))

    def transfer(self, src, dst, roots=None, twice=False, how="direct"):
        """records reachable from `roots` (default: all executions) of `src` -> `dst`, by the code path of
        `redun push/pull` (`RedunClient._sync_records`)."""
        from redun.backends.db import Execution, Job
        ps, pd = self.repo(src), self.repo(dst)
        ss, sd = new_scheduler(ps), new_scheduler(pd)
        try:
            if roots is None:
                rows = (ss.backend.session.query(Execution.id).join(Job, Execution.job_id == Job.id)
                        .order_by(Job.start_time.desc()).all())
                roots = [row[0] for row in rows]
            for _ in range(2 if twice else 1):
                if how == "sync":
                    # the body of `redun push` / `redun pull`
                    from redun.cli import RedunClient
                    n = RedunClient()._sync_records(ss.backend, sd.backend, list(roots))
                elif how == "file":
                    n = self._export_import(ps, pd, roots)
                else:
                    record_ids = ss.backend.iter_record_ids(roots)
                    records = ss.backend.get_records(record_ids)
                    n = sd.backend.put_records(records)
        finally:
            close_scheduler(ss)
            close_scheduler(sd)
        dump = dump_db(pd, self.I)
        self.events.append(dict(req=f"(xfer i{src} i{dst} {_sxv([self.I.id(x) for x in roots])})", kind="xfer",
                                name="transfer", expect=dump))
        self.steps.append(("transfer", src, dst))
        self.disturb.append("transfer")
        self.transferred = True
        return n

    def _export_import(self, ps, pd, roots):
        """`redun export --file f ids...` in the source, `redun import --file f` in the destination"""
        import tempfile
        from redun.cli import RedunClient

        def cfg(db_path):
            d = tempfile.mkdtemp(prefix="cfg-", dir=self.env.base)
            os.makedirs(os.path.join(d, ".redun"))
            with open(os.path.join(d, ".redun", "redun.ini"), "w") as f:
                f.write(f"[backend]\ndb_uri = sqlite:///{db_path}\n")
            return os.path.join(d, ".redun")
        f = os.path.join(self.env.base, f"export-{len(os.listdir(self.env.base))}.json")
        for argv in (["redun", "--config", cfg(ps), "export", "--file", f] + list(roots),
                     ["redun", "--config", cfg(pd), "import", "--file", f]):
            c = RedunClient()
            c.execute(argv)
            try:
                close_scheduler(c.scheduler)
            except Exception:  # noqa: BLE001
                pass
        return None

    def lines(self):
        v = " ".join("T" if self.flags[f] else "F" for f in FLAG_NAMES)
        out = [f"(variant {v})"]
        evs = [dict(req=out[0], kind="ack", name="variant")]
        for ev in self.events:
            if ev.get("req") is None:
                evs.append(ev)
                out.append("(noop)")
                continue
            evs.append(ev)
            out.append(ev["req"])
            if ev.get("fault_j") is not None and ev.get("kind") == "write":
                # db_retry: rollback to the durable prefix, then the operation again
                out.append(f"(retry i{ev['repo']} i{ev['fault_j']})")
                evs.append(dict(req=out[-1], kind="ack", name="retry"))
                out.append(ev["req"])
                evs.append(dict(ev, second=True))
        return out, evs


def commit_range_of(case: Case, name="record_call_node", which=0):
    """(first, last) 1-based writing-commit numbers of the `which`-th logged call of `name` in the case's events"""
    n, seen = 0, 0
    for ev in case.events:
        k = len(ev.get("dumps") or [])
        if ev.get("name") == name:
            if seen == which:
                return n + 1, n + k
            seen += 1
        n += k
    return None


def compare_case(ctx, case: Case, evs, replies, tables=REC_TABLES):
    """model replies vs real code for one case; returns the number of mismatches"""
    from core import unsx
    bad = 0
    label = case.describe()
    unrepaired = not (case.flags["atomicValue"] and case.flags["atomicCallNode"])
    eo = True        # compare call_order of edges (not after a transfer: see C23, the order is re-derived there)
    for ev, rep in zip(evs, replies):
        kind = ev["kind"]
        if kind == "harness-error":
            ctx.mismatch("harness could not translate a backend call", label, "-", ev.get("expect"))
            bad += 1
            continue
        if rep.startswith("bad-"):
            ctx.mismatch(f"model rejected request {ev['req'][:100]}", label, rep, ev.get("name"))
            bad += 1
            continue
        if kind == "ack":
            continue
        if kind in ("crashdump", "xfer"):
            if kind == "xfer":
                eo = False
                snaps = unsx(rep)[0]
                if not snaps:
                    continue        # nothing new according to the model; the next operation's states are compared anyway
                m = canon_model_dump(snaps[-1])
                tabs = MODEL_TABLES
            else:
                m = canon_model_dump(unsx(rep)[0])
                tabs = tables
            df = diff_dumps(restrict(m, tabs, eo), restrict(ev["expect"], tabs, eo), tabs)
            if df:
                ctx.mismatch(f"durable state after {ev['name']} differs (left=model)", label, df, "real")
                bad += 1
            continue
        if kind == "write":
            if ev.get("err") in ("!IntegrityError", "!AttributeError") and unrepaired and not rep.startswith("!"):
                # the unrepaired recording code left a Task value without Task row behind (C22): sqlite refuses
                # the next row that references it; the model has no FK enforcement.  Nothing to compare after that.
                ctx.count("model_comparison", "stopped-at-IntegrityError-of-unrepaired-code")
                break
            if ev.get("fault_j") is not None and not ev.get("second"):
                j = ev["fault_j"]
                ms = [] if rep.startswith("!") else [restrict(canon_model_dump(x), tables, eo) for x in unsx(rep)[0]]
                rs = [restrict(d, tables, eo) for d in ev["dumps"]]
                if ms[:j] != rs[:j]:
                    ctx.mismatch(f"{ev['name']}: durable states before the injected fault differ", label, "model", "real")
                    bad += 1
                continue
            if ev.get("second"):
                ev = dict(ev, dumps=ev["dumps"][ev["fault_j"]:])
            if ev.get("crashed"):
                ms = [restrict(canon_model_dump(x), tables, eo) for x in unsx(rep)[0]]
                rs = [restrict(d, tables, eo) for d in ev["dumps"]]
                if ms[:len(rs)] != rs:
                    ctx.mismatch(f"{ev['name']}: durable states before the process death differ", label, "model", "real")
                    bad += 1
                continue
        bad += compare_events(ctx, [ev], [rep], label, tables, edge_order=eo)
    return bad


# ---------------------------------------------------------------------------------------------- probes
def probe_flags(ctx, env):
    """Which of the six behaviours does the working tree have?  Each probe is the replay of a `refuted_*` witness.
    A probe that raises (the scenario must work on any sane tree) is reported as a violation and its flags stay
    `current`."""
    flags = dict.fromkeys(FLAG_NAMES, False)
    twin_case = dict(program="A(shallow)->f->g; B(shallow)->f served by CSE; edit g")
    for part in (_probe_commits, _probe_transfer, _probe_twin, _probe_exec):
        try:
            part(ctx, env, flags, twin_case)
        except Exception as e:  # noqa: BLE001
            import traceback
            ctx.violation(f"{ctx.pid}-witness-scenario-raises",
                          "a basic recording / transfer scenario raised on the working tree",
                          dict(probe=part.__name__, error=repr(e)[:300], where=traceback.format_exc()[-600:]),
                          expected="no exception", actual=repr(e)[:200])
    return flags, twin_case


def _two_level(ns):
    return Program(2, [[(1, 0)], []], [True, False], [(0, 1)], ns=ns)


def _probe_commits(ctx, env, flags, twin_case):
    # atomicValue / atomicCallNode: look at every durable state of one clean run
    I = Interner()
    prog = _two_level("gcp")
    p = env.new_db()
    s = new_scheduler(p)
    tap = CommitTap(s.backend, I)
    try:
        run_program(s, prog)
    finally:
        close_scheduler(s)
    flags["atomicValue"] = all(all(h in d["tasks"] for (h, k) in d["values"] if k == "task") for d in tap.dumps)
    flags["atomicCallNode"] = all(all(any(r[0] == n[0] for r in d["subtree"]) for n in d["nodes"]) for d in tap.dumps)
    env.probe_db = p
    env.probe_prog = prog


def _probe_transfer(ctx, env, flags, twin_case):
    # emptyNotCurrent / healSubtree: transfer, then look up / re-run
    from redun.backends.db import CallNode
    I = Interner()
    prog, p = env.probe_prog, env.probe_db
    p2 = env.new_db()
    c = Case(env, prog, dict.fromkeys(FLAG_NAMES, False), "probe")
    c.repos = {0: p, 1: p2}
    c.transfer(0, 1)
    s2 = new_scheduler(p2)
    try:
        main = prog.define()
        t0 = prog.tasks[0]
        node = s2.backend.session.query(CallNode).filter_by(task_hash=t0.hash).first()
        hit = s2.backend._get_call_node(t0.hash, node.args_hash, s2.task_registry.task_hashes)
        flags["emptyNotCurrent"] = hit is None
        s2.run(main())
    finally:
        close_scheduler(s2)
    d2 = dump_db(p2, I)
    flags["healSubtree"] = all(any(r[0] == n[0] for r in d2["subtree"]) for n in d2["nodes"])


def _probe_twin(ctx, env, flags, twin_case):
    # cseSubtreeFromDb: A(shallow) -> f -> g ; B(shallow) -> f (CSE) ; after editing g both must change
    prog = TwinProgram(ns="gcq")
    p3 = env.new_db()
    res = []
    for step in range(2):
        s3 = new_scheduler(p3)
        try:
            res.append(run_program(s3, prog))
        finally:
            close_scheduler(s3)
        if step == 0:
            prog.edit(0)
    flags["cseSubtreeFromDb"] = (res[1] == prog.expected_main())
    twin_case.update(run1=res[0], run2=res[1], expected=prog.expected_main())


def _probe_exec(ctx, env, flags, twin_case):
    # execKeep: transient failure of the commit of the root job's record_job_start
    p4 = env.new_db()
    prog4 = _two_level("gcr")
    k = 2 if flags["atomicValue"] else 3
    s4 = new_scheduler(p4)
    ft = FaultTap(s4.backend, k)
    try:
        r4 = run_program(s4, prog4)
    finally:
        ft.remove()
        close_scheduler(s4)
    flags["execKeep"] = (r4 == prog4.expected_main())
