"""C16 — value hashes depend only on the value (not on PYTHONHASHSEED, the process, or set insertion order).
Model: lean/RedunModel/Model/ValueHash.lean.  Real code: TypeRegistry.get_hash in fresh interpreters."""
import json
import os
import pickle
import shutil
import subprocess
import sys
import tempfile

import core
from props import _c16_worker as W

ID = "C16"
# READY: the check is complete; on the unchanged tree it reproduces finding F9 (signatures below, proposed as `known` in
# harness/findings_proposed/C16.json) and exits 0 once the lead lists them in known_findings.json.
READY = True
LEAN_MODULES = ["RedunModel.Props.C16"]
LEAN_DRIVERS = ["C16"]
THEOREMS = [
    "RedunModel.C16.hash_stable_setfree",
    "RedunModel.C16.hash_stable_rigid",
    "RedunModel.C16.partial_top_set",
    "RedunModel.C16.partial_top_set_int",
    "RedunModel.C16.partial_top_set_str",
    "RedunModel.C16.partial_top_set_unorderable",
    "RedunModel.C16.pySorted_typeError_perm",
    "RedunModel.C16.nonset_hash_eq_iff",
    "RedunModel.C16.getHash_of_not_setLike",
    "RedunModel.C16.set_subclass_uses_set_proxy",
    "RedunModel.C16.partial_top_setsub_str",
    "RedunModel.C16.fset_subclass_sensitive",
    "RedunModel.C16.recordValue_eq_getHash",
    "RedunModel.C16.recorded_top_set_str",
    "RedunModel.C16.refuted_nested_list",
    "RedunModel.C16.refuted_dict_value",
    "RedunModel.C16.refuted_frozenset",
    "RedunModel.C16.refuted_set_of_frozenset",
    "RedunModel.C16.refuted_insertion_order_ints",
    "RedunModel.C16.refuted_unorderable_with_frozenset",
    "RedunModel.C16.frozenset_sensitive",
    "RedunModel.C16.nested_set_sensitive",
    "RedunModel.C16.order_independent_refuted",
    "RedunModel.ValueHash.sim_eq_of_setFree",
    "RedunModel.ValueHash.sim_eq_of_rigid",
    "RedunModel.ValueHash.isort_eq_of_perm",
    "RedunModel.C16.sim_equivalence",
]
TRUSTED = [
    "pickle is modelled structurally, its byte format is not modelled: the pickle of a value is taken to be an injective function "
    "of the value AS LAID OUT in the process (every set/frozenset contributes its elements in iteration order; object sharing is "
    "the same in every process because every process builds the value with the same code); the tie checks exactly this: model "
    "pre-images and real hashes must be in bijection over all observed layouts",
    "modelled, not verified: Python's sorted() on a set of numbers / strs / bytes / comparable tuples (any correct sort of a strict "
    "total order; insertion sort in the model), TypeError when elements of different kinds (or dataclass instances) meet - then "
    "Set.get_hash orders the elements by their own value hash: the digest function is a PARAMETER H of the Lean model (theorems "
    "hold for every H; injectivity on the elements is a stated hypothesis where needed); the driver runs the model with a "
    "concrete injective stand-in digest, which orders the elements differently from SHA-512 - the tie only relies on the order "
    "being a function of the set of element pre-images; sorted() on partially ordered "
    "elements (frozensets, tuples with incomparable components) is NOT modelled (the driver answers `unspecified`, the oracle "
    "still runs)",
    "the iteration order of a set in a given process is observed (printed by the worker), not predicted",
    "SHA-512/160 collision freedom is outside the claim",
]
ASSUMPTIONS = [
    "values: None, bool, int, str, bytes, list, tuple, dict (insertion order fixed: it is part of what is pickled and the property "
    "does not quantify over it), set, frozenset, instances of subclasses of set / frozenset / list / dict / tuple / str / int (top level "
    "and nested), dataclass instances (also with non-field __dict__ entries), floats (no NaN; a "
    "top-level set containing floats is hashed for the oracle but sorted() on floats is not modelled), no two `==`-equal elements offered to one set "
    "(e.g. 1 and True), no Value subclasses with their own get_hash (File etc. are C30)",
    "'the same value' = same specification built by the same code in every process, with the elements of every set/frozenset "
    "inserted in a per-run permuted order",
    "object sharing: only the scheduler-recorded hashes are required to be independent of which equal sub-containers are the same "
    "object (the scheduler rebuilds arguments and results); a bare get_hash / record_value call sees the memo of pickle (listed "
    "finding C20-value-key-pickle-aliasing) and is not compared across sharing variants; shared rows have number / None leaves",
    "a value whose hashing raises the same error in every run is not counted as a violation of THIS property (no hash differs); "
    "it is reported in the evidence distribution (none is expected since the TypeError fallback of Set.get_hash)",
]
RULE = ("value specifications generated from one PRNG (scalars, nested list/tuple/dict/set/frozenset/dataclass, depth <= 4, sets at "
        "top level, nested, inside frozensets and dataclass fields; colliding ints; unicode strs; mixed-kind sets), each hashed by the "
        "real TypeRegistry.get_hash in fresh interpreters started with different PYTHONHASHSEED values and, per interpreter, under "
        "several permuted insertion orders, and with different HISTORIES (the interpreters meet the values in forward / reverse order, or "
        "meet only the even / odd half of them); look-alike families (values that are == in Python but pickle differently: int / float / "
        "bool spellings of the same numbers inside nested tuples, 0.0 / -0.0, 1 / 1.0 / True) sit next to each other so that each is "
        "hashed alone, before and after its look-alikes; the worker prints the layout it observed; the Lean model maps every layout to a hash "
        "pre-image. The worker obtains the hash five ways: TypeRegistry.get_hash(value), value_interface.get_hash(data=serialize()), a "
        "real RedunBackendDb.record_value(value), and (witnesses, corpus, first generated values) Argument.value_hash and "
        "CallNode.value_hash recorded by a real Scheduler for the call ident(value). Correspondence: pre-image <-> hash must be a "
        "bijection over ALL observed layouts and the first three ways (so the model predicts exactly "
        "which values are order sensitive). The hash is taken once more after record_value (which makes the registry resolve and memoise the proxy of the type). "
        "Same value, different object sharing: lists/tuples holding one row object several times ([row] * n, nested, numbers as "
        "leaves) go through the real task call next to the equal value built without sharing; the scheduler-recorded hashes "
        "(Argument.value_hash, CallNode.value_hash, CallNode.args_hash) must be equal. "
        "Oracle: all runs of one value must give one hash, for each of the five ways; the ways agree inside one process; look-alikes with "
        "different pickles (computed by the harness with plain pickle) never share a hash. distinct = distinct specifications; "
        "non-trivial = contains a set or frozenset")
LEVEL_TEXT = (
    "The full-strength statement (OrderIndependent: values equal up to the order of set/frozenset elements - Sim, proved to be an "
    "equivalence relation: sim_equivalence - hash equally) is REFUTED "
    "for the code as it is: order_independent_refuted, with closed witnesses refuted_nested_list ([{a,b}]), refuted_dict_value "
    "({k:{a,b}}), refuted_frozenset (top-level frozenset), refuted_set_of_frozenset ({frozenset({a,b})}), "
    "refuted_insertion_order_ints ([{8,0}] vs [{0,8}], no hash randomisation needed), and for ALL elements x != y: "
    "frozenset_sensitive, nested_set_sensitive (any frozenset / any set inside a list with two different elements has two "
    "layouts with different hashes). Proved for all values (partial): "
    "hash_stable_setfree and hash_stable_rigid (a value without sets - or whose sets all have at most one element - has one layout, "
    "hence one hash, in every process), partial_top_set / _int / _str "
    "(an exact top-level set of numbers, strs or bytes hashes the same under every layout: sorting a strict total order forgets "
    "the order - isort_eq_of_perm), partial_top_set_unorderable (a top-level set on which sorted() raises TypeError - mixed kinds, "
    "dataclass instances; pySorted_typeError_perm: whether it raises does not depend on the layout - is ordered by the element "
    "digests and hashes the same under every layout provided every element has a single layout and distinct elements have "
    "distinct digests; refuted_unorderable_with_frozenset: {frozenset({a,b}), 1} is still order sensitive, for every digest "
    "function), nonset_hash_eq_iff (anything that is not a top-level set is hashed as laid out: equal hash iff "
    "equal layout - this characterises exactly the order-sensitive values), set_subclass_uses_set_proxy / partial_top_setsub_str (the registry resolves the proxy along the MRO: an instance of a subclass of "
    "set is hashed by the Set proxy exactly like the exact set, so it is layout independent under the same conditions), "
    "fset_subclass_sensitive (subclasses of the other builtins have no proxy and are pickled as laid out), "
    "recordValue_eq_getHash (the hash record_value stores, "
    "get_hash(data=serialize()) - Set.get_hash ignores `data` - is the hash get_hash computes, so all of the above also speaks "
    "about the recorded Argument/CallNode/Value hashes; recorded_top_set_str). Tie: real hashes from fresh interpreters with "
    "different PYTHONHASHSEED and permuted insertion orders vs. model pre-images, bijection over all observed layouts; the "
    "witnesses are replayed on the real code on every run.")
LEVEL_NOTE = (
    "partial: the model is a pure function of the layout, so it cannot exhibit process state (a memo / cache inside get_hash that makes the "
    "hash depend on what the process hashed before): that is covered by the tie only (different histories per interpreter, look-alike "
    "families). Hash randomisation itself lives in the interpreter; the model does not predict iteration orders, it takes the observed "
    "layout as input and predicts the hash pre-image. pickle's byte format, memoisation and sorted() are modelled as stated in the "
    "trusted base, not verified. Top-level sets of partially ordered elements are outside the model (oracle only).")
TECHNIQUE = "Lean 4 proof on a layout model of pickle/sorted + differential correspondence over fresh interpreters (PYTHONHASHSEED)"

WORKER = os.path.join(os.path.dirname(os.path.abspath(__file__)), "_c16_worker.py")


# ------------------------------------------------------------------ spec generator
INTS = [0, 1, 2, 3, 7, 8, 16, 24, 32, 64, -1, -2, 255, 256, 1024, 10 ** 12, -(10 ** 12), 2 ** 61 - 1, 2 ** 61, 2 ** 62]
STRS = ["", "a", "b", "c", "d", "e", "f", "g", "h", "ab", "ba", "abc", "é", "日本", "z", "A", "key", "k1", "k2", "x y", "\x00"]
BYTS = ["", "61", "62", "6162", "ff", "00", "c3a9"]
FLOATS = [x.hex() for x in (0.0, -0.0, 1.0, 2.0, -1.0, 0.5, 1.5, 1000.0, 1e100, float(2 ** 62), float("inf"))]


class Gen:
    def __init__(self, rng):
        self.r = rng

    def scalar(self, kind=None):
        r = self.r
        k = kind or r.choice(["i", "i", "i", "s", "s", "s", "s", "b", "b", "N", "T", "f"])
        if k == "f":
            return ["f", r.choice(FLOATS)]
        if k == "i":
            return ["i", r.choice(INTS) if r.random() < 0.7 else r.randrange(-100, 100) * r.choice([1, 8])]
        if k == "s":
            return ["s", r.choice(STRS) if r.random() < 0.7 else "".join(r.choice("abcxyzé") for _ in range(r.randrange(1, 6)))]
        if k == "b":
            return ["b", r.choice(BYTS)]
        if k == "N":
            return ["N"]
        return [r.choice("TF")]

    def hashable(self, depth, kind=None):
        """element of a set / key of a dict"""
        r = self.r
        if kind in ("i", "s", "b"):
            return self.scalar(kind)
        k = kind or r.choice(["sc", "sc", "sc", "U", "FS", "O"])
        if kind is None and r.random() < 0.06:      # hashable subclass instances as set elements / dict keys
            c = r.choice(["StrSub", "IntSub", "TupleSub", "FSetSub"])
            return ["X", c, self.scalar("s") if c == "StrSub" else (self.scalar("i") if c == "IntSub" else
                            (["U", [self.scalar("i")]] if c == "TupleSub" else ["FS", [self.scalar("s"), self.scalar("i")]]))]
        if depth <= 0 or k == "sc":
            return self.scalar()
        if k == "U":
            return ["U", [self.hashable(depth - 1) for _ in range(r.choice([0, 1, 2, 2, 3]))]]
        if k == "FS":
            return ["FS", self.elements(depth - 1)]
        return ["O", "K1", [self.hashable(depth - 1)]] if r.random() < 0.5 else \
            ["O", "K2", [self.hashable(depth - 1), self.hashable(depth - 1)]]

    def elements(self, depth):
        """pairwise `!=` elements for one set"""
        r = self.r
        n = r.choice([0, 1, 2, 2, 3, 3, 4, 5, 6, 8])
        mode = r.random()
        if mode < 0.55:
            kind = r.choice(["i", "s", "s", "b"])            # homogeneous scalars
        elif mode < 0.7:
            kind = "U"
        elif mode < 0.8:
            kind = "FS"
        else:
            kind = None                                       # mixed
        out, seen = [], set()
        for _ in range(n * 2):
            if len(out) >= n:
                break
            if kind == "U":                                   # comparable tuples: same component kinds
                sp = ["U", [self.scalar("i"), self.scalar("s")]] if r.random() < 0.9 else self.hashable(depth, "U")
            else:
                sp = self.hashable(depth, kind)
            try:
                v = W.build(sp)
                if v in seen:
                    continue
                seen.add(v)
            except TypeError:
                continue
            out.append(sp)
        return out

    def value(self, depth):
        r = self.r
        if r.random() < 0.12:
            return self.subclass(depth)
        return self.plain_value(depth)

    def subclass(self, depth):
        """instance of a subclass of a builtin container / scalar type (at top level or, through the callers, nested)"""
        r = self.r
        c = r.choice(["SetSub", "SetSub", "SetSub", "FSetSub", "ListSub", "DictSub", "TupleSub", "StrSub", "IntSub"])
        if c == "SetSub":
            return ["X", c, ["S", self.elements(max(depth - 1, 0))]]
        if c == "FSetSub":
            return ["X", c, ["FS", self.elements(max(depth - 1, 0))]]
        if c == "ListSub":
            return ["X", c, ["L", [self.value(depth - 1) for _ in range(r.choice([0, 1, 2]))]]]
        if c == "TupleSub":
            return ["X", c, ["U", [self.value(depth - 1) for _ in range(r.choice([0, 1, 2]))]]]
        if c == "DictSub":
            return ["X", c, ["D", [[self.scalar("s"), self.value(depth - 1)]] if r.random() < 0.8 else []]]
        return ["X", c, self.scalar("s" if c == "StrSub" else "i")]

    def plain_value(self, depth):
        r = self.r
        k = r.random()
        if depth <= 0 or k < 0.12:
            return self.scalar()
        if k < 0.40:
            return ["S", self.elements(depth - 1)]
        if k < 0.50:
            return ["FS", self.elements(depth - 1)]
        n = r.choice([0, 1, 1, 2, 2, 3])
        if k < 0.65:
            return ["L", [self.value(depth - 1) for _ in range(n)]]
        if k < 0.75:
            return ["U", [self.value(depth - 1) for _ in range(n)]]
        if k < 0.90:
            items, seen = [], set()
            for _ in range(n):
                ks = self.hashable(min(depth - 1, 1))
                kv = W.build(ks)
                if kv in seen:
                    continue
                seen.add(kv)
                items.append([ks, self.value(depth - 1)])
            return ["D", items]
        return ["O", "M2", [self.value(depth - 1), self.value(depth - 1)]]


def permuted(sp, rng, mode):
    """same value, other insertion order in every set / frozenset"""
    t = sp[0]
    if t in ("S", "FS"):
        xs = [permuted(x, rng, mode) for x in sp[1]]
        if mode == "reverse":
            xs.reverse()
        else:
            rng.shuffle(xs)
        return [t, xs]
    if t in ("L", "U"):
        return [t, [permuted(x, rng, mode) for x in sp[1]]]
    if t == "D":
        return [t, [[permuted(k, rng, mode), permuted(v, rng, mode)] for k, v in sp[1]]]
    if t == "O":
        return [t, sp[1], [permuted(x, rng, mode) for x in sp[2]]]
    if t == "X":
        return [t, sp[1], permuted(sp[2], rng, mode)]
    return sp


def features(sp, top=True, acc=None):
    """structural class of a specification (for finding signatures and the evidence distribution)"""
    if sp[0] == "X":
        # an instance of a subclass: a `set` subclass at top level reaches the Set proxy like an exact set (MRO walk)
        if acc is None and sp[1] == "SetSub":
            acc = features(sp[2], True, None)
            acc["subclass"] = True
            return acc
        if acc is None:
            acc = dict(sets=0, nested_multi=False, top="X", mixed_top=False, partial_top=False, extras=False, subclass=True)
        acc["subclass"] = True
        return features(sp[2], False, acc)
    if acc is None:
        acc = dict(sets=0, nested_multi=False, top=sp[0], mixed_top=False, partial_top=False, extras=False, subclass=False)
    t = sp[0]
    if t in ("S", "FS"):
        acc["sets"] += 1
        if not (top and t == "S") and len(sp[1]) >= 2:
            acc["nested_multi"] = True
        if top and t == "S":
            kinds = {("num" if x[0] in ("i", "T", "F", "f") else x[0]) for x in sp[1]}
            if "X" in kinds:
                acc["subclass"] = True
            acc["mixed_top"] = len(kinds) > 1
            acc["partial_top"] = len(sp[1]) >= 2 and bool(kinds & {"FS", "U", "O"})
        for x in sp[1]:
            features(x, False, acc)
    elif t in ("L", "U"):
        for x in sp[1]:
            features(x, False, acc)
    elif t == "D":
        for k, v in sp[1]:
            features(k, False, acc)
            features(v, False, acc)
    elif t == "O":
        if sp[1] == "CP2":
            acc["extras"] = True
        for x in sp[2]:
            features(x, False, acc)
    return acc


def signature(ft):
    if ft["nested_multi"]:
        return "C16-nested-set-layout-hashed"
    if ft["sets"]:
        return "C16-top-set-sort-not-canonical"
    return "C16-setfree-hash-differs"


def S(*xs):
    return ["S", list(xs)]


def s_(x):
    return ["s", x]


def i_(x):
    return ["i", x]


def f_(x):
    return ["f", float(x).hex()]


def lookalike_family(rng):
    """values that are `==` in Python but pickle differently: numbers written as int / float / bool inside (nested) tuples"""
    def shape(depth):
        if depth <= 0 or rng.random() < 0.5:
            return rng.choice(["n", "n", "n", "s"])
        return [shape(depth - 1) for _ in range(rng.choice([1, 2, 2, 3]))]

    sh = [shape(2) for _ in range(rng.choice([1, 2, 2, 3]))]
    nums = {}

    def fill(t, path, style):
        if t == "s":
            return ["s", "chr%d" % (len(path) % 3)]
        if t == "n":
            n = nums.setdefault(path, rng.choice([0, 1, 1, 2, 3, 4, 1000, 2 ** 40]))
            st = style if style != "mixed" else ("int" if hash_path(path) % 2 else "float")
            if st == "bool" and n not in (0, 1):
                st = "int"
            return i_(n) if st == "int" else (f_(n) if st == "float" else (["T"] if n else ["F"]))
        return ["U", [fill(x, path + (j,), style) for j, x in enumerate(t)]]

    def hash_path(path):
        return sum((j + 1) * (k + 3) for j, k in enumerate(path))

    fam = []
    for style in ("int", "float", "mixed", "bool"):
        sp = fill(sh, (), style)
        if sp not in fam:
            fam.append(sp)
    return fam


FAMILIES = [
    [["U", [i_(1), i_(2)]], ["U", [f_(1), f_(2)]], ["U", [["T"], i_(2)]]],
    [["U", [s_("chr1"), i_(1000)]], ["U", [s_("chr1"), f_(1000)]]],
    [["U", [s_("a"), ["U", [i_(3), ["U", [i_(4)]]]]]], ["U", [s_("a"), ["U", [f_(3), ["U", [f_(4)]]]]]]],
    [f_(0.0), f_(-0.0)], [["U", [f_(0.0)]], ["U", [f_(-0.0)]], ["U", [i_(0)]], ["U", [["F"]]]],
    [i_(1), f_(1), ["T"]], [i_(0), f_(0.0), ["F"], f_(-0.0)],
    [["L", [i_(1), i_(2)]], ["L", [f_(1), f_(2)]]], [["D", [[i_(1), s_("v")]]], ["D", [[f_(1), s_("v")]]], ["D", [[["T"], s_("v")]]]],
]


LETTERS = [s_(c) for c in "abcdefgh"]
# witnesses of the Lean `_refuted` theorems (with 8 elements instead of 2 where the order comes from hash randomisation, so
# that the seeds of one run cannot all agree by chance) and look-alikes that must be stable
WITNESSES = [
    ("refuted_nested_list", ["L", [S(*LETTERS)]], "C16-nested-set-layout-hashed"),
    ("refuted_dict_value", ["D", [[s_("k"), S(*LETTERS)]]], "C16-nested-set-layout-hashed"),
    ("refuted_frozenset", ["FS", LETTERS], "C16-nested-set-layout-hashed"),
    ("refuted_set_of_frozenset", S(["FS", LETTERS]), "C16-nested-set-layout-hashed"),
    ("refuted_insertion_order_ints", ["L", [S(i_(8), i_(0), i_(16), i_(24))]], "C16-nested-set-layout-hashed"),
]
CORPUS = [
    S(*LETTERS), S(i_(8), i_(0), i_(16)), S(i_(0), i_(8), i_(16), i_(24), i_(32)), S(), ["FS", []], ["L", [S()]], S(s_("a")), ["L", [S(s_("a"))]],
    S(["b", "61"], ["b", "62"], ["b", "63"]), S(["T"], i_(2), i_(0)), S(["N"]),
    S(i_(1), s_("a")), S(i_(1), s_("a"), ["N"], ["b", "61"], ["U", []]),  # sorted() raises: ordered by element hash, stable
    S(["O", "K1", [i_(1)]], ["O", "K1", [i_(2)]], ["O", "K2", [i_(1), s_("x")]]),
    S(["FS", LETTERS[:4]], i_(1)),                                 # ... but not when an element has several layouts
    S(["U", [i_(1), s_("a")]], ["U", [i_(2), s_("b")]], ["U", [i_(0), s_("c")]]),
    S(["FS", [s_("a")]], ["FS", [s_("b")]], ["FS", [s_("c")]], ["FS", [s_("d")]]),     # incomparable elements
    ["X", "SetSub", S(*LETTERS)], ["X", "SetSub", S(i_(8), i_(0), i_(16), i_(24))], ["X", "SetSub", S()],       # subclasses of builtins
    ["L", [["X", "SetSub", S(s_("a"), s_("b"))]]], ["X", "ListSub", ["L", [i_(1), ["X", "SetSub", S(s_("p"), s_("q"))]]]],
    ["X", "FSetSub", ["FS", LETTERS[:3]]], ["X", "DictSub", ["D", [[s_("k"), i_(1)]]]], ["X", "TupleSub", ["U", [i_(1), s_("a")]]],
    ["X", "StrSub", s_("abc")], ["X", "IntSub", i_(7)], ["D", [[["X", "StrSub", s_("k")], ["X", "IntSub", i_(1)]]]],
    ["O", "CP2", [i_(1)]], ["L", [["O", "CP2", [s_("x")]]]],      # dataclass instances with two non-field __dict__ entries
    ["O", "M2", [S(*LETTERS), i_(1)]], ["U", [["FS", LETTERS[:5]], ["FS", LETTERS[3:]]]],
    ["L", [s_("ab"), s_("ab")]], ["L", [i_(1), ["T"]]], ["U", [i_(1)]], ["L", [i_(1)]], ["D", [[s_("a"), i_(1)], [s_("b"), i_(2)]]],
    ["D", [[["U", [i_(1), s_("x")]], ["L", []]]]], s_("é"), ["b", "c3a9"], i_(2 ** 62), ["N"],
]


# ------------------------------------------------------------------ fresh interpreters
def run_workers(docs, seeds, modes=None):
    """docs: list of (id, spec, sched).  returns {seed: {id: (layout, get_hash, get_hash(data=), record_value, arg, result)}}"""
    tmp = tempfile.mkdtemp(prefix="verif-c16-")
    try:
        inp = os.path.join(tmp, "docs.jsonl")
        with open(inp, "w") as f:
            for did, sp, sched in docs:
                f.write(json.dumps({"id": did, "spec": sp, "sched": bool(sched)}) + "\n")
        procs = []
        modes = modes or ["fwd"] * len(seeds)
        for sd, mode in zip(seeds, modes):
            env = dict(os.environ)
            env["PYTHONHASHSEED"] = str(sd)
            env["PYTHONDONTWRITEBYTECODE"] = "1"      # never write bytecode next to /repo's sources
            env.pop("PYTHONPATH", None)
            procs.append((sd, mode, subprocess.Popen([sys.executable, WORKER, core.REPO, mode], stdin=open(inp), stdout=subprocess.PIPE,
                                               stderr=subprocess.PIPE, text=True, env=env, cwd=tmp)))
        res = {}
        for sd, mode, p in procs:
            try:
                out, err = p.communicate(timeout=400)
            except subprocess.TimeoutExpired:
                p.kill()
                raise core.Infra("C16 worker (PYTHONHASHSEED=%s) timed out" % sd)
            if p.returncode != 0:
                raise core.Infra("C16 worker (PYTHONHASHSEED=%s) failed: %s" % (sd, err[-1500:]))
            table = {}
            for line in out.split("\n"):
                if line:
                    cols = line.split("\t")
                    if len(cols) != 9:
                        raise core.Infra("C16 worker: malformed reply " + line[:200])
                    table[cols[0]] = tuple(cols[1:])
            want = len(docs) if mode in ("fwd", "rev") else sum(
                1 for d in docs if int(d[0].split(".")[0]) % 2 == (0 if mode.startswith("even") else 1))
            if len(table) != want:
                raise core.Infra("C16 worker (PYTHONHASHSEED=%s, %s): %d replies for %d docs" % (sd, mode, len(table), want))
            res[sd] = table
        return res
    finally:
        shutil.rmtree(tmp, ignore_errors=True)


OBSERVABLES = [     # (name, column in the worker row, model request, enters the layout<->hash bijection)
    ("TypeRegistry.get_hash(value)", 1, "hash", True),
    ("value_interface.get_hash(data=serialize())", 2, "record", True),
    ("RedunBackendDb.record_value(value)", 3, "record", True),
    # a real call ident(value) on a Scheduler with an in-memory backend; the scheduler rebuilds nested containers
    # (map_nested_value), so the recorded layout need not be the printed one: these two only enter the oracle
    ("Argument.value_hash of a task call", 4, "record", False),
    ("CallNode.value_hash (result) of a task call", 5, "record", False),
    ("CallNode.args_hash of a task call", 6, "record", False),
    # once more after record_value, which makes the registry resolve (and memoise) the proxy of the value's type
    ("TypeRegistry.get_hash(value) after record_value", 7, "hash", True),
]
SCHED_COLS = (4, 5, 6)


def check_specs(ctx, specs, seeds, nvar, stream_of=None, nsched=0, families=(), modes=None, shared=None):
    """specs: list of specifications.  Every spec x (base order, reversed, nvar-2 shuffles) x every seed is hashed for real;
    the first `nsched` specs additionally go through a real task call."""
    rng = ctx.rng
    docs = []
    shared = shared or {}
    for i, sp in enumerate(specs):
        docs.append(("%d.0" % i, sp, i < nsched or i in shared))
        if i in shared:                     # the same value with repeated rows being ONE object: through the scheduler only
            docs.append(("%d.s" % i, shared[i], True))
        if not features(sp)["sets"]:
            continue                        # no set, no other insertion order
        if nvar > 1:
            docs.append(("%d.1" % i, permuted(sp, rng, "reverse"), i < min(nsched, len(WITNESSES) + len(CORPUS))))
        for j in range(2, nvar):
            docs.append(("%d.%d" % (i, j), permuted(sp, rng, "shuffle"), False))
    res = run_workers(docs, seeds, modes)
    # ---- model on every distinct layout
    layouts = sorted({row[0] for t in res.values() for row in t.values()})
    if "!layout-changed" in layouts:
        raise core.Infra("a value changed its layout while being hashed")
    replies = {"hash": dict(zip(layouts, ctx.model("C16", ["hash " + lay for lay in layouts]))),
               "record": dict(zip(layouts, ctx.model("C16", ["record " + lay for lay in layouts])))}
    pre2hash, hash2pre = {}, {}
    nunspec = 0
    for sd in seeds:
        for did, row in sorted(res[sd].items()):
            lay = row[0]
            if did.endswith(".s"):
                continue                    # a bare get_hash sees object sharing (pickle memo): recorded finding of another family
            for oname, col, req, inbij in OBSERVABLES:
                if not inbij:
                    continue
                h = row[col]
                m = replies[req][lay]
                if m in ("bad-value", "bad-op"):
                    raise core.Infra("model driver rejected layout " + lay[:200])
                if m == "unspecified":
                    nunspec += 1
                    continue
                if m.startswith("!") or h.startswith("!"):
                    if m != h:
                        ctx.mismatch(oname + ": error behaviour differs from model", case=lay, model=m, impl=h)
                    continue
                a = pre2hash.setdefault(m, (h, lay, oname))
                if a[0] != h:
                    ctx.mismatch("one model pre-image, two real hashes (%s vs %s)" % (a[2], oname),
                                 case={"layout_a": a[1], "layout_b": lay, "seed": sd}, model=m[:300], impl=[a[0], h])
                b = hash2pre.setdefault(h, (m, lay, oname))
                if b[0] != m:
                    ctx.mismatch("two model pre-images, one real hash (%s vs %s)" % (b[2], oname),
                                 case={"layout_a": b[1], "layout_b": lay, "seed": sd}, model=[b[0][:200], m[:200]], impl=h)
    ctx.count("model", "unspecified(top-level set of partially ordered elements)", nunspec)
    # ---- oracle: one value, one hash - for every way the hash of an argument / result is obtained
    verdicts = []
    fam_of = {i: [specs[k] for k in fam] for fam in families for i in fam}
    for i, sp in enumerate(specs):
        runs = [(sd, did, res[sd][did]) for sd in seeds for did in ("%d.%d" % (i, j) for j in range(nvar)) if did in res[sd]]
        nlay = len({row[0] for _, _, row in runs})
        ft = features(sp)
        text = json.dumps(sp, ensure_ascii=True)
        stream = stream_of(i) if stream_of else "generated"
        sens_any = False
        for oname, col, req, inbij in OBSERVABLES:
            oruns = [r for r in runs if r[2][col] != "-"]
            base_hashes = {r[2][col] for r in oruns}
            if col in SCHED_COLS and i in shared:
                oruns = oruns + [(sd, "%d.s" % i, res[sd]["%d.s" % i]) for sd in seeds if "%d.s" % i in res[sd]]
            hashes = sorted({row[col] for _, _, row in oruns})
            if not hashes:
                continue
            sensitive = len(hashes) > 1
            if col == 1:
                ctx.case(key=text if ft["sets"] else None,
                         sample={"spec": text[:160], "layouts": nlay, "hashes": hashes[:3], "runs": len(runs)},
                         stream=stream, top=ft["top"], sets=min(ft["sets"], 4), order_sensitive=sensitive,
                         outcome="raises" if all(h.startswith("!") for h in hashes) else
                         ("mixed" if any(h.startswith("!") for h in hashes) else "hashed"))
            else:
                ctx.count("observable", oname)
            if col == 1:
                sens_any = sensitive
            if not sensitive:
                continue
            a = oruns[0]
            b = next(r for r in oruns if r[2][col] != a[2][col])
            pres = {replies[req][row[0]] for _, _, row in oruns}
            sig = signature(ft)
            if i in shared and len(base_hashes) == 1:
                # equal values, one built with the repeated rows being the same object: the scheduler rebuilds its arguments and
                # results, which is what makes the recorded hashes independent of the sharing
                sig = "C16-recorded-hash-depends-on-object-sharing"
            elif ft["extras"] and not ft["nested_multi"] and col in SCHED_COLS:
                # map_nested_value (applied by the scheduler to arguments and results) copies the non-field __dict__ entries
                # of a dataclass instance in set-iteration order
                sig = "C16-dataclass-extra-attrs-copied-in-set-order"
            elif len(pres) == 1 and "unspecified" not in pres:
                # the model (= the code as it was when the finding was recorded) gives ONE pre-image for all these runs:
                # this instability is not the recorded one
                sig = "C16-unstable-where-model-is-stable:" + ("top-level-set" if ft["top"] == "S" else
                                                               ("set-free" if not ft["sets"] else "nested-set"))
            ctx.violation(sig, "%s differs between runs of the same value (PYTHONHASHSEED=%s vs %s)" % (oname, a[0], b[0]),
                          case={"spec": sp, "observable": oname, "family": fam_of.get(i), "shared": shared.get(i),
                                "run_a": {"seed": a[0], "layout": a[2][0][:300], "hash": a[2][col]},
                                "run_b": {"seed": b[0], "layout": b[2][0][:300], "hash": b[2][col]}},
                          expected="one hash in all %d runs" % len(oruns), actual=hashes[:6], kind="input")
        verdicts.append(sens_any)
        # ---- the ways of obtaining the hash agree inside one process
        for sd, did, row in runs:
            same_obj = {row[c] for c in (1, 2, 3, 7)}
            # the scheduler rebuilds containers (map_nested_value): its two hashes belong to another layout of the value and
            # are compared only where the layout cannot matter (no nested multi-element set, model not `unspecified`)
            comparable = not ft["nested_multi"] and not ft["extras"] and replies["record"][row[0]] != "unspecified"
            routes = same_obj | ({row[4], row[5]} - {"-"} if comparable else set())
            if len(routes) > 1:
                ctx.violation("C16-hash-routes-disagree", "one value, one process, different hashes depending on how the hash is obtained",
                              case={"spec": sp, "seed": sd, "layout": row[0][:300], "family": fam_of.get(i),
                                    "hashes": {o[0]: row[o[1]] for o in OBSERVABLES if row[o[1]] != "-"}},
                              expected="one hash", actual=sorted(routes))
                break
    # ---- look-alikes: `==` in Python, different pickle => different hash, in every process whatever it hashed before
    for fam in families:
        pk = {}
        for i in fam:
            try:
                pk[i] = pickle.dumps(W.build(specs[i]), protocol=3)
            except Exception:  # noqa: BLE001
                pass
        done = False
        for a in fam:
            for b in fam:
                if done or a >= b or a not in pk or b not in pk or pk[a] == pk[b]:
                    continue
                for sd in seeds:
                    ra, rb = res[sd].get("%d.0" % a), res[sd].get("%d.0" % b)
                    if ra is None or rb is None:
                        continue
                    clash = [o[0] for o in OBSERVABLES if ra[o[1]] == rb[o[1]] and ra[o[1]] != "-" and not ra[o[1]].startswith("!")]
                    if clash:
                        ctx.violation("C16-distinct-values-same-hash", "two values with different pickles got the same hash (%s)" % clash[0],
                                      case={"spec": specs[a], "other": specs[b], "seed": sd, "hash": ra[1], "other_hash": rb[1]},
                                      expected="different hashes", actual=ra[1])
                        done = True
                        break
        ctx.count("lookalike_family_size", len(fam))
    return verdicts


def seeds_for(ctx):
    if ctx.tier == "quick":       # 3 interpreters (importing redun costs ~6 s CPU each): 2 fixed hash seeds + 1 drawn
        return [0, 1, ctx.rng.randrange(2, 2 ** 32 - 1)]
    return [0, 1, 2, 3] + [ctx.rng.randrange(4, 2 ** 32 - 1) for _ in range(8)]


def unshare(sp):
    """the equal value built without any sharing: ["R", kind, n, row] -> [kind, [row] * n]"""
    t = sp[0]
    if t == "R":
        return [sp[1], [unshare(sp[3]) for _ in range(sp[2])]]
    if t in ("L", "U"):
        return [t, [unshare(x) for x in sp[1]]]
    return sp


def gen_shared(rng):
    """a list/tuple argument that holds the same list/tuple OBJECT more than once; leaves are numbers / None (pickle does not
    memoise those, so only the containers can be shared)"""
    def row(depth):
        xs = [rng.choice([i_(rng.randrange(-3, 40)), f_(rng.choice([0.5, 1.0, 2.0])), ["N"], ["T"]]) for _ in range(rng.choice([0, 1, 2, 3]))]
        if depth > 0 and rng.random() < 0.4:
            xs.insert(rng.randrange(len(xs) + 1), row(depth - 1))
        return [rng.choice(["L", "L", "U"]), xs]

    sp = ["R", rng.choice(["L", "L", "U"]), rng.choice([2, 3, 4]), row(1)]
    k = rng.random()
    if k < 0.3:
        sp = ["R", rng.choice(["L", "U"]), 2, sp]
    elif k < 0.6:
        sp = [rng.choice(["L", "U"]), [i_(7), sp, row(0)]]
    return sp


SHARED = [
    ["R", "L", 3, ["L", [i_(0), i_(1), i_(2)]]], ["R", "U", 2, ["U", [i_(1), i_(2)]]], ["R", "L", 2, ["L", []]],
    ["L", [["R", "U", 3, ["L", [i_(5)]]], i_(9)]], ["R", "L", 2, ["R", "L", 2, ["L", [f_(1.5), ["N"]]]]],
]


def modes_for(seeds):
    """the history of each interpreter: order in which it meets the values / which half of them it meets at all"""
    cyc = ["fwd", "rev", "oddrev", "even", "fwd", "rev", "odd", "evenrev", "fwd", "rev", "even", "odd"]
    return [cyc[i % len(cyc)] for i in range(len(seeds))]


def run(ctx):
    g = Gen(ctx.rng)
    specs = [w[1] for w in WITNESSES] + list(CORPUS)
    families = []
    for fam in FAMILIES + [lookalike_family(ctx.rng) for _ in range(ctx.n(30, 400))]:
        if len(specs) % 2:                  # a family starts on an even index: neighbours land in different halves
            specs.append(["N"])
        families.append(list(range(len(specs), len(specs) + len(fam))))
        specs.extend(fam)
        if len(families) == len(FAMILIES):
            nfix = len(specs)
    shared = {}
    for sp in SHARED + [gen_shared(ctx.rng) for _ in range(ctx.n(15, 150))]:
        shared[len(specs)] = sp
        specs.append(unshare(sp))
    ncorp = len(specs)
    for _ in range(ctx.n(400, 9000)):
        specs.append(g.value(ctx.rng.choice([1, 2, 2, 3, 4])))
    seeds = seeds_for(ctx)
    verdicts = check_specs(ctx, specs, seeds, 3 if ctx.tier == "quick" else 4,
                           stream_of=lambda i: "witness" if i < len(WITNESSES) else ("corpus+lookalikes" if i < ncorp else "generated"),
                           nsched=nfix + ctx.n(10, 150), families=families, modes=modes_for(seeds), shared=shared)
    # the `_refuted` witnesses must still fail on the implementation (else the model is stale)
    for (name, sp, sig), sens in zip(WITNESSES, verdicts):
        if not sens:
            ctx.mismatch("model says order sensitive (theorem %s), implementation gave one hash in every run" % name,
                         case=sp, model="sensitive", impl="stable", signature="witness-" + name)


def replay(ctx, case):
    c = case.get("case")
    if isinstance(c, dict) and "spec" in c:
        print("replaying specification:", json.dumps(c["spec"])[:300])
        specs = list(c["family"]) if c.get("family") else [c["spec"]] + ([c["other"]] if "other" in c else [])
        seeds = seeds_for(ctx)
        check_specs(ctx, specs, seeds, 4, nsched=len(specs), families=[list(range(len(specs)))], modes=modes_for(seeds),
                    shared={0: c["shared"]} if c.get("shared") and not c.get("family") else None)
    else:
        run(ctx)
