"""C06 — each distinct call runs at most once per execution.  Model: SchedCore (Lemmas/SchedCse.lean)."""
import json
import random

import sched_corr as sc
from props import C08 as base

ID = "C06"
READY = True
LEAN_MODULES = ["RedunModel.Props.C06"]
LEAN_DRIVERS = ["Sched"]
THEOREMS = [
    "RedunModel.C06.submit_once",
    "RedunModel.C06.submitted_key_covered",
    "RedunModel.C06.registration_sound",
    "RedunModel.C06.collapsed_twin_is_quiet",
    "RedunModel.C06.expr_once",
    "RedunModel.C06.expr_started_at_most_once",
    "RedunModel.SchedCore.reachable_cse",
    "RedunModel.SchedCore.reachable_inv",
    "RedunModel.C06.settle_once",
    "RedunModel.C06.one_token",
    "RedunModel.C06.promise_all_exact",
    "RedunModel.C06.twin_same_outcome",
    "RedunModel.C06.twin_waits",
    "RedunModel.C06.twin_settles_with_rep",
    "RedunModel.C06.cse_entry_witness",
    "RedunModel.C06.late_duplicate_same_branch",
    "RedunModel.SchedCore.reachable_tok",
    "RedunModel.SchedCore.reachable_cseW",
]
TRUSTED = base.TRUSTED + [
    "the same-execution backend lookup (check_cache CSE branch) is modelled as a table of (eval hash, context, is-error) entries "
    "written when a provenance-recording job resolves or rejects; the SQL itself is exercised only through the correspondence",
]
ASSUMPTIONS = base.ASSUMPTIONS + ["opted out = cache_scope NONE, allowed_cache_results without CSE, or prov=False (inherited by the subtree)"]
RULE = ("job-tree programs with duplicated calls (same task, same arguments, same or different contexts, opted-in and opted-out twins, "
        "failing twins, limits) under controlled schedules (duplicates arrive before / while / after the first twin runs, waits for "
        "limits, evaluates children or is finalized); exhaustive DFS over schedules for the corpus; oracle on the real scheduler: "
        "executor submissions per (eval_hash, context_hash) among opted-in jobs <= 1, and a returning run returns the reference value "
        "(every duplicate got its twin's result). distinct = distinct (program, schedule); non-trivial = some cache key occurs at two "
        "or more tree positions")
LEVEL_TEXT = ("Lean 4 proof (all programs, all schedules) that for every cache key at most one opted-in job is ever handed to an executor, "
              "with the covering invariant (registered as pending or recorded for the same-execution lookup), that registrations are "
              "key-exact and provenance-recording, and that collapsed duplicates never run; tied to the scheduler by event-by-event trace "
              "comparison and a submission-count oracle; expr_once / expr_started_at_most_once: for every history of _evaluate_apply "
              "requests and job finalizations (a finalized job evaluates nothing) an equal expression under the same parent is handed the "
              "earlier evaluation and at most one evaluation is started per (parent, expression hash) - Model/ExprMemo, tied to the "
              "scheduler by replaying the observed request history (harness-side wrapper of _evaluate_apply/_finalize_job, Job creations "
              "counted) and by the oracle 'one Job per (parent, expression hash)'. Second clause ('every duplicate, whether its twin is still running or already finished, receives the same "
              "result or error'), proved as far as the value-free model expresses it (Lemmas/SchedTwin.lean, all programs, real and dry "
              "runs, all schedules): settle_once (a settled promise keeps its branch; from the token invariant reachable_tok / one_token: "
              "at most one queued event, waiting-list entry or in-flight flag per job, none once settled; promise_all_exact: waiting = "
              "number of pending children while the evaluation has not failed); twin_same_outcome (a duplicate collapsed onto a running "
              "twin, once settled, is settled on the same branch as its representative; twin_waits: until then it is pending without "
              "token, belongs to exactly one non-collapsed representative and never has children); twin_settles_with_rep (the step that "
              "rejects the representative rejects every twin in-line, the step that resolves it queues done(t, final) for every twin); "
              "cse_entry_witness and late_duplicate_same_branch (every entry of the same-execution table, hence every CSE hit of a "
              "duplicate arriving after its twin finished, is the outcome of a provenance-recording job with that eval hash and context, "
              "settled on the recorded branch). REMAINING PARTIAL: that the replayed VALUE itself is equal (not only the branch resolved / "
              "rejected) is outside the model (it carries no values) and stays covered by the reference-value oracle and the "
              "correspondence.")
LEVEL_NOTE = ("mirrors /repo after fixes fa14a32 (own-registration pop, setdefault) and d273f7b (only provenance-recording jobs register); "
              "context-free backend lookups matching context-bearing entries (C05 known finding) make the model serve more hits, never more submissions")
TECHNIQUE = base.TECHNIQUE

CORPUS = [
    # F19: x = f (slow), p = no-prov inner -> f, y = after(p) -> f
    ([(False, [dict(callee=3), dict(callee=1, prov=False), dict(callee=2)], None), (False, [dict(callee=3)], None),
      (False, [dict(callee=3)], None), (False, [], None)], {}),
    # twins with limits: duplicate arrives while the first waits for the limit
    ([(False, [dict(callee=2), dict(callee=1), dict(callee=1), dict(callee=1, scope="NONE")], None), (False, [dict(callee=2)], ["r0"]),
      (False, [], ["r0"])], {"r0": 1}),
    # failing twin
    ([(False, [dict(callee=1), dict(callee=2)], None), (False, [dict(callee=3)], None), (False, [dict(callee=3)], None),
      (True, [], None)], {}),
    # duplicate (cache_scope CSE) arriving while the first twin is evaluating its children (done, not yet resolved)
    ([(False, [dict(callee=1, scope="CSE"), dict(callee=2)], None), (False, [dict(callee=3)], None), (False, [dict(callee=1, scope="CSE")], None),
      (False, [], None)], {}),
    ([(False, [dict(callee=1), dict(callee=2), dict(callee=2)], None), (False, [dict(callee=3), dict(callee=3)], None),
      (False, [dict(callee=1, scope="CSE")], None), (False, [], None)], {}),
    # the same expression twice in one body (one Job), next to an equal call through another expression (a twin)
    ([(False, [dict(callee=1), dict(callee=1, same=True), dict(callee=1), dict(callee=2)], None), (False, [dict(callee=2), dict(callee=2, same=True)], None),
      (False, [], None)], {}),
    ([(False, [dict(callee=1, scope="NONE"), dict(callee=1, same=True), dict(callee=2), dict(callee=2, same=True)], None),
      (True, [], None), (False, [dict(callee=3), dict(callee=3, same=True)], ["r0"]), (False, [], ["r0"])], {"r0": 1}),
    # one call node reached under two non-empty contexts (the leaf ignores the context), then CSE-only duplicates under the second
    # context at increasing depth: a later one finds its twin finalized and is served only by the same-execution lookup
    ([(False, [dict(callee=3, ctx={"a": 1}), dict(callee=1)], None), (False, [dict(callee=3, ctx={"a": 2}, scope="CSE"), dict(callee=2)], None),
      (False, [dict(callee=3, ctx={"a": 2}, scope="CSE"), dict(callee=3, ctx={"a": 1}, scope="CSE")], None), (False, [], None)], {}),
    # same call under two contexts and without
    ([(False, [dict(callee=1, ctx={"a": 1}), dict(callee=1), dict(callee=1, ctx={"a": 1})], None), (False, [dict(callee=2)], None),
      (False, [], None, True)], {}),
]


def mk_prog(defs, cfg):
    ds = []
    for d in defs:
        f, sites, lim = d[0], d[1], d[2]
        ds.append(sc.Defn(f, [sc.Site(**s) for s in sites], lim, reads_ctx=(len(d) > 3 and d[3] is True),
                          lazy_ctx=(len(d) > 3 and d[3] == "lazy")))
    return sc.Program(ds, dict(cfg))


def opted_in(job):
    from redun.task import CacheResult, CacheScope
    try:
        scope = job.get_option("cache_scope", CacheScope.BACKEND, as_type=CacheScope)
    except Exception:  # noqa: BLE001
        scope = CacheScope.BACKEND
    allowed = job.get_option("allowed_cache_results", None)
    return scope != CacheScope.NONE and (allowed is None or CacheResult.CSE in allowed) and job.get_options().get("prov", True)


def one_run(ctx, p, decisions=None, rng=None, items=None, tag="random", p_complete=0.3):
    st, payload, ctl, sched = sc.run_real(p, decisions=decisions, rng=rng, p_complete=p_complete)
    keys = [(sp["key"], sp["ctx"]) for sp in p.specs]
    nontrivial = len(set(keys)) < len(keys)
    key = (json.dumps(p.to_json(), sort_keys=True), tuple(ctl.choice_log)) if nontrivial else None
    ctx.case(key=key, sample={"program": p.to_json(), "choices": " ".join(ctl.choice_log), "status": st},
             status=st, jobs=len(p.specs), kind=tag, duplicates=nontrivial)
    case = {"program": p.to_json(), "choices": ctl.choice_log, "status": st}
    counts = {}
    for name, eh, ch, job in ctl.submissions:
        if opted_in(job):
            counts[(name, eh, ch)] = counts.get((name, eh, ch), 0) + 1
    for k, n in counts.items():
        if n > 1:
            ctx.violation("C06-opted-in-call-submitted-twice", "a call that did not opt out was handed to an executor more than once",
                          case=case, expected="<= 1 submission per (task, eval_hash, context_hash)",
                          actual={"task": k[0], "eval_hash": k[1][:8], "context_hash": (k[2] or "")[:8], "submissions": n},
                          kind="schedule")
    for (_par, eh), jobs in ctl.expr_jobs.items():
        if len(jobs) > 1:
            ctx.violation("C06-expression-evaluated-twice-under-one-parent",
                          "one parent job created %d jobs for one expression (hash %s): _pending_expr did not return the pending evaluation"
                          % (len(jobs), eh[:8]), case=case, expected=1, actual=len(jobs), kind="schedule")
            break
    if st == "ok":
        try:
            exp = p.expected(0)
        except KeyError:
            exp = None
        if exp is not None and payload != exp:
            sig = c05_signature(p, payload, exp)
            # a value shared between calls with DIFFERENT contexts is C05's subject (same programs run there); C06's duplicates
            # are calls with the same task hash, argument hash and context
            if not sig.startswith("C05-"):
              ctx.violation(sig, "run returned a value different from the reference evaluation (a duplicate received another call's result)",
                          case=case, expected=repr(exp)[:300], actual=repr(payload)[:300], kind="schedule")
    items.append((p, ctl, False, None, case))
    if any(it[0] == "e" for it in ctl.memo_log):
        _memo.append((ctl.memo_log, case))
    return ctl


def lazy_duplicates(ctx):
    """oracle only: the same expression reached a second time from the same parent in a lazily evaluated position (a cond / seq /
    catch branch) that fires only after the first evaluation has finished - still one evaluation (`_pending_expr` keeps the entry
    until the PARENT is finalized).  The task opts out of every cache, so a second Job would run the function again."""
    import ctl_sched
    from redun import task
    from redun.functools import seq
    from redun.scheduler import catch, cond
    ctl_sched.quiet()
    calls = []

    @task(namespace="c06l", version="1", cache_scope="NONE")
    def draw(k):
        calls.append(k)
        return len(calls)

    @task(namespace="c06l", version="1")
    def gate(x):
        return True

    @task(namespace="c06l", version="1")
    def boom(x):
        raise ValueError("boom")

    @task(namespace="c06l", version="1")
    def ident(x):
        return x

    @task(namespace="c06l", version="1")
    def main(shape):
        x = draw(1)
        if shape == "cond":
            return [x, cond(gate(x), x, 0)]
        if shape == "cond-deep":
            return [x, cond(gate(ident(x)), [x, ident(x)], 0)]
        if shape == "seq":
            return seq([x, gate(x), x])
        if shape == "catch":
            return [x, catch(boom(gate(x)), ValueError, ident.partial(x))]
        return [x, x]

    rng = ctx.rng
    for shape in ("plain", "cond", "cond-deep", "seq", "catch"):
        for k in range(ctx.n(3, 10)):
            del calls[:]
            c = ctl_sched.Ctl(rng=random.Random(rng.random()))
            sched = ctl_sched.make_scheduler(c)
            st, got = c.run(sched, main(shape))
            ctx.case(key=("lazydup", shape, tuple(str(j.task.name) for j in c.completions)),
                     sample={"shape": shape, "status": st, "draw_calls": len(calls), "result": repr(got)[:80]}, kind="lazy-duplicate", status=st)
            if st == "ok" and len(calls) != 1:
                ctx.violation("C06-expression-evaluated-twice-under-one-parent",
                              "an expression reached again from the same parent after its first evaluation finished was evaluated a second time",
                              case={"shape": shape, "completion_order": [str(j.task.name) for j in c.completions]},
                              expected="draw executed once", actual=dict(draw_calls=len(calls), result=repr(got)[:200]), kind="schedule")


_memo = []


def flush_memo(ctx):
    """`_pending_expr` histories of the real runs against Model/ExprMemo: the same requests start an evaluation in both"""
    if not _memo:
        return
    reqs = [sc.memo_request(log) for log, _ in _memo]
    outs = ctx.model("Sched", [r for r, _ in reqs])
    for (log, case), (req, flags), out in zip(_memo, reqs, outs):
        got = [x.endswith(":T") for x in out.split()]
        if got != flags:
            ctx.mismatch("the same _evaluate_apply requests start different evaluations in model and scheduler (_pending_expr)",
                         dict(case, memo=req[:2000]), out[:400], " ".join("T" if f else "F" for f in flags)[:400])
    del _memo[:]


_opt_cache = {}


def opted_in_cached(job):
    k = id(job)
    if k not in _opt_cache:
        _opt_cache[k] = opted_in(job)
    return _opt_cache[k]


def c05_signature(p, got, exp):
    """classify a wrong value: find the first tree position where got/exp differ"""
    def walk(i, g, e):
        sp = p.specs[i]
        d = p.defs[sp["callee"]]
        n_head = 3 if (d.reads_ctx or d.lazy_ctx) else 1
        if not isinstance(g, list) or g[:n_head] != e[:n_head] or len(g) != len(e):
            return i
        for k, gg, ee in zip(sp.get("site_child", []), g[n_head:], e[n_head:]):
            r = walk(sp["children"][k], gg, ee)
            if r is not None:
                return r
        return None
    i = walk(0, got, exp)
    if i is None:
        return "C06-duplicate-got-different-result"
    # the differing position: is it a context-free call (or below one) that shows another context's value?
    j = i
    return "C05-context-free-call-served-context-bearing-result" if not p.specs[j]["ctxd"] else "C05-result-shared-across-contexts"


def run(ctx):
    rng = ctx.rng
    items = []
    _opt_cache.clear()
    lazy_duplicates(ctx)
    for defs, cfg in CORPUS:
        p = mk_prog(defs, cfg)
        for _ in sc.enumerate_schedules(lambda d: one_run(ctx, p, decisions=d, items=items, tag="corpus-exhaustive"),
                                        ctx.n(22, 500)):
            pass
        base.flush(ctx, items)
    for i in range(ctx.n(24, 700)):
        wide = i % 3 == 2
        p = sc.gen_wide(rng, p_dup=0.6) if wide else sc.gen_program(rng, p_dup=0.8, p_limits=0.35, allow_ctx=False, p_same=0.2 if i % 2 else 0.0)
        for k in range(3 if wide else 2):
            one_run(ctx, p, rng=random.Random(rng.random()), items=items, tag="wide-duplicates" if wide else "random",
                    p_complete=0.5 if wide else 0.3)
        if len(items) >= 50:
            base.flush(ctx, items)
            flush_memo(ctx)
            _opt_cache.clear()
    base.flush(ctx, items)
    flush_memo(ctx)
    # sequenced duplicates (the same call at increasing depth, under the same or another context, CSE-only or not): a later
    # duplicate meets its twin running, evaluating, resolved or finalized - and the same call node recorded under several contexts
    for i in range(ctx.n(12, 500)):
        p = sc.gen_chain(rng, p_lazy=0.25, p_cse=0.5)
        for k in range(2):
            one_run(ctx, p, rng=random.Random(rng.random()), items=items, tag="chain", p_complete=rng.choice([0.3, 0.7, 0.95]))
        if len(items) >= 50:
            base.flush(ctx, items)
            flush_memo(ctx)
    base.flush(ctx, items)
    flush_memo(ctx)


def replay(ctx, case):
    print("replay:", json.dumps(case.get("case"))[:400])
    run(ctx)
