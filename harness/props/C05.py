"""C05 — results are never shared between calls with different contexts.  Model: SchedCore (Props/C05.lean)."""
import itertools
import json
import random

import ctl_sched
import sched_corr as sc
from props import C06 as c06
from props import C08 as base

ID = "C05"
READY = True
LEAN_MODULES = ["RedunModel.Props.C05"]
LEAN_DRIVERS = ["Sched"]
THEOREMS = [
    "RedunModel.C05.collapse_same_context",
    "RedunModel.C05.cse_hit_same_context_partial",
    "RedunModel.C05.refuted_context_free_after_context_bearing",
    "RedunModel.C05.refuted_reachable",
    "RedunModel.SchedCore.reachable_cse",
]
TRUSTED = c06.TRUSTED
ASSUMPTIONS = base.ASSUMPTIONS + ["context enters a task only through get_context(...) default arguments (as documented); "
                                  "contexts are small dicts over keys a, b"]
RULE = ("(1) job-tree programs whose leaves read the context through get_context defaults, called with and without update_context "
        "overrides at any depth, under controlled schedules, compared event by event with the model and against the context-exact "
        "reference value; (2) all sequences of up to 3 executions on one backend of a full-validity and a shallow-validity task under "
        "contexts {}, {a:1}, {a:2} (oracle only). distinct = distinct (program, schedule) / execution sequence; non-trivial = the same "
        "task is called under at least two different effective contexts")
LEVEL_TEXT = ("Lean 4 proof that in-execution deduplication is context-exact for all programs and schedules (a job collapses only into a "
              "pending job with the same eval hash AND context hash) and that a context-bearing job is only served same-context entries "
              "(_partial); the full statement is REFUTED on the model of the current code: closed witness and reachable witness run "
              "where a context-free call is served the result of a context-bearing twin. The refutation is a listed known finding, "
              "replayed on the real scheduler on every run.")
LEVEL_NOTE = ("known finding C05-context-free-call-served-context-bearing-result (DESIGN F4): check_cache / _get_call_node filter by context only "
              "when the job has one; a precise repair needs the recorder to mark context-free call nodes (a filter-only patch loses cache "
              "hits and re-submits calls, breaking C06), so it is recorded, not fixed")
TECHNIQUE = base.TECHNIQUE

KNOWN_SIG = "C05-context-free-call-served-context-bearing-result"

CORPUS = [
    # F4: a (ctx a=1) -> f -> g(reader); b (no ctx) -> f -> g.   a finishes first => b's f is served a's value
    ([(False, [dict(callee=1, ctx={"a": 1}), dict(callee=1)], None), (False, [dict(callee=2)], None), (False, [dict(callee=3)], None),
      (False, [], None, True)], {}),
    ([(False, [dict(callee=1), dict(callee=1, ctx={"a": 1}), dict(callee=1, ctx={"a": 2})], None), (False, [dict(callee=2)], None),
      (False, [], None, True)], {}),
    # the leaf's value depends on the context only through its result expression (no child call, same eval hash in every context):
    # a=1 at depth 1, a=2 two levels deeper (looked up after the first was recorded), then a=1 and no context again
    ([(False, [dict(callee=4, ctx={"a": 1}), dict(callee=1)], None), (False, [dict(callee=2)], None),
      (False, [dict(callee=4, ctx={"a": 2}), dict(callee=3)], None), (False, [dict(callee=4, ctx={"a": 1}), dict(callee=4, ctx={"b": 1})], None),
      (False, [], None, "lazy")], {}),
    ([(False, [dict(callee=1, ctx={"a": 4})], None), (False, [dict(callee=3), dict(callee=2, ctx={"a": 5})], None),
      (False, [dict(callee=3, scope="CSE")], None), (False, [], None, "lazy")], {}),
]


def one_run(ctx, p, decisions=None, rng=None, items=None, tag="random", p_complete=0.3):
    st, payload, ctl, sched = sc.run_real(p, decisions=decisions, rng=rng, p_complete=p_complete)
    by_callee = {}
    for sp in p.specs:
        by_callee.setdefault(sp["callee"], set()).add(json.dumps(sp["ctxd"], sort_keys=True))
    nontrivial = any(len(v) > 1 for v in by_callee.values())
    key = (json.dumps(p.to_json(), sort_keys=True), tuple(ctl.choice_log)) if nontrivial else None
    ctx.case(key=key, sample={"program": p.to_json(), "choices": " ".join(ctl.choice_log), "status": st},
             status=st, jobs=len(p.specs), kind=tag, multi_context=nontrivial)
    case = {"program": p.to_json(), "choices": ctl.choice_log, "status": st}
    hit = False
    if st == "ok":
        try:
            exp = p.expected(0)
        except KeyError:
            exp = None
        if exp is not None and payload != exp:
            sig = c06.c05_signature(p, payload, exp)
            hit = sig == KNOWN_SIG
            ctx.violation(sig, "a call returned the value computed under a different context", case=case,
                          expected=repr(exp)[:300], actual=repr(payload)[:300], kind="schedule")
    items.append((p, ctl, False, None, case))
    return ctl, hit


def cross_execution(ctx):
    """oracle only: sequences of executions on one backend."""
    from redun import task
    from redun.context import get_context
    ctl_sched.quiet()

    @task(namespace="c05x", version="1")
    def g(a=get_context("a", 0)):
        return a

    @task(namespace="c05x", version="1")
    def f():
        return g()

    @task(namespace="c05x", version="1", check_valid="shallow")
    def fs():
        return g()

    contexts = [{}, {"a": 1}, {"a": 2}]
    n = 0
    reproduced = False
    for length in (2, 3):
        seqs = list(itertools.product(range(3), [f, fs], repeat=length))
        if length == 3 and ctx.tier == "quick":
            seqs = ctx.rng.sample(seqs, 16)
        for seq in seqs:
          # the context comes from update_context on the call, or is the execution-wide context of Scheduler.run(context=...)
          for how in ("call", "exec"):
            steps = [(seq[2 * i], seq[2 * i + 1]) for i in range(length)]
            sched = ctl_sched.make_scheduler(None)
            got = []
            for ci, t in steps:
                c = contexts[ci]
                try:
                    if how == "call":
                        got.append(sched.run(t.update_context(c)() if c else t()))
                    else:
                        got.append(sched.run(t(), context=c))
                except Exception as e:  # noqa: BLE001
                    got.append("!" + type(e).__name__)
            exp = [contexts[ci].get("a", 0) for ci, _ in steps]
            n += 1
            distinct_ctx = len({ci for ci, _ in steps}) > 1
            ctx.case(key=("xexec", how, tuple((ci, t.name) for ci, t in steps)) if distinct_ctx else None,
                     sample={"executions": [(contexts[ci], t.name) for ci, t in steps], "context_from": how, "results": got},
                     kind="cross-execution")
            if got != exp:
                bad = next(i for i in range(length) if got[i] != exp[i])
                sig = KNOWN_SIG if not contexts[steps[bad][0]] else "C05-result-shared-across-contexts"
                reproduced = reproduced or sig == KNOWN_SIG
                ctx.violation(sig, "a later execution returned the value computed under a different context",
                              case={"executions": [(contexts[ci], t.name) for ci, t in steps], "context_from": how}, expected=exp, actual=got,
                              kind="history")
    return reproduced


def default_arg_calls(ctx):
    """oracle only: task calls used as default arguments run under the calling job's context (JobEnv parent)."""
    from redun import task
    from redun.context import get_context
    ctl_sched.quiet()

    @task(namespace="c05d", version="1")
    def reader(a=get_context("a", 0), s=get_context("site", "-")):
        return [a, s]

    @task(namespace="c05d", version="1")
    def helper():
        # same eval hash under every context; its final value depends on the context through `reader`
        return reader()

    @task(namespace="c05d", version="1")
    def leaf(x, h=helper()):
        return [x, h]

    @task(namespace="c05d", version="1", check_valid="shallow")
    def leaf_s(x, h=helper()):
        return [x, h]

    @task(namespace="c05d", version="1")
    def both(first, second):
        return [first, second]

    overrides = [{}, {"a": 1}, {"a": 2}]
    for exec_ctx in ({}, {"site": "x"}):
        for t in (leaf, leaf_s):
            for i, j in itertools.product(range(3), repeat=2):
                for mode in ("one-execution", "two-executions"):
                    def call(k, x):
                        o = overrides[k]
                        return (t.update_context(o) if o else t)(x)
                    sched = ctl_sched.make_scheduler(None)
                    try:
                        if mode == "one-execution":
                            got = sched.run(both(call(i, 1), call(j, 2)), context=exec_ctx)
                        else:
                            got = [sched.run(call(i, 1), context=exec_ctx), sched.run(call(j, 2), context=exec_ctx)]
                    except Exception as e:  # noqa: BLE001
                        got = "!" + type(e).__name__
                    site = exec_ctx.get("site", "-")
                    exp = [[1, [overrides[i].get("a", 0), site]], [2, [overrides[j].get("a", 0), site]]]
                    ctx.case(key=("defarg", json.dumps(exec_ctx), t.name, i, j, mode) if i != j else None,
                             sample={"exec_context": exec_ctx, "task": t.name, "overrides": [overrides[i], overrides[j]], "mode": mode,
                                     "result": repr(got)[:80]}, kind="default-arg-call")
                    if got != exp:
                        free = (not exec_ctx) and (not overrides[i] or not overrides[j])
                        sig = KNOWN_SIG if free and isinstance(got, list) and (
                            (not overrides[j] and got[1] != exp[1]) or (not overrides[i] and got[0] != exp[0])) else \
                            "C05-result-shared-across-contexts"
                        ctx.violation(sig, "a task call used as a default argument returned the value of another context",
                                      case={"exec_context": exec_ctx, "task": t.name, "overrides": [overrides[i], overrides[j]], "mode": mode},
                                      expected=exp, actual=got, kind="history")


def forked_threads(ctx):
    """oracle only (the scheduler-core model has no fork_thread): calls created under a job that has already finished - the
    continuation of a forked thread - still run in that job's context; the same call also runs under another non-empty context."""
    from redun import task
    from redun.context import get_context
    from redun.scheduler import cond, fork_thread, join_thread
    ctl_sched.quiet()

    @task(namespace="c05t", version="1")
    def h(a=get_context("a", 0), b=get_context("b", 0)):
        return [a, b]

    @task(namespace="c05t", version="1")
    def g():
        return h()

    @task(namespace="c05t", version="1")
    def gate(x):
        return x

    @task(namespace="c05t", version="1")
    def make_thread(steps):
        e = g()
        for i in range(steps):       # g() is only reached after `steps` gate jobs, i.e. after make_thread itself has resolved
            e = cond(gate(True), e, None)
        return fork_thread(e)

    @task(namespace="c05t", version="1")
    def outer(steps, depth):
        # the context override sits `depth` jobs above the forking job
        return make_thread(steps) if depth <= 1 else outer(steps, depth - 1)

    @task(namespace="c05t", version="1")
    def joiner(t, other):
        return [join_thread(t), other]

    rng = ctx.rng
    for steps, depth in ((0, 0), (1, 0), (2, 0), (1, 1), (2, 2), (0, 1)):
        for c1, c2 in (({"a": 1}, {"a": 2}), ({"a": 1, "b": 1}, {"b": 1}), ({"a": 3}, {"a": 3})):
            for k in range(ctx.n(1, 6)):
                c = ctl_sched.Ctl(rng=random.Random(rng.random()))
                sched = ctl_sched.make_scheduler(c)
                forker = make_thread.update_context(c1)(steps) if depth == 0 else outer.update_context(c1)(steps, depth)
                st, got = c.run(sched, joiner(forker, g.update_context(c2)()))
                exp = [[c1.get("a", 0), c1.get("b", 0)], [c2.get("a", 0), c2.get("b", 0)]]
                ctx.case(key=("fork", steps, depth, json.dumps(c1), json.dumps(c2), tuple(str(j.task.name) for j in c.completions)),
                         sample={"steps": steps, "contexts": [c1, c2], "status": st, "result": repr(got)[:80]}, kind="forked-thread", status=st)
                if st != "ok" or got != exp:
                    ctx.violation("C05-forked-thread-call-ran-in-another-context",
                                  "a call created by a forked thread after its forking job finished did not run in that job's context",
                                  case={"steps": steps, "override_depth": depth, "contexts": [c1, c2], "completion_order": [str(j.task.name) for j in c.completions]},
                                  expected=exp, actual=(st, repr(got)[:200]), kind="schedule")


CATCH_SIG = "C05-catch-recovery-cache-ignores-context"


def catch_under_contexts(ctx):
    """oracle only: catch() keeps a private cache of its recovery keyed by the caught expression, not by the context."""
    from redun import task
    from redun.context import get_context
    from redun.scheduler import catch
    ctl_sched.quiet()

    @task(namespace="c05c", version="1")
    def div(d=get_context("denom", 1)):
        return 10 // d

    @task(namespace="c05c", version="1")
    def rec(e):
        return "recovered"

    @task(namespace="c05c", version="1")
    def mid():
        return catch(div(), ZeroDivisionError, rec)

    hit = False
    for order in ([0, 2], [2, 0], [0, 5, 0], [0, 2, 5]):
        sched = ctl_sched.make_scheduler(None)
        got = []
        for d in order:
            try:
                got.append(sched.run(mid.update_context(denom=d)()))
            except Exception as e:  # noqa: BLE001
                got.append("!" + type(e).__name__)
        exp = ["recovered" if d == 0 else 10 // d for d in order]
        ctx.case(key=("catchctx", tuple(order)), sample={"denoms": order, "results": got}, kind="catch-under-contexts")
        if got != exp:
            hit = True
            ctx.violation(CATCH_SIG, "catch() replayed the recovery computed under another (non-empty) context",
                          case={"denominators_by_execution": order}, expected=exp, actual=got, kind="history")
    if not hit:
        ctx.expect_known(CATCH_SIG, False, case="catch under two non-empty contexts")


def run(ctx):
    rng = ctx.rng
    items = []
    reproduced = False
    default_arg_calls(ctx)
    catch_under_contexts(ctx)
    forked_threads(ctx)
    for defs, cfg in CORPUS:
        p = c06.mk_prog(defs, cfg)
        for ctl, hit in sc.enumerate_schedules_pairs(lambda d: one_run(ctx, p, decisions=d, items=items, tag="corpus-exhaustive"),
                                                     ctx.n(24, 600)):
            reproduced = reproduced or hit
        base.flush(ctx, items)
    for i in range(ctx.n(14, 600)):
        p = sc.gen_program(rng, p_dup=0.8, p_limits=0.1, p_ctx=0.5, p_fail=0.05, allow_optout=False, allow_badexec=False)
        for k in range(2):
            _, hit = one_run(ctx, p, rng=random.Random(rng.random()), items=items)
            reproduced = reproduced or hit
        if len(items) >= 50:
            base.flush(ctx, items)
    # sequenced duplicates under several contexts: the shared leaf's value depends on the context through its RESULT expression
    # (same eval hash everywhere) or through its default arguments, or not at all; later calls find earlier twins finished
    for i in range(ctx.n(14, 500)):
        p = sc.gen_chain(rng)
        for k in range(2):
            _, hit = one_run(ctx, p, rng=random.Random(rng.random()), items=items, tag="chain", p_complete=rng.choice([0.3, 0.7, 0.95]))
            reproduced = reproduced or hit
        if len(items) >= 50:
            base.flush(ctx, items)
    base.flush(ctx, items)
    reproduced = cross_execution(ctx) or reproduced
    # the model's refuted witness must still reproduce on the implementation (else the model is stale)
    if not reproduced:
        ctx.expect_known(KNOWN_SIG, False, case="corpus F4 + cross-execution sequences",
                         what="context-free call served a context-bearing result")


def replay(ctx, case):
    print("replay:", json.dumps(case.get("case"))[:400])
    run(ctx)
