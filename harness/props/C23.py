"""C23 -- record transfer between repositories (push / pull / export / import) preserves the call graph.
Model: lean/RedunModel/Model/Db.lean (`iterRecordIds`, `getRecords`, `putRecords`, `transfer`);
theorems: lean/RedunModel/Props/C23.lean; control: harness/ctl_db.py."""
import io
import json
import os
import shutil
import tempfile

import ctl_db
from core import unsx

ID = "C23"
READY = True
LEAN_MODULES = ["RedunModel.Props.C23", "RedunModel.Props.C03", "RedunModel.Model.DbProto"]
LEAN_DRIVERS = ["C23"]
THEOREMS = [
    "RedunModel.C23.put_has_all",
    "RedunModel.C23.put_idempotent",
    "RedunModel.C23.put_duplicate_skipped",
    "RedunModel.C23.transfer_idempotent",
    "RedunModel.C23.tag_status",
    "RedunModel.C23.new_tag_current_iff",
    "RedunModel.C23.bfs_sound",
    "RedunModel.C23.bfs_nodup",
    "RedunModel.C23.imported_never_hit",
    "RedunModel.C23.cache_safe",
    "RedunModel.C23.cache_safe_refuted_current",
    "RedunModel.Db.putRecords_graph",
    "RedunModel.C03.history_shallow_sound",
]
TRUSTED = [
    "modelled, not verified: SQLAlchemy relationship loading (a record's children / arguments / parents come back in "
    "table order), JSON round trip of the serialized records (json.dumps/loads, base64), `with_defer_constraints` "
    "(foreign keys are not enforced during put_records)",
    "serialize/deserialize are modelled as the field maps of serializers.py read by hand (Execution, Job, CallNode with "
    "edges/arguments/upstreams, Value with subvalues and File/Task subtype, Tag with parents); timestamps, job status "
    "and value bytes are carried opaquely",
    "Variant flags of the model are probed on the working tree (see C03)",
]
ASSUMPTIONS = [
    "repositories: generated task programs (several executions with edits in between), tags on executions / jobs / "
    "values with update and delete history, File-valued and list-of-File results; sqlite on both sides",
    "roots are execution ids (all of them or a random subset), as in the property's quantifier",
    "concatenated streams: every execution exported on its own and ONE import of the concatenation (records listed "
    "twice in one put_records call), through put_records directly and through `redun export` / `redun import`",
    "repeated transfer: after the first transfer tags of a root execution are updated / deleted / added in the source and "
    "the same roots are transferred again; Tag / TagEdit rows and the CURRENT tags of source and destination are compared",
    "transfer = RedunClient._sync_records (the body of push and pull) or `redun export` + `redun import` through files",
    "record equality is up to the order of rows inside a table; CallEdge.call_order is compared as the relative order "
    "of a node's children (the serialized record carries a list, not the numbers)",
    "Evaluation and CallSubtreeTask rows are by design not transferred and are excluded from the dump comparison",
]
RULE = ("a case = (generated repository, root selection, transfer path, direction): 2-4 executions of a generated program "
        "with edits, random tag histories; the records reachable from the roots are transferred into an empty or a "
        "non-empty destination once and twice, and back; normalised dumps of source (restricted to the closure computed "
        "by an independent walk) and destination are compared; then a task is edited and the program is run in the "
        "destination. The model transfers the same dump and the two destination dumps are compared. distinct = "
        "(repository shape, roots, path); non-trivial = more than one execution or a tag history")
LEVEL_TEXT = ("Lean 4 proof on the model of iter_record_ids / get_records / put_records: put_has_all + put_idempotent + "
              "transfer_idempotent (repeating a transfer adds nothing, all record sets, all destinations), tag_status / "
              "new_tag_current_iff (a transferred tag is current iff no transferred or present tag supersedes it), "
              "bfs_sound / bfs_nodup (iter_record_ids yields only reachable record ids, each once), imported_never_hit + "
              "cache_safe (repaired code: an imported call node is never served; every shallow hit after any history with "
              "imports is sound -- C03.history_shallow_sound). cache_safe_refuted_current: closed witness for the "
              "unrepaired _get_call_node. Field-by-field round trip and BFS completeness are checked by the "
              "correspondence (model transfer vs real transfer on generated repositories), not proved: partial.")
LEVEL_NOTE = ("partial: the round trip of every field (serialize then deserialize gives the same rows) and the completeness "
              "of the layer-wise walk are tied by differential testing of the model against the real transfer and by the "
              "dump oracle, not by a theorem. The model cannot exhibit JSON/base64 encoding problems, large IN-lists "
              "(filter_in chunking), postgres, concurrent transfers.")
TECHNIQUE = "Lean 4 proofs about an executable transfer model + whole-database differential check of real transfers"

XFER_TABLES = ["values", "tasks", "files", "subvalues", "nodes", "edges", "args", "argres", "jobs", "execs", "tags", "tagedits"]

SIG = {
    "order": ("C23-child-edge-order-not-preserved",
              "CallNodeSerializer lists a node's children in database order (no ORDER BY call_order) and the importer "
              "renumbers them by list position: the order of a call node's child calls differs in the destination"),
    "stale": ("C23-destination-serves-stale-shallow-hit",
              "transferred call nodes have no CallSubtreeTask rows and _get_call_node treats the empty set as current: "
              "the destination serves a result the source refuses (C03's defect seen from C23)"),
    "rows": ("C23-records-differ-after-transfer", "rows of the transferred record closure differ between source and destination"),
    "again": ("C23-repeated-transfer-changes-destination", "transferring the same records again changes the destination"),
}


# ------------------------------------------------------------------------------------------------ repositories
def make_files(base, n=3):
    ps = []
    for i in range(n):
        p = os.path.join(base, f"f{i}.txt")
        with open(p, "w") as f:
            f.write("x" * (i + 1))
        ps.append(p)
    return ps


class Repo:
    """a generated repository: executions of a program with edits, File results, tag histories"""

    def __init__(self, ctx, env, flags, rng, label):
        self.ctx, self.env, self.flags, self.label = ctx, env, flags, label
        self.prog = ctl_db.gen_program(rng, ns="gc23")
        self.case = ctl_db.Case(env, self.prog, flags, label)
        self.nexec = rng.choice([1, 2, 2, 3, 4])
        self.tag_ops = 0
        self.files = make_files(env.base)
        for e in range(self.nexec):
            if e > 0:
                if rng.random() < 0.7:
                    self.prog.edit(rng.randrange(self.prog.n))
                if rng.random() < 0.5:
                    self.prog.set_roots([(rng.randrange(max(1, self.prog.n - 1)), rng.choice([0, 1, 2]))])
            self.case.run(0)
        self.path = self.case.repos[0]
        self.extras(rng)

    def extras(self, rng):
        """File-valued results and tag histories, through the public backend / scheduler API"""
        from redun import File, task
        from redun.backends.base import TagEntity
        from redun.backends.db import Execution, Job, Value
        s = ctl_db.new_scheduler(self.path)
        try:
            files = self.files

            @task(name="mkfiles", namespace="gc23", version="1")
            def mkfiles(k):
                return [File(p) for p in files[:k]] + [k]

            @task(name="mkfile", namespace="gc23", version="1")
            def mkfile(k):
                return File(files[k])
            if rng.random() < 0.7:
                s.run([mkfiles(rng.choice([1, 2, 3])), mkfile(0)])
                self.nexec += 1
            b = s.backend
            ses = b.session
            execs = [r[0] for r in ses.query(Execution.id)]
            jobs = [r[0] for r in ses.query(Job.id)]
            vals = [r[0] for r in ses.query(Value.value_hash).limit(5)]
            for _ in range(rng.choice([0, 1, 2, 4, 6])):
                kind = rng.choice(["exec", "job", "value"])
                if kind == "exec":
                    et, eid = TagEntity.Execution, rng.choice(execs)
                elif kind == "job":
                    et, eid = TagEntity.Job, rng.choice(jobs)
                else:
                    et, eid = TagEntity.Value, rng.choice(vals)
                key = rng.choice(["k1", "k2", "env"])
                op = rng.choice(["add", "add", "update", "delete"])
                if op == "add":
                    b.record_tags(et, eid, [(key, rng.choice([1, 2, "a", [1, 2], None]))])
                elif op == "update":
                    b.record_tags(et, eid, [(key, rng.choice([3, "b"]))], update=True)
                else:
                    b.delete_tags(eid, [], keys=[key])
                self.tag_ops += 1
        finally:
            ctl_db.close_scheduler(s)


def seed_tags(path, exec_id):
    """two current tags on an execution that will be updated / deleted between two transfers"""
    from redun.backends.base import TagEntity
    s = ctl_db.new_scheduler(path)
    try:
        s.backend.record_tags(TagEntity.Execution, exec_id, [("rep", "v1"), ("del", "x")])
    finally:
        ctl_db.close_scheduler(s)


def edit_tags(path, exec_id):
    """`redun tag update` / `redun tag rm` in the source: rep=v1 -> rep=v2, del=x deleted, new=1 added"""
    from redun.backends.base import TagEntity
    s = ctl_db.new_scheduler(path)
    try:
        s.backend.update_tags(TagEntity.Execution, exec_id, ["rep"], [("rep", "v2")])
        s.backend.delete_tags(exec_id, [("del", "x")])
        s.backend.record_tags(TagEntity.Execution, exec_id, [("new", 1)])
    finally:
        ctl_db.close_scheduler(s)


def current_tags(d, ids):
    return sorted((t[2], t[3], t[4]) for t in d["tags"] if t[0] in ids and t[5])


def config_dir(env, db_path):
    d = tempfile.mkdtemp(prefix="cfg-", dir=env.base)
    os.makedirs(os.path.join(d, ".redun"))
    with open(os.path.join(d, ".redun", "redun.ini"), "w") as f:
        f.write(f"[backend]\ndb_uri = sqlite:///{db_path}\n")
    return os.path.join(d, ".redun")


def all_execs(path):
    import sqlite3
    con = sqlite3.connect(path)
    try:
        return [r[0] for r in con.execute(
            "select execution.id from execution join job on execution.job_id = job.id order by job.start_time desc")]
    finally:
        con.close()


def do_transfer(env, src, dst, roots, how):
    """returns number of new records reported (None for export/import)"""
    from redun.cli import RedunClient
    if how == "sync":
        ss, sd = ctl_db.new_scheduler(src), ctl_db.new_scheduler(dst)
        try:
            return RedunClient()._sync_records(ss.backend, sd.backend, list(roots) if roots is not None else None)
        finally:
            ctl_db.close_scheduler(ss)
            ctl_db.close_scheduler(sd)
    # export to a file, import from it
    f = os.path.join(env.base, f"export-{env.n}-{len(os.listdir(env.base))}.json")
    c1 = RedunClient()
    c1.execute(["redun", "--config", config_dir(env, src), "export", "--file", f] + (list(roots) if roots is not None else []))
    c2 = RedunClient()
    c2.execute(["redun", "--config", config_dir(env, dst), "import", "--file", f])
    for c in (c1, c2):
        try:
            ctl_db.close_scheduler(c.scheduler)
        except Exception:  # noqa: BLE001
            pass
    return None


def concat_transfer(env, src, dst, root_sets, how):
    """ONE import of the concatenation of several separately exported record streams (overlapping root selections:
    the same Task / Value / CallNode records occur more than once in the stream).  how = "direct": put_records on
    the concatenated list; "file": `redun export` per root set into one file (appended), then `redun import`."""
    from redun.cli import RedunClient
    if how == "direct":
        ss, sd = ctl_db.new_scheduler(src), ctl_db.new_scheduler(dst)
        try:
            records = []
            for roots in root_sets:
                records.extend(ss.backend.get_records(ss.backend.iter_record_ids(list(roots))))
            return sd.backend.put_records(records), len(records)
        finally:
            ctl_db.close_scheduler(ss)
            ctl_db.close_scheduler(sd)
    f = os.path.join(env.base, f"concat-{len(os.listdir(env.base))}.json")
    nrec = 0
    with open(f, "w") as out:
        for roots in root_sets:
            part = f + ".part"
            c1 = RedunClient()
            c1.execute(["redun", "--config", config_dir(env, src), "export", "--file", part] + list(roots))
            try:
                ctl_db.close_scheduler(c1.scheduler)
            except Exception:  # noqa: BLE001
                pass
            with open(part) as inp:
                for line in inp:
                    out.write(line)
                    nrec += 1
    c2 = RedunClient()
    try:
        c2.execute(["redun", "--config", config_dir(env, dst), "import", "--file", f])
    finally:
        try:
            ctl_db.close_scheduler(c2.scheduler)
        except Exception:  # noqa: BLE001
            pass
    return None, nrec


# ------------------------------------------------------------------------------------------------ oracle
def closure(d, roots):
    """independent walk over a canonical dump: ids of the records reachable from `roots` by the ownership edges
    listed in the property (executions -> jobs -> call nodes -> arguments / results / children / upstreams,
    values -> subvalues, tags of every reached entity and their edit history)"""
    kids = {}

    def edge(a, b):
        kids.setdefault(a, set()).add(b)
    for i, j in d["execs"]:
        edge(i, j)
    for i, t, p, e, c, ca, en in d["jobs"]:
        edge(i, t)
        if c is not None:
            edge(i, c)
        if p is not None:
            edge(p, i)
    for c, t, a, v, ts in d["nodes"]:
        edge(c, t)
        edge(c, v)
    for c, s, v in d["args"]:
        edge(c, v)
    for c, s, r in d["argres"]:
        edge(c, r)
    for p, c, o in d["edges"]:
        edge(p, c)
    for c, p in d["subvalues"]:
        edge(p, c)
    for p, c in d["tagedits"]:
        edge(c, p)
        edge(p, c)
    for t, et, en, k, v, cur in d["tags"]:
        edge(en, t)
    seen, stack = set(), list(roots)
    while stack:
        x = stack.pop()
        if x in seen:
            continue
        seen.add(x)
        stack.extend(kids.get(x, ()))
    return seen


def restrict_to(d, ids):
    """rows owned by the records in `ids`"""
    out = {}
    out["execs"] = [r for r in d["execs"] if r[0] in ids]
    out["jobs"] = [r for r in d["jobs"] if r[0] in ids]
    out["nodes"] = [r[:4] for r in d["nodes"] if r[0] in ids]
    out["edges"] = [r for r in d["edges"] if r[0] in ids]
    out["args"] = [r for r in d["args"] if r[0] in ids]
    out["argres"] = [r for r in d["argres"] if r[0] in ids]
    out["values"] = [r for r in d["values"] if r[0] in ids]
    out["tasks"] = [r for r in d["tasks"] if r in ids]
    out["files"] = [r for r in d["files"] if r in ids]
    out["subvalues"] = [r for r in d["subvalues"] if r[1] in ids]
    out["tags"] = [r for r in d["tags"] if r[0] in ids]
    out["tagedits"] = [r for r in d["tagedits"] if r[1] in ids]
    return out


def child_order(edges):
    """parent -> children in call order (relative order is what a serialized record carries)"""
    out = {}
    for p, c, o in sorted(edges, key=lambda e: (e[0], e[2])):
        out.setdefault(p, []).append(c)
    return out


def tag_status_expected(d, ids):
    """a transferred tag is current in the destination iff no transferred tag edit supersedes it"""
    superseded = {p for p, c in d["tagedits"] if c in ids}
    return sorted((t[0], t[0] not in superseded) for t in d["tags"] if t[0] in ids)


def compare_transfer(ctx, label, dsrc, ddst, ids, dst_before=None, order_matters=True):
    exp = restrict_to(dsrc, ids)
    got = restrict_to(ddst, ids)
    bad = False
    for t in XFER_TABLES:
        a, b = exp[t], got[t]
        if t == "edges":
            if order_matters and child_order(a) != child_order(b):
                ctx.violation(SIG["order"][0], SIG["order"][1], label,
                              expected=repr(sorted(child_order(a).items()))[:300],
                              actual=repr(sorted(child_order(b).items()))[:300], kind="history")
            a, b = sorted((e[0], e[1]) for e in a), sorted((e[0], e[1]) for e in b)
        elif t == "tags":
            # everything but the current flag, then the flag by the stated rule
            a2, b2 = sorted(r[:5] for r in a), sorted(r[:5] for r in b)
            if a2 != b2:
                ctx.violation(SIG["rows"][0], SIG["rows"][1], dict(label, table=t), expected=repr(a2)[:300], actual=repr(b2)[:300])
                bad = True
            if dst_before is None:
                want = tag_status_expected(dsrc, ids)
                have = sorted((r[0], r[5]) for r in b)
                if want != have:
                    ctx.violation("C23-tag-status-differs", "current / superseded status of transferred tags differs",
                                  dict(label, table=t), expected=repr(want)[:300], actual=repr(have)[:300])
                    bad = True
            continue
        if sorted(a) != sorted(b):
            ea = [r for r in a if r not in b]
            eb = [r for r in b if r not in a]
            ctx.violation(SIG["rows"][0], SIG["rows"][1], dict(label, table=t),
                          expected=f"source only: {ea[:4]}", actual=f"destination only: {eb[:4]}", kind="history")
            bad = True
    # nothing that is not in the closure arrives
    if dst_before is None:
        for t in XFER_TABLES:
            extra = [r for r in ddst[t] if r not in restrict_to(ddst, ids).get(t, ddst[t])] if t not in ("tasks", "files") else \
                [r for r in ddst[t] if r not in ids]
            if t in ("edges",):
                extra = [r for r in ddst[t] if r[0] not in ids]
            if extra and t not in ("nodes",):
                ctx.violation("C23-unreachable-records-transferred", "destination holds rows outside the closure of the roots",
                              dict(label, table=t), expected="[]", actual=repr(extra[:4]))
                bad = True
    return not bad


def run(ctx):
    ctl_db.quiet()
    base = tempfile.mkdtemp(prefix="gC-c23-")
    try:
        env = ctl_db.Env(ctx, base)
        flags, _ = ctl_db.probe_flags(ctx, env)
        ctx.note("variant flags probed on the working tree: " + ", ".join(
            f"{k}={'repaired' if v else 'current'}" for k, v in flags.items()))
        rng = ctx.rng
        lines, checks = [], []
        v = " ".join("T" if flags[f] else "F" for f in ctl_db.FLAG_NAMES)
        for i in range(ctx.n(14, 120)):
            repo = ctl_db.guarded(ctx, f"repo{i}", lambda i=i: Repo(ctx, env, flags, rng, f"repo{i}"))
            if repo is None:
                continue
            I = repo.case.I
            how = rng.choice(["sync", "sync", "file"])
            execs = all_execs(repo.path)
            if rng.random() < 0.6 or len(execs) == 1:
                roots, roots_arg = execs, None
            else:
                roots = sorted(rng.sample(execs, rng.randrange(1, len(execs))))
                roots_arg = roots
            nonempty_dst = rng.random() < 0.3
            label = dict(repo=repo.label, program=repo.prog.describe(), executions=len(execs), roots=len(roots),
                         how=how, tag_ops=repo.tag_ops, nonempty_destination=nonempty_dst)
            dst = env.new_db()
            dst_before = None
            if nonempty_dst:
                # the destination already ran another program (other namespace: disjoint call graph, shared builtins)
                c2 = ctl_db.Case(env, ctl_db.gen_program(rng, ns="gc23b"), flags, "dst-pre")
                c2.I = I
                c2.repos[0] = dst
                c2.run(0)
                dst_before = ctl_db.dump_db(dst, I)
            seed_tags(repo.path, roots[0])
            dsrc = ctl_db.dump_db(repo.path, I)
            try:
                n1 = do_transfer(env, repo.path, dst, roots_arg, how)
            except Exception as e:  # noqa: BLE001
                ctx.violation("C23-transfer-raises", "the transfer itself raised", label, expected="records transferred",
                              actual=repr(e)[:300], kind="history")
                ctx.case(key=None, sample=label, how=how, outcome="raised")
                continue
            d1 = ctl_db.dump_db(dst, I)
            ids = closure(dsrc, [I.id(x) for x in roots])
            dsrc_first, d1_first = dsrc, d1
            ok = compare_transfer(ctx, label, dsrc, d1, ids, dst_before)
            # once more: nothing may change
            try:
                n2 = do_transfer(env, repo.path, dst, roots_arg, how)
            except Exception as e:  # noqa: BLE001
                ctx.violation(SIG["again"][0], "the second transfer of the same records raised", label,
                              expected="no change", actual=repr(e)[:300], kind="history")
                n2 = None
            d2 = ctl_db.dump_db(dst, I)
            if d2 != d1 or (n2 not in (None, 0)):
                ctx.violation(SIG["again"][0], SIG["again"][1], dict(label, reported_new=n2),
                              expected="no change", actual=ctl_db.diff_dumps(d1, d2, ctl_db.MODEL_TABLES))
            # concatenated record streams with overlaps: every execution exported on its own, ONE import of the
            # concatenation into a fresh repository (a record listed twice in one put_records call)
            if len(execs) >= 2:
                chow = "direct" if i % 2 == 0 else "file"
                clabel = dict(label, step="import of concatenated per-execution exports", how=chow)
                dstc = env.new_db()
                try:
                    _, nrec = concat_transfer(env, repo.path, dstc, [[e] for e in execs], chow)
                    dc = ctl_db.dump_db(dstc, I)
                    idsc = closure(dsrc, [I.id(x) for x in execs])
                    compare_transfer(ctx, clabel, dsrc, dc, idsc, None)
                    concat_transfer(env, repo.path, dstc, [[e] for e in execs], chow)
                    if ctl_db.dump_db(dstc, I) != dc:
                        ctx.violation(SIG["again"][0], SIG["again"][1], clabel, expected="no change", actual="changed")
                    ctx.count("concatenated_streams", chow)
                except Exception as e:  # noqa: BLE001
                    ctx.violation("C23-duplicate-record-in-stream-not-imported",
                                  "importing a record stream that lists a record twice (concatenated exports of overlapping "
                                  "root selections) raises and nothing arrives", clabel,
                                  expected="every exported record present in the destination", actual=repr(e)[:300],
                                  kind="history")
            # tags are updated / deleted in the source, then the same roots are transferred again: the destination
            # must end with the same Tag / TagEdit rows and the same CURRENT tags as the source
            edit_tags(repo.path, roots[0])
            dsrc3 = ctl_db.dump_db(repo.path, I)
            d3 = None
            try:
                do_transfer(env, repo.path, dst, roots_arg, how)
                d3 = ctl_db.dump_db(dst, I)
            except Exception as e:  # noqa: BLE001
                ctx.violation("C23-transfer-raises", "the transfer after tag edits raised", label,
                              expected="records transferred", actual=repr(e)[:300], kind="history")
            if d3 is not None:
                ids3 = closure(dsrc3, [I.id(x) for x in roots])
                compare_transfer(ctx, dict(label, step="re-transfer after tag update/delete in the source"), dsrc3, d3, ids3,
                                 dst_before)
                if current_tags(dsrc3, ids3) != current_tags(d3, ids3):
                    ctx.violation("C23-tag-status-differs",
                                  "after re-transferring edited tags the destination's current tags differ from the "
                                  "source's (a superseded or deleted tag stays current)",
                                  dict(label, step="re-transfer after tag update/delete in the source"),
                                  expected=repr(current_tags(dsrc3, ids3))[:300], actual=repr(current_tags(d3, ids3))[:300],
                                  kind="history")
                dsrc, d1 = dsrc3, d3
            # and back: the source must not change
            try:
                do_transfer(env, dst, repo.path, None, how)
            except Exception as e:  # noqa: BLE001
                ctx.violation("C23-transfer-raises", "the transfer back raised", label, expected="records transferred",
                              actual=repr(e)[:300], kind="history")
            dsrc2 = ctl_db.dump_db(repo.path, I)
            if dst_before is None and dsrc2 != dsrc:
                ctx.violation("C23-transfer-back-changes-source", "transferring the records back changes the source",
                              label, expected="no change", actual=ctl_db.diff_dumps(dsrc, dsrc2, ctl_db.MODEL_TABLES))
            # cache safety: edit a task, run in the destination
            c3 = ctl_db.Case(env, repo.prog, flags, repo.label + ":dst")
            c3.I = I
            c3.repos[0] = dst
            repo.prog.edit(repo.prog.n - 1)
            res, _, _ = c3.run(0)
            exp = repo.prog.expected_main()
            if res != exp:
                ctx.violation(SIG["stale"][0], SIG["stale"][1], label, expected=repr(exp)[:300], actual=repr(res)[:300],
                              kind="history")
            ctx.case(key=(repr(repo.prog.describe()), len(execs), len(roots), how, nonempty_dst, repo.tag_ops)
                     if (len(execs) > 1 or repo.tag_ops) else None,
                     sample=label, how=how, executions=len(execs), roots="all" if roots_arg is None else "subset",
                     tag_ops=min(repo.tag_ops, 6), destination="non-empty" if nonempty_dst else "empty",
                     records=10 * (len(ids) // 10))
            # ---- the same transfer on the model
            lines.append(f"(variant {v})")
            checks.append(None)
            lines.append(f"(load i0 {ctl_db.dump_to_sx(dsrc_first)})")
            checks.append(None)
            lines.append(f"(load i1 {ctl_db.dump_to_sx(dst_before if dst_before is not None else ctl_db.dump_db(env.template, I))})")
            checks.append(None)
            rs = ctl_db._sxv([I.id(x) for x in roots])
            lines.append(f"(iter i0 {rs})")
            checks.append(("iter", label, ids, dsrc_first))
            lines.append(f"(xfer i0 i1 {rs})")
            checks.append(("xfer", label, d1_first, dst_before))
            lines.append(f"(xfer i0 i1 {rs})")
            checks.append(("again", label, d1_first, None))
            if d3 is not None:
                lines.append(f"(load i0 {ctl_db.dump_to_sx(dsrc3)})")
                checks.append(None)
                lines.append(f"(xfer i0 i1 {rs})")
                checks.append(("xfer", dict(label, step="re-transfer"), d3, d1_first))
        replies = ctx.model("C23", lines)
        for chk, rep in zip(checks, replies):
            if chk is None:
                if rep != "ok":
                    ctx.mismatch("model rejected a request", "load/variant", rep, "ok")
                continue
            kind, label, want, extra = chk
            if kind == "iter":
                got = set(unsx(rep)[0])
                rec_ids = {x for x in want if is_record(extra, x)}
                if got != rec_ids:
                    ctx.mismatch("iter_record_ids: model closure differs from the independent walk over the real dump",
                                 label, sorted(got - rec_ids)[:6], sorted(rec_ids - got)[:6])
            elif kind == "xfer":
                snaps = unsx(rep)[0]
                m = ctl_db.canon_model_dump(snaps[-1]) if snaps else (extra if extra is not None else None)
                if m is None:
                    continue
                tabs = ctl_db.MODEL_TABLES
                df = ctl_db.diff_dumps(ctl_db.restrict(m, tabs, False), ctl_db.restrict(want, tabs, False), tabs)
                if df:
                    ctx.mismatch("destination after transfer: model vs real (left=model)", label, df, "real")
                elif flags_order_kept(want, m):
                    pass
            else:
                if unsx(rep)[0]:
                    ctx.mismatch("second transfer: the model adds rows", label, rep[:200], "nothing")
    finally:
        shutil.rmtree(base, ignore_errors=True)


def flags_order_kept(real, model):
    return child_order(real["edges"]) == child_order(model["edges"])


def is_record(d, x):
    return (any(r[0] == x for r in d["execs"]) or any(r[0] == x for r in d["jobs"]) or any(r[0] == x for r in d["nodes"])
            or any(r[0] == x for r in d["values"]) or any(r[0] == x for r in d["tags"]))


def replay(ctx, case):
    print("replay case:", case.get("case"))
    run(ctx)
