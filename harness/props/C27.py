"""C27 — the options a job runs with: task definition options < options exported by ancestor jobs < call-time
options < scheduler-imposed settings; exported names accumulate down the job tree; expression-valued options are
evaluated (under the parent job) before use.  Model: lean/RedunModel/Model/Options.lean."""
import enum
import json
import logging
import pickle

from core import hx

ID = "C27"
READY = True
LEAN_MODULES = ["RedunModel.Props.C27"]
LEAN_DRIVERS = ["C27"]
THEOREMS = [
    "RedunModel.C27.precedence",
    "RedunModel.C27.precedence_layers",
    "RedunModel.C27.precedence_raw",
    "RedunModel.C27.rightmost_spec",
    "RedunModel.C27.rightmost_none",
    "RedunModel.C27.definition_lowest",
    "RedunModel.C27.call_time_over_inherited",
    "RedunModel.C27.exports_accumulate",
    "RedunModel.C27.exports_accumulate_path",
    "RedunModel.C27.exports_exact",
    "RedunModel.C27.tree_jobs_are_chain_jobs",
    "RedunModel.C27.tree_parent_in_tree",
    "RedunModel.C27.tree_exports_monotone",
    "RedunModel.C27.inherited_only_exported",
    "RedunModel.C27.unexported_not_inherited",
    "RedunModel.C27.inherit_through",
    "RedunModel.C27.forced_no_cache",
    "RedunModel.C27.forced_no_cache_chain",
    "RedunModel.C27.forced_prov_false",
    "RedunModel.C27.prov_false_subtree",
    "RedunModel.C27.options_evaluated",
    "RedunModel.C27.inherited_not_reevaluated",
    "RedunModel.C27.option_jobs_under_parent",
    "RedunModel.C27.evalOptions_wf",
    "RedunModel.C27.jobInfo_wf",
    "RedunModel.C27.constructed_calls_wf",
    "RedunModel.C27.export_options_accumulates",
    "RedunModel.C27.roundtrip_preserves_exports",
    "RedunModel.C27.roundtrip_preserves_options",
    "RedunModel.C27.options_drops_exports_note",
    "RedunModel.C27.def_export_cache_note",
    "RedunModel.C27.run_evaluates_options_refuted",
    "RedunModel.C27.run_evaluates_options_partial",
    "RedunModel.C27.run_crash_iff",
]
TRUSTED = [
    "modelled, not verified: Python dict semantics ({**a, **b}, d[k] = v, d.pop, insertion order, unique keys = Options.WF), "
    "set union/membership (lists read through membership), bool() of None/bool/int/str/list/enum members, Enum(value) lookup",
    "Scheduler.evaluate on an option value is modelled on the fragment the generator uses: literals, lists, calls of a task that "
    "returns its argument (the call evaluates to the evaluated argument); that evaluation of expressions in general agrees with "
    "the reduction semantics is property C01",
    "which parent a job has, and that the option expressions of a job are evaluated under its parent, is tied by the job-tree "
    "runs on the real Scheduler (controlled executor, in-memory backend), not proved about scheduler.py",
    "executor-level configuration defaults (redun.ini [executors.*]) merged by an executor after job.get_options() are outside "
    "the model (the statement is about job.get_options() as seen by the executor)",
]
ASSUMPTIONS = [
    "option values are None/bool/int/str/enum members/lists of those, or calls val(id, v) of an option-less task returning v "
    "(possibly nested in lists / in the argument); no dict-valued options, no _context_override (C26), limits, tags, nout",
    "cache, cache_scope, check_valid are never expression-valued in job trees (Task construction raises TypeError/ValueError "
    "there - compared with the model in the task stream only)",
    "every node of a generated tree is its own freshly registered task and every call has a distinct argument, so no two jobs "
    "share a result (no CSE collapse: each job reaches the executor exactly once)",
    "Task.options() after Task.export_options() drops the exported names (API-level remark, Lean options_drops_exports_note): "
    "80% of generated calls apply export_options last; for the others the oracle only demands the names exported after the "
    "last .options() call; likewise @task(export_options={'cache': ..}) exports the name 'cache' but stores 'cache_scope' "
    "(Lean def_export_cache_note) and the oracle demands only the names as given",
    "the executor named by the 'executor' option exists ('default' or 'alt')",
]
RULE = ("two streams from one PRNG. (1) Task construction: @task(**opts, export_options=..) followed by 0-4 .options()/"
        ".export_options() calls, incl. the synonyms cache/cache_scope/check_valid with invalid and expression values; "
        "base/override dicts, exported names or the raised error type vs the model. (2) job trees (depth <= 4, <= 3 children, "
        "with_export_options nodes, calls made through task VALUES that went through pickle.loads(pickle.dumps(..)) between / after "
        "their .options()/.export_options() calls, 8 option keys, expression-valued options, prov=False subtrees, cache=False runs) run on the "
        "real Scheduler with a controlled executor that records job.get_options(), job.export_options, job.get_raw_options(), "
        "the parent and the executor for every submitted job; each record vs the model's walk of the same tree and vs the "
        "documented precedence computed from the generator's spec and the parent's observed record. (3) end to end: a cacheable task "
        "returns a configured task value, a later execution on the same backend (cache hit: the value is deserialized) calls it; the "
        "jobs of both executions vs the documented precedence and vs each other. distinct = distinct "
        "(options, exports, raw) records resp. constructions; non-trivial = a job below the root or with a key defined in >= 2 "
        "layers, a construction with >= 1 call")

LEVEL_TEXT = ("Proved in Lean for every parent job, call, key, run mode and every ancestor chain / job tree (no size bound): "
              "full strength - precedence / precedence_layers / precedence_raw (the value of every key in Job.get_options() resp. "
              "get_raw_options() is that of the right-most of the layers definition < exported by the parent < call-time < "
              "scheduler-imposed; rightmost_spec pins the meaning), definition_lowest, call_time_over_inherited; exports_accumulate, "
              "exports_accumulate_path (induction over the chain below an ancestor), exports_exact, tree_jobs_are_chain_jobs / "
              "tree_parent_in_tree / tree_exports_monotone (the scheduler's top-down walk of any tree = the chain function at every "
              "node); inherited_only_exported, unexported_not_inherited, inherit_through (an exported option reaches every descendant "
              "until a call resets it); forced_no_cache(_chain), forced_prov_false, prov_false_subtree (call-time options cannot "
              "override cache_scope under cache=False nor prov/cache_scope under a non-recording ancestor); options_evaluated, "
              "inherited_not_reevaluated, option_jobs_under_parent; well-formedness preservation (evalOptions_wf, jobInfo_wf, "
              "constructed_calls_wf) so the unique-keys hypotheses are met by anything built from dicts; task API: "
              "export_options_accumulates, roundtrip_preserves_exports / roundtrip_preserves_options (a pickle or cache round trip of a task "
              "value keeps exported names and call-time options; re-validation is idempotent), remarks options_drops_exports_note, def_export_cache_note. REFUTED on the current code: "
              "run_evaluates_options_refuted (a ROOT call with an expression-valued option dies with KeyError in record_job_start; "
              "finding C27-root-option-expression-crash), with run_evaluates_options_partial (runs whose root call has no "
              "expression-valued option) and run_crash_iff (exact condition). Tie: Task construction and generated job trees on the "
              "real Scheduler (controlled executor recording get_options / export_options / get_raw_options / parent / executor of "
              "every submitted job) against the model's walk, plus the documented precedence as an independent oracle.")
LEVEL_NOTE = ("partial only in options_evaluated: expression evaluation is modelled on the fragment 'call of a task returning its "
              "argument, lists, literals' (general evaluation is C01) and that option expressions run under the parent job is in the "
              "model's walkOpt and checked by the tie, not proved about scheduler.py. Not modelled: dict-valued options, "
              "_context_override (C26), limits/tags, executor-level config defaults merged after get_options(), PartialTask, "
              "subrun's re-export of options. The model mirrors the current code including the root-option crash (known finding).")
TECHNIQUE = "Lean 4 proof on an association-list model of option layers over job trees + differential job trees on the real Scheduler with a recording executor"

GEN_KEYS = ["memory", "vcpus", "x", "y"]
ALL_KEYS = GEN_KEYS + ["executor", "cache", "cache_scope", "check_valid", "prov"]
NS = "verif_c27"


# ------------------------------------------------------------------ value specs (JSON-able) <-> real values <-> wire
def lit(v):
    return {"t": "lit", "v": v}


def enum_spec(cls, v):
    return {"t": "enum", "cls": cls, "v": v}


def call_spec(i, ret):
    return {"t": "call", "id": i, "ret": ret}


def list_spec(items):
    return {"t": "list", "items": items}


def spec_has_call(s):
    if s["t"] == "call":
        return True
    if s["t"] == "list":
        return any(spec_has_call(x) for x in s["items"])
    return False


def spec_wire(s):
    """wire text of a value spec (the model's input)"""
    t = s["t"]
    if t == "lit":
        return wire_plain(s["v"])
    if t == "enum":
        return "(E s%s s%s)" % (hx(s["cls"]), hx(s["v"]))
    if t == "list":
        return "(L" + "".join(" " + spec_wire(x) for x in s["items"]) + ")"
    if t == "call":
        return "(C s%s %s)" % (hx(s["id"]), spec_wire(s["ret"]))
    raise ValueError(t)


def wire_plain(v):
    if v is None:
        return "N"
    if v is True:
        return "T"
    if v is False:
        return "F"
    if isinstance(v, int):
        return "i%d" % v
    if isinstance(v, str):
        return "s" + hx(v)
    raise TypeError("wire_plain: %r" % (v,))


def dict_wire(d):
    return "(D" + "".join(" (s%s %s)" % (hx(k), spec_wire(v)) for k, v in d.items()) + ")"


def build_val(s):
    """real Python value of a value spec"""
    from redun.task import CacheCheckValid, CacheScope
    t = s["t"]
    if t == "lit":
        return s["v"]
    if t == "enum":
        return {"CacheScope": CacheScope, "CacheCheckValid": CacheCheckValid}[s["cls"]](s["v"])
    if t == "list":
        return [build_val(x) for x in s["items"]]
    if t == "call":
        return tasks()["val"](s["id"], build_val(s["ret"]))
    raise ValueError(t)


def build_dict(d):
    return {k: build_val(v) for k, v in d.items()}


def wire_real(v):
    """wire text of a value found in the real objects"""
    from redun.expression import TaskExpression
    if v is None or isinstance(v, (bool, int, str)):
        return wire_plain(v)
    if isinstance(v, enum.Enum):
        return "(E s%s s%s)" % (hx(type(v).__name__), hx(v.value))
    if isinstance(v, (list, tuple)):
        return "(L" + "".join(" " + wire_real(x) for x in v) + ")"
    if isinstance(v, TaskExpression) and v.task_name == NS + ".val" and len(v.args) == 2 and not v.kwargs:
        return "(C s%s %s)" % (hx(v.args[0]), wire_real(v.args[1]))
    return "?" + type(v).__name__


def canon_real_dict(d):
    return sorted((str(k), wire_real(v)) for k, v in d.items())


# ------------------------------------------------------------------ S-expression reader that keeps atoms as text
def parse_sexp(text):
    toks = text.replace("(", " ( ").replace(")", " ) ").split()
    stack = [[]]
    for t in toks:
        if t == "(":
            stack.append([])
        elif t == ")":
            x = stack.pop()
            stack[-1].append(x)
        else:
            stack[-1].append(t)
    if len(stack) != 1:
        raise ValueError("unbalanced")
    return stack[0]


def unparse(x):
    if isinstance(x, str):
        return x
    return "(" + " ".join(unparse(y) for y in x) + ")"


def un_s(atom):
    return bytes.fromhex(atom[1:]).decode("utf-8")


def canon_model_dict(node):
    assert node[0] == "D", node
    return sorted((un_s(kv[0]), unparse(kv[1])) for kv in node[1:])


def canon_model_names(node):
    return sorted(set(un_s(a) for a in node))


# ------------------------------------------------------------------ reference: the documented semantics, in Python
def ref_truthy(s):
    t = s["t"]
    if t == "lit":
        return bool(s["v"])
    if t == "enum":
        return True
    if t == "list":
        return bool(s["items"])
    raise TypeError("expression")


def ref_norm(d):
    """legacy synonym cache -> cache_scope, values of cache_scope / check_valid are enum members"""
    d = dict(d)
    if "cache" in d:
        d["cache_scope"] = enum_spec("CacheScope", "BACKEND" if ref_truthy(d.pop("cache")) else "CSE")
    for key, cls, members in (("cache_scope", "CacheScope", ("NONE", "CSE", "BACKEND")), ("check_valid", "CacheCheckValid", ("full", "shallow"))):
        if key in d:
            v = d[key]
            if v["t"] == "enum" and v["cls"] == cls:
                pass
            elif v["t"] == "lit" and isinstance(v["v"], str) and v["v"] in members:
                d[key] = enum_spec(cls, v["v"])
            else:
                raise ValueError(key)
    return d


def ref_eval(s):
    """wire text of the evaluated value"""
    t = s["t"]
    if t == "call":
        return ref_eval(s["ret"])
    if t == "list":
        return "(L" + "".join(" " + ref_eval(x) for x in s["items"]) + ")"
    return spec_wire(s)


def ref_layers(node):
    """(definition options, call-time options, names demanded exported, names allowed exported) of a tree node"""
    if node["kind"] == "wx":
        call = ref_norm(node["opts"])
        names = set(node["opts"].keys()) | ({"cache_scope"} if "cache" in node["opts"] else set())
        allowed = set(names) | {"cache_scope", "prov"}
        return {}, call, names, allowed
    dfn = dict(node["def"])
    dfn.update(node["defx"])
    dfn = ref_norm(dfn)
    call = {}
    demanded = set(node["defx"].keys())
    allowed = set(node["defx"].keys()) | {"cache_scope", "prov"}
    after_last_options = set()
    for kind, upd in node["ops"]:
        if kind == "R":
            continue        # a pickle round trip of the task value preserves call-time options and exported names
        call.update(upd)
        call = ref_norm(call)
        allowed |= set(upd.keys())
        if kind == "O":
            after_last_options = set()
        else:
            after_last_options |= set(upd.keys())
            if "cache" in after_last_options:
                after_last_options.add("cache_scope")      # export_options(cache=..) exports the option it is stored as
    demanded |= after_last_options
    return dfn, call, demanded, allowed


FALSY_WIRES = {"N", "F", "i0", "s", "(L)"}
SCOPE = {k: "(E s%s s%s)" % (hx("CacheScope"), hx(k)) for k in ("NONE", "CSE", "BACKEND")}


def ref_recording(opts):
    """opts: {key: wire}; recording_provenance"""
    return opts.get("prov", "T") not in FALSY_WIRES


def ref_options(node, parent_rec, use_cache):
    """expected {key: wire} of the job, from the spec layers and the parent's OBSERVED options/exports"""
    dfn, call, _, _ = ref_layers(node)
    out = {k: ref_eval(v) for k, v in dfn.items()}
    if parent_rec is not None:
        for k, w in parent_rec["opts"]:
            if k in parent_rec["exports"]:
                out[k] = w
    for k, v in call.items():
        out[k] = ref_eval(v)
    if not use_cache:
        out["cache_scope"] = SCOPE["CSE"]
    if parent_rec is not None and not ref_recording(dict(parent_rec["opts"])):
        out["prov"] = "F"
    if not ref_recording(out):
        out["cache_scope"] = SCOPE["NONE"]
    return out


# ------------------------------------------------------------------ generators
class Gen:
    def __init__(self, rng, prefix):
        self.rng = rng
        self.prefix = prefix
        self.n = 0

    def ident(self, kind):
        self.n += 1
        return "%s%s%d" % (self.prefix, kind, self.n)

    def plain(self, depth=1):
        rng = self.rng
        r = rng.random()
        if r < 0.12 and depth > 0:
            return list_spec([self.plain(depth - 1) for _ in range(rng.choice([0, 1, 2, 2]))])
        return lit(rng.choice([0, 1, 2, 3, 5, 8, 16, -1, None, True, False, "", "a", "b", "1", "alt", rng.randrange(100)]))

    def value(self, key, allow_call=True, api=False):
        """a value spec suitable for `key`"""
        rng = self.rng
        if key == "executor":
            v = lit(rng.choice(["default", "alt", "alt", None]))
        elif key == "cache":
            v = lit(rng.choice([True, False, True, False, 0, 1, None, ""]))
            if rng.random() < 0.1:
                v = list_spec([])
            if api and rng.random() < 0.15:
                return call_spec(self.ident("e"), lit(True))
            return v
        elif key == "cache_scope":
            if api and rng.random() < 0.3:
                return rng.choice([lit("bogus"), lit("cse"), lit(True), lit(None), enum_spec("CacheCheckValid", "full"), list_spec([]),
                                   call_spec(self.ident("e"), lit("CSE"))])
            m = rng.choice(["NONE", "CSE", "BACKEND"])
            return lit(m) if rng.random() < 0.6 else enum_spec("CacheScope", m)
        elif key == "check_valid":
            if api and rng.random() < 0.3:
                return rng.choice([lit("FULL"), lit(0), enum_spec("CacheScope", "CSE"), call_spec(self.ident("e"), lit("full"))])
            m = rng.choice(["full", "shallow"])
            return lit(m) if rng.random() < 0.6 else enum_spec("CacheCheckValid", m)
        elif key == "prov":
            v = lit(rng.choice([False, False, True, True, True, 0, 1, 1, None, ""]))
        else:
            v = self.plain()
        if allow_call and rng.random() < 0.22:
            r = rng.random()
            if r < 0.6:
                return call_spec(self.ident("e"), v)
            if r < 0.8:
                return call_spec(self.ident("e"), call_spec(self.ident("e"), v))
            if key in GEN_KEYS:
                return list_spec([call_spec(self.ident("e"), v), self.plain(0)])
            return call_spec(self.ident("e"), v)
        return v

    def odict(self, lo, hi, p_special=0.35, allow_call=True, api=False, keys=None):
        rng = self.rng
        d = {}
        for _ in range(rng.randint(lo, hi)):
            if keys is not None:
                k = rng.choice(keys)
            elif rng.random() < p_special:
                k = rng.choice(["executor", "cache", "cache_scope", "check_valid", "prov"])
            else:
                k = rng.choice(GEN_KEYS)
            d[k] = self.value(k, allow_call=allow_call, api=api)
        return d

    def ops(self, api=False):
        rng = self.rng
        r = rng.random()
        if r < 0.25:
            return []
        n = rng.choice([1, 1, 2, 2, 3, 4])
        if rng.random() < 0.8:
            n_x = rng.randint(0, n)
            kinds = ["O"] * (n - n_x) + ["X"] * n_x      # exports last
        else:
            kinds = [rng.choice("OX") for _ in range(n)]
        ops = [[k, self.odict(1, 2, api=api)] for k in kinds]
        r = rng.random()
        if r < 0.3:
            ops.append(["R", {}])                                   # configured task value pickled, then called
        elif r < 0.4:
            ops.insert(rng.randrange(len(ops) + 1), ["R", {}])      # ... or configured further after the round trip
        return ops

    def node(self, depth, budget):
        rng = self.rng
        if depth > 0 and rng.random() < 0.15:
            child = self.node(depth - 1, budget)
            return {"id": "wx(" + child["id"] + ")", "kind": "wx", "opts": self.odict(1, 2, allow_call=rng.random() < 0.5), "children": [child]}
        nid = self.ident("n")
        node = {"id": nid, "kind": "task", "def": self.odict(0, 3, p_special=0.25), "defx": self.odict(1, 2) if rng.random() < 0.2 else {},
                "ops": self.ops(), "children": []}
        if depth > 0:
            for _ in range(rng.choice([0, 1, 1, 2, 2, 3])):
                if budget[0] <= 0:
                    break
                budget[0] -= 1
                node["children"].append(self.node(depth - 1, budget))
        return node


def tree_wire(node):
    if node["kind"] == "wx":
        call = "(W %s)" % dict_wire(node["opts"])
    else:
        call = "(J (K %s %s) (%s))" % (dict_wire(node["def"]), dict_wire(node["defx"]), ops_wire(node["ops"]))
    return "(T s%s %s (%s))" % (hx(node["id"]), call, " ".join(tree_wire(c) for c in node["children"]))


def root_has_call(tree):
    """does the root call carry an expression-valued option (definition, export or call level)?"""
    dicts = [tree["opts"]] if tree["kind"] == "wx" else [tree["def"], tree["defx"]] + [u for _, u in tree["ops"]]
    return any(spec_has_call(v) for d in dicts for v in d.values())


def strip_calls(d):
    """the same options with every expression replaced by the value it evaluates to"""
    def ev(s):
        if s["t"] == "call":
            return ev(s["ret"])
        if s["t"] == "list":
            return list_spec([ev(x) for x in s["items"]])
        return s
    return {k: ev(v) for k, v in d.items()}


def tree_nodes(node, parent=None, depth=0):
    yield node, parent, depth
    for c in node["children"]:
        yield from tree_nodes(c, node, depth + 1)


# ------------------------------------------------------------------ real tasks
_T = {}
_CUR = {"children": {}}


def tasks():
    if _T:
        return _T
    from redun import task

    @task(namespace=NS, name="val", version="1")
    def val(ident, v):
        return v

    _T.update(val=val)
    return _T


def node_body(ident):
    return [build_expr(c) for c in _CUR["children"][ident]]


def define_task(index, node):
    from redun import task
    kw = build_dict(node["def"])
    if node["defx"]:
        kw["export_options"] = build_dict(node["defx"])
    return task(namespace=NS, name="n%d" % index, version="1", source="verif", **kw)(node_body)


def apply_ops(t, ops):
    """O: .options(**d); X: .export_options(**d); R: the task VALUE goes through pickle (Task.__getstate__/__setstate__,
    what a cache hit / a remote executor does to a task returned or passed as a value)"""
    for kind, upd in ops:
        if kind == "R":
            t = pickle.loads(pickle.dumps(t))
        else:
            t = t.options(**build_dict(upd)) if kind == "O" else t.export_options(**build_dict(upd))
    return t


def ops_wire(ops):
    return " ".join("(R)" if k == "R" else "(%s %s)" % (k, dict_wire(d)) for k, d in ops)


def build_expr(node):
    from redun.expression import quote
    from redun.scheduler import with_export_options
    if node["kind"] == "wx":
        return with_export_options(quote(build_expr(node["children"][0])), build_dict(node["opts"]))
    _CUR["children"][node["id"]] = node["children"]
    return apply_ops(_CUR["task"][node["id"]], node["ops"])(node["id"])


def expr_ident(expr):
    if expr.task_name == "redun.with_export_options":
        return "wx(" + expr_ident(expr.args[0]._expr) + ")"
    return expr.args[0]


class Recorder:
    """on_submit hook of the controlled executor"""

    def __init__(self):
        self.rec = {}
        self.dups = []
        self.errors = []

    def __call__(self, job, executor_name):
        from redun.expression import Expression
        from redun.value import iter_nested_value
        try:
            ident = expr_ident(job.expr)
            opts = job.get_options()
            r = dict(opts=canon_real_dict(opts), exports=sorted(str(x) for x in job.export_options),
                     raw=canon_real_dict(job.get_raw_options()),
                     parent=expr_ident(job.parent_job.expr) if job.parent_job else None, executor=executor_name,
                     has_expr=any(isinstance(x, Expression) for x in iter_nested_value(opts)))
            if ident in self.rec:
                self.dups.append(ident)
            self.rec[ident] = r
        except Exception as e:  # noqa: BLE001
            self.errors.append(repr(e)[:300])


def make_ctl(rng, recorder):
    from ctl_sched import Ctl

    class RecCtl(Ctl):
        def on_submit(self, job, executor_name):
            recorder(job, executor_name)
            super().on_submit(job, executor_name)

    return RecCtl(rng=rng)


def run_tree(sched, rng, tree, use_cache):
    """run one generated tree on the real scheduler; returns (status, Recorder)"""
    _CUR["children"] = {}
    _CUR["task"] = {}
    i = 0
    for node, _, _ in tree_nodes(tree):
        if node["kind"] == "task":
            _CUR["task"][node["id"]] = define_task(i, node)
            i += 1
    recorder = Recorder()
    ctl = make_ctl(rng, recorder)
    expr = build_expr(tree)
    status = ctl.run(sched, expr, cache=use_cache)
    return status, recorder


# ------------------------------------------------------------------ corpus
def corpus_trees():
    def n(i, dfn=None, defx=None, ops=None, children=None):
        return {"id": i, "kind": "task", "def": dfn or {}, "defx": defx or {}, "ops": ops or [], "children": children or []}

    def wx(opts, child):
        return {"id": "wx(" + child["id"] + ")", "kind": "wx", "opts": opts, "children": [child]}
    out = []
    # definition < exported < call < forced, one key, at every depth
    out.append((True, n("c0-r", {"memory": lit(1)}, ops=[["X", {"memory": lit(2)}]], children=[
        n("c0-a", {"memory": lit(3)}),
        n("c0-b", {"memory": lit(3)}, ops=[["O", {"memory": lit(4)}]], children=[n("c0-c", {"memory": lit(5)})]),
        n("c0-d", ops=[["X", {"memory": lit(6)}]], children=[n("c0-e"), n("c0-f", ops=[["O", {"memory": call_spec("c0-e1", lit(7))}]])]),
    ])))
    # cache=False run against every way of asking for a cache
    out.append((False, n("c1-r", {"cache": lit(True)}, children=[
        n("c1-a", ops=[["O", {"cache_scope": lit("BACKEND")}]]),
        n("c1-b", ops=[["X", {"cache": lit(True)}]], children=[n("c1-c"), n("c1-d", ops=[["O", {"cache_scope": enum_spec("CacheScope", "BACKEND")}]])]),
        n("c1-e", ops=[["O", {"cache_scope": lit("NONE")}]]),
    ])))
    # prov=False subtree: children cannot switch provenance (or caching) back on
    out.append((True, n("c2-r", children=[
        n("c2-a", ops=[["O", {"prov": lit(False)}]], children=[
            n("c2-b", {"prov": lit(True)}, ops=[["O", {"prov": lit(True), "cache_scope": lit("BACKEND")}]], children=[n("c2-c", ops=[["X", {"prov": lit(True)}]])]),
            n("c2-d")]),
        n("c2-e", {"prov": lit(0)}, children=[n("c2-f")]),
        n("c2-g", ops=[["O", {"prov": call_spec("c2-e1", lit(False))}]], children=[n("c2-h", ops=[["O", {"prov": lit(True)}]])]),
    ])))
    # the finding's witness (root call with an expression-valued option) and the corner that survives (root prov=False, one expression)
    out.append((True, n("c3-r", ops=[["O", {"memory": call_spec("c3-e1", lit(7))}]], children=[n("c3-a")])))
    out.append((True, n("c10-r", ops=[["O", {"memory": call_spec("c10-e1", lit(7)), "prov": lit(False)}]], children=[n("c10-a", ops=[["O", {"prov": lit(True)}]])])))
    out.append((True, n("c11-r", {"x": call_spec("c11-e1", lit("d"))}, ops=[["X", {"y": call_spec("c11-e2", lit("exp"))}]], children=[n("c11-a")])))
    # expression-valued options at every level below the root; the option jobs run under the PARENT (they do not see the job's own exports)
    out.append((True, n("c9-r", {"x": lit("d")}, ops=[["X", {"y": lit("exp")}]], children=[
        n("c9-a", {"memory": call_spec("c9-e3", lit(1)), "x": call_spec("c9-e4", lit(2))}, ops=[["O", {"x": lit(3)}]]),
        n("c9-b", ops=[["X", {"vcpus": call_spec("c9-e5", call_spec("c9-e6", lit(4))), "x": lit("own")}]], children=[n("c9-c")]),
        n("c9-d", ops=[["O", {"memory": list_spec([call_spec("c9-e7", lit(1)), lit(2)]), "executor": call_spec("c9-e8", lit("alt"))}]]),
        n("c9-f", {"prov": call_spec("c9-e9", lit(0))}, children=[n("c9-g", ops=[["O", {"prov": lit(True)}]])]),
    ])))
    # with_export_options, nested, and the synonym cache -> cache_scope
    out.append((True, wx({"cache": lit(False), "memory": lit(9)}, n("c4-r", children=[
        n("c4-a"), wx({"memory": lit(10), "executor": lit("alt")}, n("c4-b", {"memory": lit(1)}, children=[n("c4-c", ops=[["O", {"executor": lit("default")}]])])),
    ]))))
    # the API remark: .options() after .export_options() drops the export; definition-level export of `cache`
    out.append((True, n("c5-r", ops=[["X", {"x": lit(1)}], ["O", {"y": lit(2)}]], children=[n("c5-a")])))
    out.append((True, n("c6-r", {"x": lit(0)}, defx={"cache": lit(False), "memory": lit(3)}, children=[n("c6-a", children=[n("c6-b")])])))
    # a parent that exports cache_scope while provenance is off hands NONE down
    out.append((True, n("c7-r", ops=[["O", {"prov": lit(False)}], ["X", {"cache": lit(True)}]], children=[n("c7-a", {"cache": lit(True)})])))
    # task VALUES that went through pickle before the call: exported names and call-time options must survive; the children
    # define the same keys themselves (definition < exported), grandchildren inherit through
    out.append((True, n("c12-r", children=[
        n("c12-a", {"x": lit("def")}, ops=[["X", {"x": lit("exp"), "memory": lit(7)}], ["R", {}]], children=[
            n("c12-b", {"x": lit("child-def"), "memory": lit(1)}, children=[n("c12-c", {"x": lit("grandchild-def")})])]),
        n("c12-d", ops=[["O", {"y": lit(1)}], ["X", {"vcpus": lit(2)}], ["R", {}], ["X", {"x": lit(3)}], ["R", {}], ["R", {}]], children=[n("c12-e", {"vcpus": lit(0), "x": lit(0)})]),
        n("c12-f", {"memory": lit(1)}, defx={"y": lit("defx")}, ops=[["X", {"cache": lit(False)}], ["R", {}]], children=[n("c12-g", {"cache": lit(True), "y": lit(0)})]),
        n("c12-h", ops=[["X", {"prov": lit(False), "x": call_spec("c12-e1", lit(5))}], ["R", {}]], children=[n("c12-i", {"x": lit(0)}, ops=[["O", {"prov": lit(True)}], ["R", {}]])]),
    ])))
    # an overridden expression-valued option is never evaluated
    out.append((True, n("c8-r", children=[n("c8-a", {"memory": call_spec("c8-e1", lit(1))}, ops=[["O", {"memory": lit(2)}]]),
                                           n("c8-b", ops=[["X", {"memory": lit(3)}]], children=[n("c8-c", {"memory": call_spec("c8-e2", lit(1))})])])))
    return out


def corpus_tasks():
    return [
        ({}, {}, []), ({"cache": lit(True)}, {}, []), ({"cache": lit(False), "cache_scope": lit("NONE")}, {}, []),
        ({"cache_scope": lit("NONE"), "cache": lit(True)}, {}, []), ({"cache_scope": lit("bogus")}, {}, []),
        ({"cache": call_spec("t-e1", lit(1))}, {}, []), ({"cache_scope": call_spec("t-e2", lit("CSE"))}, {}, []),
        ({"check_valid": lit("FULL")}, {}, []), ({"check_valid": lit("shallow"), "prov": lit(False)}, {}, []),
        ({"m": lit(2), "z": lit(3)}, {"cache": lit(False), "m": lit(1)}, []), ({"cache": lit(True)}, {"cache_scope": lit("NONE")}, []),
        ({"memory": lit(1)}, {}, [["X", {"a": lit(1)}], ["O", {"b": lit(2)}]]),
        ({"memory": lit(1)}, {}, [["O", {"prov": lit(0)}], ["X", {"a": lit(1)}], ["X", {"b": lit(1)}]]),
        ({}, {}, [["O", {"cache": lit(0)}], ["X", {"cache": list_spec([])}]]),
        ({}, {}, [["X", {"cache": lit(True)}], ["X", {"x": lit(1)}]]), ({}, {}, [["X", {"x": lit(1)}], ["X", {"cache": lit(True)}]]),
        ({}, {}, [["O", {"cache_scope": lit("CSE")}], ["O", {"cache": lit(True)}]]),
        ({"prov": lit(True)}, {}, [["O", {"x": lit(1)}]]), ({}, {"prov": lit(False)}, [["O", {"x": lit(1)}]]),
        ({}, {}, [["O", {"cache_scope": enum_spec("CacheCheckValid", "full")}]]),
        ({"cache_scope": lit("CSE")}, {}, [["O", {"cache_scope": lit(True)}]]),
        ({"memory": lit(1)}, {}, [["X", {"a": lit(1)}], ["R", {}]]), ({}, {"d": lit(1)}, [["X", {"cache": lit(0)}], ["R", {}], ["X", {"b": lit(2)}], ["R", {}]]),
        ({"prov": lit(True)}, {}, [["R", {}]]), ({}, {}, [["O", {"prov": lit(0)}], ["R", {}], ["O", {"x": lit(1)}], ["R", {}]]),
        ({"x": lit(1)}, {}, [["X", {"x": call_spec("t-e3", lit(2))}], ["R", {}]]),
    ]


# ------------------------------------------------------------------ run
_SAMPLES = {}


def take_sample(kind, limit, cond, sample):
    if cond and _SAMPLES.get(kind, 0) < limit:
        _SAMPLES[kind] = _SAMPLES.get(kind, 0) + 1
        return sample
    return None


def real_task_result(dfn, defx, ops):
    from redun import task
    try:
        kw = build_dict(dfn)
        if defx:
            kw["export_options"] = build_dict(defx)
        t = task(namespace=NS, name="api", version="1", source="verif", **kw)(node_body)
        t = apply_ops(t, ops)
    except (TypeError, ValueError) as e:
        return "!" + type(e).__name__
    return (canon_real_dict(t._task_options_base), canon_real_dict(t._task_options_override), sorted(t._export_options))


def model_task_result(reply):
    if reply.startswith("!"):
        return reply
    p = parse_sexp(reply)[0]
    assert p[0] == "ok", reply
    return (canon_model_dict(p[1]), canon_model_dict(p[2]), canon_model_names(p[3]))


def stream_tasks(ctx):
    gen = Gen(ctx.rng, "t%d-" % ctx.seed)
    cases = list(corpus_tasks())
    for _ in range(ctx.n(1200, 16000)):
        dfn = gen.odict(0, 3, p_special=0.4, api=True)
        defx = gen.odict(1, 2, p_special=0.4, api=True) if ctx.rng.random() < 0.25 else {}
        cases.append((dfn, defx, gen.ops(api=True)))
    reqs = ["task (K %s %s) (%s)" % (dict_wire(d), dict_wire(x), ops_wire(ops)) for d, x, ops in cases]
    replies = ctx.model("C27", reqs)
    for (dfn, defx, ops), reply in zip(cases, replies):
        impl = real_task_result(dfn, defx, ops)
        model = model_task_result(reply)
        case = {"def": dfn, "def_export": defx, "ops": ops}
        ctx.case(key=("t", repr(impl), len(ops)) if ops else None,
                 sample=take_sample("task", 1, not isinstance(impl, str) and len(ops) >= 2 and len(impl[2]) >= 2,
                                    {"task_def": json.dumps(dfn)[:200], "ops": json.dumps(ops)[:300], "override": repr(impl[1])[:200] if not isinstance(impl, str) else impl,
                                     "exported": impl[2] if not isinstance(impl, str) else None}),
                 stream="task-construction", n_ops=len(ops), outcome=impl if isinstance(impl, str) else "ok", def_export=bool(defx))
        if impl != model:
            ctx.mismatch("Task construction (@task / .options / .export_options) differs from model mkTask/applyOps", case=case,
                         model=repr(model)[:600], impl=repr(impl)[:600])


def oracle_job(ctx, case, ident, r, node, prec, use_cache):
    """the property on one real record: r = what the executor saw, node = the generator's spec of the call (None for an
    option-value job), prec = the record of the parent job"""
    if r["has_expr"] or any(w.startswith("?") or "(C " in w for _, w in r["opts"]):
        ctx.violation("C27-expression-in-options", "an unevaluated expression reached the executor in job.get_options()", case=dict(case, job=ident),
                      expected="evaluated values", actual=r["opts"], kind="program")
    node_for_ref = node if (node is not None) else {"kind": "task", "def": {}, "defx": {}, "ops": []}
    want = sorted(ref_options(node_for_ref, prec, use_cache).items())
    if want != r["opts"]:
        got = dict(r["opts"])
        forced_keys = [k for k, w in want if k in ("cache_scope", "prov") and got.get(k) != w]
        sig = "C27-forced-overridden" if forced_keys and all(got.get(k) == w for k, w in want if k not in ("cache_scope", "prov")) and set(got) == set(dict(want)) \
            else "C27-precedence-wrong"
        ctx.violation(sig, "job.get_options() is not definition options < parent's exported options < call-time options < scheduler-imposed "
                           "(cache_scope=CSE without cache, prov=False under a non-recording parent, cache_scope=NONE without provenance)",
                      case=dict(case, job=ident, parent_options=prec["opts"] if prec else None, parent_exports=prec["exports"] if prec else None),
                      expected=want, actual=r["opts"], kind="program")
    dem = set(ref_layers(node)[2]) if (node is not None) else set()
    alw = set(ref_layers(node)[3]) if (node is not None) else set()
    pex = set(prec["exports"]) if prec else set()
    if not (dem | pex) <= set(r["exports"]):
        ctx.violation("C27-exports-not-accumulated", "job.export_options lacks a name exported by the call, the definition or an ancestor",
                      case=dict(case, job=ident), expected=sorted(dem | pex), actual=r["exports"], kind="program")
    if not set(r["exports"]) <= (alw | pex):
        ctx.violation("C27-exports-spurious", "job.export_options has a name that neither the call, the definition nor an ancestor exported",
                      case=dict(case, job=ident), expected="subset of %r" % sorted(alw | pex), actual=r["exports"], kind="program")
    ex_opt = dict(r["opts"]).get("executor", "N")
    want_exec = "default" if ex_opt in FALSY_WIRES else un_s(ex_opt) if ex_opt.startswith("s") else ex_opt
    if r["executor"] != want_exec:
        ctx.violation("C27-executor-not-from-job-options", "the job was submitted to another executor than its options name",
                      case=dict(case, job=ident), expected=want_exec, actual=r["executor"], kind="program")


def check_tree(ctx, sched, tree, use_cache, reply, source):
    """one tree: real run vs model reply vs documented precedence"""
    case = {"use_cache": use_cache, "tree": tree}
    status, recorder = run_tree(sched, ctx.rng, tree, use_cache)
    crashed = status[0] == "err" and isinstance(status[1], KeyError) and root_has_call(tree)
    if reply == "!KeyError" or crashed:
        # finding on the current code: the run of a root call with an expression-valued option dies in record_job_start
        ctx.case(key=("crash", tree["id"]) if crashed else None, stream="job-tree", source=source, outcome="root-option-expression-crash" if crashed else "ok")
        if reply == "!KeyError" and not crashed:
            ctx.expect_known("C27-root-option-expression-crash", False, case=case)
            if not any(k.get("signature") == "C27-root-option-expression-crash" and k.get("status") == "known" for k in ctx.known):
                ctx.mismatch("model predicts the KeyError of a root call with expression-valued options, the real run ends differently", case=case,
                             model=reply, impl=repr(status)[:300])
        elif reply != "!KeyError":
            ctx.mismatch("real run of a root call with expression-valued options raises KeyError, the model does not predict it", case=case,
                         model=reply[:300], impl=repr(status)[:300])
        if crashed:
            ctx.violation("C27-root-option-expression-crash", "Scheduler.run of a call whose options hold an expression (e.g. f.options(memory=g())(..)) "
                          "raises KeyError in record_job_start: each parentless job evaluating such an option claims the pending Execution, the next "
                          "parentless job (the root job) finds it gone - the option is never evaluated",
                          case=case, expected="the option is evaluated before use and the run returns", actual=repr(status)[:300], kind="program")
        return status[0] == "ok"
    if status[0] != "ok":
        ctx.violation("C27-workflow-raises", "a generated option workflow did not finish", case=case, expected="a result",
                      actual=repr(status)[:300], kind="program")
        return False
    if recorder.errors or recorder.dups:
        ctx.mismatch("recorder could not identify a job / a job was submitted twice", case=case, model="one record per job",
                     impl=repr((recorder.errors, recorder.dups))[:400])
        return True
    rec = recorder.rec
    if reply.startswith("!") or not reply.startswith("(ok"):
        ctx.mismatch("model rejects a tree the real code runs", case=case, model=reply, impl="ok")
        return True
    p = parse_sexp(reply)[0]
    model = {}
    for kind, jobs in (("main", p[1]), ("opt", p[2])):
        for j in jobs:
            model[un_s(j[0])] = dict(kind=kind, opts=canon_model_dict(j[1]), exports=canon_model_names(j[2]), raw=canon_model_dict(j[3]))
    if set(model) != set(rec):
        ctx.mismatch("set of jobs reaching the executor differs from the model's tree jobs + option-value jobs", case=case,
                     model=sorted(model), impl=sorted(rec))
        return True
    spec = {n["id"]: (n, par, d) for n, par, d in tree_nodes(tree)}
    # parents: tree jobs under their tree parent, option-value jobs under the PARENT of the job whose option they are
    for ident, r in rec.items():
        m = model[ident]
        node, par, depth = spec.get(ident, (None, None, None))
        is_main = node is not None
        prec = rec[r["parent"]] if r["parent"] is not None else None
        if is_main:
            want_parent = par["id"] if par else None
            if r["parent"] != want_parent:
                ctx.mismatch("job has a different parent than in the generated tree", case=case, model=want_parent, impl=r["parent"])
                continue
        layers = 0
        if is_main:
            dfn, call, demanded, allowed = ref_layers(node)
            inh = {k for k, _ in (prec["opts"] if prec else []) if k in (prec["exports"] if prec else [])}
            keys = set(dfn) | set(call) | inh
            layers = max([(k in dfn) + (k in call) + (k in inh) for k in keys] or [0])
        nontrivial = (r["parent"] is not None) or layers >= 2
        ctx.case(key=("j", repr(r["opts"]), repr(r["exports"]), repr(r["raw"])) if nontrivial else None,
                 sample=take_sample("job", 4, is_main and depth >= 2 and layers >= 3 and len(r["opts"]) >= 3,
                                    {"job": ident, "depth": depth, "run_cache": use_cache, "node": json.dumps({k: node[k] for k in node if k != "children"})[:400] if node else None,
                                     "parent_exports": prec["exports"] if prec else None, "get_options": [[k, w] for k, w in r["opts"]], "export_options": r["exports"]}),
                 stream="job-tree", source=source, job_kind=m["kind"] if not (is_main and node["kind"] == "wx") else "with_export_options",
                 depth=depth if is_main else "option-value", run_cache=use_cache, max_layers_on_one_key=layers,
                 forced_prov=bool(prec and not ref_recording(dict(prec["opts"]))), recording=ref_recording(dict(r["opts"])),
                 expr_in_raw=any("(C " in w for _, w in r["raw"]), executor=r["executor"])
        # ---- correspondence
        for field, what in (("opts", "job.get_options()"), ("exports", "job.export_options"), ("raw", "job.get_raw_options()")):
            if m[field] != r[field]:
                ctx.mismatch("%s differs from the model (%s job)" % (what, m["kind"]), case=dict(case, job=ident), model=m[field], impl=r[field])
        # ---- the property on the real records
        oracle_job(ctx, case, ident, r, node if is_main else None, prec, use_cache)
    return True


def stream_trees(ctx, only=None):
    from ctl_sched import make_scheduler
    rng = ctx.rng
    cases = [(u, t, "corpus") for u, t in corpus_trees()] if only is None else only
    if only is None:
        for i in range(ctx.n(220, 2400)):
            gen = Gen(rng, "g%d-%d-" % (ctx.seed, i))
            depth = rng.choice([1, 2, 2, 3, 3, 4])
            tree = gen.node(depth, [rng.choice([4, 6, 8, 12])])
            if root_has_call(tree) and rng.random() < 0.9:
                # (on a tree without the root-option fix such a run cannot start: keep most roots expression-free)
                if tree["kind"] == "wx":
                    tree["opts"] = strip_calls(tree["opts"])
                else:
                    tree["def"], tree["defx"] = strip_calls(tree["def"]), strip_calls(tree["defx"])
                    tree["ops"] = [[k, strip_calls(u)] for k, u in tree["ops"]]
            cases.append((rng.random() < 0.65, tree, "generated"))
    reqs = ["tree %s %s" % ("T" if u else "F", tree_wire(t)) for u, t, _ in cases]
    replies = ctx.model("C27", reqs)
    log = logging.getLogger("redun")
    old = log.level
    log.setLevel(logging.CRITICAL)
    try:
        sched, ok = None, True
        for i, ((u, t, source), reply) in enumerate(zip(cases, replies)):
            if i % 60 == 0 or not ok:
                sched = make_scheduler(None, extra_executors=("alt",))   # (a failed run can leave the backend session unusable)
            ok = check_tree(ctx, sched, t, u, reply, source)
    finally:
        log.setLevel(old)


# ------------------------------------------------------------------ end to end: a configured Task VALUE served from the cache
_E2E = {}


def e2e_tasks():
    """main(i) -> apply(i, choose(i, flavour)) ; choose (cacheable) RETURNS the configured task `mid`; apply (cache=False)
    calls it; mid -> reader.  In a second execution on the same backend choose is a cache hit, so the task value that
    apply calls was deserialized from the backend."""
    if _E2E:
        return _E2E
    from redun import task

    @task(namespace=NS, name="e2e_reader", version="1", cache=False, x="reader-def", memory=1)
    def reader(ident):
        return ident

    @task(namespace=NS, name="e2e_mid", version="1", cache=False, x="mid-def")
    def mid(ident):
        return [reader(ident + "/r")]

    @task(namespace=NS, name="e2e_choose", version="1")
    def choose(ident, flavour):
        return apply_ops(mid, _E2E["ops"][flavour])

    @task(namespace=NS, name="e2e_apply", version="1", cache=False)
    def apply(ident, step):
        return step(ident + "/m")

    @task(namespace=NS, name="e2e_main", version="1", cache=False)
    def main(ident, flavour):
        return apply(ident + "/a", choose("choose-" + flavour, flavour))

    _E2E.update(reader=reader, mid=mid, choose=choose, apply=apply, main=main, ops={})
    return _E2E


def stream_e2e(ctx):
    from ctl_sched import make_scheduler
    T = e2e_tasks()
    rng = ctx.rng
    gen = Gen(rng, "e%d-" % ctx.seed)
    chains = [[["X", {"x": lit("exp")}]], [["O", {"y": lit(1)}], ["X", {"x": lit("exp"), "memory": lit(9)}]],
              [["X", {"cache": lit(False)}], ["X", {"x": lit("exp2")}]], [["X", {"prov": lit(False)}]], [["X", {"x": lit(1)}], ["O", {"y": lit(2)}]]]
    for _ in range(ctx.n(6, 60)):
        ops = [[k, strip_calls(u)] for k, u in gen.ops() if k != "R"]
        chains.append(ops or [["X", {"x": lit("g")}]])
    log = logging.getLogger("redun")
    old = log.level
    log.setLevel(logging.CRITICAL)
    try:
        sched = make_scheduler(None, extra_executors=("alt",))
        for ci, ops in enumerate(chains):
            flavour = "f%d-%d" % (ctx.seed, ci)
            T["ops"][flavour] = ops
            nodes = {"m": {"kind": "task", "def": {"cache": lit(False), "x": lit("mid-def")}, "defx": {}, "ops": ops},
                     "r": {"kind": "task", "def": {"cache": lit(False), "x": lit("reader-def"), "memory": lit(1)}, "defx": {}, "ops": []},
                     "a": {"kind": "task", "def": {"cache": lit(False)}, "defx": {}, "ops": []}}
            case = {"e2e": "cached task returns mid" + "".join(".%s(%s)" % ("options" if k == "O" else "export_options", json.dumps(u)) for k, u in ops)
                    + "; a later execution calls it", "ops": ops}
            recs = []
            for execution in (1, 2):
                ident = "%s-x%d" % (flavour, execution)
                recorder = Recorder()
                ctl = make_ctl(rng, recorder)
                status = ctl.run(sched, T["main"](ident, flavour))
                if status[0] != "ok" or recorder.errors:
                    ctx.violation("C27-workflow-raises", "the task-value workflow did not finish", case=dict(case, execution=execution), expected="a result",
                                  actual=repr((status, recorder.errors))[:300], kind="program")
                    sched = make_scheduler(None, extra_executors=("alt",))
                    break
                rec = recorder.rec
                served_from_cache = ("choose-" + flavour) not in rec
                if (execution == 2) != served_from_cache:
                    ctx.note("e2e: choose was %s in execution %d for %s" % ("cached" if served_from_cache else "run", execution, json.dumps(ops)[:200]))
                by = {"a": rec.get(ident + "/a"), "m": rec.get(ident + "/a/m"), "r": rec.get(ident + "/a/m/r")}
                if None in by.values():
                    ctx.mismatch("task-value workflow: a job did not reach the executor", case=dict(case, execution=execution), model=sorted(by), impl=sorted(rec))
                    break
                for name, par in (("a", None), ("m", "a"), ("r", "m")):
                    r = by[name]
                    prec = by[par] if par else rec.get(r["parent"])
                    ctx.case(key=("e2e", repr(ops), execution, name) if name != "a" else None, stream="task-value-from-cache", execution=execution,
                             job=name, choose_cached=served_from_cache,
                             sample=take_sample("e2e", 1, execution == 2 and name == "r", {"workflow": case["e2e"][:300], "execution": execution,
                                                                                          "reader_options": [[k, w] for k, w in r["opts"]],
                                                                                          "mid_exports": by["m"]["exports"]}))
                    oracle_job(ctx, dict(case, execution=execution, choose_cached=served_from_cache), name, r, nodes[name], prec, True)
                recs.append({k: (v["opts"], v["exports"]) for k, v in by.items()})
            if len(recs) == 2 and recs[0] != recs[1]:
                ctx.violation("C27-task-value-from-cache-differs", "jobs of a task value served from the cache run with other options / exported names than "
                              "in the execution that computed the value", case=case, expected=recs[0], actual=recs[1], kind="program")
    finally:
        log.setLevel(old)


def run(ctx):
    tasks()
    stream_tasks(ctx)
    stream_trees(ctx)
    stream_e2e(ctx)


def replay(ctx, case):
    c = case.get("case") or {}
    print("replay case:", json.dumps(c, default=repr)[:3000])
    tasks()
    if isinstance(c, dict) and "e2e" in c:
        stream_e2e(ctx)
    elif isinstance(c, dict) and "tree" in c:
        stream_trees(ctx, only=[(bool(c.get("use_cache", True)), c["tree"], "replay")])
    elif isinstance(c, dict) and "ops" in c:
        run(ctx)
    else:
        run(ctx)
