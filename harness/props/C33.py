"""C33 — status filters agree with displayed statuses.
Filter terms and display logic are REGENERATED from /repo (harness/translate_status.py ->
lean/RedunModel/Generated/Status.lean) on every run; theorems: lean/RedunModel/Props/C33.lean."""
import itertools
import logging
import os
import shutil
import sqlite3
import tempfile
import time

import translate_status
from core import unsx

ID = "C33"
READY = True          # on a /repo that carries harness/findings_proposed/C33-cached-filter.fix.diff (see final report)
LEAN_MODULES = ["RedunModel.Props.C33"]
LEAN_DRIVERS = ["C33"]
GENERATORS = [translate_status.generate]
THEOREMS = [
    "RedunModel.C33.job_filter_iff_display",
    "RedunModel.C33.job_filter_multi",
    "RedunModel.C33.exec_filter_multi",
    "RedunModel.C33.recorder_rows_recinv",
    "RedunModel.C33.query_jobs_eq_displayed",
    "RedunModel.C33.query_execs_eq_displayed",
    "RedunModel.C33.cached_failed_row_consistent",
]
TRUSTED = [
    "the translator harness/translate_status.py (Python ast -> Lean terms; raises on syntax outside its small grammar) and the "
    "hand-written semantics of those terms (SQL three-valued logic, outer/inner join row survival, Python truthiness) in "
    "Model/StatusSql.lean and Model/Status.lean; both are exercised against real sqlite + SQLAlchemy on all 20 row shapes",
    "modelled, not verified: sqlite/SQLAlchemy evaluation of IS / = / != / AND / OR with NULLs, DISTINCT, foreign keys; "
    "the ORM's lazy loading of Job.call_node / CallNode.value",
]
ASSUMPTIONS = [
    "statuses are read from freshly loaded ORM objects (Job._status / Execution._status are per-object caches)",
    "execution filters are checked for the documented execution statuses RUNNING, FAILED, DONE (--exec-status); CACHED is not an "
    "execution status",
    "the oracle is demanded for job rows the recorder can produce (RecInv, proved an invariant of record_job_start/record_job_end in "
    "the model and re-checked on every real-run database); other row shapes are used for the model/implementation tie only",
    "one value type name marks errors (redun.ErrorValue), the same in query.py and calc_status (checked by the translator)",
    "every job / execution row written by the REAL recorder (final databases and kill points) is judged, whatever its shape; a row "
    "outside RecInv is in addition reported as a correspondence break (the recorder model no longer describes the code)",
]
RULE = ("databases of two kinds: (a) real scheduler runs of generated workflows (done, failed, caught-failed, CSE-collapsed twins of "
        "succeeding and of failing jobs, cache hits on a second execution incl. ultimate-reduction hits of check_valid=shallow tasks and CSE "
        "hits on finished jobs, failing siblings, failing tasks whose ErrorValue exceeds the backend's max_value_size (leaf / nested, caught / "
        "uncaught), workflows aborted by a scheduler task while hits are in flight, jobs and whole "
        "executions whose end is never recorded), observed after EVERY writing commit of the real backend (kill points: the state a "
        "killed process leaves; a copy is examined whenever a row shape not yet examined in the run appears), then PARTIALLY TRANSFERRED "
        "(only later executions, e.g. the cache hits, synced into a fresh repository through RedunClient._sync_records; every row of the "
        "destination is judged) and "
        "(b) raw sqlite rows covering every combination of end_time NULL x cached x {no call_hash, dangling call_hash, call node with "
        "missing value, ErrorValue, other value} with executions on top; for every database all 15 non-empty status subsets (plus "
        "permuted/duplicated lists and the empty list) are filtered for jobs and executions through CallGraphQuery and compared with "
        "the model and with the displayed statuses. distinct = distinct (row-shape multiset, kind) databases; none is trivial")
LEVEL_TEXT = ("Full strength on the repaired code: query_jobs_eq_displayed / query_execs_eq_displayed (after ANY recorder history, "
              "filtering by ANY non-empty status list returns exactly the records whose displayed status is in the list), from "
              "job_filter_iff_display / job_filter_multi / exec_filter_multi (finite tables over all row shapes, closed by decide over "
              "the REGENERATED filter terms) and recorder_rows_recinv (invariant of the recorder). cached_failed_row_consistent is the "
              "former counter-example (DESIGN F11) as a regression theorem. Tied to the code by the translator (terms regenerated from "
              "source every run) and by differential runs against real sqlite/SQLAlchemy queries and ORM status properties.")
LEVEL_NOTE = ("On a tree without the CACHED-term fix the table theorem does not compile (proof break) and the oracle reports the CSE-failed "
              "twin. SQL engine semantics and ORM loading are modelled (trusted base); PostgreSQL is not exercised; stale per-object "
              "status caches are outside the model.")
TECHNIQUE = "source-to-Lean translation of the filter/display logic + decide over the finite row-shape table + recorder invariant proof + differential correspondence"

STATUSES = ["RUNNING", "CACHED", "FAILED", "DONE"]
EXEC_DOMAIN = ["RUNNING", "FAILED", "DONE"]
ERR = "redun.ErrorValue"
_TASKS = None


def _tasks():
    """Workflow tasks (registered once per process)."""
    global _TASKS
    if _TASKS is not None:
        return _TASKS
    from redun import catch, task
    from redun.scheduler import scheduler_task

    @task(namespace="c33v")
    def ok(x):
        return x + 1

    @task(namespace="c33v", check_valid="shallow")
    def inc_sh(x):
        # a backend hit on this task is an ultimate reduction: the cache hit already knows its CallNode
        return x + 1

    @task(namespace="c33v")
    def again(y, x):
        # ok(x) already finished in this execution (it produced y): the new call is a CSE hit on a finished job
        return ok(x)

    @scheduler_task(namespace="c33v")
    def kill(scheduler, parent_job, sexpr, x):
        # abort the whole workflow (the device of redun/tests/test_db_query.py::test_status): jobs that are in
        # flight never get their end recorded
        scheduler.reject_job(None, RuntimeError("workflow killed"))
        # a scheduler task must return a promise (a second evaluation of an equal expression chains on it); it never settles
        from redun.promise import Promise
        return Promise()

    @task(namespace="c33v")
    def slow_ok(x):
        time.sleep(0.04)
        return x + 1

    @task(namespace="c33v")
    def boom(x):
        raise ValueError(x)

    @task(namespace="c33v")
    def slow_boom(x):
        time.sleep(0.04)
        raise ValueError(x)

    @task(namespace="c33v")
    def bigboom(x):
        # the serialized ErrorValue (10 kB message) exceeds the backend's max_value_size (MAX_VALUE_SIZE below)
        raise ValueError("E%d:" % x + "x" * 10000)

    @task(namespace="c33v")
    def bignest(x):
        return bigboom(x)

    @task(namespace="c33v")
    def wa(kind, x):
        return slow_ok(x) if kind == "ok" else slow_boom(x)

    @task(namespace="c33v")
    def wb(kind, x):
        return slow_ok(x) if kind == "ok" else slow_boom(x)

    @task(namespace="c33v")
    def hang(x):
        return x

    @task(namespace="c33v")
    def recover(e):
        return -1

    @task(namespace="c33v")
    def gather(items):
        return items

    @task(namespace="c33v")
    def main(spec, salt):
        items = []
        for kind, x, caught in spec:
            if kind == "ok":
                es = [ok(x)]
            elif kind == "boom":
                es = [boom(x)]
            elif kind == "twin_ok":
                es = [wa("ok", x), wb("ok", x)]
            elif kind == "twin_boom":
                es = [wa("boom", x), wb("boom", x)]
            elif kind == "shallow":
                es = [inc_sh(x)]
            elif kind == "cse_done":
                es = [again(ok(x), x)]
            elif kind == "bigboom":
                es = [bigboom(x)]
            elif kind == "bignest":
                es = [bignest(x)]
            elif kind == "kill":
                es = [kill(x)]
            else:
                es = [hang(x)]
            # every catch guards exactly one failing sub-expression
            items.extend(catch(e, ValueError, recover) if caught else e for e in es)
        return gather(items)

    _TASKS = dict(main=main)
    return _TASKS


def gen_spec(rng):
    n = rng.choice([1, 2, 2, 3, 4])
    spec = []
    for _ in range(n):
        kind = rng.choice(["ok", "ok", "boom", "twin_ok", "twin_boom", "twin_boom", "hang", "shallow", "shallow", "cse_done",
                           "cse_done", "kill", "bigboom", "bignest"])
        spec.append((kind, rng.randrange(3), rng.random() < 0.7))
    return tuple(spec)


MAX_VALUE_SIZE = 4000      # [backend] max_value_size of every real-run database: ordinary values and errors are < 1 kB


def run_backend(path):
    from redun.backends.db import RedunBackendDb
    from redun.config import create_config_section
    backend = RedunBackendDb(db_uri="sqlite:///" + path, config=create_config_section({"max_value_size": str(MAX_VALUE_SIZE)}))
    backend.load(migrate=False)
    return backend


SHAPE_SQL = """
select distinct j.end_time is null, j.cached, j.call_hash is null, c.call_hash is null, v.value_hash is null,
       coalesce(v.type = ?, 0), exists (select 1 from execution e where e.job_id = j.id)
from job j left join call_node c on c.call_hash = j.call_hash left join value v on v.value_hash = c.value_hash
"""


class KillPoints:
    """Every durable state a kill of the recording process can leave behind is the database right after one of its
    commits. After every writing commit of the real backend the row shapes present are read (one query); when a shape
    (or a shape of an execution's root job) shows up that no database examined so far in this run contains, the sqlite
    file is copied and examined like a final database."""

    def __init__(self, backend, path, seen, keep_dir):
        from ctl_db import CommitTap
        self.path, self.seen, self.keep_dir, self.snaps, self.commits = path, seen, keep_dir, [], 0
        self.con = sqlite3.connect(self.path)
        self.tap = CommitTap(backend, on_commit=self.on_commit)

    def on_commit(self, n):
        self.commits += 1
        shapes = set(self.con.execute(SHAPE_SQL, (ERR,)).fetchall())
        self.con.rollback()         # end the read transaction: no lock is held between commits
        new = shapes - self.seen
        if new:
            self.seen |= new
            p = os.path.join(self.keep_dir, "kill_%s_%d.db" % (os.path.basename(self.path), n))
            shutil.copyfile(self.path, p)
            self.snaps.append((n, p))

    def remove(self):
        self.tap.remove()
        self.con.close()


def partial_transfer(src_path, dest_path, keep):
    """`redun push/pull <execution ids>`: sync the executions selected by `keep` (indices in start order) from the
    database at src_path into the fresh repository at dest_path through the real RedunClient._sync_records
    (iter_record_ids -> get_records -> put_records). Returns the synced indices (None: nothing to sync)."""
    from redun.cli import RedunClient
    con = sqlite3.connect(src_path)
    ids = [r[0] for r in con.execute("select e.id from execution e join job j on j.id = e.job_id order by j.start_time, e.id")]
    con.close()
    idx = [i for i in keep if i < len(ids)]
    if not idx:
        return None
    src, dest = run_backend(src_path), run_backend(dest_path)
    try:
        RedunClient._sync_records(None, src, dest, [ids[i] for i in idx])
    finally:
        for b in (src, dest):
            b.session.close()
            b.engine.dispose()
    return idx


def real_run_db(rng, path, seen=None, keep_dir=None, fixed_runs=None):
    """Populate the database at `path` by real scheduler runs. Returns (description, kill-point snapshots)."""
    from redun import Scheduler
    from redun.backends.db import RedunBackendDb
    from redun.backends.db import RedunDatabaseError
    main = _tasks()["main"]
    backend = run_backend(path)
    kp = KillPoints(backend, path, seen, keep_dir) if seen is not None else None
    orig_end = backend.record_job_end
    crash_root = [False]

    def record_job_end(job, *a, **k):
        # simulated crash of the recording process before the end of the job is written
        if job.task.name == "hang" or (crash_root[0] and job.task.name == "main"):
            return None
        return orig_end(job, *a, **k)

    backend.record_job_end = record_job_end
    desc = []
    try:
        if fixed_runs is not None:
            runs = list(fixed_runs)
        else:
            specs = [gen_spec(rng) for _ in range(rng.choice([1, 2, 2, 3]))]
            runs = list(specs)
            if rng.random() < 0.7:
                runs.append(rng.choice(specs))          # repeat: cache hits
        for i, spec in enumerate(runs):
            if isinstance(spec, dict):          # replay of a recorded description
                crash_root[0], salt, spec = spec["crash_root"], spec["salt"], tuple(tuple(x) for x in spec["spec"])
            else:
                crash_root[0] = fixed_runs is None and rng.random() < 0.15
                salt = 0 if (fixed_runs is not None or rng.random() < 0.8) else i
            try:
                # a fresh scheduler per execution: one that raised may still have events of in-flight jobs queued
                Scheduler(backend=backend).run(main(spec, salt))
                out = "ok"
            except (ValueError, RuntimeError) as e:
                out = type(e).__name__
            except RedunDatabaseError as e:
                # an error too large to store: the unchanged scheduler dies with the database error (jobs stay RUNNING)
                out = type(e).__name__
                backend.session.rollback()
            desc.append([list(map(list, spec)), salt, crash_root[0], out])
    finally:
        backend.record_job_end = orig_end
        if kp is not None:
            kp.remove()
        backend.session.close()
        backend.engine.dispose()
    return desc, (kp.snaps if kp else []), (kp.commits if kp else 0)


TS = "2024-01-02 03:04:05.678901"


def raw_shape_db(rng, path, exhaustive=False):
    """Insert arbitrary row shapes with sqlite3 (foreign keys not enforced on this connection)."""
    con = sqlite3.connect(path)
    cur = con.cursor()
    cur.execute("insert into task (hash, name, namespace, source) values ('t0', 'f', 'raw', 'def f(): pass')")
    vals = [("v0", ERR), ("v1", "builtins.int"), ("v2", ERR), ("v3", "redun.File"), ("v4", "redun.ErrorValueX"), ("v5", "")]
    for vh, ty in vals:
        cur.execute("insert into value (value_hash, type, format, value) values (?, ?, 'application/python-pickle', ?)", (vh, ty, b""))
    calls = [("c0", "v0"), ("c1", "v1"), ("c2", "v2"), ("c3", "v3"), ("c4", "v4"), ("c5", "v5"), ("c6", "vMISSING"), ("c7", "vMISSING2")]
    for ch, vh in calls:
        cur.execute("insert into call_node (call_hash, task_name, task_hash, args_hash, value_hash, timestamp) values (?, 'raw.f', 't0', 'a', ?, ?)",
                    (ch, vh, TS))
    links = {"noCall": [None], "danglingCall": ["cMISSING"], "danglingValue": ["c6", "c7"], "error": ["c0", "c2"],
             "other": ["c1", "c3", "c4", "c5"]}
    shapes = []
    if exhaustive:
        for e in (True, False):
            for c in (True, False):
                for l in links:
                    shapes.append((e, c, l))
    else:
        for _ in range(rng.choice([3, 6, 10, 16])):
            if rng.random() < 0.6:          # recorder-producible
                l = rng.choice(["noCall", "error", "other", "other"])
                shapes.append((True, False, l) if l == "noCall" else (False, rng.random() < 0.5, l))
            else:
                shapes.append((rng.random() < 0.5, rng.random() < 0.5, rng.choice(list(links))))
    for i, (e, c, l) in enumerate(shapes):
        cur.execute("insert into job (id, start_time, end_time, task_hash, cached, call_hash, parent_id, execution_id) "
                    "values (?, ?, ?, 't0', ?, ?, NULL, ?)",
                    ("j%03d" % i, TS, None if e else TS, 1 if c else 0, rng.choice(links[l]), "e%03d" % i))
    nex = 0
    for i in range(len(shapes)):
        if exhaustive or rng.random() < 0.7:
            cur.execute("insert into execution (id, args, job_id, updated_time) values (?, '[]', ?, NULL)", ("e%03d" % i, "j%03d" % i))
            nex += 1
    if rng.random() < 0.3 or exhaustive:
        cur.execute("insert into execution (id, args, job_id, updated_time) values ('eORPHAN', '[]', 'jMISSING', NULL)")
    con.commit()
    con.close()
    return [list(s) for s in shapes]


def abstract_db(path):
    con = sqlite3.connect(path)
    jobs = con.execute("select id, end_time is null, cached, call_hash from job order by rowid").fetchall()
    calls = con.execute("select call_hash, value_hash from call_node order by rowid").fetchall()
    values = con.execute("select value_hash, type = ? from value order by rowid", (ERR,)).fetchall()
    execs = con.execute("select id, job_id from execution order by rowid").fetchall()
    con.close()
    return jobs, calls, values, execs


def status_lists(rng, full=True):
    if not full:        # kill-point snapshots: every single status, one list
        return [[x] for x in STATUSES] + [["RUNNING", "DONE"], ["RUNNING", "FAILED", "DONE"]]
    subsets = [list(c) for n in range(1, 5) for c in itertools.combinations(STATUSES, n)]
    extra = []
    for _ in range(3):
        l = [rng.choice(STATUSES) for _ in range(rng.choice([2, 3, 5]))]
        extra.append(l)
    return subsets + extra + [[]]


def model_line(adb, qs):
    jobs, calls, values, execs = adb
    num = {}

    def n(kind, s):
        return num.setdefault((kind, s), len(num))

    tf = lambda b: "T" if b else "F"
    js = " ".join("(i%d %s %s %s)" % (n("j", j), tf(e), tf(c), "N" if ch is None else "i%d" % n("c", ch)) for j, e, c, ch in jobs)
    cs = " ".join("(i%d i%d)" % (n("c", ch), n("v", vh)) for ch, vh in calls)
    vs = " ".join("(i%d %s)" % (n("v", vh), tf(t)) for vh, t in values)
    es = " ".join("(i%d i%d)" % (n("e", e), n("j", j)) for e, j in execs)
    q = " ".join("(" + " ".join(ss) + ")" for ss in qs)
    inv = {v: k[1] for k, v in num.items()}
    return "db (jobs %s) (calls %s) (values %s) (execs %s) (jq %s) (eq %s)" % (js, cs, vs, es, q, q), inv


def real_queries(path, qs):
    """Filter results and displayed statuses from the real code, on a fresh backend/session."""
    from redun.backends.db import Execution, Job, RedunBackendDb
    from redun.backends.db.query import CallGraphQuery
    backend = RedunBackendDb(db_uri="sqlite:///" + path)
    backend.load(migrate=False)
    session = backend.session
    out = {"jq": [], "eq": [], "disp": {}, "edisp": {}, "dups": []}
    try:
        for kind, meth in (("jq", "filter_job_statuses"), ("eq", "filter_execution_statuses")):
            for ss in qs:
                try:
                    recs = list(getattr(CallGraphQuery(session), meth)(list(ss)).all())
                    ids = [r.id for r in recs]
                    if len(set(ids)) != len(ids):
                        out["dups"].append((kind, ss))
                    out[kind].append(sorted(set(ids)))
                except AssertionError:
                    out[kind].append("!AssertionError")
        session.expunge_all()
        for cls, key in ((Job, "disp"), (Execution, "edisp")):
            for r in session.query(cls).all():
                try:
                    out[key][r.id] = r.status
                except AttributeError:
                    out[key][r.id] = "!AttributeError"
    finally:
        session.close()
        backend.engine.dispose()
    return out


def shape_of(adb):
    """Row shape (endNull, cached, link) per job id, computed independently of the model (for RecInv and tags)."""
    jobs, calls, values, execs = adb
    cd, vd = {}, {}
    for ch, vh in calls:
        cd.setdefault(ch, vh)
    for vh, t in values:
        vd.setdefault(vh, bool(t))
    out = {}
    for j, e, c, ch in jobs:
        if ch is None:
            l = "noCall"
        elif ch not in cd:
            l = "danglingCall"
        elif cd[ch] not in vd:
            l = "danglingValue"
        else:
            l = "error" if vd[cd[ch]] else "other"
        out[j] = (bool(e), bool(c), l)
    return out


def rec_inv(shape):
    e, c, l = shape
    return (e == (l == "noCall")) and (not e or not c) and l in ("noCall", "error", "other")


def check_db(ctx, kind, desc, path, reply_for, full=True):
    adb = abstract_db(path)
    qs = status_lists(ctx.rng, full)
    line, inv = model_line(adb, qs)
    real = real_queries(path, qs)
    shapes = shape_of(adb)
    case = {"kind": kind, "desc": desc, "jobs": [list(x) for x in adb[0]], "calls": adb[1], "values": adb[2], "execs": adb[3]}
    return dict(line=line, inv=inv, real=real, shapes=shapes, case=case, qs=qs, adb=adb, kind=kind)


def compare_and_judge(ctx, d, reply):
    real, inv, shapes, case, qs, adb = d["real"], d["inv"], d["shapes"], d["case"], d["qs"], d["adb"]
    parts = unsx(reply)
    if len(parts) != 4:
        ctx.mismatch("model reply malformed", case, reply[:300], "")
        return
    m = {str(p[0]): p[1:] for p in parts}
    # ---- correspondence: model vs implementation
    for key in ("jq", "eq"):
        for ss, mr, rr in zip(qs, m[key], real[key]):
            mm = str(mr) if not isinstance(mr, list) else sorted(inv[x] for x in mr)
            if mm != rr:
                ctx.mismatch("%s filter result differs for %s" % ("job" if key == "jq" else "execution", ",".join(ss) or "[]"),
                             case, mm, rr)
    for key in ("disp", "edisp"):
        md = {inv[p[0]]: str(p[1]) for p in m[key]}
        if md != real[key]:
            diff = {k: (md.get(k), real[key].get(k)) for k in set(md) | set(real[key]) if md.get(k) != real[key].get(k)}
            ctx.mismatch("displayed %s statuses differ" % ("job" if key == "disp" else "execution"), case, repr(diff)[:500], "")
    if real["dups"]:
        ctx.mismatch("query returned duplicate records", case, "distinct", repr(real["dups"])[:300])
    # ---- property oracle on the implementation (recorder-producible rows only)
    from_recorder = d["kind"] in ("real-run", "kill-point", "transfer")
    if from_recorder:
        bad = {j: s for j, s in shapes.items() if not rec_inv(s)}
        if bad:
            ctx.mismatch("the real recorder produced a job row outside RecInv (model invariant does not describe the code)", case,
                         "RecInv", repr(bad)[:400])
    # rows written by the real recorder are all judged; hand-built rows only if the recorder can produce their shape
    ok_jobs = [j for j, s in shapes.items() if from_recorder or rec_inv(s)]
    single_bad = set()
    for multi in (False, True):         # single statuses first; a list is reported only if no single status explains it
        for ss, rr in zip(qs, real["jq"]):
            if not ss or rr == "!AssertionError" or (len(set(ss)) > 1) != multi:
                continue
            for j in ok_jobs:
                disp = real["disp"].get(j)
                if (j in rr) == (disp in ss):
                    continue
                if not multi:
                    single_bad.add((j, ss[0]))
                    sig = "C33-%s-filter-%s-job-displayed-%s" % (ss[0], "returns" if j in rr else "misses", disp)
                elif any((j, s) in single_bad for s in ss):
                    continue
                else:
                    sig = "C33-status-list-filter-is-not-the-union-of-its-statuses"
                ctx.violation(sig, "job status filter %s %s a job whose displayed status is %s (row shape end_time NULL=%s cached=%s result=%s)"
                              % (",".join(ss), "returns" if j in rr else "does not return", disp, *shapes[j]),
                              dict(case, filter=ss, job=j), expected=disp in ss, actual=j in rr, kind="history")
    job_of = dict(adb[3])
    esingle_bad = set()
    for multi in (False, True):
        for ss, rr in zip(qs, real["eq"]):
            if not ss or rr == "!AssertionError" or not set(ss) <= set(EXEC_DOMAIN) or (len(set(ss)) > 1) != multi:
                continue
            for e, j in adb[3]:
                if j not in shapes or not (from_recorder or rec_inv(shapes[j])):
                    continue
                disp = real["edisp"].get(e)
                if (e in rr) == (disp in ss):
                    continue
                if not multi:
                    esingle_bad.add((e, ss[0]))
                    sig = "C33-exec-%s-filter-%s-execution-displayed-%s" % (ss[0], "returns" if e in rr else "misses", disp)
                elif any((e, s) in esingle_bad for s in ss):
                    continue
                else:
                    sig = "C33-exec-status-list-filter-is-not-the-union-of-its-statuses"
                ctx.violation(sig, "execution status filter %s %s an execution displayed %s (root job row end_time NULL=%s cached=%s result=%s)"
                              % (",".join(ss), "returns" if e in rr else "does not return", disp, *shapes[j]),
                              dict(case, filter=ss, execution=e), expected=disp in ss, actual=e in rr, kind="history")


def run(ctx, only=None):
    from redun.backends.db import RedunBackendDb
    import redun.logging  # noqa: F401  (sets the level at import; silence it afterwards)
    logging.getLogger("redun").setLevel(logging.CRITICAL)
    tmp = tempfile.mkdtemp(prefix="c33_")
    try:
        template = os.path.join(tmp, "template.db")
        b = RedunBackendDb(db_uri="sqlite:///" + template)
        b.load()
        b.session.close()
        b.engine.dispose()
        todo = []
        n = 0

        def fresh():
            nonlocal n
            n += 1
            p = os.path.join(tmp, "case%d.db" % n)
            shutil.copy(template, p)
            return p

        # corpus: every row shape once; the F11 scenario (CSE-collapsed twin of a failing job) through the real scheduler

        p = fresh()
        todo.append(check_db(ctx, "real-run", corpus_f11(p), p, None))
        seen, kills, commits = set(), [], 0

        def real_case(fixed=None):
            nonlocal commits
            p = fresh()
            desc, snaps, nc = real_run_db(ctx.rng, p, seen, tmp, fixed)
            commits += nc
            todo.append(check_db(ctx, "real-run", desc, p, None))
            for k, sp in snaps:
                kills.append(check_db(ctx, "kill-point", {"runs": desc, "killed_after_commit": k}, sp, None, full=False))
                os.remove(sp)
            # partial transfer: only later executions (typically the ones served from the cache) are pushed to a fresh repository
            if len(desc) >= 2:
                first = 1 if (fixed is not None or ctx.rng.random() < 0.7) else ctx.rng.randrange(1, len(desc))
                keep = list(range(first, len(desc)))
                dp = fresh()
                idx = partial_transfer(p, dp, keep)
                if idx is not None:
                    todo.append(check_db(ctx, "transfer", {"runs": desc, "synced": idx}, dp, None, full=False))
                os.remove(dp)
            os.remove(p)

        # corpus: cache hits that already know their CallNode (backend hit of a check_valid="shallow" task; CSE hit on a
        # job that finished in the same execution) while the workflow is aborted / the process is killed
        real_case([(("shallow", 1, False), ("ok", 2, False)),
                   (("shallow", 1, False), ("kill", 0, False)),
                   (("cse_done", 2, False), ("kill", 0, False)),
                   (("shallow", 1, True), ("cse_done", 2, True), ("boom", 1, False))])
        # corpus: a workflow, its repetition (root job served from the cache) and a variant reusing cached children; only the
        # later executions are synced to a fresh repository (partial transfer)
        real_case([(("ok", 1, False), ("shallow", 2, False), ("twin_ok", 1, False)),
                   (("ok", 1, False), ("shallow", 2, False), ("twin_ok", 1, False)),
                   (("ok", 1, False), ("shallow", 2, False), ("boom", 1, True))])
        # corpus: failing tasks whose ErrorValue is larger than max_value_size, leaf / nested, caught / uncaught
        real_case([(("ok", 1, False), ("bigboom", 1, True)),
                   (("bignest", 2, True), ("ok", 1, False)),
                   (("bigboom", 1, False),),
                   (("ok", 2, False), ("bignest", 1, False), ("boom", 1, True))])
        p = fresh()
        todo.append(check_db(ctx, "raw-shapes", raw_shape_db(ctx.rng, p, exhaustive=True), p, None))
        quick = ctx.tier == "quick"
        n_real, n_raw = (5, 30) if quick else (70, 800)
        if ctx.search_boost > 1:            # after a proof/correspondence break: search harder, within the time budget
            n_real, n_raw = (int(n_real * 2), int(n_raw * 2)) if quick else (int(n_real * 1.5), int(n_raw * 1.5))
        for _ in range(n_real):
            real_case()
        todo.extend(kills)
        ctx.count("kill_points", "commits_observed", commits)
        ctx.count("kill_points", "examined(new row shape)", len(kills))
        for _ in range(n_raw):
            p = fresh()
            todo.append(check_db(ctx, "raw-shapes", raw_shape_db(ctx.rng, p), p, None))
            os.remove(p)
        replies = ctx.model("C33", [d["line"] for d in todo])
        for d, reply in zip(todo, replies):
            compare_and_judge(ctx, d, reply)
            shapes = sorted(d["shapes"].values())
            disp = d["real"]["disp"]
            ctx.case(key=(d["kind"], tuple(shapes)),
                     sample={"kind": d["kind"], "desc": d["case"]["desc"], "displayed": sorted(disp.values())[:12],
                             "CACHED filter": d["real"]["jq"][1] if len(d["real"]["jq"]) > 1 else None},
                     kind=d["kind"], jobs=min(len(shapes), 20) // 5 * 5)
            for s in shapes:
                ctx.count("row_shape(endNull,cached,link)", "%s,%s,%s" % s)
            for v in disp.values():
                ctx.count("displayed_job_status", v)
            for v in d["real"]["edisp"].values():
                ctx.count("displayed_execution_status", v)
    finally:
        shutil.rmtree(tmp, ignore_errors=True)


def corpus_f11(path):
    """DESIGN §9 F11: two parents each calling the same slow failing task; the second job collapses onto the first
    (cached=True) and is recorded with the ErrorValue."""
    import random
    from redun import Scheduler
    from redun.backends.db import RedunBackendDb
    main = _tasks()["main"]
    backend = RedunBackendDb(db_uri="sqlite:///" + path)
    backend.load(migrate=False)
    try:
        scheduler = Scheduler(backend=backend)
        spec = (("twin_boom", 1, True), ("twin_ok", 2, False), ("ok", 1, False))
        scheduler.run(main(spec, 0))
        scheduler.run(main(spec, 0))
    finally:
        backend.session.close()
        backend.engine.dispose()
    return ["F11 corpus", [list(s) for s in spec]]


def build_from_abstract(path, jobs, calls, values, execs):
    """Rebuild a database state from the abstract rows of a replay file (raw sqlite inserts)."""
    con = sqlite3.connect(path)
    cur = con.cursor()
    cur.execute("insert into task (hash, name, namespace, source) values ('t0', 'f', 'raw', 'def f(): pass')")
    for vh, t in values:
        cur.execute("insert into value (value_hash, type, format, value) values (?, ?, 'application/python-pickle', ?)",
                    (vh, ERR if t else "builtins.int", b""))
    for ch, vh in calls:
        cur.execute("insert into call_node (call_hash, task_name, task_hash, args_hash, value_hash, timestamp) values (?, 'raw.f', 't0', 'a', ?, ?)",
                    (ch, vh, TS))
    for j, e, c, ch in jobs:
        cur.execute("insert into job (id, start_time, end_time, task_hash, cached, call_hash, parent_id, execution_id) "
                    "values (?, ?, ?, 't0', ?, ?, NULL, 'e')", (j, TS, None if e else TS, 1 if c else 0, ch))
    for e, j in execs:
        cur.execute("insert into execution (id, args, job_id, updated_time) values (?, '[]', ?, NULL)", (e, j))
    con.commit()
    con.close()


def replay_runs(ctx, c):
    """Re-run the recorded workflow executions on the real code; examine the final database and every kill point."""
    from redun.backends.db import RedunBackendDb
    import redun.logging  # noqa: F401
    logging.getLogger("redun").setLevel(logging.CRITICAL)
    desc = c["desc"]["runs"] if isinstance(c["desc"], dict) else c["desc"]
    if desc and desc[0] == "F11 corpus":
        runs = [dict(spec=desc[1], salt=0, crash_root=False)] * 2
    else:
        runs = [dict(spec=r[0], salt=r[1], crash_root=r[2]) for r in desc]
    print("replay: re-running %d workflow execution(s) on the real code, examining the final database and every kill point" % len(runs))
    for r in runs:
        print("  main(spec=%s, salt=%s)%s" % (r["spec"], r["salt"], "  [end of root job never recorded]" if r["crash_root"] else ""))
    tmp = tempfile.mkdtemp(prefix="c33_")
    try:
        path = os.path.join(tmp, "replay.db")
        b = RedunBackendDb(db_uri="sqlite:///" + path)
        b.load()
        b.session.close()
        b.engine.dispose()
        d2, snaps, nc = real_run_db(ctx.rng, path, set(), tmp, runs)
        todo = [check_db(ctx, "real-run", d2, path, None)]
        todo += [check_db(ctx, "kill-point", {"runs": d2, "killed_after_commit": k}, sp, None, full=False) for k, sp in snaps]
        if isinstance(c["desc"], dict) and c["desc"].get("synced"):
            dp = os.path.join(tmp, "dest.db")
            b = RedunBackendDb(db_uri="sqlite:///" + dp)
            b.load()
            b.session.close()
            b.engine.dispose()
            idx = partial_transfer(path, dp, c["desc"]["synced"])
            print("  synced executions %s into a fresh repository; judging the destination" % idx)
            todo.append(check_db(ctx, "transfer", {"runs": d2, "synced": idx}, dp, None, full=False))
        for d, reply in zip(todo, ctx.model("C33", [d["line"] for d in todo])):
            compare_and_judge(ctx, d, reply)
            ctx.case(key=("replay", d["kind"], tuple(sorted(d["shapes"].values()))), sample={"replayed": True, "kind": d["kind"]})
        print("  %d commits, %d kill points examined, row shapes: %s" % (nc, len(snaps), sorted(set(todo[0]["shapes"].values()))))
    finally:
        shutil.rmtree(tmp, ignore_errors=True)


def replay(ctx, case):
    c = case.get("case") or {}
    if isinstance(c, dict) and c.get("kind") in ("real-run", "kill-point", "transfer") and c.get("desc"):
        return replay_runs(ctx, c)
    if not isinstance(c, dict) or "jobs" not in c:
        print("replay file has no database rows; running the normal check")
        return run(ctx)
    from redun.backends.db import RedunBackendDb
    import redun.logging  # noqa: F401
    logging.getLogger("redun").setLevel(logging.CRITICAL)
    tmp = tempfile.mkdtemp(prefix="c33_")
    try:
        path = os.path.join(tmp, "replay.db")
        b = RedunBackendDb(db_uri="sqlite:///" + path)
        b.load()
        b.session.close()
        b.engine.dispose()
        build_from_abstract(path, c["jobs"], c["calls"], c["values"], c["execs"])
        d = check_db(ctx, c.get("kind") if c.get("kind") in ("real-run", "kill-point") else "replay", c.get("desc"), path, None)
        print("replay database: %d jobs, %d executions; filter in question: %s" % (len(c["jobs"]), len(c["execs"]), c.get("filter")))
        print("  displayed:", d["real"]["disp"])
        for ss, rr in zip(d["qs"], d["real"]["jq"]):
            if len(ss) == 1:
                print("  filter", ss[0], "->", rr)
        reply = ctx.model("C33", [d["line"]])[0]
        compare_and_judge(ctx, d, reply)
        ctx.case(key=("replay", tuple(sorted(d["shapes"].values()))), sample={"replayed": True})
    finally:
        shutil.rmtree(tmp, ignore_errors=True)
