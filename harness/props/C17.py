"""C17 — task hashes track code identity.
Model: lean/RedunModel/Model/TaskHash.lean; theorems: lean/RedunModel/Props/C17.lean."""
import inspect
import linecache
import random

from props._preimage import HashLog, hx

ID = "C17"
READY = True
LEAN_MODULES = ["RedunModel.Props.C17", "RedunModel.Model.PreRender"]
LEAN_DRIVERS = ["C17"]
THEOREMS = [
    "RedunModel.C17.calcHash_inj",
    "RedunModel.C17.hash_changes_fullname",
    "RedunModel.C17.fullname_injective",
    "RedunModel.C17.hash_changes_source",
    "RedunModel.C17.hash_changes_version",
    "RedunModel.C17.hash_versioned_ignores_source",
    "RedunModel.C17.hash_changes_includes",
    "RedunModel.C17.hash_changes_override",
    "RedunModel.C17.hash_ignores_base",
    "RedunModel.C17.hash_ignores_include_order",
    "RedunModel.C17.hash_ignores_empty_includes",
    "RedunModel.C17.funcSource_ignores_decorators",
    "RedunModel.C17.hash_ignores_decorators",
    "RedunModel.C17.isDefLine_table",
    "RedunModel.C17.withOptions_hash",
    "RedunModel.C17.options_keep_includes",
    "RedunModel.C17.refuted_old_options_drop_includes",
    "RedunModel.C17.wrapped_changes",
    "RedunModel.C17.wrapped_changes_wrapper_includes",
    "RedunModel.C17.partial_reflects_args",
    "RedunModel.C17.partial_ignores_keyword_order",
    "RedunModel.C17.partial_ne_task",
    "RedunModel.C17.flat_list_collision_note",
    "RedunModel.C17.refuted_old_async_decorator",
    "RedunModel.C17.fixed_async_decorator",
]
TRUSTED = [
    "text elements of a hashed structure (names, source text, versions) are assumed never to coincide with a hex digest",
    "hashes are symbolic pre-images (perfect-hash assumption for hash_struct; TypeRegistry.get_hash injective on the "
    "values used as hash_includes / option overrides)",
    "modelled, not verified: inspect.getsource (the harness feeds its real output, split at newlines, to the model), "
    "str.split/str.join, Python's re for the one pattern of get_func_source (modelled as a deterministic scan), "
    "sorted() on digest strings (modelled as sorting by the rank of each digest, supplied by the harness)",
]
ASSUMPTIONS = [
    "compat is empty (with compat the code returns compat[0] verbatim; generated only for the correspondence)",
    "changes are made one dimension at a time (name, namespace, body, version, hash_includes, overrides): includes "
    "hashes and the override hash share one flat list, so changing both at once can collide (flat_list_collision_note)",
    "decorator lines do not themselves start with `def `/`async def ` after indentation",
    "hash_includes items and option values are plain picklable values or Tasks",
]
RULE = ("task definitions generated as real source text (def / async def, space- or tab-indented nested definitions, one or "
        "several decorator lines, definition-time options, version, source=, compat, hash_includes, .options overrides), "
        "registered in linecache and executed so that inspect.getsource works; each task's real hash pre-image (hash_struct "
        "wrapped) is compared with the model's, get_func_source's output with the model's; partial and wraps_task tasks "
        "likewise (including ONE wraps_task decorator object applied to several tasks, and several wraps_task() calls relying on the "
        "default include list: a task's hash must not depend on siblings and must equal its _calc_hash()); then single-dimension mutations are applied and the real hashes compared with what the statement demands. "
        "distinct = distinct (definition, mutation) pairs; nothing is trivial")
LEVEL_TEXT = ("Proved on the model (repaired get_func_source) for all task definitions with empty compat: equal hashes force equal "
              "full name, code identity (source, or version) and includes++options tail (calcHash_inj), hence a change of "
              "name/namespace, source (unversioned), version, hash_includes data (same overrides) or overrides (same includes) "
              "changes the hash; definition-time options, decorator lines (def and async def, any indentation), include order "
              "and empty includes do not (hash_ignores_*); a wrapped task's hash changes with the wrapped task and with the "
              "wrapper's includes; a partial task's hash determines inner hash, positional and keyword arguments. All full "
              "strength under the one-dimension reading. Task.options keeps name, code identity and hash_includes in the hash "
              "(withOptions_hash, options_keep_includes). refuted_old_async_decorator and refuted_old_options_drop_includes "
              "are the witnesses on the model of the code before the two repairs; flat_list_collision_note records the two-dimension collision. Tie: real task hash "
              "pre-images and real get_func_source output compared with the model on generated definitions; mutation oracle on real hashes.")
LEVEL_NOTE = ("The model mirrors the code WITH the proposed repair(s) (harness/findings_proposed/C17-*.fix.diff); on a tree "
              "without them the check reports VIOLATION with concrete replays, by design. inspect.getsource and the regular expression engine are modelled; digest order of hash_includes is supplied by the "
              "harness as ranks. Task hashes cached in `.hash` after a registry rename (wraps_task) are modelled as computed at creation.")
TECHNIQUE = "Lean 4 proof on a hand-written model of Task._calc_hash/get_func_source + pre-image correspondence + mutation oracle"

_counter = [0]


def compile_src(src, env):
    """exec `src` so that inspect.getsource works on the functions it defines"""
    _counter[0] += 1
    fn = "<verif-c17-%d>" % _counter[0]
    linecache.cache[fn] = (len(src), None, src.splitlines(True), fn)
    exec(compile(src, fn, "exec"), env)
    return fn


# ------------------------------------------------------------------ definitions
def gen_def(rng, i):
    d = {
        "name": rng.choice(["f", "g", "load", "step_1", "T"]) + str(i),
        "ns": rng.choice(["", "", "ns", "a.b", "pkg_x"]),
        "kind": rng.choice(["def", "def", "async def"]),
        "indent": rng.choice(["", "", "    ", "\t", "  "]),
        "body": rng.choice(["return x + 1", "return x * 2", "y = x\n{I}return y", "return [x, 'def ']"]),
        "deco_opts": rng.choice([{}, {"memory": 1}, {"memory": 2, "vcpus": 3}, {"executor": "batch"}]),
        "deco_style": rng.choice(["one-line", "one-line", "multi-line", "extra-decorator"]),
        "version": rng.choice([None, None, None, "1", "2", ""]),
        "given": rng.choice([None, None, None, None, "def custom(): pass", ""]),
        "compat": rng.choice([[], [], [], [], [], ["0123abcd"]]),
        "includes": rng.choice([None, None, [], [1], [2, 1], ["a", 3, {"memory": 1}], [(1, 2), "zz"], [5, 5],
                                [1, True, 1.0], [0, 0.0], [False, "a"], [2.0]]),
        "override": rng.choice([{}, {}, {"memory": 1}, {"executor": "x", "memory": 4}, {"memory": 1.0}, {"retries": 0}, {"flag": True}]),
    }
    return d


def def_src(d):
    """source text of the definition (module level, or nested in `def outer():` when indented)"""
    I = d["indent"]
    opts = dict(d["deco_opts"])
    if d["kind"] == "async def":
        opts["cache"] = False           # async tasks must set their cache option (Task._validate)
    args = ["name=%r" % d["name"], "namespace=%r" % d["ns"]]
    if d["version"] is not None:
        args.append("version=%r" % d["version"])
    if d["given"] is not None:
        args.append("source=%r" % d["given"])
    if d["compat"]:
        args.append("compat=%r" % d["compat"])
    if d["includes"] is not None:
        args.append("hash_includes=_inc")
    args += ["%s=%r" % kv for kv in sorted(opts.items())]
    lines = []
    if d["deco_style"] == "multi-line":
        lines.append(I + "@task(")
        for a in args:
            lines.append(I + "    " + a + ",")
        lines.append(I + ")")
    else:
        if d["deco_style"] == "extra-decorator":
            lines.append(I + "@_ident")
        lines.append(I + "@task(" + ", ".join(args) + ")")
    lines.append(I + d["kind"] + " fn(x):")
    unit = "\t" if I == "\t" else "    "
    for b in d["body"].split("\n"):
        lines.append(I + unit + b.replace("{I}", ""))
    if I:
        lines = ["def outer():"] + lines + [I + "return fn"]
    return "\n".join(lines) + "\n"


def build(d, log, reg):
    """-> the real Task (with overrides applied)"""
    from redun import task
    env = {"task": task, "_inc": d["includes"], "_ident": lambda t: t}
    compile_src(def_src(d), env)
    t = env["outer"]() if d["indent"] else env["fn"]
    if d["override"]:
        t = t.options(**d["override"])
    return t


class Labels:
    """digest -> small int label; ranks = order of digests"""

    def __init__(self, log, reg):
        self.log, self.reg, self.lab = log, reg, {}

    def of_value(self, v):
        dg = self.reg.get_hash(v)
        if dg not in self.lab:
            self.lab[dg] = len(self.lab) + 1
            self.log.leaf_value(dg, self.lab[dg])
        return dg, self.lab[dg]


def sx_lines(lines):
    return "(" + " ".join("s" + hx(l) for l in lines) + ")"


def sx_opt(s):
    return "N" if s is None else "s" + hx(s)


def sx_incl(items, all_digests):
    """items: [(digest, rendered pre)]; rank = position of the digest among all digests of the case"""
    order = sorted(set(all_digests))
    return "(" + " ".join("(i%d %s)" % (order.index(dg), pre) for dg, pre in items) + ")"


def taskdef_sx(d, t, labels, extra_digests=()):
    """model request text for the real task `t` built from `d`"""
    lines = inspect.getsource(t.func).split("\n")
    inc = None
    digs = list(extra_digests)
    if d["includes"] is not None:
        inc = []
        for v in d["includes"]:
            dg, n = labels.of_value(v)
            inc.append((dg, "v%d" % n))
            digs.append(dg)
    base = "(T s%s s%s %s %s %s (%s) %s N)" % (
        hx(d["name"]), hx(d["ns"]), sx_lines(lines), sx_opt(d["given"]), sx_opt(d["version"]),
        " ".join("s" + hx(c) for c in d["compat"]), "N" if inc is None else sx_incl(inc, digs))
    if d["override"]:
        # the task was built as `task.options(**override)`
        dg, n = labels.of_value(t._task_options_override)
        base = "(O %s i%d)" % (base, n)
    return base, lines


# ------------------------------------------------------------------ mutations (the property's oracle)
LOOKALIKE = (int, float, bool)
LOOK_FAMILIES = [[0, 0.0, -0.0, False], [1, 1.0, True], [2, 2.0]]


def look_other(rng, v):
    """a value that compares equal to `v` under == but is another value (type/sign), if `v` has one; else v + 1000"""
    for fam in LOOK_FAMILIES:
        for x in fam:
            if type(x) is type(v) and repr(x) == repr(v):
                return rng.choice([y for y in fam if not (type(y) is type(v) and repr(y) == repr(v))])
    return v + 1000


def mutate(rng, d):
    """yield (kind, expect_same, d2)"""
    def w(**kw):
        d2 = dict(d)
        d2.update(kw)
        return d2
    yield "name", False, w(name=d["name"] + "_x")
    yield "namespace", False, w(ns=(d["ns"] + ".m") if d["ns"] else "m")
    if d["version"] is None and not d["given"]:
        yield "body", False, w(body=d["body"] + "\n{I}x = 0")
    if d["version"] is not None:
        yield "version", False, w(version=d["version"] + "b")
    yield "includes-add", False, w(includes=(d["includes"] or []) + [99])
    if d["includes"]:
        yield "includes-alter", False, w(includes=[("changed", d["includes"][0])] + d["includes"][1:])
        if len(set(map(repr, d["includes"]))) > 1:
            inc = list(d["includes"])
            while list(map(repr, inc)) == list(map(repr, d["includes"])):     # type-aware: [0, 0.0] == [0.0, 0] under ==
                rng.shuffle(inc)
            yield "includes-order", True, w(includes=inc)
    yield "override", False, w(override={**d["override"], "memory": 77})
    # look-alike values (== and hash() equal, different type/sign) are different data
    for i, v in enumerate(d["includes"] or []):
        if type(v) in LOOKALIKE:
            yield "includes-lookalike", False, w(includes=d["includes"][:i] + [look_other(rng, v)] + d["includes"][i + 1:])
            break
    for k, v in d["override"].items():
        if type(v) in LOOKALIKE:
            yield "override-lookalike", False, w(override={**d["override"], k: look_other(rng, v)})
            break
    yield "definition-options", True, w(deco_opts={**d["deco_opts"], "memory": 1234, "extra_opt": "z"})
    if d["version"] is None and not d["given"]:
        for st in ("one-line", "multi-line", "extra-decorator"):
            if st != d["deco_style"]:
                yield "decorator-lines", True, w(deco_style=st)
                break


def run(ctx):
    from redun.utils import get_func_source
    from redun.value import get_type_registry
    rng = ctx.rng
    wseed = rng.getrandbits(32)          # sub-stream for the shared-wrapper scenarios (so a replay can re-create them)
    reg = get_type_registry()
    log = HashLog()
    labels = Labels(log, reg)
    corpus = [
        # F22: async def task, decorator argument changed
        dict(name="af", ns="", kind="async def", indent="", body="return x + 1", deco_opts={"memory": 1}, deco_style="one-line",
             version=None, given=None, compat=[], includes=None, override={}),
        dict(name="tf", ns="ns", kind="def", indent="\t", body="return x + 1", deco_opts={"memory": 1}, deco_style="multi-line",
             version=None, given=None, compat=[], includes=[2, 1], override={"memory": 1}),
        dict(name="vf", ns="a.b", kind="def", indent="", body="return x", deco_opts={}, deco_style="one-line",
             version="1", given=None, compat=[], includes=[{"memory": 1}], override={}),
    ]
    defs = corpus + [gen_def(rng, i) for i in range(ctx.n(150, 6000))]
    reqs, plan = [], []
    with log:
        for d in defs:
            if d["kind"] == "async def" and d["override"].get("executor"):
                pass
            try:
                t = build(d, log, reg)
            except ValueError as e:          # Task._validate rejected the generated definition
                ctx.count("skipped", str(e)[:40])
                continue
            sxd, lines = taskdef_sx(d, t, labels)
            real_src = get_func_source(t.func)
            muts = []
            if not d["compat"]:
                for kind, same, d2 in mutate(rng, d):
                    try:
                        t2 = build(d2, log, reg)
                    except ValueError:
                        continue
                    muts.append((kind, same, d2, t2.hash))
            reqs += ["hash " + sxd, "hashold " + sxd, "src " + sx_lines(lines), "srcold " + sx_lines(lines)]
            plan.append((d, t.hash, real_src, muts))
        impl_pre = [log.render(h) for _, h, _, _ in plan]
        extra = derived(ctx, rng, log, reg, labels)
        extra += shared_wrappers(ctx, random.Random(wseed), log, reg, labels)
    out = ctx.model("C17", reqs + [r for r, _, _ in extra])

    old_tree = 0
    for i, (d, h, real_src, muts) in enumerate(plan):
        mo, mo_old, ms, ms_old = out[4 * i:4 * i + 4]
        impl = impl_pre[i]
        tag = dict(kind=d["kind"], indent=repr(d["indent"]), deco=d["deco_style"], versioned=d["version"] is not None,
                   includes="none" if d["includes"] is None else len(d["includes"]), override=bool(d["override"]),
                   compat=bool(d["compat"]), given=d["given"] is not None)
        ctx.case(key=repr(sorted(d.items())), sample={"source": def_src(d), "override": d["override"], "pre": impl[:200]}, **tag)
        if ms != "s" + hx(real_src):
            if ms_old == "s" + hx(real_src):
                old_tree += 1
            ctx.mismatch("get_func_source output differs from the model" +
                         (" (the real code matches the pattern BEFORE the proposed repair)" if ms_old == "s" + hx(real_src) else ""),
                         case={"source": def_src(d)}, model=bytes.fromhex(ms[1:]).decode(), impl=real_src)
        if mo != impl:
            ctx.mismatch("task hash pre-image differs from the model" +
                         (" (the real code matches the model of the code BEFORE the proposed repair)" if mo_old == impl else ""),
                         case={"definition": d, "source": def_src(d)}, model=mo, impl=impl)
        for kind, same, d2, h2 in muts:
            ctx.count("mutation", kind)
            shape = d["kind"].replace(" ", "-") + ("-tab-indent" if d["indent"] == "\t" else "")
            if same and h2 != h:
                ctx.violation("C17-hash-unstable-%s-%s" % (kind, shape),
                              "task hash changes under a change of " + kind + " only",
                              case={"before": def_src(d), "after": def_src(d2), "override": d["override"]},
                              expected="equal task hashes", actual="different")
            if not same and h2 == h:
                ctx.violation("C17-hash-collision-%s" % kind, "task hash does not change when " + kind + " changes",
                              case={"before": def_src(d), "after": def_src(d2), "override": [d["override"], d2["override"]],
                                    "includes": [d["includes"], d2["includes"]]},
                              expected="different task hashes", actual="equal")
    if old_tree:
        ctx.note("%d case(s): get_func_source matches the pattern before the proposed repair "
                 "(findings_proposed/C17-async-def-source.fix.diff not applied?)" % old_tree)
    for (req, impl, info), mo in zip(extra, out[len(reqs):]):
        if mo != impl:
            ctx.mismatch("pre-image of a derived task (%s) differs from the model" % info["what"], case=info, model=mo, impl=impl)


# ------------------------------------------------------------------ partial and wrapped tasks
def make_wrapper(wname, includes):
    from redun.task import wraps_task

    @wraps_task(wrapper_name=wname, wrapper_hash_includes=list(includes))
    def _w(inner_task):
        def do_wrapped(*a, **k):
            return inner_task.func(*a, **k)

        return do_wrapped

    return _w


def make_wrapper2(wname, includes):
    from redun.task import wraps_task

    @wraps_task(wrapper_name=wname, wrapper_hash_includes=list(includes))
    def _w2(inner_task):
        def do_wrapped_twice(*a, **k):
            return [inner_task.func(*a, **k)]

        return do_wrapped_twice

    return _w2


def derived(ctx, rng, log, reg, labels):
    """partial tasks and wraps_task tasks: [(model request, real pre-image, info)] + oracle on the real hashes"""
    out = []
    n = ctx.n(40, 1200)
    for i in range(n):
        d = gen_def(rng, 10000 + i)
        d.update(compat=[], kind="def", name="p%d" % i, override=rng.choice([{}, {"memory": 2}]))
        t = build(d, log, reg)
        # ---- partial
        args = [rng.randrange(50) for _ in range(rng.choice([0, 1, 2]))]
        kw = {k: rng.randrange(50) for k in rng.sample(["b", "a", "zz", "k"], rng.choice([0, 1, 2, 3]))}
        p = t.partial(*args, **kw)
        sxd, _ = taskdef_sx(d, t, labels)
        ar = " ".join("v%d" % labels.of_value(a)[1] for a in args)
        kr = " ".join("(s%s v%d)" % (hx(k), labels.of_value(v)[1]) for k, v in kw.items())
        out.append(("partial %s (%s) (%s)" % (sxd, ar, kr), log.render(p.hash), {"what": "partial", "def": def_src(d), "args": args, "kwargs": kw}))
        ctx.case(key=("partial", i, repr(args), repr(sorted(kw.items()))), part="partial", nargs=len(args), nkw=len(kw))
        # oracle: bound arguments are reflected, keyword order is not
        p2 = t.partial(*(args + [123456]), **kw)
        p3 = t.partial(*args, **{**kw, "q": 1})
        p4 = t.partial(*args, **dict(reversed(list(kw.items()))))
        if p2.hash == p.hash or p3.hash == p.hash:
            ctx.violation("C17-partial-args-ignored", "a partial task's hash does not reflect a bound argument",
                          case={"def": def_src(d), "args": args, "kwargs": kw}, expected="different", actual="equal")
        if p4.hash != p.hash:
            ctx.violation("C17-partial-keyword-order", "a partial task's hash depends on keyword order",
                          case={"def": def_src(d), "args": args, "kwargs": kw}, expected="equal", actual="different")
        d_b = dict(d, body=d["body"] + "\n{I}x = 0")
        if d["version"] is None and not d["given"]:
            tb = build(d_b, log, reg)
            if tb.partial(*args, **kw).hash == p.hash:
                ctx.violation("C17-partial-inner-ignored", "a partial task's hash does not change with the task's source",
                              case={"def": def_src(d), "args": args, "kwargs": kw}, expected="different", actual="equal")
        # ---- wraps_task (once and twice)
        winc = rng.choice([[], [7], [8, "w"]])
        dw = dict(d, name="w%d" % i, override={})
        inner = build(dw, log, reg)
        inner_hash = inner.hash
        wrapped = make_wrapper("_w", winc)(inner)
        wl = inspect.getsource(wrapped.func).split("\n")
        inner_sx, _ = taskdef_sx(dw, inner, labels)
        items = [(labels.of_value(v)[0], "v%d" % labels.of_value(v)[1]) for v in winc]
        digs = [dg for dg, _ in items] + [inner_hash]
        order = sorted(set(digs))
        wsx = "(W %s %s N i%d %s)" % (sx_lines(wl), sx_incl(items, digs), order.index(inner_hash), inner_sx)
        out.append(("hash " + wsx, log.render(wrapped.hash), {"what": "wraps_task", "def": def_src(dw), "wrapper_includes": winc}))
        ctx.case(key=("wrapped", i), part="wraps_task", wrapper_includes=len(winc))
        if rng.random() < 0.5:
            winc2 = rng.choice([[], [9]])
            wrapped2 = make_wrapper2("_w2", winc2)(wrapped)
            wl2 = inspect.getsource(wrapped2.func).split("\n")
            items2 = [(labels.of_value(v)[0], "v%d" % labels.of_value(v)[1]) for v in winc2]
            digs2 = [dg for dg, _ in items2] + [wrapped.hash]
            order2 = sorted(set(digs2))
            wsx2 = "(W %s %s N i%d %s)" % (sx_lines(wl2), sx_incl(items2, digs2), order2.index(wrapped.hash), wsx)
            out.append(("hash " + wsx2, log.render(wrapped2.hash), {"what": "wraps_task twice", "def": def_src(dw)}))
            ctx.case(key=("wrapped2", i), part="wraps_task-twice")
        # oracle: the wrapper's hash follows the wrapped task
        if dw["version"] is None and not dw["given"]:
            inner_b = build(dict(dw, body=dw["body"] + "\n{I}x = 0"), log, reg)
            wrapped_b = make_wrapper("_w", winc)(inner_b)
            if wrapped_b.hash == wrapped.hash:
                ctx.violation("C17-wrapped-inner-ignored", "a wrapped task's hash does not change when the wrapped task's source changes",
                              case={"def": def_src(dw)}, expected="different", actual="equal")
    return out


def make_default_wrapper():
    """a separate wraps_task() call that relies on the default `wrapper_hash_includes`"""
    from redun.task import wraps_task

    @wraps_task(wrapper_name="_wd")
    def _wd(inner_task):
        def do_default(*a, **k):
            return inner_task.func(*a, **k)

        return do_default

    return _wd


def wrapped_request(wrapped, winc, inner_hash, inner_sx, labels):
    """model request for the visible task `wrapped` = wrapper(winc)(inner)"""
    wl = inspect.getsource(wrapped.func).split("\n")
    items = [(labels.of_value(v)[0], "v%d" % labels.of_value(v)[1]) for v in winc]
    digs = [dg for dg, _ in items] + [inner_hash]
    order = sorted(set(digs))
    return "hash (W %s %s N i%d %s)" % (sx_lines(wl), sx_incl(items, digs), order.index(inner_hash), inner_sx)


def shared_wrappers(ctx, rng, log, reg, labels):
    """ONE wraps_task decorator object applied to several tasks (and several wraps_task() calls relying on the default
    include list): a task's hash must not depend on unrelated siblings decorated before or after it, and must stay equal
    to its own _calc_hash()."""
    out = []
    for i in range(ctx.n(10, 120)):
        for mode in ("shared-decorator", "default-includes"):
            winc = rng.choice([[], [7], [8, "w"]]) if mode == "shared-decorator" else []
            tag = "%s%d" % ("s" if mode == "shared-decorator" else "d", i)
            dT = gen_def(rng, 20000 + i)
            dT.update(compat=[], kind="def", name="t_" + tag, override={}, version=None, given=None)
            dS = gen_def(rng, 30000 + i)
            dS.update(compat=[], kind="def", name="sib_" + tag, override={}, version=None, given=None, ns=dT["ns"])
            dS2 = dict(dS, body=dS["body"] + "\n{I}x = 0")

            def world(defs):
                """wrap the tasks of `defs` in order -> the wrapped tasks (+ inner hashes)"""
                W = make_wrapper("_ws", winc) if mode == "shared-decorator" else None
                res = []
                for d in defs:
                    inner = build(d, log, reg)
                    ih = inner.hash
                    wr = (W if W is not None else make_default_wrapper())(inner)
                    res.append((wr, ih, inner, d))
                return res

            info = {"scenario": mode, "task": def_src(dT), "sibling": def_src(dS), "wrapper_hash_includes": winc}
            ctx.case(key=("shared", mode, i), part="wraps_task-" + mode, wrapper_includes=len(winc))
            h_alone = world([dT])[0][0].hash
            w_after = world([dS, dT])
            h_after = w_after[1][0].hash
            h_after_edit = world([dS2, dT])[1][0].hash
            # correspondence: the second task wrapped by the same decorator
            inner_sx, _ = taskdef_sx(dT, w_after[1][2], labels)
            out.append((wrapped_request(w_after[1][0], winc, w_after[1][1], inner_sx, labels), log.render(h_after),
                        dict(info, what="second task wrapped by one decorator object (%s)" % mode)))
            if h_after != h_alone:
                ctx.violation("C17-wrapped-hash-depends-on-sibling-present-" + mode,
                              "the hash of a wrapped task depends on whether an unrelated task was wrapped before it",
                              case=dict(info, compare="[task] vs [sibling, task]"), expected="equal task hashes", actual="different")
            if h_after_edit != h_after:
                ctx.violation("C17-wrapped-hash-depends-on-sibling-edited-" + mode,
                              "the hash of a wrapped task changes when the body of an unrelated, earlier wrapped task changes",
                              case=dict(info, compare="[sibling, task] vs [sibling', task]", sibling_edited=def_src(dS2)),
                              expected="equal task hashes", actual="different")
            # the task first, then the sibling: the earlier task must stay consistent
            W = make_wrapper("_ws", winc) if mode == "shared-decorator" else None
            innerT = build(dT, log, reg)
            T = (W if W is not None else make_default_wrapper())(innerT)
            h0, h0_opt, h0_calc = T.hash, T.options(memory=5).hash, T._calc_hash()
            (W if W is not None else make_default_wrapper())(build(dS, log, reg))
            if h0_calc != h0 or T._calc_hash() != T.hash:
                ctx.violation("C17-wrapped-hash-stale-after-sibling-" + mode,
                              "after an unrelated sibling is wrapped, task.hash != task._calc_hash() for the earlier wrapped task",
                              case=dict(info, compare="task.hash vs task._calc_hash() after the sibling's definition"),
                              expected=T.hash, actual=T._calc_hash())
            if T.options(memory=5).hash != h0_opt:
                ctx.violation("C17-wrapped-options-hash-changes-after-sibling-" + mode,
                              "task.options(memory=5).hash differs before and after an unrelated sibling is wrapped",
                              case=dict(info, compare="task.options(memory=5).hash before vs after the sibling's definition"),
                              expected=h0_opt, actual=T.options(memory=5).hash)
    return out


def replay(ctx, case):
    """re-run exactly the recorded pair of definitions on the implementation"""
    c = case.get("case")
    if isinstance(c, dict) and "scenario" in c:
        from redun.value import get_type_registry
        print("replay: shared-wrapper scenarios (%s); recorded task:\n%s\nsibling:\n%s" % (c["scenario"], c.get("task"), c.get("sibling")))
        wseed = ctx.rng.getrandbits(32)
        log = HashLog()
        with log:
            shared_wrappers(ctx, random.Random(wseed), log, get_type_registry(), Labels(log, get_type_registry()))
        return
    if not isinstance(c, dict) or "before" not in c:
        print("replay: no single input recorded (correspondence/proof break, or a derived-task case); running the whole check")
        return run(ctx)
    from redun import task
    inc = c.get("includes") or [None, None]
    ov = c.get("override")
    ovs = ov if isinstance(ov, list) else [ov, ov]
    hashes = []
    for src, i, o in ((c["before"], inc[0], ovs[0]), (c["after"], inc[1], ovs[1])):
        env = {"task": task, "_inc": i, "_ident": lambda t: t}
        compile_src(src, env)
        t = env["outer"]() if "outer" in env else env["fn"]
        if o:
            t = t.options(**o)
        hashes.append(t.hash)
        print(src, "  hash_includes =", i, " options =", o, "\n  -> task hash", t.hash, "\n")
    ctx.case(key=("replay", repr(c)[:200]), part="replay")
    sig = case.get("signature", "")
    if sig.startswith("C17-hash-unstable") and hashes[0] != hashes[1]:
        ctx.violation(sig, case.get("what", sig), case=c, expected="equal task hashes", actual="different")
    if sig.startswith("C17-hash-collision") and hashes[0] == hashes[1]:
        ctx.violation(sig, case.get("what", sig), case=c, expected="different task hashes", actual="equal")
