"""C18 — expression identity matches the call it denotes.
Model: lean/RedunModel/Model/ExprHash.lean; theorems: lean/RedunModel/Props/C18.lean."""
import collections
import copy
import pickle

from props._preimage import HashLog, hx

ID = "C18"
READY = True
LEAN_MODULES = ["RedunModel.Props.C18", "RedunModel.Model.PreRender"]
LEAN_DRIVERS = ["C18"]
THEOREMS = [
    "RedunModel.C18.hash_eq_imp_same_call",
    "RedunModel.C18.sched_options_separate",
    "RedunModel.C18.kinds_separate",
    "RedunModel.C18.hash_ignores_kw_order_export_order_length",
    "RedunModel.C18.roundtrip",
    "RedunModel.C18.roundtrip_hash",
    "RedunModel.C18.setstate_legacy",
    "RedunModel.C18.refuted_old_scheduler_options",
    "RedunModel.C18.fixed_scheduler_options",
]
TRUSTED = [
    "text elements of a hashed structure (names, source text, versions) are assumed never to coincide with a hex digest",
    "hashes are symbolic pre-images: hash_struct is a perfect hash; TypeRegistry.get_hash on plain values and "
    "hash_bytes(pickle_dumps(options)) are injective labellings (pickle and SHA-512/160 are outside the claim)",
    "TypeRegistry.serialize/deserialize of argument tuples/dicts and values is modelled as the identity in the state "
    "round trip (the real pickle round trip is what the harness runs)",
]
ASSUMPTIONS = [
    "arguments are plain picklable values, expressions, or containers (list, tuple, namedtuple, dict values, nested; sets of plain "
    "values) of them; a container is one value to the model: its hash is TypeRegistry.get_hash(container), an injective leaf that "
    "the harness labels type-aware (list != tuple != namedtuple, nesting kept)",
    "`same call` is one level deep with argument identity = equality of argument hashes, to which the theorem applies again",
    "the statement is one-directional (same hash only if same call); keyword order, export-set order and `length` are "
    "shown not to matter (hash_ignores_kw_order_export_order_length) but are not demanded by the oracle",
]
RULE = ("expression trees generated over the four classes (TaskExpression, SchedulerExpression, SimpleExpression, ValueExpression); more than "
        "half of the task expressions name REGISTERED tasks (real @task objects incl. config_args on named, keyword-only and variadic "
        "parameters, **kwargs, wraps_task), with variants that change / add / remove a config argument positionally and by keyword; "
        "with nested expression arguments, keyword arguments, option dicts (values incl. None, 0, "", [], {}, False and the look-alike families {0, 0.0, -0.0, False}, {1, 1.0, True}, {2, 2.0}, "
        "which also occur as argument, keyword and wrapped values; every ordered pair of look-alikes in every position is hashed in "
        "this process and in two fresh interpreters in forward/reverse order), export-option sets and lengths, built as real objects; "
        "each real get_hash() pre-image (hash_struct wrapped) is compared with the model's; every expression is paired with "
        "single-component variants (kind, name, one argument changed/added/removed, two positional arguments swapped, positional "
        "moved to keyword, keyword value/name/removal, two keyword values swapped, options, exported options) whose real hashes "
        "must differ; both operand orders of non-commutative operators and task calls are evaluated under one parent job in a "
        "real Scheduler and compared with plain Python evaluation; every expression goes through a real pickle round trip with bookkeeping set beforehand and the result is compared "
        "with the model's setstate(getstate) and with the statement; legacy state dicts (missing optional keys / mandatory keys) "
        "are fed to __setstate__. distinct = distinct expression trees; a bare ValueExpression is trivial")
LEVEL_TEXT = ("Proved on the model (repaired SchedulerExpression._calc_hash) for all expressions, no size bound: equal hashes imply the "
              "same kind, name, positional argument hashes, keyword arguments, call-time options, exported options (as a set) and "
              "wrapped value (hash_eq_imp_same_call, full strength; corollaries sched_options_separate, kinds_separate); the "
              "state round trip returns the same node with call_hash/_upstreams/_hash cleared (roundtrip, roundtrip_hash, full "
              "strength); legacy states load with empty options, missing mandatory keys raise KeyError. "
              "refuted_old_scheduler_options is the closed witness on the model of the code before the repair. Tie: real "
              "get_hash pre-images and real pickle round trips compared with the model on generated expression trees.")
LEVEL_NOTE = ("The model mirrors the code WITH the proposed repair(s) (harness/findings_proposed/C18-*.fix.diff); on a tree "
              "without them the check reports VIOLATION with concrete replays, by design. Hashes are compared as pre-images. pickle/TypeRegistry serialisation is exercised by the harness, not modelled. Hash "
              "caching in `_hash` (a stale hash after mutating args in place) is not modelled. Merging of equal-hash expressions "
              "in the scheduler (`_pending_expr`) belongs to C06/C01.")
TECHNIQUE = "Lean 4 proof on a hand-written model of the four _calc_hash and getstate/setstate + pre-image correspondence + pair oracle"

NAMES = ["f", "ns.g", "redun.catch", "redun.cond", "h"]
# REGISTERED tasks (real @task objects in the task registry, see register_tasks): name -> (positional parameter names,
# name of *args or None, config_args).  The keyword names the generator uses (a, b, k, zz) hit their parameters and config args.
REG = {
    "verif_c18r.cfg_named": (["a", "b"], None, ["b", "zz"]),          # def cfg_named(a=None, b=2, *, k=None, zz=None)
    "verif_c18r.cfg_mem": (["x", "memory"], None, ["memory"]),        # def cfg_mem(x=None, memory=1, **kw)
    "verif_c18r.cfg_kwonly": ([], "rest", ["k"]),                      # def cfg_kwonly(*rest, k=1)
    "verif_c18r.cfg_rest": (["a"], "rest", ["rest"]),                  # def cfg_rest(a=None, *rest, b=None)
    "verif_c18r.plain": (["a", "b"], "rest", []),                      # def plain(a=None, b=2, *rest, k=None, **kw)
    "verif_c18r.wrapped": (["a", "b"], None, ["b"]),                   # wraps_task around def wrapped(a=None, b=2, k=None)
}


def register_tasks():
    """real tasks in redun's task registry, so that expression hashing that consults the registry is exercised"""
    from redun import task
    from redun.task import wraps_task

    @task(name="cfg_named", namespace="verif_c18r", version="1", config_args=["b", "zz"])
    def cfg_named(a=None, b=2, *, k=None, zz=None):
        return [a, b, k, zz]

    @task(name="cfg_mem", namespace="verif_c18r", version="1", config_args=["memory"])
    def cfg_mem(x=None, memory=1, **kw):
        return [x, memory, kw]

    @task(name="cfg_kwonly", namespace="verif_c18r", version="1", config_args=["k"])
    def cfg_kwonly(*rest, k=1):
        return [rest, k]

    @task(name="cfg_rest", namespace="verif_c18r", version="1", config_args=["rest"])
    def cfg_rest(a=None, *rest, b=None):
        return [a, rest, b]

    @task(name="plain", namespace="verif_c18r", version="1")
    def plain(a=None, b=2, *rest, k=None, **kw):
        return [a, b, rest, k, kw]

    @wraps_task(wrapper_name="_c18w", config_args=["b"])
    def _c18w(inner_task):
        def do_wrapped(*task_args, factor=1, **task_kwargs):
            return [factor, inner_task.func(*task_args, **task_kwargs)]

        return do_wrapped

    @task(name="wrapped", namespace="verif_c18r", version="1")
    def wrapped(a=None, b=2, k=None):
        return [a, b, k]

    w = _c18w(wrapped)
    from redun.task import get_task_registry
    reg = get_task_registry()
    for name in REG:
        t = reg.get(name)
        assert t is not None and list(t.get_task_option("config_args", [])) == REG[name][2], "harness: task %s not registered as described" % name
    return w
FUNCS = ["add", "getitem", "mul", "getattr", "eq", "ne", "and", "or", "sub", "radd"]
OPTKEYS = ["cache_scope", "memory", "executor", "prov"]
# option values: a label is the int itself, except these labels which stand for None and the other falsy values
FALSY = {100: None, 101: 0, 102: "", 103: [], 104: {}, 105: False}
FALSY_NAME = {100: "none", 101: "zero", 102: "empty-str", 103: "empty-list", 104: "empty-dict", 105: "false"}
# look-alike values: equal under Python == (and hash()) but different values/types/pickles; ints 1 and 2 are the plain labels 1, 2
SPECIAL = dict(FALSY)
SPECIAL.update({106: 0.0, 107: -0.0, 109: 1.0, 110: True, 112: 2.0})
FAMILIES = [[101, 106, 107, 105], [1, 109, 110], [2, 112]]      # {0, 0.0, -0.0, False}, {1, 1.0, True}, {2, 2.0}
LOOKALIKE = [x for fam in FAMILIES for x in fam]


def family_of(label):
    for fam in FAMILIES:
        if label in fam:
            return fam
    return None


def optval(n):
    """label -> value (for option values, plain argument values and ValueExpression values)"""
    return copy.deepcopy(SPECIAL[n]) if n in SPECIAL else n


def optlabel(v):
    """value -> label, type- and sign-aware (1, True and 1.0 are three different values)"""
    for n, f in SPECIAL.items():
        if type(v) is type(f) and repr(v) == repr(f):
            return n
    return v


# containers as arguments: ("cont", kind, items); for kind "dict" the items are (key, node) pairs.  To the model a container is a
# plain value: its hash is TypeRegistry.get_hash(container) (the pickle of the container, type included), i.e. an injective leaf;
# the harness gives every distinct container (type-aware, full structure of the items) its own value label.
NT1 = collections.namedtuple("NT1", ["p"])
NT2 = collections.namedtuple("NT2", ["p", "q"])
NT3 = collections.namedtuple("NT3", ["p", "q", "r"])
NT4 = collections.namedtuple("NT4", ["p", "q", "r", "s"])
NTS = {1: NT1, 2: NT2, 3: NT3, 4: NT4}
SEQ_KINDS = ["list", "tuple", "namedtuple"]
CONT_LABELS = {}


def cont_label(n):
    key = norm(n)
    if key not in CONT_LABELS:
        CONT_LABELS[key] = 5000 + len(CONT_LABELS)
    return CONT_LABELS[key]


def gen_item(rng):
    """a small lazy expression (no export options: a set of >= 2 strings pickles in PYTHONHASHSEED order)"""
    k = rng.random()
    if k < 0.4:
        return ("task", rng.choice(["g", "h"]), (("lit", rng.randrange(1, 9)),), (), (), (), None)
    if k < 0.6:
        return ("value", rng.randrange(1, 9))
    if k < 0.8:
        return ("simple", "add", (("task", "g", (), (), (), (), None), ("lit", rng.randrange(1, 9))), ())
    return ("sched", "redun.cond", (("lit", 1), ("lit", 2), ("lit", 3)), (), (), (), None)


def gen_cont(rng, depth=1):
    kind = rng.choice(["list", "list", "tuple", "tuple", "namedtuple", "dict", "set"])
    if kind == "set":
        return ("cont", rng.choice(["set", "frozenset"]), tuple(("lit", x) for x in sorted(rng.sample(range(1, 9), rng.choice([1, 2])))))
    n = rng.choice([1, 2, 2, 3])
    items = []
    for _ in range(n):
        r = rng.random()
        if depth > 0 and r < 0.2:
            items.append(gen_cont(rng, depth - 1))
        elif r < 0.3:
            items.append(("lit", rng.randrange(1, 9)))
        else:
            items.append(gen_item(rng))
    if kind == "dict":
        return ("cont", "dict", tuple(zip(rng.sample(["k1", "k2", "k3"], n), items)))
    return ("cont", kind, tuple(items))


# ------------------------------------------------------------------ generation (plain tuples, hashable)
def gen_node(rng, depth, top=False):
    k = rng.random()
    if not top and (depth <= 0 or k < 0.35):
        return ("lit", rng.choice(LOOKALIKE) if rng.random() < 0.2 else rng.randrange(1, 40))
    if k < 0.45 and not top or (top and k < 0.08):
        return ("value", rng.choice(LOOKALIKE) if rng.random() < 0.2 else rng.randrange(1, 40))
    arg = lambda: gen_cont(rng) if rng.random() < 0.12 else gen_node(rng, depth - 1)
    args = tuple(arg() for _ in range(rng.choice([0, 1, 1, 2, 3])))
    kw = tuple((key, arg()) for key in rng.sample(["a", "b", "k", "zz"], rng.choice([0, 0, 1, 2])))
    if k < 0.62:
        return ("simple", rng.choice(FUNCS), args, kw)
    opts = tuple((key, rng.choice([100, 100, 101, 102, 103, 104, 105] + LOOKALIKE) if rng.random() < 0.4 else rng.randrange(1, 9))
                 for key in rng.sample(OPTKEYS, rng.choice([0, 0, 1, 2])))
    ex = tuple(rng.sample(OPTKEYS, rng.choice([0, 0, 0, 1, 2])))
    length = rng.choice([None, None, 2, 3])
    kind = "task" if k < 0.82 else "sched"
    name = rng.choice(sorted(REG)) if (kind == "task" and rng.random() < 0.55) else rng.choice(NAMES)
    return (kind, name, args, kw, opts, ex, length)


def sx_node(n):
    if n[0] == "cont":
        return "(lit i%d)" % cont_label(n)
    if n[0] in ("lit", "value"):
        return "(%s i%d)" % n
    if n[0] == "simple":
        _, f, args, kw = n
        return "(simple s%s (%s) (%s))" % (hx(f), " ".join(map(sx_node, args)), " ".join("(s%s %s)" % (hx(k), sx_node(v)) for k, v in kw))
    kind, name, args, kw, opts, ex, length = n
    return "(%s s%s (%s) (%s) (%s) (%s) %s)" % (
        kind, hx(name), " ".join(map(sx_node, args)), " ".join("(s%s %s)" % (hx(k), sx_node(v)) for k, v in kw),
        " ".join("(s%s i%d)" % (hx(k), v) for k, v in opts), " ".join("s" + hx(e) for e in ex),
        "N" if length is None else "i%d" % length)


class Real:
    def __init__(self, log):
        import redun.expression as E
        from redun.hashing import hash_bytes
        from redun.utils import pickle_dumps
        from redun.value import get_type_registry
        self.E, self.log = E, log
        self.reg = get_type_registry()
        self.hash_bytes, self.pickle_dumps = hash_bytes, pickle_dumps
        self.leaf_src = {}

    def leaf(self, digest, text):
        prev = self.leaf_src.setdefault(digest, text)
        if prev != text:
            raise AssertionError("two different leaves with one digest: %s / %s" % (prev, text))

    def build(self, n):
        E = self.E
        if n[0] == "lit":
            v = optval(n[1])
            self.log.leaf_value(self.reg.get_hash(v), n[1])
            self.leaf(self.reg.get_hash(v), "v%d" % n[1])
            return v
        if n[0] == "value":
            v = optval(n[1])
            self.log.leaf_value(self.reg.get_hash(v), n[1])
            self.leaf(self.reg.get_hash(v), "v%d" % n[1])
            return E.ValueExpression(v)
        if n[0] == "cont":
            _, ckind, items = n
            if ckind == "dict":
                obj = {k: self.build(v) for k, v in items}
            else:
                vals = [self.build(i) for i in items]
                obj = {"list": list, "tuple": tuple, "set": set, "frozenset": frozenset}[ckind](vals) if ckind != "namedtuple" \
                    else NTS[len(vals)](*vals)
            dg = self.reg.get_hash(obj)
            self.log.leaf_value(dg, cont_label(n))
            self.leaf(dg, "v%d" % cont_label(n))
            return obj
        if n[0] == "simple":
            _, f, args, kw = n
            return E.SimpleExpression(f, tuple(self.build(a) for a in args), {k: self.build(v) for k, v in kw})
        kind, name, args, kw, opts, ex, length = n
        d = {k: optval(v) for k, v in opts}
        dg = self.hash_bytes(self.pickle_dumps(d))
        self.log.leaf_opts(dg, list(opts))
        self.leaf(dg, "opts" + repr(list(opts)))
        cls = E.TaskExpression if kind == "task" else E.SchedulerExpression
        return cls(name, tuple(self.build(a) for a in args), {k: self.build(v) for k, v in kw},
                   task_options=d, export_options=set(ex), length=length)

    def unbuild(self, x):
        """real object -> node tuple (export options sorted: a set has no order)"""
        E = self.E
        if isinstance(x, E.SchedulerExpression) or isinstance(x, E.TaskExpression):
            kind = "sched" if isinstance(x, E.SchedulerExpression) else "task"
            return (kind, x.task_name, tuple(self.unbuild(a) for a in x.args), tuple((k, self.unbuild(v)) for k, v in x.kwargs.items()),
                    tuple((k, optlabel(v)) for k, v in x._options.items()), tuple(sorted(x._export_options)), x._length)
        if isinstance(x, E.SimpleExpression):
            return ("simple", x.func_name, tuple(self.unbuild(a) for a in x.args), tuple((k, self.unbuild(v)) for k, v in x.kwargs.items()))
        if isinstance(x, E.ValueExpression):
            return ("value", optlabel(x.value))
        if isinstance(x, tuple) and hasattr(x, "_fields"):
            return ("cont", "namedtuple", tuple(self.unbuild(i) for i in x))
        for ckind, cls in (("list", list), ("tuple", tuple)):
            if type(x) is cls:
                return ("cont", ckind, tuple(self.unbuild(i) for i in x))
        for ckind, cls in (("set", set), ("frozenset", frozenset)):
            if type(x) is cls:
                return ("cont", ckind, tuple(self.unbuild(i) for i in sorted(x)))
        if type(x) is dict and x:
            return ("cont", "dict", tuple((k, self.unbuild(v)) for k, v in x.items()))
        return ("lit", optlabel(x))


def norm(n):
    """node tuple with export options sorted (for comparing with unbuild)"""
    if n[0] in ("lit", "value"):
        return n
    if n[0] == "cont":
        return ("cont", n[1], tuple((k, norm(v)) for k, v in n[2]) if n[1] == "dict" else tuple(map(norm, n[2])))
    if n[0] == "simple":
        return ("simple", n[1], tuple(map(norm, n[2])), tuple((k, norm(v)) for k, v in n[3]))
    return (n[0], n[1], tuple(map(norm, n[2])), tuple((k, norm(v)) for k, v in n[3]), n[4], tuple(sorted(n[5])), n[6])


def ident(n):
    """what the hash may legitimately ignore removed: keyword order, export-set order, length"""
    if n[0] in ("lit", "value"):
        return n
    if n[0] == "cont":
        return norm(n)          # a container is one value: its pickle keeps every detail of its items
    if n[0] == "simple":
        return ("simple", n[1], tuple(map(ident, n[2])), tuple(sorted((k, ident(v)) for k, v in n[3])))
    return (n[0], n[1], tuple(map(ident, n[2])), tuple(sorted((k, ident(v)) for k, v in n[3])), n[4], tuple(sorted(n[5])))


def lookalike_of(rng, label):
    fam = family_of(label)
    return rng.choice([x for x in fam if x != label]) if fam else None


def cont_variants(rng, c):
    """same items, different container type / nesting: (what, cont2)"""
    _, ckind, items = c
    if ckind in SEQ_KINDS:
        yield "argument-container-type", ("cont", rng.choice([k for k in SEQ_KINDS if k != ckind]), items)
        yield "argument-container-nesting", ("cont", ckind, (("cont", ckind, items),))
        if len(items) >= 2:
            yield "argument-container-nesting", ("cont", ckind, (("cont", ckind, items[:1]),) + items[1:])
        if len(items) == 1:
            yield "argument-container-unwrapped", items[0]
        yield "argument-container-type", ("cont", "dict", tuple(("k%d" % i, v) for i, v in enumerate(items)))
    elif ckind == "dict":
        yield "argument-container-type", ("cont", "list", tuple(v for _, v in items))
        yield "argument-container-key", ("cont", "dict", ((items[0][0] + "_r", items[0][1]),) + items[1:])
    else:
        yield "argument-container-type", ("cont", "frozenset" if ckind == "set" else "set", items)
        yield "argument-container-type", ("cont", "list", items)


def arg_variants(rng, args, kw):
    """changes of the argument binding only: (what, args2, kw2); each denotes a different call"""
    for i, a in enumerate(args):
        if a[0] == "cont":
            for what, c2 in cont_variants(rng, a):
                yield what, args[:i] + (c2,) + args[i + 1:], kw
            break
    for i, (k, a) in enumerate(kw):
        if a[0] == "cont":
            for what, c2 in cont_variants(rng, a):
                yield "keyword-" + what, args, kw[:i] + ((k, c2),) + kw[i + 1:]
            break
    for i, a in enumerate(args):
        if a[0] in ("lit", "value") and family_of(a[1]):
            yield "argument-lookalike", args[:i] + ((a[0], lookalike_of(rng, a[1])),) + args[i + 1:], kw
            break
    for i, (k, a) in enumerate(kw):
        if a[0] in ("lit", "value") and family_of(a[1]):
            yield "keyword-value-lookalike", args, kw[:i] + ((k, (a[0], lookalike_of(rng, a[1]))),) + kw[i + 1:]
            break
    pairs = [(i, j) for i in range(len(args)) for j in range(i + 1, len(args)) if ident(args[i]) != ident(args[j])]
    if pairs:
        i, j = rng.choice(pairs)
        a = list(args)
        a[i], a[j] = a[j], a[i]
        yield "argument-order", tuple(a), kw
    if args:
        i = rng.randrange(len(args))
        yield "argument", args[:i] + (("lit", 777),) + args[i + 1:], kw
        yield "argument-removed", args[:i] + args[i + 1:], kw
        if "p0" not in dict(kw):
            yield "positional-to-keyword", args[:-1], kw + (("p0", args[-1]),)
    yield "argument-added", args + (("lit", 779),), kw
    if kw:
        i = rng.randrange(len(kw))
        yield "keyword-value", args, kw[:i] + ((kw[i][0], ("lit", 778)),) + kw[i + 1:]
        yield "keyword-name", args, kw[:i] + ((kw[i][0] + "_r", kw[i][1]),) + kw[i + 1:]
        yield "keyword-removed", args, kw[:i] + kw[i + 1:]
    kp = [(i, j) for i in range(len(kw)) for j in range(i + 1, len(kw)) if ident(kw[i][1]) != ident(kw[j][1])]
    if kp:
        i, j = rng.choice(kp)
        k2 = list(kw)
        k2[i], k2[j] = (kw[i][0], kw[j][1]), (kw[j][0], kw[i][1])
        yield "keyword-values-swapped", args, tuple(k2)


def config_arg_variants(rng, name, args, kw):
    """the value of a declared config argument changed / added / removed, positionally and by keyword: the eval key may
    ignore it, the expression still denotes another call"""
    pos, var, cfg = REG[name]
    kwd = dict(kw)
    for c in cfg:
        if c in pos:
            i = pos.index(c)
            if i < len(args):
                yield "config-arg-value-positional", args[:i] + (("lit", 780),) + args[i + 1:], kw
                if i == len(args) - 1:
                    yield "config-arg-removed-positional", args[:i], kw
            elif i == len(args) and c not in kwd:
                yield "config-arg-added-positional", args + (("lit", 781),), kw
        if c == var:
            n = len(pos)
            if len(args) > n:
                yield "config-arg-value-variadic", args[:n] + (("lit", 782),) + args[n + 1:], kw
                yield "config-arg-removed-variadic", args[:-1], kw
            if len(args) >= n:
                yield "config-arg-added-variadic", args + (("lit", 783),), kw
            continue
        if c in kwd:
            j = [k for k, _ in kw].index(c)
            yield "config-arg-value-keyword", args, kw[:j] + ((c, ("lit", 784)),) + kw[j + 1:]
            yield "config-arg-removed-keyword", args, kw[:j] + kw[j + 1:]
        elif c not in pos or pos.index(c) >= len(args):
            yield "config-arg-added-keyword", args, kw + ((c, ("lit", 785)),)


def variants(rng, n):
    """single-component changes: (what, node2); each denotes a different call, so all must get a different hash"""
    if n[0] == "value":
        yield "value", ("value", n[1] + 200)
        if family_of(n[1]):
            yield "value-lookalike", ("value", lookalike_of(rng, n[1]))
        return
    if n[0] == "simple":
        _, f, args, kw = n
        yield "name", ("simple", f + "_x", args, kw)
        for what, a2, k2 in arg_variants(rng, args, kw):
            yield what, ("simple", f, a2, k2)
        yield "kind", ("task", f, args, kw, (), (), None)
        return
    kind, name, args, kw, opts, ex, length = n
    yield "name", (kind, name + "_x", args, kw, opts, ex, length)
    yield "kind", ("sched" if kind == "task" else "task", name, args, kw, opts, ex, length)
    for what, a2, k2 in arg_variants(rng, args, kw):
        yield what, (kind, name, a2, k2, opts, ex, length)
    if name in REG:
        for what, a2, k2 in config_arg_variants(rng, name, args, kw):
            yield what, (kind, name, a2, k2, opts, ex, length)
    yield "options-added", (kind, name, args, kw, opts + (("zopt", 3),), ex, length)
    # a call-time option with a None / falsy value is not a no-op: it has top precedence and masks definition-time values
    free = [k for k in ("executor", "memory", "zfalsy") if k not in dict(opts)]
    yield "options-added-none", (kind, name, args, kw, opts + ((free[0], 100),), ex, length)
    lab = rng.choice([101, 102, 103, 104, 105])
    yield "options-added-" + FALSY_NAME[lab], (kind, name, args, kw, opts + ((free[-1], lab),), ex, length)
    for i, (k, v) in enumerate(opts):
        if family_of(v):
            yield "options-value-lookalike", (kind, name, args, kw, opts[:i] + ((k, lookalike_of(rng, v)),) + opts[i + 1:], ex, length)
            break
    if opts:
        if opts[0][1] != 100:
            yield "options-value-to-none", (kind, name, args, kw, ((opts[0][0], 100),) + opts[1:], ex, length)
        yield "options-value", (kind, name, args, kw, ((opts[0][0], opts[0][1] + 50),) + opts[1:], ex, length)
        yield "options-removed", (kind, name, args, kw, opts[1:], ex, length)
    yield "export-options-added", (kind, name, args, kw, opts, ex + ("zexport",), length)
    if ex:
        yield "export-options-removed", (kind, name, args, kw, opts, ex[1:], length)


def run(ctx):
    rng = ctx.rng
    register_tasks()
    log = HashLog()
    real = Real(log)
    E = real.E
    corpus = [
        # F10: catch(e, E, r) vs catch.options(cache_scope="NONE")(e, E, r)
        ("sched", "redun.catch", (("lit", 1), ("lit", 2), ("lit", 3)), (), (), (), None),
        ("sched", "redun.catch", (("lit", 1), ("lit", 2), ("lit", 3)), (), (("cache_scope", 7),), (), None),
        ("task", "f", (("task", "g", (("lit", 1),), (), (), (), None),), (("k", ("value", 2)),), (("memory", 1),), ("prov",), 2),
        ("simple", "add", (("task", "f", (), (), (), (), None), ("lit", 1)), ()),
        ("value", 5),
    ]
    # operand order: every binary lazy operator, a task call and a scheduler task with two distinguishable operands
    for f in ("add", "mul", "eq", "ne", "and", "or", "sub", "lt", "div", "radd", "getitem"):
        corpus.append(("simple", f, (("lit", 1), ("lit", 2)), ()))
        corpus.append(("simple", f, (("task", "f", (), (), (), (), None), ("value", 2)), ()))
    corpus.append(("task", "f", (("lit", 1), ("lit", 2)), (("a", ("lit", 3)), ("b", ("lit", 4))), (), (), None))
    corpus.append(("sched", "redun.cond", (("lit", 1), ("lit", 2), ("lit", 3)), (), (), (), None))
    # t(x) vs t.options(executor=None)(x), and every other falsy option value
    corpus.append(("task", "f", (("lit", 1),), (), (), (), None))
    for lab in sorted(FALSY):
        corpus.append(("task", "f", (("lit", 1),), (), (("executor", lab),), (), None))
        corpus.append(("sched", "redun.catch", (("lit", 1),), (), (("cache_scope", lab), ("memory", 2)), (), None))
    nodes = corpus + [gen_node(rng, rng.choice([1, 2, 2, 3]), top=True) for _ in range(ctx.n(300, 25000))]
    reqs, plan = [], []
    with log:
        for n in nodes:
            e = real.build(n)
            h = e.get_hash()
            pairs = []
            for what, n2 in variants(rng, n):
                e2 = real.build(n2)
                pairs.append((what, n2, e2.get_hash()))
            # ---- real pickle round trip with bookkeeping set beforehand
            e1 = real.build(n)
            ch = rng.choice([None, 5])
            ups = rng.choice([None, [1]])
            cached = rng.random() < 0.5
            if ch is not None and isinstance(e1, E.TaskExpression):
                e1.call_hash = "callhash%d" % ch
            else:
                ch = None
            if ups is not None:
                e1._upstreams = ["upstream"]
            if cached:
                e1.get_hash()
            try:
                e2 = pickle.loads(pickle.dumps(e1))
                default_ups = [] if isinstance(e2, E.ValueExpression) else [e2.args, e2.kwargs]
                rt = "ok %s %s %s %s" % (
                    sx_node(real.unbuild(e2)),
                    "N" if e2.__dict__.get("call_hash") is None else "i?",
                    "N" if (e2._upstreams == default_ups and (isinstance(e2, E.ValueExpression) or
                                                               (e2._upstreams[0] is e2.args and e2._upstreams[1] is e2.kwargs))) else "(?)",
                    "F" if e2._hash is None else "T")
                rt_hash = e2.get_hash()
            except Exception as ex:      # noqa: BLE001
                rt, rt_hash = "!" + type(ex).__name__, None
            reqs += ["hash " + sx_node(n), "hashold " + sx_node(n),
                     "rt %s %s %s %s" % (sx_node(norm(n)), "N" if ch is None else "i%d" % ch, "N" if ups is None else "(i1)", "T" if cached else "F")]
            plan.append((n, h, pairs, rt, rt_hash, (ch, ups, cached)))
        impl_pre = [log.render(p[1]) for p in plan]
        legacy = legacy_states(ctx, rng, real)
        la_nodes = lookalike_pairs(ctx, real) + container_pairs(ctx, real) + registered_task_pairs(ctx, real)
    out = ctx.model("C18", reqs + [r for r, _, _ in legacy])

    old_tree = 0
    for i, (n, h, pairs, rt, rt_hash, book) in enumerate(plan):
        mo, mo_old, mrt = out[3 * i:3 * i + 3]
        impl = impl_pre[i]
        ctx.case(key=None if n[0] == "value" else n, sample={"expr": repr(real.build(n))[:120], "node": repr(n)[:200], "pre": impl[:200]},
                 kind=n[0], nargs=len(n[2]) if len(n) > 2 else 0, nkw=len(n[3]) if len(n) > 3 else 0,
                 nopts=len(n[4]) if len(n) > 4 else "-", nexport=len(n[5]) if len(n) > 5 else "-")
        if mo != impl:
            if mo_old == impl:
                old_tree += 1
            ctx.mismatch("expression hash pre-image differs from the model" +
                         (" (the real code matches the model of the code BEFORE the proposed repair)" if mo_old == impl else ""),
                         case={"node": n}, model=mo, impl=impl)
        # ---- oracle: single-component variants must be separated
        for what, n2, h2 in pairs:
            ctx.count("variant", n[0] + ":" + what)
            if h2 == h:
                ctx.violation("C18-same-hash-different-call-%s-%s" % (what, n[0]),
                              "two %s expressions that differ in %s have the same hash" % (n[0], what),
                              case={"a": repr(real.build(n)), "b": repr(real.build(n2)), "node_a": n, "node_b": n2,
                                    "options_a": repr({k: optval(v) for k, v in n[4]}) if len(n) > 4 else None,
                                    "options_b": repr({k: optval(v) for k, v in n2[4]}) if len(n2) > 4 else None},
                              expected="different hashes", actual="equal")
        # ---- round trip: statement + model
        if mrt != rt:
            ctx.mismatch("pickle round trip differs from the model's setstate(getstate)", case={"node": n, "bookkeeping": book},
                         model=mrt, impl=rt)
        if rt.startswith("!"):
            ctx.violation("C18-roundtrip-raises", "pickle round trip of an expression raises", case={"node": n}, expected="object", actual=rt)
        else:
            want = "ok %s N N F" % sx_node(norm(n))
            if rt != want:
                ctx.violation("C18-roundtrip-not-faithful", "round trip does not preserve arguments/options or keeps per-run bookkeeping",
                              case={"node": n, "bookkeeping": book}, expected=want, actual=rt)
            if rt_hash != h:
                ctx.violation("C18-roundtrip-hash-changed", "round trip changes the expression hash", case={"node": n},
                              expected=h, actual=rt_hash)
    if old_tree:
        ctx.note("%d case(s): the real code matches the model of the code before the proposed repair "
                 "(findings_proposed/C18-scheduler-expression-options.fix.diff not applied?)" % old_tree)
    for (req, impl, info), mo in zip(legacy, out[len(reqs):]):
        if mo != impl:
            ctx.mismatch("__setstate__ of a legacy/malformed state differs from the model", case=info, model=mo, impl=impl)
    merged_under_one_parent(ctx)
    fresh_processes(ctx, la_nodes + [n for n in nodes[:60]])


# ------------------------------------------------------------------ look-alike values: 0 / 0.0 / -0.0 / False, 1 / 1.0 / True, 2 / 2.0
def lookalike_shapes(a):
    """the same call shape with the value label `a` as option value, argument, keyword argument, operand, wrapped value"""
    return [
        ("option-value", ("task", "f", (("lit", 5),), (), (("flag", a),), (), None)),
        ("option-value", ("sched", "redun.catch", (("lit", 5),), (), (("flag", a), ("memory", 3)), (), None)),
        ("option-value", ("task", "f", (), (), (("retries", a),), ("retries",), None)),
        ("argument", ("task", "f", (("lit", a),), (), (), (), None)),
        ("argument", ("sched", "redun.cond", (("lit", a), ("lit", 5), ("lit", 6)), (), (), (), None)),
        ("keyword-value", ("task", "f", (), (("k", ("lit", a)),), (), (), None)),
        ("argument", ("simple", "add", (("lit", a), ("lit", 5)), ())),
        ("argument", ("simple", "getitem", (("task", "f", (), (), (), (), None), ("lit", a)), ())),
        ("value", ("value", a)),
    ]


def lookalike_pairs(ctx, real):
    """every ordered pair of look-alike values in every position: different value (type-aware) => different hash.
    Returns the nodes (for the fresh-process comparison)."""
    nodes = []
    for fam in FAMILIES:
        for a in fam:
            nodes += [n for _, n in lookalike_shapes(a)]
            for b in fam:
                if a == b:
                    continue
                for (what, na), (_, nb) in zip(lookalike_shapes(a), lookalike_shapes(b)):
                    ea, eb = real.build(na), real.build(nb)
                    ha = ea.get_hash()          # `a` is hashed first, then `b`
                    hb = eb.get_hash()
                    ctx.case(key=("lookalike", na, nb), part="look-alike-pairs", position=what,
                             values="%r vs %r" % (optval(a), optval(b)))
                    if ha == hb:
                        ctx.violation("C18-same-hash-different-call-%s-lookalike-%s" % (what, na[0]),
                                      "two %s expressions whose %s differ only by type/sign (%r vs %r) have the same hash"
                                      % (na[0], what, optval(a), optval(b)),
                                      case={"a": repr(ea), "b": repr(eb), "node_a": na, "node_b": nb,
                                            "value_a": repr(optval(a)), "value_b": repr(optval(b)), "hashed_first": "a"},
                                      expected="different hashes", actual="equal")
    return nodes


def registered_task_pairs(ctx, real):
    """calls of REGISTERED tasks that differ only in a config argument (value / presence / positional vs keyword) or only in
    another argument: pairwise different calls => pairwise different expression hashes"""
    t = lambda name, args=(), kw=(): ("task", name, tuple(("lit", a) for a in args), tuple((k, ("lit", v)) for k, v in kw), (), (), None)
    groups = [
        ("cfg_mem", [t("verif_c18r.cfg_mem", (5,), (("memory", 1),)), t("verif_c18r.cfg_mem", (5,), (("memory", 16),)),
                     t("verif_c18r.cfg_mem", (5, 32)), t("verif_c18r.cfg_mem", (5,)), t("verif_c18r.cfg_mem", (5, 1)),
                     t("verif_c18r.cfg_mem", (6,), (("memory", 1),)), t("verif_c18r.cfg_mem", (5,), (("zz", 1),))]),
        ("cfg_named", [t("verif_c18r.cfg_named", (5,)), t("verif_c18r.cfg_named", (5, 7)), t("verif_c18r.cfg_named", (5, 8)),
                       t("verif_c18r.cfg_named", (5,), (("b", 7),)), t("verif_c18r.cfg_named", (5,), (("zz", 7),)),
                       t("verif_c18r.cfg_named", (5,), (("zz", 8),)), t("verif_c18r.cfg_named", (5,), (("k", 7),))]),
        ("cfg_kwonly", [t("verif_c18r.cfg_kwonly", (5, 6)), t("verif_c18r.cfg_kwonly", (5, 6), (("k", 1),)),
                        t("verif_c18r.cfg_kwonly", (5, 6), (("k", 2),)), t("verif_c18r.cfg_kwonly", (5, 7))]),
        ("cfg_rest", [t("verif_c18r.cfg_rest", (5,)), t("verif_c18r.cfg_rest", (5, 6)), t("verif_c18r.cfg_rest", (5, 7)),
                      t("verif_c18r.cfg_rest", (5, 6, 7)), t("verif_c18r.cfg_rest", (5,), (("b", 6),))]),
        ("wrapped", [t("verif_c18r.wrapped", (5,)), t("verif_c18r.wrapped", (5, 7)), t("verif_c18r.wrapped", (5,), (("b", 7),)),
                     t("verif_c18r.wrapped", (5,), (("b", 8),)), t("verif_c18r.wrapped", (5,), (("factor", 2),)),
                     t("verif_c18r.wrapped", (5,), (("factor", 3),))]),
        ("plain", [t("verif_c18r.plain", (5,)), t("verif_c18r.plain", (5, 7)), t("verif_c18r.plain", (5,), (("b", 7),)),
                   t("verif_c18r.plain", (5,), (("k", 7),))]),
    ]
    nodes = []
    for gname, group in groups:
        nodes += group
        built = [(n, real.build(n)) for n in group]
        hashes = [e.get_hash() for _, e in built]
        for i in range(len(group)):
            for j in range(i + 1, len(group)):
                ctx.case(key=("registered", gname, i, j), part="registered-task-pairs", task=gname)
                if hashes[i] == hashes[j]:
                    ctx.violation("C18-same-hash-different-call-config-arg-registered-" + gname,
                                  "two calls of the registered task %s with different arguments (a config argument's value, presence or "
                                  "position, or another argument) have the same expression hash" % gname,
                                  case={"a": repr(built[i][1]), "b": repr(built[j][1]), "node_a": group[i], "node_b": group[j],
                                        "config_args": REG["verif_c18r." + gname][2]},
                                  expected="different hashes", actual="equal")
    return nodes


def container_shapes(a, b):
    """the same two lazy expressions in different containers / nestings"""
    return [("list", ("cont", "list", (a, b))), ("tuple", ("cont", "tuple", (a, b))), ("namedtuple", ("cont", "namedtuple", (a, b))),
            ("nested-list", ("cont", "list", (("cont", "list", (a, b)),))), ("list-of-tuple", ("cont", "list", (("cont", "tuple", (a, b)),))),
            ("mixed-nesting", ("cont", "list", (a, ("cont", "list", (b,))))), ("dict", ("cont", "dict", (("k0", a), ("k1", b)))),
            ("tuple-of-lists", ("cont", "tuple", (("cont", "list", (a,)), ("cont", "list", (b,)))))]


def container_pairs(ctx, real):
    """every ordered pair of containers of the same lazy expressions, as positional and keyword argument of every expression kind:
    a different container type / nesting is a different argument, hence a different call => different hash."""
    a = ("task", "g", (("lit", 1),), (), (), (), None)
    b = ("value", 2)
    hosts = [
        ("task", lambda c: ("task", "f", (c,), (), (), (), None)), ("task-keyword", lambda c: ("task", "f", (), (("xs", c),), (), (), None)),
        ("sched", lambda c: ("sched", "redun.seq", (c,), (), (), (), None)), ("sched-keyword", lambda c: ("sched", "redun.seq", (), (("xs", c),), (), (), None)),
        ("simple", lambda c: ("simple", "getitem", (c, ("lit", 3)), ())), ("simple-keyword", lambda c: ("simple", "call", (), (("xs", c),))),
    ]
    nodes = []
    shapes = container_shapes(a, b)
    for hname, host in hosts:
        for sa, ca in shapes:
            na = host(ca)
            nodes.append(na)
            for sb, cb in shapes[[x for x, _ in shapes].index(sa) + 1:]:
                nb = host(cb)
                ea, eb = real.build(na), real.build(nb)
                ha = ea.get_hash()
                hb = eb.get_hash()
                ctx.case(key=("container", hname, sa, sb), part="container-pairs", host=hname, containers="%s vs %s" % (sa, sb))
                if ha == hb:
                    ctx.violation("C18-same-hash-different-call-argument-container-type-" + hname,
                                  "two %s expressions whose argument holds the same lazy expressions in a %s and in a %s have the same hash"
                                  % (hname, sa, sb),
                                  case={"a": safe_repr(ea), "b": safe_repr(eb), "node_a": na, "node_b": nb, "container_a": sa, "container_b": sb},
                                  expected="different hashes", actual="equal")
    return nodes


def safe_repr(e):
    try:
        return repr(e)
    except Exception:       # noqa: BLE001  (SimpleExpression('call', ...) reprs assume a fixed argument shape)
        return object.__repr__(e)


def worker():
    """fresh process: read a JSON list of nodes, build and hash them in that order, print the hashes"""
    import json
    import sys
    register_tasks()
    real = Real(HashLog())
    nodes = [_tuplify(n) for n in json.load(sys.stdin)]
    print(json.dumps([real.build(n).get_hash() for n in nodes]))


def fresh_processes(ctx, nodes):
    """The hash is a function of the expression alone: hash the same expressions in two fresh interpreters, in forward
    and in reverse order, and in this process; different calls must differ in each, one call must agree in all."""
    import json
    import os
    import subprocess
    import sys
    from core import REPO, VERIF
    seen, uniq = set(), []
    for n in nodes:
        if n[0] != "lit" and ident(n) not in seen:
            seen.add(ident(n))
            uniq.append(n)
    real = Real(HashLog())
    # build from a JSON copy, exactly as the workers do: pickle memoizes by object identity, so a container whose items share
    # a string object pickles differently from one with equal but distinct strings (that is C16's subject, not C18's)
    here = [real.build(_tuplify(json.loads(json.dumps(n)))).get_hash() for n in uniq]
    code = "import sys; sys.path[:0] = [%r, %r]; from props.C18 import worker; worker()" % (os.path.join(VERIF, "harness"), REPO)
    runs = {"this-process": here}
    procs = {}
    for order in ("forward", "reverse"):        # two fresh interpreters, started together
        seq = uniq if order == "forward" else uniq[::-1]
        procs[order] = subprocess.Popen([sys.executable, "-c", code], stdin=subprocess.PIPE, stdout=subprocess.PIPE,
                                        stderr=subprocess.PIPE, text=True)
        procs[order].stdin.write(json.dumps(seq))
        procs[order].stdin.close()
    for order, pr in procs.items():
        out = pr.stdout.read()
        err = pr.stderr.read()
        if pr.wait(timeout=300) != 0:
            raise RuntimeError("C18 worker failed: " + err[-800:])
        hs = json.loads(out.strip().split("\n")[-1])
        runs["fresh-" + order] = hs if order == "forward" else hs[::-1]
    ctx.case(key=("fresh-processes", len(uniq)), part="fresh-processes", expressions=len(uniq))
    for name, hs in runs.items():
        byhash = {}
        for n, h in zip(uniq, hs):
            if h in byhash and ident(byhash[h]) != ident(n):
                ctx.violation("C18-same-hash-different-call-in-" + name,
                              "two different calls have the same hash (expressions hashed in %s order)" % name,
                              case={"node_a": byhash[h], "node_b": n, "a": repr(real.build(byhash[h])), "b": repr(real.build(n)),
                                    "process": name}, expected="different hashes", actual="equal")
            byhash.setdefault(h, n)
    for i, n in enumerate(uniq):
        hs = {name: runs[name][i] for name in runs}
        if len(set(hs.values())) > 1:
            ctx.violation("C18-hash-depends-on-hashing-history",
                          "the hash of one expression differs between processes that hashed other expressions before it "
                          "(an expression pickled here and loaded elsewhere changes its hash)",
                          case={"node": n, "expr": repr(real.build(n))}, expected="one hash", actual=repr(hs))


# ------------------------------------------------------------------ scheduler level: equal hashes are merged under one parent job
def merged_under_one_parent(ctx):
    """Both operand orders of non-commutative computations evaluated under ONE parent job (where expressions with equal
    hashes share one evaluation), compared with plain Python evaluation of the same operations."""
    import logging
    import operator
    from redun import Scheduler, task
    logging.getLogger("redun").setLevel(logging.ERROR)

    @task(name="c18_ident", namespace="verif_c18", version="1")
    def c18_ident(x):
        return x

    @task(name="c18_pair", namespace="verif_c18", version="1")
    def c18_pair(x, y, k=None):
        return [x, y, k]

    scenarios = [
        ("add-str", "ab", "cd", operator.add), ("add-list", [1], [2, 3], operator.add), ("add-tuple", (1,), (2,), operator.add),
        ("and-str", "ab", "cd", operator.and_), ("or-str", "ab", "cd", operator.or_), ("or-falsy", "", "cd", operator.or_),
        ("sub-int", 7, 2, operator.sub), ("mul-str-int", "ab", 3, operator.mul), ("eq", 1, 2, operator.eq), ("lt", 1, 2, operator.lt),
    ]
    py = {operator.and_: lambda a, b: a and b, operator.or_: lambda a, b: a or b}
    for what, va, vb, op in scenarios:
        @task(name="c18_main", namespace="verif_c18", version=what)
        def c18_main():
            a, b = c18_ident(va), c18_ident(vb)
            return [op(a, b), op(b, a), c18_pair(a, b), c18_pair(b, a), c18_pair(a, a, k=b), c18_pair(a, a, k=a)]

        f = py.get(op, op)
        try:
            expect = [f(va, vb), f(vb, va), [va, vb, None], [vb, va, None], [va, va, vb], [va, va, va]]
        except TypeError:
            continue
        try:
            got = Scheduler().run(c18_main())
        except Exception as e:      # noqa: BLE001  (e.g. int * str orders that Python itself rejects are filtered above)
            got = "!" + type(e).__name__
        ctx.case(key=("one-parent", what), part="merged-under-one-parent", scenario=what)
        if got != expect:
            ctx.violation("C18-same-hash-different-call-merged-" + what.split("-")[0],
                          "two different calls evaluated under one parent job were merged: the result differs from plain Python evaluation",
                          case={"scenario": what, "a": repr(va), "b": repr(vb),
                                "program": "[a op b, b op a, pair(a, b), pair(b, a), pair(a, a, k=b), pair(a, a, k=a)] with a=ident(%r), b=ident(%r)" % (va, vb)},
                          expected=repr(expect), actual=repr(got), kind="input")

    # calls of a registered task that differ only in a config argument: the eval key ignores it, the expression must not
    @task(name="c18_submit", namespace="verif_c18", version="1", config_args=["memory"], cache_scope="NONE")
    def c18_submit(sample, memory=1):
        return "s%s:mem=%s" % (sample, memory)

    @task(name="c18_cfg_main", namespace="verif_c18", version="1")
    def c18_cfg_main():
        return [c18_submit(1, memory=1), c18_submit(1, memory=16), c18_submit(1, 32)]

    expect = ["s1:mem=1", "s1:mem=16", "s1:mem=32"]
    try:
        got = Scheduler().run(c18_cfg_main())
    except Exception as e:      # noqa: BLE001
        got = "!" + type(e).__name__
    ctx.case(key=("one-parent", "config-args"), part="merged-under-one-parent", scenario="config-args")
    if got != expect:
        ctx.violation("C18-same-hash-different-call-merged-config-args",
                      "calls of a task (config_args=['memory'], cache_scope='NONE') that differ in the config argument, evaluated under one "
                      "parent job, were merged: the result differs from plain Python evaluation",
                      case={"scenario": "config-args", "program": "[submit(1, memory=1), submit(1, memory=16), submit(1, 32)]"},
                      expected=repr(expect), actual=repr(got), kind="input")

    # the same lazy expressions passed in a list, a tuple, a namedtuple, nested, as dict values: different arguments
    @task(name="c18_show", namespace="verif_c18", version="1")
    def c18_show(xs=None, k=None):
        x = xs if xs is not None else k
        return "%s:%r" % (type(x).__name__, x)

    @task(name="c18_containers", namespace="verif_c18", version="1")
    def c18_containers():
        a, b = c18_ident(1), c18_ident(2)
        return [c18_show([a, b]), c18_show((a, b)), c18_show(NT2(a, b)), c18_show([[a, b]]), c18_show([a, [b]]),
                c18_show({"p": a, "q": b}), c18_show(k=[a, b]), c18_show(k=(a, b))]

    expect = ["list:[1, 2]", "tuple:(1, 2)", "NT2:NT2(p=1, q=2)", "list:[[1, 2]]", "list:[1, [2]]", "dict:{'p': 1, 'q': 2}",
              "list:[1, 2]", "tuple:(1, 2)"]
    try:
        got = Scheduler().run(c18_containers())
    except Exception as e:      # noqa: BLE001
        got = "!" + type(e).__name__
    ctx.case(key=("one-parent", "containers"), part="merged-under-one-parent", scenario="containers")
    if got != expect:
        ctx.violation("C18-same-hash-different-call-merged-containers",
                      "calls whose argument holds the same lazy expressions in different containers, evaluated under one parent job, "
                      "were merged: the result differs from plain Python evaluation",
                      case={"scenario": "containers", "program": "[show([a, b]), show((a, b)), show(NT2(a, b)), show([[a, b]]), show([a, [b]]), "
                            "show({'p': a, 'q': b}), show(k=[a, b]), show(k=(a, b))] with a=ident(1), b=ident(2)"},
                      expected=repr(expect), actual=repr(got), kind="input")


def legacy_states(ctx, rng, real):
    """__setstate__ on state dicts with optional keys removed (old pickles) or mandatory keys removed"""
    E = real.E
    out = []
    # the keys of the real state dicts are the keys of the model's getstate
    model_keys = dict(zip(["task", "sched", "simple", "value"],
                          ctx.model("C18", ["statekeys " + k for k in ("task", "sched", "simple", "value")])))
    for n in [("task", "f", (), (), (), (), None), ("sched", "f", (), (), (), (), None), ("simple", "add", (), ()), ("value", 1)]:
        keys = sorted(k for k in real.build(n).__getstate__() if k != "value_type")
        ctx.case(key=("statekeys", n[0]), part="state-keys")
        if keys != sorted(model_keys[n[0]].split()):
            ctx.mismatch("__getstate__ keys differ from the model", case={"kind": n[0]}, model=sorted(model_keys[n[0]].split()), impl=keys)
    for i in range(ctx.n(60, 3000)):
        n = gen_node(rng, 2, top=True)
        if n[0] == "value":
            continue
        e = real.build(n)
        state = e.__getstate__()
        optional = ["task_options", "export_options", "length"]
        mandatory = ["task_name", "args", "kwargs"] if n[0] != "simple" else ["func_name", "args", "kwargs"]
        drop = [k for k in optional if k in state and rng.random() < 0.5]
        if rng.random() < 0.25:
            drop.append(rng.choice(mandatory))
        st = {k: v for k, v in state.items() if k not in drop}
        cls = type(e)
        obj = cls.__new__(cls)
        try:
            obj.__setstate__(copy.deepcopy(st))
            default_ups = [obj.args, obj.kwargs]
            impl = "ok %s %s %s %s" % (sx_node(real.unbuild(obj)), "N" if obj.__dict__.get("call_hash") is None else "i?",
                                       "N" if obj._upstreams == default_ups else "(?)", "F" if obj._hash is None else "T")
        except Exception as ex:      # noqa: BLE001
            impl = "!" + type(ex).__name__
        items = []
        nn = norm(n)
        fields = {"task_name": lambda: "s" + hx(nn[1]), "func_name": lambda: "s" + hx(nn[1]),
                  "args": lambda: "(" + " ".join(map(sx_node, nn[2])) + ")",
                  "kwargs": lambda: "(" + " ".join("(s%s %s)" % (hx(k), sx_node(v)) for k, v in nn[3]) + ")",
                  "task_options": lambda: "(" + " ".join("(s%s i%d)" % (hx(k), v) for k, v in nn[4]) + ")",
                  "export_options": lambda: "(" + " ".join("s" + hx(x) for x in nn[5]) + ")",
                  "length": lambda: "N" if nn[6] is None else "i%d" % nn[6]}
        for k in st:
            if k in fields:
                items.append("(%s %s)" % (k, fields[k]()))
        out.append(("set %s (state %s)" % (n[0], " ".join(items)), impl, {"node": n, "dropped": drop}))
        ctx.case(key=("legacy", n, tuple(drop)), part="legacy-state", dropped=",".join(sorted(drop)) or "-")
    return out


def _tuplify(x):
    return tuple(_tuplify(e) for e in x) if isinstance(x, list) else x


def replay(ctx, case):
    """re-run exactly the recorded pair of expressions on the implementation (and the model)"""
    c = case.get("case")
    if isinstance(c, dict) and "scenario" in c:
        print("replay: scheduler-level scenario", c["scenario"], "-", c.get("program"))
        return merged_under_one_parent(ctx)
    if not isinstance(c, dict) or "node_a" not in c:
        print("replay: no single pair recorded (correspondence/proof break or a round-trip case); running the whole check")
        return run(ctx)
    a, b = _tuplify(c["node_a"]), _tuplify(c["node_b"])
    register_tasks()
    log = HashLog()
    real = Real(log)
    with log:
        ea, eb = real.build(a), real.build(b)
        ha, hb = ea.get_hash(), eb.get_hash()
        ra, rb = log.render(ha), log.render(hb)
    ma, mb = ctx.model("C18", ["hash " + sx_node(a), "hash " + sx_node(b)])
    print("a:", a, "\n  real hash", ha, "\n  real pre-image ", ra, "\n  model pre-image", ma)
    print("b:", b, "\n  real hash", hb, "\n  real pre-image ", rb, "\n  model pre-image", mb)
    ctx.case(key=("replay", repr(c)[:200]), part="replay")
    if ra != ma or rb != mb:
        ctx.mismatch("expression hash pre-image differs from the model", case=c, model=[ma, mb], impl=[ra, rb])
    if ha == hb:
        ctx.violation(case.get("signature", "C18-same-hash"), case.get("what", "same hash"), case=c,
                      expected="different hashes", actual="equal")
