"""C08 — resource limits are never exceeded.  Model: lean/RedunModel/Model/SchedCore.lean."""
import json
import random

import sched_corr as sc

ID = "C08"
READY = True
LEAN_MODULES = ["RedunModel.Props.C08"]
LEAN_DRIVERS = ["Sched"]
THEOREMS = [
    "RedunModel.C08.used_eq_held",
    "RedunModel.C08.inflight_holds",
    "RedunModel.C08.never_exceeded",
    "RedunModel.C08.holders_within_limit",
    "RedunModel.C08.cached_hold_nothing",
    "RedunModel.C08.holder_is_live",
    "RedunModel.C08.all_released_at_quiescence",
    "RedunModel.C08.dryrun_consumes_nothing",
    "RedunModel.C08.run_reachable",
    "RedunModel.SchedCore.reachable_inv",
]
TRUSTED = [
    "modelled, not verified: the scheduler runs every event callback to completion on one thread (true by construction of "
    "_process_events); task arguments and options of the generated programs are plain values, so a child job's _exec_job event is "
    "queued at creation; executors only call done_job/reject_job",
    "SchedCore abstracts values, hashes and the database to job keys / flags; the correspondence compares limits_used, the "
    "waiting list, the in-flight set and the event queue after EVERY event of a controlled run (harness/ctl_sched.py, sched_corr.py)",
]
ASSUMPTIONS = ["programs are finite job trees whose task functions return lists of child calls or raise; no catch/cond forms "
               "(those are C01's), no handles"]
RULE = ("random job-tree programs (list/dict limits, shared and disjoint resources, failing tasks, duplicate calls, opted-out calls, "
        "unknown executors, contexts) x controlled schedules (every events_queue.get() is a decision point: pop the head or let any "
        "in-flight job report), exhaustive DFS over schedules for the corpus programs; each run is compared event by event with the "
        "Lean model and checked by the oracle (units held by in-flight jobs <= limit after every event, limits_used never negative, "
        "all zero at the end of a completed run). distinct = distinct (program, schedule); non-trivial = at least one job with a "
        "limit and at least two jobs")
LEVEL_TEXT = ("Lean 4 proof that in every reachable state of the scheduler-bookkeeping model (all programs, all schedules, by induction "
              "over the transition relation) limits_used equals the sum of demands of the holding jobs, in-flight jobs are holders, "
              "the sum never exceeds the limit, cached/collapsed jobs hold nothing and everything is released at quiescence; the model "
              "is tied to the code by step-by-step trace comparison on controlled schedules and the property oracle on the real scheduler.")
LEVEL_NOTE = ("full strength for the modelled program class (job trees, no scheduler forms); real threads/executors are replaced by the "
              "controlled executor, so races inside executors are outside the claim; mirrors /repo after fix 4630cd5 (release once)")
TECHNIQUE = "Lean 4 invariant proof over a transition system + trace correspondence with the real scheduler under controlled schedules"

CORPUS = [
    # (defs, limits_cfg): F6 double release: limited parent whose child fails
    ([(False, [dict(callee=1), dict(callee=3), dict(callee=3, limits=["r0"])], None),
      (False, [dict(callee=2)], ["r0"]), (True, [], ["r0"]), (False, [], ["r0"])], {"r0": 1}),
    # lost wake-up (C09) shape, also a good limits workout
    ([(False, [dict(callee=1), dict(callee=2, limits=["r0"]), dict(callee=3), dict(callee=2)], None),
      (False, [], ["r0"]), (False, [], None), (False, [], ["r0"])], {"r0": 1}),
    ([(False, [dict(callee=1), dict(callee=1), dict(callee=1, limits={"r0": 2})], None), (False, [], ["r0", "r1"])], {"r0": 2}),
    ([(False, [dict(callee=1, executor="nope"), dict(callee=1)], None), (False, [], ["r0"])], {"r0": 1}),
    # different amounts of one resource: a job holding everything, a small and a big job waiting in either order
    ([(False, [dict(callee=1), dict(callee=2), dict(callee=3)], None), (False, [], {"r0": 2}), (False, [], {"r0": 1}), (False, [], {"r0": 2})],
     {"r0": 2}),
    ([(False, [dict(callee=1), dict(callee=3), dict(callee=2), dict(callee=2, scope="NONE")], None), (False, [], {"r0": 3}), (False, [], {"r0": 1}),
      (False, [], {"r0": 2})], {"r0": 3}),
    # limited duplicates: twins collapse / are served by CSE while the resource is contended
    ([(False, [dict(callee=1), dict(callee=1), dict(callee=2), dict(callee=1)], None), (False, [], ["r0"]), (False, [dict(callee=1)], ["r0"])],
     {"r0": 1}),
]


def mk_prog(defs, cfg):
    return sc.Program([sc.Defn(f, [sc.Site(**s) for s in sites], lim) for (f, sites, lim) in defs], dict(cfg))


def declared(ctl, p, job):
    v = ctl.remember(job)
    return p.specs[v]["limits"] if 0 <= v < len(p.specs) else job.get_limits()


def oracle_hook(ctx, p, viol):
    def after(ctl):
        s = ctl.scheduler
        for name in sc.RES:
            lim = p.limits_cfg.get(name, 1)
            # demands come from the program (what the task declared), not from the scheduler's own Job.get_limits()
            held = sum(declared(ctl, p, j).get(name, 0) for j in ctl.inflight)
            used = s.limits_used.get(name, 0)
            if held > lim:
                viol.append(("C08-inflight-exceeds-limit", "units held by in-flight jobs exceed the limit",
                             dict(resource=name, held=held, limit=lim)))
            if used < 0:
                viol.append(("C08-limits-used-negative", "limits_used went negative (over-release)",
                             dict(resource=name, used=used)))
            if used < held:
                viol.append(("C08-used-below-held", "limits_used is smaller than the units held by in-flight jobs (under-count)",
                             dict(resource=name, used=used, held=held)))
        # "jobs served from the cache or by deduplication hold no units" (the scheduler's own flag for a job that holds units)
        for j in ctl.all_jobs:
            if getattr(j, "holds_limits", False) and j.get_limits():
                collapsed = bool(getattr(j, "_verif_collapsed", False))
                if j.was_cached or collapsed:
                    viol.append(("C08-cached-or-deduplicated-job-holds-units",
                                 "a job served from the cache or collapsed into a twin holds resource units",
                                 dict(job=ctl.remember(j), cached=bool(j.was_cached), collapsed=collapsed, limits=dict(j.get_limits()),
                                      limits_used=dict(s.limits_used))))
                    break
    return after


def one_run(ctx, p, decisions=None, rng=None, items=None, tag="random"):
    viol = []
    st, payload, ctl, sched = sc.run_real(p, decisions=decisions, rng=rng, after_event=oracle_hook(ctx, p, viol))
    nontrivial = len(p.specs) >= 2 and any(sp["limits"] for sp in p.specs)
    key = (json.dumps(p.to_json(), sort_keys=True), tuple(ctl.choice_log)) if nontrivial else None
    ctx.case(key=key, sample={"program": p.to_json(), "choices": " ".join(ctl.choice_log), "status": st},
             status=st, jobs=len(p.specs), kind=tag, feasible=sc.feasible(p))
    case = {"program": p.to_json(), "choices": ctl.choice_log, "status": st}
    for sig, what, detail in viol[:3]:
        ctx.violation(sig, what, case=case, expected="within limit", actual=detail, kind="schedule")
    if st == "ok":
        left = {k: v for k, v in sched.limits_used.items() if v != 0}
        if left:
            ctx.violation("C08-units-not-returned", "limits_used is not zero at the end of a completed run", case=case,
                          expected={}, actual=left, kind="schedule")
    items.append((p, ctl, False, None, case))
    return ctl


def one_run_p(ctx, p, rng, items, p_complete, tag):
    """like one_run with a chosen probability of letting a job report while events are still queued"""
    viol = []
    st, payload, ctl, sched = sc.run_real(p, rng=rng, after_event=oracle_hook(ctx, p, viol), p_complete=p_complete)
    nontrivial = len(p.specs) >= 2 and any(sp["limits"] for sp in p.specs)
    key = (json.dumps(p.to_json(), sort_keys=True), tuple(ctl.choice_log)) if nontrivial else None
    ctx.case(key=key, sample={"program": p.to_json(), "choices": " ".join(ctl.choice_log), "status": st},
             status=st, jobs=len(p.specs), kind=tag, feasible=sc.feasible(p))
    case = {"program": p.to_json(), "choices": ctl.choice_log, "status": st}
    for sig, what, detail in viol[:3]:
        ctx.violation(sig, what, case=case, expected="within limit", actual=detail, kind="schedule")
    if st == "ok":
        left = {k: v for k, v in sched.limits_used.items() if v != 0}
        if left:
            ctx.violation("C08-units-not-returned", "limits_used is not zero at the end of a completed run", case=case,
                          expected={}, actual=left, kind="schedule")
    items.append((p, ctl, False, None, case))
    return ctl


def flush(ctx, items):
    res = sc.compare_batch(ctx, [(p, ctl, dr, pre) for (p, ctl, dr, pre, _) in items])  # request built now
    for (p, ctl, dr, pre, case), d in zip(items, res):
        if d:
            ctx.mismatch("scheduler trace differs from SchedCore at event %d" % d[0],
                         case=dict(case, upto=d[3]), model=d[1], impl=d[2])
    items.clear()


def run(ctx):
    rng = ctx.rng
    items = []
    # corpus: exhaustive schedule enumeration (bounded)
    for defs, cfg in CORPUS:
        p = mk_prog(defs, cfg)
        for _ in sc.enumerate_schedules(lambda d: one_run(ctx, p, decisions=d, items=items, tag="corpus-exhaustive"),
                                        ctx.n(28, 400)):
            pass
        flush(ctx, items)
    # generated programs, sampled schedules
    for i in range(ctx.n(40, 700)):
        wide = i % 3 == 2
        p = sc.gen_wide(rng) if wide else sc.gen_program(rng)
        for k in range(3 if wide else 2):
            one_run_p(ctx, p, random.Random(rng.random()), items, 0.55 if wide else 0.3, "wide" if wide else "random")
        if len(items) >= 50:
            flush(ctx, items)
    flush(ctx, items)


def replay(ctx, case):
    c = case["case"]
    print("replay:", json.dumps(c)[:400])
    run(ctx)
